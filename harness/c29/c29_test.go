// Package c29 decides property C29: "In a cluster of any size, a cache purge on
// one node causes every active peer to discard that cache, each at least once,
// and the total number of flush messages is bounded by the number of peers; a
// node never re-broadcasts a flush it received."
//
// What runs: ONE real node — the in-process `ego server` router (srvfix, hook
// H1) on a SQLite system database, put into cluster mode with hook H6
// (cluster.VerifJoin) — and 1..5 STUB peers: loopback HTTP servers of the
// harness that are written into the shared `cluster` table
// (cluster.VerifAddMember) as active / removed / inactive members, or as
// members of another cluster. Stubs record every request they receive and
// answer 200, 500, or 200 after a small delay. A further stub listens on the
// address the real node registered for ITSELF.
//
// The cluster property is decided through per-node obligations whose
// conjunction gives it (every node runs this code):
//
//	O1 a purge that originates on the node (caches.Purge, or DELETE
//	   /admin/caches?class=…) discards the cache locally and sends exactly one
//	   flush {cache_id, sender_id = this node, hops = 1} with the cluster token to
//	   each ACTIVE peer of its cluster (>= 1 each: completeness, also when an
//	   earlier peer answered 500 or slowly; <= peers in total: bound), none to
//	   removed / inactive peers, to members of another cluster, or to itself;
//	O2 an inbound POST /services/cluster/flush with the cluster token and a hop
//	   count within the limit discards that cache locally (entries added before
//	   are gone, other caches untouched) and sends NOTHING (never re-broadcasts);
//	O3 an inbound flush beyond the hop limit, with missing / wrong credentials, or
//	   with an unreadable body purges nothing and sends nothing.
//
// With O1–O3 on every node, a purge on node A reaches each active peer once
// (O1), each peer discards (O2) and the traffic stops there (O2: nothing is
// sent), so the total is the number of peers. Limits: the peers are stubs, so
// this composition is an argument, not an observation of N real nodes; delays
// and error answers are produced at the stub, not by a network.
//
// Determinism. caches.Purge dispatches the broadcast with `go OnPurge(id)`.
// The harness wraps the hook the cluster package installed in caches.OnPurge
// (count started / finished, call the original) and, after each operation,
// takes a runtime.Stack snapshot of all goroutines: a goroutine created by
// caches.purge or executing / created by the cluster package is a broadcast in
// flight and is waited for. A goroutine that was created exists in the snapshot
// until it exits, and the wrapper counts it before it exits, so "no broadcast
// was started by this operation" and "all broadcasts of this operation are
// complete" are decided without a settle window. Stubs record a request before
// they answer and SendCacheFlush returns after the answer, so when a broadcast
// is complete all its messages are recorded. Waiting is bounded (120 s); if
// the bound expires the case is Inconclusive and the next case starts only
// after quiescence. A 20 ms settle at the end of each case additionally looks
// for stragglers from paths the snapshot does not recognise; it is one-sided
// (a message seen is a real message; none seen proves nothing more).
//
// Preconditions taken from real callers: peers are rows of the cluster table
// with host/port/scheme as Initialize writes them; inbound flush bodies are
// what SendCacheFlush produces (cache_id, sender_id, hops; older builds omit
// hops); the hop limit is the documented maxFlushHops = 4 (invalidate.go).
package c29

import (
	"crypto/hmac"
	"crypto/sha256"
	"encoding/hex"
	"encoding/json"
	"fmt"
	"io"
	"net"
	"net/http"
	"net/http/httptest"
	"runtime"
	"sort"
	"strconv"
	"strings"
	"sync"
	"sync/atomic"
	"testing"
	"time"

	"github.com/tucats/ego/internal/caches"
	"github.com/tucats/ego/internal/cli/settings"
	"github.com/tucats/ego/internal/defs"
	"github.com/tucats/ego/internal/server/cluster"
	"github.com/tucats/ego/verif/srvfix"
	"github.com/tucats/ego/verif/vkit"
	"pgregory.net/rapid"
)

// ---------------------------------------------------------------- case data

// Peer is one stub member of the cluster table.
type Peer struct {
	State  string `json:"state"`  // active | removed | inactive | othercluster
	Behave string `json:"behave"` // ok | err500 | delay
}

// Op is one step of a history.
type Op struct {
	Kind string `json:"kind"` // purge | admin | inbound | setstate | setbehave
	// purge, inbound: the cache class
	Cache int `json:"cache,omitempty"`
	// admin: the class names of DELETE /admin/caches?class=…
	Classes []string `json:"classes,omitempty"`
	// inbound
	Hops     int    `json:"hops,omitempty"`
	OmitHops bool   `json:"omit_hops,omitempty"`
	Auth     string `json:"auth,omitempty"`   // valid | none | wrong | truncated | othercluster | usertoken | basic
	Sender   string `json:"sender,omitempty"` // peer | self | unknown
	Body     string `json:"body,omitempty"`   // json | malformed | empty
	// setstate / setbehave
	Peer   int    `json:"peer,omitempty"`
	State  string `json:"state,omitempty"`
	Behave string `json:"behave,omitempty"`
}

// Case is a cluster configuration and a history.
type Case struct {
	Peers []Peer `json:"peers"`
	Ops   []Op   `json:"ops"`
}

const (
	clusterName = "c29-cluster"
	selfNodeID  = "c29-self-node"
	hopLimit    = 4 // maxFlushHops, documented in cluster/invalidate.go
	originHops  = 1
	sentinelKey = "c29-sentinel"
	maxPeers    = 5
	waitBound   = 120 * time.Second
)

// universe: the cache classes that carry a sentinel entry. 0..5 and 8 are real
// classes (DSN, Auth, User, Token, Blacklist, Schema, WebAuthn challenge); 42
// and 100000 are classes ego does not define ("unknown cache ids").
var universe = []int{0, 1, 2, 3, 4, 5, 8, 42, 100000}

// adminClass maps the class names of the admin endpoint to cache ids (nil: the
// name is accepted but purges no cache class of the caches package, or is not
// recognised at all).
var adminClass = map[string][]int{
	"users": {2}, "user": {2}, "dsns": {0}, "dsn": {0}, "tokens": {3}, "token": {3}, "TOKENS": {3},
	"permissions": {1}, "authorization": {1}, "blacklist": {4}, "schemas": {5}, "schema": {5},
	"services": nil, "assets": nil, "bogus": nil,
}

var adminNames = func() []string {
	ks := make([]string, 0, len(adminClass))
	for k := range adminClass {
		ks = append(ks, k)
	}
	sort.Strings(ks)
	return ks
}()

func genCase(t *rapid.T) Case {
	var c Case
	np := rapid.SampledFrom([]int{1, 2, 2, 3, 3, 4, 5}).Draw(t, "npeers")
	for i := 0; i < np; i++ {
		c.Peers = append(c.Peers, Peer{
			State:  rapid.SampledFrom([]string{"active", "active", "active", "active", "removed", "inactive", "othercluster"}).Draw(t, "state"),
			Behave: rapid.SampledFrom([]string{"ok", "ok", "ok", "err500", "delay"}).Draw(t, "behave"),
		})
	}
	nops := rapid.IntRange(1, 8).Draw(t, "nops")
	for i := 0; i < nops; i++ {
		var o Op
		o.Kind = rapid.SampledFrom([]string{"purge", "purge", "purge", "admin", "inbound", "inbound", "inbound", "setstate", "setbehave"}).Draw(t, "kind")
		switch o.Kind {
		case "purge":
			o.Cache = rapid.SampledFrom(universe).Draw(t, "cache")
		case "admin":
			n := rapid.IntRange(1, 3).Draw(t, "nclasses")
			for j := 0; j < n; j++ {
				o.Classes = append(o.Classes, rapid.SampledFrom(adminNames).Draw(t, "class"))
			}
		case "inbound":
			o.Cache = rapid.SampledFrom(universe).Draw(t, "cache")
			o.Hops = rapid.SampledFrom([]int{0, 1, 1, 1, 2, 3, 4, 4, 5, 5, 6}).Draw(t, "hops")
			o.OmitHops = rapid.IntRange(0, 9).Draw(t, "omit") == 0
			o.Auth = rapid.SampledFrom([]string{"valid", "valid", "valid", "valid", "none", "wrong", "truncated", "othercluster", "usertoken", "basic"}).Draw(t, "auth")
			o.Sender = rapid.SampledFrom([]string{"peer", "peer", "self", "unknown"}).Draw(t, "sender")
			o.Body = rapid.SampledFrom([]string{"json", "json", "json", "json", "json", "json", "malformed", "empty"}).Draw(t, "body")
		case "setstate":
			o.Peer = rapid.IntRange(0, np-1).Draw(t, "peer")
			o.State = rapid.SampledFrom([]string{"active", "active", "removed", "inactive"}).Draw(t, "newstate")
		case "setbehave":
			o.Peer = rapid.IntRange(0, np-1).Draw(t, "peer")
			o.Behave = rapid.SampledFrom([]string{"ok", "err500", "delay"}).Draw(t, "newbehave")
		}
		c.Ops = append(c.Ops, o)
	}
	return c
}

// ---------------------------------------------------------------- stubs

type message struct {
	Method string
	Path   string
	Auth   string
	Body   string
	Flush  defs.ClusterFlushRequest
	BadJS  bool
}

type stub struct {
	srv    *httptest.Server
	port   int
	mu     sync.Mutex
	msgs   []message
	behave atomic.Value // string
}

func newStub() *stub {
	t0 := time.Now()
	defer func() { tStub.Add(int64(time.Since(t0))) }()
	s := &stub{}
	s.behave.Store("ok")
	s.srv = httptest.NewServer(http.HandlerFunc(func(w http.ResponseWriter, r *http.Request) {
		b, _ := io.ReadAll(r.Body)
		m := message{Method: r.Method, Path: r.URL.Path, Auth: r.Header.Get("Authorization"), Body: string(b)}
		if err := json.Unmarshal(b, &m.Flush); err != nil {
			m.BadJS = true
		}
		// record BEFORE answering: when the sender's call returns, the
		// message is on record
		s.mu.Lock()
		s.msgs = append(s.msgs, m)
		s.mu.Unlock()
		switch s.behave.Load().(string) {
		case "err500":
			http.Error(w, `{"status":500,"msg":"stub failure"}`, http.StatusInternalServerError)
		case "delay":
			time.Sleep(15 * time.Millisecond)
			fallthrough
		default:
			w.Header().Set("Content-Type", "application/json")
			_, _ = w.Write([]byte(`{"status":200}`))
		}
	}))
	_, p, _ := net.SplitHostPort(s.srv.Listener.Addr().String())
	s.port, _ = strconv.Atoi(p)
	return s
}

func (s *stub) take() []message {
	s.mu.Lock()
	defer s.mu.Unlock()
	m := s.msgs
	s.msgs = nil
	return m
}

// ---------------------------------------------------------------- fixture

var (
	fx        *srvfix.Fixture
	adminTok  string
	selfStub  *stub
	validAuth string
	started   atomic.Int64 // broadcasts (OnPurge invocations) started
	finished  atomic.Int64
	wake      = make(chan struct{}, 1)
	setupErrs atomic.Int64
	firstErr  atomic.Value
	caseSeq   int
)

func tokenFor(name string) string {
	mac := hmac.New(sha256.New, []byte(settings.Get(defs.ServerTokenKeySetting)))
	mac.Write([]byte("cluster:" + name))
	return "cluster-" + hex.EncodeToString(mac.Sum(nil))
}

func startFixture(t *testing.T) {
	f, err := srvfix.Start(srvfix.Options{UserStore: "sqlite"})
	if err != nil {
		t.Fatalf("srvfix: %v", err)
	}
	fx = f
	if adminTok, err = f.AdminToken(); err != nil {
		t.Fatalf("admin token: %v", err)
	}
	selfStub = newStub()
	if err := cluster.VerifJoin(clusterName, selfNodeID, "127.0.0.1", selfStub.port, "http"); err != nil {
		t.Fatalf("VerifJoin: %v", err)
	}
	// the token as a peer computes it (auth.go: HMAC-SHA256 of "cluster:<name>"
	// under ego.server.token.key), independently of the sending code
	validAuth = "Bearer " + tokenFor(clusterName)
	if got := cluster.ClusterAuthHeader(); got != validAuth {
		t.Fatalf("harness token model disagrees with cluster.ClusterAuthHeader: %q vs %q", validAuth, got)
	}
	if settings.Get(defs.ServerTokenKeySetting) == "" {
		t.Logf("note: ego.server.token.key is empty in this fixture")
	}
	orig := caches.OnPurge
	if orig == nil {
		t.Fatalf("VerifJoin did not install caches.OnPurge")
	}
	caches.OnPurge = func(id int) {
		started.Add(1)
		defer func() {
			finished.Add(1)
			select {
			case wake <- struct{}{}:
			default:
			}
		}()
		orig(id)
	}
	// unused peer slots exist as removed rows that point nowhere
	for i := 0; i < maxPeers; i++ {
		_ = upsert(i, "removed", 1)
	}
}

func peerID(i int) string { return fmt.Sprintf("c29-peer-%d", i) }

var tUpsert, tQuiesce, tStub, tDo atomic.Int64

func upsert(i int, state string, port int) error {
	t0 := time.Now()
	defer func() { tUpsert.Add(int64(time.Since(t0))) }()
	name := clusterName
	if state == "othercluster" {
		name, state = "c29-another-cluster", "active"
	}
	// joined_at orders the broadcast (ListMembers ORDER BY joined_at)
	ts := fmt.Sprintf("2026-01-01T00:00:%02dZ", i)
	return cluster.VerifAddMember(defs.ClusterMember{Name: name, NodeID: peerID(i), Host: "127.0.0.1", Port: port,
		Scheme: "http", JoinedAt: ts, LastSeen: ts, State: state})
}

// ---------------------------------------------------------------- quiescence

// inFlight counts goroutines that are (part of) a broadcast: created by
// caches.purge (`go OnPurge(id)`), or running / created by code of the cluster
// package.
func inFlight() int {
	buf := make([]byte, 1<<18)
	for {
		n := runtime.Stack(buf, true)
		if n < len(buf) {
			buf = buf[:n]
			break
		}
		buf = make([]byte, 2*len(buf))
	}
	cnt := 0
	for _, g := range strings.Split(string(buf), "\n\n") {
		if strings.Contains(g, "created by github.com/tucats/ego/internal/caches.purge") ||
			strings.Contains(g, "github.com/tucats/ego/internal/server/cluster.") {
			// the goroutine taking this snapshot may itself be inside a
			// cluster handler only through fx.Do, which has returned by now
			cnt++
		}
	}
	return cnt
}

// quiesce waits until no broadcast is in flight. It returns false when the
// bound expires (load): no verdict may be based on the state then.
func quiesce() bool {
	t0 := time.Now()
	defer func() { tQuiesce.Add(int64(time.Since(t0))) }()
	deadline := time.Now().Add(waitBound)
	for {
		pending := inFlight()
		if pending == 0 && started.Load() == finished.Load() {
			return true
		}
		if time.Now().After(deadline) {
			return false
		}
		select {
		case <-wake:
		case <-time.After(5 * time.Millisecond):
		}
	}
}

// ---------------------------------------------------------------- oracle

type world struct {
	c      Case
	stubs  []*stub
	states []string
}

// fill puts a sentinel entry into every cache class of the universe. The
// lifetime of those classes is set to a day first (the default is 60 s), so
// that a stalled process cannot make a sentinel expire between fill and the
// look-up and be mistaken for a purge.
func fill() {
	for _, id := range universe {
		_ = caches.SetExpiration(id, "24h")
		caches.Add(id, sentinelKey, "v")
	}
}

func present(id int) bool {
	_, ok := caches.Find(id, sentinelKey)
	return ok
}

// localEffect checks which sentinels are gone: exactly those in want.
func localEffect(want map[int]bool) (missing, collateral []int) {
	for _, id := range universe {
		p := present(id)
		if want[id] && p {
			missing = append(missing, id)
		}
		if !want[id] && !p {
			collateral = append(collateral, id)
		}
	}
	return
}

func (w *world) collect() (perPeer [][]message, self []message) {
	for _, s := range w.stubs {
		perPeer = append(perPeer, s.take())
	}
	return perPeer, selfStub.take()
}

func fmtMsgs(ms []message) string {
	var sb strings.Builder
	for _, m := range ms {
		fmt.Fprintf(&sb, "{%s %s cache=%d sender=%s hops=%d} ", m.Method, m.Path, m.Flush.CacheID, m.Flush.SenderID, m.Flush.Hops)
	}
	return sb.String()
}

// nothingSent: O2/O3 and every non-purging operation.
func (w *world) nothingSent(what string, newBroadcasts int64) *vkit.Failure {
	per, self := w.collect()
	total := len(self)
	var sb strings.Builder
	for i, ms := range per {
		total += len(ms)
		if len(ms) > 0 {
			fmt.Fprintf(&sb, "peer %d (%s): %s", i, w.states[i], fmtMsgs(ms))
		}
	}
	if len(self) > 0 {
		fmt.Fprintf(&sb, "self: %s", fmtMsgs(self))
	}
	if total > 0 || newBroadcasts > 0 {
		return &vkit.Failure{Sig: what + ": re-broadcast",
			Observed: fmt.Sprintf("%d broadcast(s) started, %d message(s) sent: %s", newBroadcasts, total, sb.String()),
			Expected: "no flush message to anyone"}
	}
	return nil
}

// checkBroadcast: O1 for the multiset of purged cache ids.
func (w *world) checkBroadcast(purged []int, newBroadcasts int64, how string) *vkit.Failure {
	per, self := w.collect()
	if len(self) > 0 {
		return &vkit.Failure{Sig: "local purge: flush sent to the node itself", Observed: fmtMsgs(self), Expected: "a node does not notify itself"}
	}
	if newBroadcasts != int64(len(purged)) {
		return &vkit.Failure{Sig: fmt.Sprintf("local purge (%s): broadcast hook invoked a wrong number of times", how),
			Observed: fmt.Sprintf("%d purges, %d OnPurge invocations", len(purged), newBroadcasts), Expected: "one broadcast per purge that originates here"}
	}
	want := map[int]int{}
	for _, id := range purged {
		want[id]++
	}
	for i, ms := range per {
		st := w.states[i]
		if st != "active" {
			if len(ms) > 0 {
				return &vkit.Failure{Sig: "local purge: flush sent to a non-active member state=" + st,
					Observed: fmt.Sprintf("peer %d (%s) received %s", i, st, fmtMsgs(ms)), Expected: "only active peers of this cluster are notified"}
			}
			continue
		}
		got := map[int]int{}
		for _, m := range ms {
			if m.Method != http.MethodPost || m.Path != "/services/cluster/flush" || m.BadJS {
				return &vkit.Failure{Sig: "local purge: malformed flush request", Observed: fmt.Sprintf("peer %d received %s %s body %q", i, m.Method, m.Path, m.Body), Expected: "POST /services/cluster/flush with a JSON ClusterFlushRequest"}
			}
			if m.Flush.Hops != originHops {
				return &vkit.Failure{Sig: "local purge: hop count is not the origin count", Observed: fmt.Sprintf("peer %d received hops=%d", i, m.Flush.Hops), Expected: "hops=1"}
			}
			if m.Flush.SenderID != selfNodeID {
				return &vkit.Failure{Sig: "local purge: wrong sender id", Observed: fmt.Sprintf("sender_id=%q", m.Flush.SenderID), Expected: selfNodeID}
			}
			if m.Auth != validAuth {
				return &vkit.Failure{Sig: "local purge: flush carries a token the peer rejects", Observed: fmt.Sprintf("Authorization=%q", m.Auth), Expected: "the cluster HMAC token"}
			}
			got[m.Flush.CacheID]++
		}
		ids := map[int]bool{}
		for id := range want {
			ids[id] = true
		}
		for id := range got {
			ids[id] = true
		}
		keys := make([]int, 0, len(ids))
		for id := range ids {
			keys = append(keys, id)
		}
		sort.Ints(keys)
		for _, id := range keys {
			switch {
			case got[id] < want[id]:
				return &vkit.Failure{Sig: "local purge: active peer not notified" + w.afterWhat(i),
					Observed: fmt.Sprintf("peer %d (active) received %d flush(es) for cache %d, want %d; all it received: %s; peers: %s", i, got[id], id, want[id], fmtMsgs(ms), w.describePeers()),
					Expected: "at least one flush per purge to every active peer"}
			case got[id] > want[id]:
				return &vkit.Failure{Sig: "local purge: more flushes than purges to one peer",
					Observed: fmt.Sprintf("peer %d received %d flush(es) for cache %d, want %d: %s", i, got[id], id, want[id], fmtMsgs(ms)),
					Expected: "total messages bounded by the number of peers (one per peer and purge)"}
			}
		}
	}
	return nil
}

// afterWhat names the behaviour of the active peers that come earlier in the
// broadcast order (root-cause hint: abort after a failing peer).
func (w *world) afterWhat(i int) string {
	hint := ""
	for j := 0; j < i; j++ {
		if w.states[j] == "active" {
			switch w.stubs[j].behave.Load().(string) {
			case "err500":
				return " after an earlier peer answered err500"
			case "delay":
				hint = " after an earlier peer answered slowly"
			}
		}
	}
	return hint
}

func (w *world) describePeers() string {
	var sb strings.Builder
	for i := range w.stubs {
		fmt.Fprintf(&sb, "[%d %s %s] ", i, w.states[i], w.stubs[i].behave.Load())
	}
	return sb.String()
}

func (w *world) active() int {
	n := 0
	for _, s := range w.states {
		if s == "active" {
			n++
		}
	}
	return n
}

func inboundRequest(o Op, w *world) srvfix.Request {
	sender := "c29-unknown-node"
	switch o.Sender {
	case "self":
		sender = selfNodeID
	case "peer":
		sender = peerID(0)
	}
	body := ""
	switch o.Body {
	case "malformed":
		body = fmt.Sprintf(`{"cache_id": %d, "sender_id": "%s", "hops": `, o.Cache, sender)
	case "empty":
		body = ""
	default:
		if o.OmitHops {
			body = fmt.Sprintf(`{"cache_id":%d,"sender_id":%q}`, o.Cache, sender)
		} else {
			body = fmt.Sprintf(`{"cache_id":%d,"sender_id":%q,"hops":%d}`, o.Cache, sender, o.Hops)
		}
	}
	h := map[string]string{"Content-Type": "application/json"}
	switch o.Auth {
	case "valid":
		h["Authorization"] = validAuth
	case "wrong":
		t := tokenFor(clusterName)
		last := byte('0')
		if t[len(t)-1] == '0' {
			last = '1'
		}
		h["Authorization"] = "Bearer " + t[:len(t)-1] + string(last)
	case "truncated":
		h["Authorization"] = validAuth[:len(validAuth)-1]
	case "othercluster":
		h["Authorization"] = "Bearer " + tokenFor("c29-another-cluster")
	case "usertoken":
		h["Authorization"] = "Bearer " + adminTok
	case "basic":
		h["Authorization"] = srvfix.Basic(fx.Opts.AdminUser, fx.Opts.AdminPassword)
	}
	return srvfix.Request{Method: "POST", Path: "/services/cluster/flush", Header: h, Body: body}
}

func oracle(c Case) vkit.Outcome {
	var out vkit.Outcome
	if len(c.Peers) < 1 || len(c.Peers) > maxPeers || len(c.Ops) == 0 {
		out.Skip = "malformed case"
		return out
	}
	caseSeq++
	// never start on top of an unfinished broadcast of an earlier case
	if !quiesce() {
		out.Inconclusive = "no quiescence before the case (bounded wait expired)"
		return out
	}
	selfStub.take()
	w := &world{c: c}
	defer func() {
		for i, s := range w.stubs {
			_ = upsert(i, "removed", 1)
			s.srv.Close()
		}
		http.DefaultTransport.(*http.Transport).CloseIdleConnections()
	}()
	for i, p := range c.Peers {
		s := newStub()
		s.behave.Store(p.Behave)
		w.stubs = append(w.stubs, s)
		w.states = append(w.states, p.State)
		if err := upsert(i, p.State, s.port); err != nil {
			setupErrs.Add(1)
			firstErr.CompareAndSwap(nil, err.Error())
			out.Skip = "setup failed"
			return out
		}
	}
	out.Labels = append(out.Labels, fmt.Sprintf("peers=%d", len(c.Peers)))
	sawInbound, sawMultiPurge := false, false

	for oi, o := range c.Ops {
		fill()
		s0 := started.Load()
		var f *vkit.Failure
		switch o.Kind {
		case "purge", "admin":
			var purged []int
			how := "caches.Purge"
			if o.Kind == "purge" {
				caches.Purge(o.Cache)
				purged = []int{o.Cache}
			} else {
				how = "DELETE /admin/caches"
				for _, cl := range o.Classes {
					purged = append(purged, adminClass[cl]...)
				}
				r := fx.Do(srvfix.Request{Method: "DELETE", Path: "/admin/caches?class=" + strings.Join(o.Classes, ","),
				// Basic credentials: a bearer token costs an Argon2 key derivation per request in the router
				Header: map[string]string{"Authorization": srvfix.Basic(fx.Opts.AdminUser, fx.Opts.AdminPassword)}})
				if r.Status != 200 || r.Panic != nil {
					setupErrs.Add(1)
					firstErr.CompareAndSwap(nil, fmt.Sprintf("admin purge: status %d panic %v: %.200s", r.Status, r.Panic, r.Body))
					out.Skip = "setup failed"
					return out
				}
			}
			// local effect is synchronous
			want := map[int]bool{}
			for _, id := range purged {
				want[id] = true
			}
			// the admin request itself may re-populate the caches it used to
			// authenticate (token, permissions): only the sentinel counts
			missing, collateral := localEffect(want)
			if !quiesce() {
				out.Inconclusive = "broadcast not complete within the bounded wait"
				return out
			}
			na := w.active()
			out.Labels = append(out.Labels, fmt.Sprintf("%s with %d active peer(s)", o.Kind, na))
			if na >= 2 && len(purged) > 0 {
				sawMultiPurge = true
				for i := range w.stubs {
					if w.states[i] == "active" && w.afterWhat(i) != "" {
						out.Labels = append(out.Labels, "purge: an active peer follows a failing/slow active peer")
						break
					}
				}
			}
			if len(missing) > 0 {
				f = &vkit.Failure{Sig: "local purge: cache not discarded locally", Observed: fmt.Sprintf("%s: entries of cache(s) %v still present", how, missing), Expected: "purged caches are empty"}
			} else if len(collateral) > 0 {
				f = &vkit.Failure{Sig: "local purge: another cache was discarded", Observed: fmt.Sprintf("%s %v also emptied cache(s) %v", how, purged, collateral), Expected: "only the named caches"}
			} else {
				f = w.checkBroadcast(purged, started.Load()-s0, how)
			}
		case "inbound":
			sawInbound = true
			rq := inboundRequest(o, w)
			r := fx.Do(rq)
			hops := o.Hops
			if o.OmitHops {
				hops = 0
			}
			accept := o.Auth == "valid" && o.Body == "json" && hops <= hopLimit
			class := "accepted"
			switch {
			case o.Auth != "valid":
				class = "refused auth=" + o.Auth
			case o.Body != "json":
				class = "refused body=" + o.Body
			case hops > hopLimit:
				class = "beyond hop limit"
			}
			out.Labels = append(out.Labels, "inbound "+class, fmt.Sprintf("inbound hops=%d", hops), fmt.Sprintf("inbound status=%d", r.Status))
			if o.Sender == "self" {
				out.Labels = append(out.Labels, "inbound sender=self")
			}
			if r.Panic != nil {
				f = &vkit.Failure{Sig: "inbound flush: handler panic", Observed: fmt.Sprintf("%v\n%s", r.Panic, r.Stack), Expected: "a response"}
				break
			}
			want := map[int]bool{}
			if accept {
				want[o.Cache] = true
			}
			missing, collateral := localEffect(want)
			if !quiesce() {
				out.Inconclusive = "re-broadcast in flight not complete within the bounded wait"
				return out
			}
			switch {
			case len(missing) > 0:
				f = &vkit.Failure{Sig: fmt.Sprintf("inbound flush accepted (hops=%d): cache not discarded", hops),
					Observed: fmt.Sprintf("status %d; cache %d still holds the entry added before the flush", r.Status, o.Cache), Expected: "the peer discards that cache"}
			case len(collateral) > 0 && !accept:
				f = &vkit.Failure{Sig: "inbound flush " + class + ": cache discarded",
					Observed: fmt.Sprintf("status %d; cache(s) %v emptied", r.Status, collateral), Expected: "nothing is purged"}
			case len(collateral) > 0:
				f = &vkit.Failure{Sig: "inbound flush accepted: another cache was discarded",
					Observed: fmt.Sprintf("flush for %d emptied %v", o.Cache, collateral), Expected: "only the named cache"}
			default:
				f = w.nothingSent("inbound flush "+class, started.Load()-s0)
			}
		case "setstate":
			if o.Peer < len(w.stubs) {
				w.states[o.Peer] = o.State
				if err := upsert(o.Peer, o.State, w.stubs[o.Peer].port); err != nil {
					setupErrs.Add(1)
					firstErr.CompareAndSwap(nil, err.Error())
					out.Skip = "setup failed"
					return out
				}
				out.Labels = append(out.Labels, "setstate "+o.State)
			}
			f = w.nothingSent("membership change", started.Load()-s0)
		case "setbehave":
			if o.Peer < len(w.stubs) {
				w.stubs[o.Peer].behave.Store(o.Behave)
			}
		default:
			out.Skip = "malformed case"
			return out
		}
		if f != nil {
			f.Observed = fmt.Sprintf("op %d %s: %s", oi, o.Kind, f.Observed)
			out.Fail = f
			out.NonTrivial = sawInbound || sawMultiPurge
			return out
		}
	}
	// one-sided straggler look-out (see the package comment)
	time.Sleep(20 * time.Millisecond)
	if !quiesce() {
		out.Inconclusive = "no quiescence at the end of the case"
		return out
	}
	if f := w.nothingSent("after the history", 0); f != nil {
		out.Fail = f
	}
	out.NonTrivial = sawInbound || sawMultiPurge
	return out
}

func fixedCases() []Case {
	act := func(b string) Peer { return Peer{State: "active", Behave: b} }
	return []Case{
		{Peers: []Peer{act("ok"), act("ok")}, Ops: []Op{{Kind: "purge", Cache: 2}}},
		{Peers: []Peer{act("err500"), act("delay"), act("ok"), {State: "removed", Behave: "ok"}, {State: "othercluster", Behave: "ok"}},
			Ops: []Op{{Kind: "purge", Cache: 0}, {Kind: "admin", Classes: []string{"users", "dsns", "users"}}, {Kind: "purge", Cache: 100000}}},
		{Peers: []Peer{act("ok"), act("ok"), act("ok")}, Ops: []Op{
			{Kind: "inbound", Cache: 2, Hops: 1, Auth: "valid", Sender: "peer", Body: "json"},
			{Kind: "inbound", Cache: 2, Hops: 4, Auth: "valid", Sender: "self", Body: "json"},
			{Kind: "inbound", Cache: 3, Hops: 5, Auth: "valid", Sender: "peer", Body: "json"},
			{Kind: "inbound", Cache: 3, Hops: 1, Auth: "wrong", Sender: "peer", Body: "json"},
			{Kind: "inbound", Cache: 3, Hops: 1, Auth: "none", Sender: "peer", Body: "json"},
			{Kind: "inbound", Cache: 42, Hops: 0, OmitHops: true, Auth: "valid", Sender: "unknown", Body: "json"},
			{Kind: "inbound", Cache: 1, Hops: 1, Auth: "valid", Sender: "peer", Body: "malformed"},
		}},
		{Peers: []Peer{act("ok"), act("ok")}, Ops: []Op{
			{Kind: "purge", Cache: 5}, {Kind: "setstate", Peer: 0, State: "removed"}, {Kind: "purge", Cache: 5},
			{Kind: "setstate", Peer: 0, State: "active"}, {Kind: "setbehave", Peer: 0, Behave: "err500"}, {Kind: "purge", Cache: 4}}},
	}
}

func TestC29(t *testing.T) {
	startFixture(t)
	vkit.Run(t, vkit.Spec[Case]{
		ID:    "C29",
		Level: "exploration",
		Rule: "one real in-process node in cluster mode plus 1..5 stub peers (loopback HTTP servers in the cluster table: active/removed/inactive/other cluster; answering 200, 500 or slowly) and a stub on the node's own address; " +
			"histories of 1..8 operations: local purges (caches.Purge of real and undefined cache classes, DELETE /admin/caches?class=…), inbound POST /services/cluster/flush (hops 0..6 or omitted; valid/missing/wrong/truncated/other-cluster/user token/Basic credentials; sender peer/self/unknown; JSON, malformed or empty body), membership changes and stub behaviour changes. " +
			"Non-trivial: a local purge with >= 2 active peers, or an inbound flush; distinct by the whole case.",
		Assumptions: []string{
			"peers are stubs: the cluster-wide property is the conjunction of the per-node obligations O1-O3 (package comment), not an observation of N real nodes",
			"hop limit 4 (maxFlushHops) and origin hop count 1 as documented in cluster/invalidate.go",
			"broadcast completion is decided from the wrapped caches.OnPurge hook and runtime.Stack snapshots, not from a time window; the only window is a 20 ms one-sided straggler look-out at the end of a case",
			"bounded waits (120 s) that expire make the case inconclusive",
		},
		Gen:      genCase,
		Oracle:   oracle,
		Fixed:    fixedCases,
		Quick:    150,
		Thorough: 1500,
		Extra: func() map[string]any {
			return map[string]any{"setup_errors": int(setupErrs.Load()),
				"time_s_membership_writes": time.Duration(tUpsert.Load()).Seconds(), "time_s_waiting_for_broadcasts": time.Duration(tQuiesce.Load()).Seconds(),
				"time_s_stub_start": time.Duration(tStub.Load()).Seconds()}
		},
	})
	if n := setupErrs.Load(); n > 0 {
		fmt.Printf("HARNESS-ERROR property=C29 %d cases failed in set-up; first: %v\n", n, firstErr.Load())
		t.Errorf("harness error: %d set-up failures; first: %v", n, firstErr.Load())
	}
}
