module github.com/tucats/ego/verif

go 1.26.1

require (
	github.com/tucats/ego v0.0.0
	pgregory.net/rapid v1.3.0
)

require (
	github.com/DmitriyVTitov/size v1.5.0
	github.com/araddon/dateparse v0.0.0-20210429162001-6b43995a97de
	github.com/brandenc40/romannumeral v1.1.5
	github.com/chzyer/readline v1.5.1
	github.com/go-webauthn/webauthn v0.16.4
	github.com/golang-jwt/jwt/v5 v5.3.1
	github.com/gomarkdown/markdown v0.0.0-20260411013819-759bbc3e3207
	github.com/google/uuid v1.6.0
	github.com/lib/pq v1.10.9
	github.com/shirou/gopsutil/v4 v4.26.7
	github.com/stretchr/testify v1.11.1
	github.com/tucats/jaxon v0.2.0
	github.com/tucats/subs v1.0.0
	github.com/tucats/termgen v0.1.0
	github.com/tucats/validator v0.1.11
	golang.org/x/crypto v0.52.0
	golang.org/x/term v0.43.0
	gopkg.in/resty.v1 v1.12.0
	modernc.org/sqlite v1.50.1
)

require (
	github.com/davecgh/go-spew v1.1.1 // indirect
	github.com/dustin/go-humanize v1.0.1 // indirect
	github.com/ebitengine/purego v0.10.2 // indirect
	github.com/fxamacker/cbor/v2 v2.9.1 // indirect
	github.com/go-ole/go-ole v1.2.6 // indirect
	github.com/go-viper/mapstructure/v2 v2.5.0 // indirect
	github.com/go-webauthn/x v0.2.3 // indirect
	github.com/google/go-tpm v0.9.8 // indirect
	github.com/lufia/plan9stats v0.0.0-20211012122336-39d0f177ccd0 // indirect
	github.com/mattn/go-isatty v0.0.20 // indirect
	github.com/ncruces/go-strftime v1.0.0 // indirect
	github.com/philhofer/fwd v1.2.0 // indirect
	github.com/pmezard/go-difflib v1.0.0 // indirect
	github.com/power-devops/perfstat v0.0.0-20240221224432-82ca36839d55 // indirect
	github.com/remyoudompheng/bigfft v0.0.0-20230129092748-24d4a6f8daec // indirect
	github.com/tinylib/msgp v1.6.3 // indirect
	github.com/tklauser/go-sysconf v0.3.16 // indirect
	github.com/tklauser/numcpus v0.11.0 // indirect
	github.com/x448/float16 v0.8.4 // indirect
	github.com/yusufpapurcu/wmi v1.2.4 // indirect
	golang.org/x/net v0.55.0 // indirect
	golang.org/x/sys v0.45.0 // indirect
	gopkg.in/yaml.v3 v3.0.1 // indirect
	modernc.org/libc v1.72.3 // indirect
	modernc.org/mathutil v1.7.1 // indirect
	modernc.org/memory v1.11.0 // indirect
)

replace github.com/tucats/ego => /repo
