package c32

// The server's real route table.
//
// "real": the router that `ego server run` builds — commands.VerifServerRouter
// (hook H1, through srvfix: static routes of routes.go and tables/routes.go,
// the lib/services @endpoint routes, the native admin, WebAuthn and cluster
// routes, the redirects of lib/redirects.json), listed with
// (*router.Router).VerifRoutes (hook H2). The static part is cross-checked
// against commands.VerifStaticRoutes().
//
// "real+oauth": the same plus the OAuth authorization-server and
// resource-server routes. Those are only registered when an issuer / provider
// is configured (key files, discovery document), which one process-wide
// fixture cannot be switched into, so their (method, pattern) pairs are
// mirrored with go/parser from the `r.New(pattern, handler, method)` calls in
// authserver.go and rshandlers/routes.go. Extraction is all-or-nothing: a call
// whose pattern or method is not a constant aborts the check (harness error).

import (
	"fmt"
	"go/ast"
	"go/parser"
	"go/token"
	"os"
	"path/filepath"
	"sort"
	"strconv"
	"strings"
	"sync"

	"github.com/tucats/ego/internal/commands"
	"github.com/tucats/ego/internal/router"
	"github.com/tucats/ego/verif/srvfix"
)

const modPath = "github.com/tucats/ego"

func repoRoot() string {
	if r := os.Getenv("VERIF_REPO"); r != "" {
		return r
	}
	return "/repo"
}

var httpMethods = map[string]string{
	"MethodGet": "GET", "MethodHead": "HEAD", "MethodPost": "POST", "MethodPut": "PUT",
	"MethodPatch": "PATCH", "MethodDelete": "DELETE", "MethodOptions": "OPTIONS",
}

type constPkg struct {
	consts map[string]ast.Expr
}

type extractor struct {
	root string
	fset *token.FileSet
	pkgs map[string]*constPkg
}

func (x *extractor) pkg(dir string) *constPkg {
	if p, ok := x.pkgs[dir]; ok {
		return p
	}
	p := &constPkg{consts: map[string]ast.Expr{}}
	x.pkgs[dir] = p
	ents, err := os.ReadDir(dir)
	if err != nil {
		panic(fmt.Sprintf("c32: read %s: %v", dir, err))
	}
	for _, e := range ents {
		n := e.Name()
		if e.IsDir() || !strings.HasSuffix(n, ".go") || strings.HasSuffix(n, "_test.go") {
			continue
		}
		f, err := parser.ParseFile(x.fset, filepath.Join(dir, n), nil, parser.SkipObjectResolution)
		if err != nil {
			panic(fmt.Sprintf("c32: parse %s: %v", n, err))
		}
		for _, d := range f.Decls {
			gd, ok := d.(*ast.GenDecl)
			if !ok || gd.Tok != token.CONST {
				continue
			}
			for _, sp := range gd.Specs {
				vs := sp.(*ast.ValueSpec)
				for i, name := range vs.Names {
					if i < len(vs.Values) {
						p.consts[name.Name] = vs.Values[i]
					}
				}
			}
		}
	}
	return p
}

func (x *extractor) str(dir string, imports map[string]string, e ast.Expr, depth int) (string, bool) {
	if depth > 16 {
		return "", false
	}
	switch v := e.(type) {
	case *ast.BasicLit:
		if v.Kind == token.STRING {
			s, err := strconv.Unquote(v.Value)
			return s, err == nil
		}
	case *ast.ParenExpr:
		return x.str(dir, imports, v.X, depth+1)
	case *ast.BinaryExpr:
		if v.Op == token.ADD {
			a, ok1 := x.str(dir, imports, v.X, depth+1)
			b, ok2 := x.str(dir, imports, v.Y, depth+1)
			return a + b, ok1 && ok2
		}
	case *ast.Ident:
		if ce, ok := x.pkg(dir).consts[v.Name]; ok {
			return x.str(dir, nil, ce, depth+1)
		}
	case *ast.SelectorExpr:
		id, ok := v.X.(*ast.Ident)
		if !ok || imports == nil {
			return "", false
		}
		ip := imports[id.Name]
		if ip == "net/http" {
			m, ok := httpMethods[v.Sel.Name]
			return m, ok
		}
		if strings.HasPrefix(ip, modPath+"/") {
			d := filepath.Join(x.root, strings.TrimPrefix(ip, modPath+"/"))
			if ce, ok := x.pkg(d).consts[v.Sel.Name]; ok {
				return x.str(d, nil, ce, depth+1)
			}
		}
	}
	return "", false
}

// routesOfFile returns the (method, pattern) of every `<ident>.New(a, b, c)`
// call in the file, in source order.
func (x *extractor) routesOfFile(rel string) []R {
	path := filepath.Join(x.root, rel)
	f, err := parser.ParseFile(x.fset, path, nil, parser.SkipObjectResolution)
	if err != nil {
		panic(fmt.Sprintf("c32: parse %s: %v", path, err))
	}
	imports := map[string]string{}
	for _, is := range f.Imports {
		ip, _ := strconv.Unquote(is.Path.Value)
		name := ip[strings.LastIndex(ip, "/")+1:]
		if is.Name != nil {
			name = is.Name.Name
		}
		imports[name] = ip
	}
	dir := filepath.Dir(path)
	var out []R
	ast.Inspect(f, func(n ast.Node) bool {
		call, ok := n.(*ast.CallExpr)
		if !ok || len(call.Args) != 3 {
			return true
		}
		sel, ok := call.Fun.(*ast.SelectorExpr)
		if !ok || sel.Sel.Name != "New" {
			return true
		}
		if id, ok := sel.X.(*ast.Ident); !ok || id.Name != "r" {
			return true
		}
		p, ok1 := x.str(dir, imports, call.Args[0], 0)
		m, ok2 := x.str(dir, imports, call.Args[2], 0)
		if !ok1 || !ok2 {
			panic(fmt.Sprintf("c32: %s: cannot evaluate route registration at %s as constants", rel, x.fset.Position(call.Pos())))
		}
		out = append(out, R{M: normMethod(m), P: p})
		return true
	})
	if len(out) == 0 {
		panic(fmt.Sprintf("c32: no route registrations found in %s", rel))
	}
	return out
}

func normMethod(m string) string {
	if m == "" || m == "*" {
		return "ANY"
	}
	return strings.ToUpper(m)
}

// oauthRoutes returns the mirrored OAuth route registrations.
func oauthRoutes() []R {
	x := &extractor{root: repoRoot(), fset: token.NewFileSet(), pkgs: map[string]*constPkg{}}
	var out []R
	out = append(out, x.routesOfFile("internal/server/oauth/authserver/authserver.go")...)
	out = append(out, x.routesOfFile("internal/server/oauth/rshandlers/routes.go")...)
	return out
}

var (
	serverOnce   sync.Once
	serverRouter *router.Router
	serverErr    error
)

// serverTable starts the in-process server once and returns its router and
// its routes sorted by (pattern, method).
func serverTable() (*router.Router, []R) {
	serverOnce.Do(func() {
		f, err := srvfix.Start(srvfix.Options{})
		if err != nil {
			serverErr = err
			return
		}
		serverRouter = f.Router
	})
	if serverErr != nil {
		panic(fmt.Sprintf("c32 harness: cannot build the server router: %v", serverErr))
	}
	var out []R
	for _, ri := range serverRouter.VerifRoutes() {
		out = append(out, R{M: ri.Method, P: ri.Endpoint})
	}
	return serverRouter, out
}

// realTable returns the real table; withOAuth adds the mirrored OAuth routes.
func realTable(withOAuth bool) []R {
	_, all := serverTable()
	all = append([]R{}, all...)
	if withOAuth {
		all = append(all, oauthRoutes()...)
	}
	seen := map[R]bool{}
	var out []R
	for _, r := range all {
		if seen[r] {
			continue
		}
		seen[r] = true
		out = append(out, r)
	}
	sort.SliceStable(out, func(i, j int) bool {
		if out[i].P != out[j].P {
			return out[i].P < out[j].P
		}
		return out[i].M < out[j].M
	})
	return out
}

// staticSubsetProblem cross-checks hook H1's two entry points: every route of
// commands.VerifStaticRoutes() must be in the server's table.
func staticSubsetProblem() string {
	_, all := serverTable()
	have := map[R]bool{}
	for _, r := range all {
		have[r] = true
	}
	st := commands.VerifStaticRoutes().VerifRoutes()
	if len(st) < 40 {
		return fmt.Sprintf("VerifStaticRoutes lists only %d routes", len(st))
	}
	for _, ri := range st {
		if !have[R{M: ri.Method, P: ri.Endpoint}] {
			return fmt.Sprintf("static route %s %s is not in the server router", ri.Method, ri.Endpoint)
		}
	}
	return ""
}
