package c32

// C32 "Route resolution is deterministic and most specific".
//
// Statement: for a given route table the route chosen for a request depends
// only on method and path, never on registration / iteration order, and a route
// with fewer path variables is preferred over one with more when both match.
//
// Preconditions / decisions taken from the code and from real callers:
//   - Paths are what net/http puts into r.URL.Path for ServeHTTP →
//     FindRoute(r.Method, r.URL.Path, true): they start with "/". The empty
//     path and "*" are not generated.
//   - Request paths do not contain the pattern syntax "{{": a path that is
//     literally the text of a pattern ("/a/{{name}}/") is returned by the
//     exact-match stage before variables are counted, which beats a catch-all
//     "/" route with no variables. No client sends such a path, and an exact
//     textual match is the most specific answer there is, so it is not held
//     against the fewest-variables clause (seen once at seed 4 before the
//     generator stopped producing such paths; determinism is still judged if
//     a replay carries one).
//   - "Matches" is the router's own notion, observed by asking a router that
//     holds only that one route (status 200 and a route returned). The check
//     does not model the matcher; optional trailing variables ("/tables/"
//     matches "/tables/{{table}}/rows", see router_test.go partsMap cases) are
//     therefore part of "matches", as in the code.
//   - A path variable is a "{{…}}" segment; the glob "{{name...}}" counts as
//     one variable (FindRoute counts strings.Count(endpoint, "{{")).
//   - Tables never hold the same (pattern, method) twice and only methods
//     Router.New accepts (New calls ui.Panic otherwise; EGO_PANIC=1 turns that
//     into a Go panic the runner reports instead of os.Exit).
//   - The identity of the returned route is (pattern, method), read with
//     (*router.Route).VerifInfo (hook H2).
//   - The real table is the router commands.VerifServerRouter builds (hook H1,
//     via srvfix); one of the three routers asked is that very router, the
//     other two hold the same (method, pattern) pairs registered in other
//     orders with a dummy handler (handlers, permissions and media types play
//     no role in FindRoute).
//   - FindRoute is called with mustLock=false, which makes it side-effect free.

import (
	"fmt"
	"os"
	"sort"
	"strings"
	"sync"
	"testing"

	"net/http"

	"github.com/tucats/ego/internal/router"
	"github.com/tucats/ego/verif/vkit"
	"pgregory.net/rapid"
)

type R struct {
	M string `json:"m"`
	P string `json:"p"`
}

type Case struct {
	Table  string `json:"table"` // gen | real | real+oauth
	Routes []R    `json:"routes,omitempty"`
	Method string `json:"method"`
	Path   string `json:"path"`
}

const (
	repeats = 40
	orders  = 3
)

var validMethods = map[string]bool{"GET": true, "HEAD": true, "POST": true, "DELETE": true, "UPDATE": true, "PUT": true, "PATCH": true, "ANY": true}

func dummy(*router.Session, http.ResponseWriter, *http.Request) int { return http.StatusOK }

func build(routes []R, order int) *router.Router {
	rt := router.NewRouter("c32")
	idx := make([]int, len(routes))
	for i := range idx {
		idx[i] = i
	}
	switch order {
	case 1: // reversed
		for i, j := 0, len(idx)-1; i < j; i, j = i+1, j-1 {
			idx[i], idx[j] = idx[j], idx[i]
		}
	case 2: // odd positions first, then even positions, each from the back
		var a []int
		for i := len(idx) - 1; i >= 0; i-- {
			if i%2 == 1 {
				a = append(a, i)
			}
		}
		for i := len(idx) - 1; i >= 0; i-- {
			if i%2 == 0 {
				a = append(a, i)
			}
		}
		idx = a
	}
	for _, i := range idx {
		rt.New(routes[i].P, dummy, routes[i].M)
	}
	return rt
}

type tableRouters struct {
	routes  []R
	full    [orders]*router.Router
	singles []*router.Router
}

func prepare(routes []R) *tableRouters {
	t := &tableRouters{routes: routes}
	for o := 0; o < orders; o++ {
		t.full[o] = build(routes, o)
	}
	for _, r := range routes {
		t.singles = append(t.singles, build([]R{r}, 0))
	}
	return t
}

var (
	realMu    sync.Mutex
	realCache = map[string]*tableRouters{}
)

func realRouters(kind string) *tableRouters {
	realMu.Lock()
	defer realMu.Unlock()
	if t, ok := realCache[kind]; ok {
		return t
	}
	t := prepare(realTable(kind == "real+oauth"))
	if kind == "real" {
		t.full[0], _ = serverTable()
	}
	realCache[kind] = t
	return t
}

type result struct {
	P, M   string
	Status int
}

func (r result) String() string {
	if r.P == "" {
		return fmt.Sprintf("(no route, status %d)", r.Status)
	}
	return fmt.Sprintf("%s %s (status %d)", r.M, r.P, r.Status)
}

func identify(rt *router.Route, status int) result {
	if rt == nil {
		return result{Status: status}
	}
	info := rt.VerifInfo() // hook H2
	return result{P: info.Endpoint, M: info.Method, Status: status}
}

func nvars(p string) int { return strings.Count(p, "{{") }

func validTable(routes []R) string {
	seen := map[R]bool{}
	for _, r := range routes {
		if !validMethods[r.M] {
			return "method not accepted by Router.New"
		}
		if seen[r] {
			return "duplicate pattern+method"
		}
		seen[r] = true
		if !strings.HasPrefix(r.P, "/") {
			return "pattern without leading slash"
		}
	}
	if len(routes) == 0 {
		return "empty table"
	}
	return ""
}

func oracle(c Case) vkit.Outcome {
	var out vkit.Outcome
	var tr *tableRouters
	switch c.Table {
	case "gen":
		if why := validTable(c.Routes); why != "" {
			return vkit.Outcome{Skip: "invalid table: " + why}
		}
		tr = prepare(c.Routes)
	case "real", "real+oauth":
		tr = realRouters(c.Table)
	default:
		return vkit.Outcome{Skip: "unknown table kind"}
	}
	if !strings.HasPrefix(c.Path, "/") {
		return vkit.Outcome{Skip: "path without leading slash"}
	}

	// which routes match on their own
	var matching []R
	for i, s := range tr.singles {
		if rt, st := s.FindRoute(c.Method, c.Path, false); rt != nil && st == http.StatusOK {
			matching = append(matching, tr.routes[i])
		}
	}
	minVars, maxVars := 1<<30, -1
	inMatching := map[R]bool{}
	for _, m := range matching {
		inMatching[m] = true
		if n := nvars(m.P); n < minVars {
			minVars = n
		}
		if n := nvars(m.P); n > maxVars {
			maxVars = n
		}
	}

	// 40 calls on each of 3 routers built in different registration orders
	// (a tie needs two candidates; candidates are the routes that match on
	// their own plus every "/" route, so with fewer than two of those 4 calls
	// per router are made instead of 40 — this only saves time)
	roots := 0
	for _, r := range tr.routes {
		if r.P == "/" && !inMatching[r] {
			roots++
		}
	}
	n := repeats
	if len(matching)+roots < 2 {
		n = 4
	}
	seen := map[result]int{}
	var first result
	for o := 0; o < orders; o++ {
		for i := 0; i < n; i++ {
			rt, st := tr.full[o].FindRoute(c.Method, c.Path, false)
			r := identify(rt, st)
			if o == 0 && i == 0 {
				first = r
			}
			seen[r]++
		}
	}

	out.NonTrivial = len(matching) >= 2
	mb := fmt.Sprint(len(matching))
	if len(matching) >= 4 {
		mb = "4+"
	}
	tk := c.Table
	shape := pathShape(c.Path)
	out.Labels = []string{"table=" + tk + " matching=" + mb, "status=" + fmt.Sprint(first.Status), "path " + shape}
	if len(matching) >= 2 {
		if minVars == maxVars {
			out.Labels = append(out.Labels, fmt.Sprintf("table=%s >=2 match, all %d variable(s)", tk, minVars))
		} else {
			out.Labels = append(out.Labels, "table="+tk+" >=2 match, variable counts differ")
		}
	}
	if first.P != "" && !inMatching[R{M: first.M, P: first.P}] {
		out.Labels = append(out.Labels, "chosen route does not match on its own (the \"/\" route is a candidate for every method)")
	}

	if len(seen) > 1 {
		var rs []result
		for r := range seen {
			rs = append(rs, r)
		}
		sort.Slice(rs, func(i, j int) bool { return rs[i].String() < rs[j].String() })
		var desc []string
		pats := map[string]bool{}
		vc := map[int]bool{}
		for _, r := range rs {
			desc = append(desc, fmt.Sprintf("%s ×%d", r, seen[r]))
			pats[r.P] = true
			vc[nvars(r.P)] = true
		}
		kind := ""
		switch {
		case len(pats) == 1 && rs[0].P == "/":
			kind = "\"/\" registered for several methods (it is a candidate whatever its method)"
		case len(pats) == 1:
			kind = "same pattern registered for ANY and for the method"
		case len(vc) > 1:
			kind = "candidates with different variable counts"
		case vc[0]:
			kind = "several variable-free candidates"
		case maxVars > nvars(rs[0].P):
			kind = "tie among the fewest-variable candidates"
		default:
			kind = "all candidates have the same variable count"
		}
		out.Fail = &vkit.Failure{
			Sig:      "order-dependent table=" + tk + ": " + kind,
			Observed: fmt.Sprintf("%s %q over %d calls on %d routers → %s; routes matching on their own: %v", c.Method, c.Path, n*orders, orders, strings.Join(desc, " | "), matching),
			Expected: "the same route on every call",
		}
		return out
	}
	if first.P != "" && len(matching) > 0 && nvars(first.P) > minVars && !strings.Contains(c.Path, "{{") {
		out.Fail = &vkit.Failure{
			Sig:      "more variables preferred table=" + tk,
			Observed: fmt.Sprintf("%s %q → %s with %d variable(s); matching routes: %v", c.Method, c.Path, first, nvars(first.P), matching),
			Expected: fmt.Sprintf("a matching route with %d variable(s)", minVars),
		}
	}
	return out
}

func pathShape(p string) string {
	var f []string
	if p == "/" {
		return "root"
	}
	if strings.HasSuffix(p, "/") {
		f = append(f, "trailing-slash")
	}
	if strings.Contains(strings.TrimSuffix(p, "/"), "//") || strings.HasSuffix(p, "//") {
		f = append(f, "empty-segment")
	}
	if strings.Contains(p, "{{") {
		f = append(f, "literal-braces")
	}
	if len(f) == 0 {
		return "plain"
	}
	return strings.Join(f, "+")
}

// ---- generators ----

var words = []string{"a", "b", "c", "admin", "users", "tables", "rows", "@sql", "x"}
var varNames = []string{"{{x}}", "{{y}}", "{{name}}", "{{table}}"}
var methodPool = []string{"GET", "GET", "GET", "GET", "POST", "PUT", "DELETE", "ANY", "ANY", "PATCH", "HEAD"}

func genPattern(t *rapid.T, existing []R) string {
	var derivable []R
	for _, r := range existing {
		if r.P != "/" {
			derivable = append(derivable, r)
		}
	}
	if len(derivable) > 0 && rapid.IntRange(0, 9).Draw(t, "derive") < 6 {
		// mutate an existing pattern so that routes overlap
		base := rapid.SampledFrom(derivable).Draw(t, "base").P
		trail := strings.HasSuffix(base, "/") && base != "/"
		segs := splitSegs(base)
		switch rapid.IntRange(0, 4).Draw(t, "mut") {
		case 0: // swap one segment between static and variable
			if len(segs) > 0 {
				i := rapid.IntRange(0, len(segs)-1).Draw(t, "i")
				if strings.HasPrefix(segs[i], "{{") {
					segs[i] = rapid.SampledFrom(words).Draw(t, "w")
				} else {
					segs[i] = rapid.SampledFrom(varNames).Draw(t, "v")
				}
			}
		case 1: // append a segment
			segs = append(dropGlob(segs), genSeg(t))
		case 2: // drop the last segment
			if len(segs) > 1 {
				segs = segs[:len(segs)-1]
			}
		case 3: // replace the last segment
			if len(segs) > 0 {
				segs[len(segs)-1] = genSeg(t)
			}
		case 4: // toggle the trailing slash only
			trail = !trail
		}
		return joinSegs(segs, trail)
	}
	if rapid.IntRange(0, 24).Draw(t, "root") == 0 {
		return "/"
	}
	n := rapid.IntRange(1, 4).Draw(t, "depth")
	var segs []string
	for i := 0; i < n; i++ {
		segs = append(segs, genSeg(t))
	}
	if rapid.IntRange(0, 9).Draw(t, "glob") == 0 {
		segs = append(segs, "{{rest...}}")
	}
	return joinSegs(segs, rapid.IntRange(0, 2).Draw(t, "trail") == 0)
}

func genSeg(t *rapid.T) string {
	if rapid.IntRange(0, 9).Draw(t, "isvar") < 4 {
		return rapid.SampledFrom(varNames).Draw(t, "var")
	}
	return rapid.SampledFrom(words).Draw(t, "word")
}

func splitSegs(p string) []string {
	p = strings.Trim(p, "/")
	if p == "" {
		return nil
	}
	return strings.Split(p, "/")
}

func dropGlob(segs []string) []string {
	if n := len(segs); n > 0 && strings.HasSuffix(segs[n-1], "...}}") {
		return append([]string{}, segs[:n-1]...)
	}
	return segs
}

func joinSegs(segs []string, trail bool) string {
	// a glob must be the last component
	for i, s := range segs {
		if strings.HasSuffix(s, "...}}") && i != len(segs)-1 {
			segs[i] = "{{x}}"
		}
	}
	p := "/" + strings.Join(segs, "/")
	if trail && p != "/" {
		p += "/"
	}
	return p
}

func genTable(t *rapid.T) []R {
	n := rapid.IntRange(2, 9).Draw(t, "nroutes")
	var routes []R
	seen := map[R]bool{}
	for tries := 0; len(routes) < n && tries < 40; tries++ {
		r := R{M: rapid.SampledFrom(methodPool).Draw(t, "method"), P: genPattern(t, routes)}
		if seen[r] {
			continue
		}
		seen[r] = true
		routes = append(routes, r)
	}
	return routes
}

var valuePool = []string{"x", "1", "foo", "a", "b", "admin", "users", "tables", "rows", "@sql", "@permissions", "permissions", "begin", "", "a b", "%41", "é"}

// genPathFor derives a request path from a route pattern: variables are filled
// from a pool that contains the static words of the tables (so that routes
// overlap), then the path is truncated, extended, given empty segments or a
// trailing slash.
func genPathFor(t *rapid.T, pattern string, extra []string) string {
	segs := splitSegs(pattern)
	var out []string
	pool := append(append([]string{}, valuePool...), extra...)
	for _, s := range segs {
		switch {
		case strings.HasSuffix(s, "...}}"):
			k := rapid.IntRange(0, 3).Draw(t, "globlen")
			for i := 0; i < k; i++ {
				out = append(out, rapid.SampledFrom(pool).Draw(t, "globseg"))
			}
		case strings.HasPrefix(s, "{{"):
			out = append(out, rapid.SampledFrom(pool).Draw(t, "value"))
		default:
			if rapid.IntRange(0, 19).Draw(t, "mutstatic") == 0 {
				out = append(out, rapid.SampledFrom(pool).Draw(t, "other"))
			} else {
				out = append(out, s)
			}
		}
	}
	switch rapid.IntRange(0, 9).Draw(t, "edit") {
	case 0, 1: // a prefix of the path
		if len(out) > 0 {
			out = out[:rapid.IntRange(0, len(out)-1).Draw(t, "cut")]
		}
	case 2: // one more segment
		out = append(out, rapid.SampledFrom(pool).Draw(t, "more"))
	case 3: // an empty segment somewhere
		i := rapid.IntRange(0, len(out)).Draw(t, "at")
		out = append(out[:i], append([]string{""}, out[i:]...)...)
	}
	p := "/" + strings.Join(out, "/")
	if rapid.IntRange(0, 2).Draw(t, "slash") == 0 && !strings.HasSuffix(p, "/") {
		p += "/"
	}
	return p
}

var requestMethods = []string{"GET", "POST", "PUT", "DELETE", "PATCH", "HEAD", "get", "UPDATE"}

func genMethod(t *rapid.T, of string) string {
	if of != "ANY" && rapid.IntRange(0, 3).Draw(t, "samemethod") > 0 {
		return of
	}
	return rapid.SampledFrom(requestMethods).Draw(t, "reqmethod")
}

func staticWords(routes []R) []string {
	set := map[string]bool{}
	for _, r := range routes {
		for _, s := range splitSegs(r.P) {
			if !strings.HasPrefix(s, "{{") {
				set[s] = true
			}
		}
	}
	var out []string
	for s := range set {
		out = append(out, s)
	}
	sort.Strings(out)
	return out
}

func gen(t *rapid.T) Case {
	kind := rapid.SampledFrom([]string{"gen", "gen", "gen", "gen", "gen", "gen", "real", "real", "real", "real+oauth"}).Draw(t, "table")
	var c Case
	c.Table = kind
	var routes []R
	if kind == "gen" {
		c.Routes = genTable(t)
		routes = c.Routes
	} else {
		routes = realRouters(kind).routes
	}
	extra := staticWords(routes)
	if rapid.IntRange(0, 9).Draw(t, "freepath") == 0 {
		n := rapid.IntRange(0, 4).Draw(t, "n")
		var segs []string
		for i := 0; i < n; i++ {
			segs = append(segs, rapid.SampledFrom(append(append([]string{}, valuePool...), extra...)).Draw(t, "seg"))
		}
		c.Path = "/" + strings.Join(segs, "/")
		c.Method = rapid.SampledFrom(requestMethods).Draw(t, "m")
		return c
	}
	r := rapid.SampledFrom(routes).Draw(t, "target")
	c.Path = genPathFor(t, r.P, extra)
	c.Method = genMethod(t, r.M)
	return c
}

// fixed: the real tables, systematically: every pattern × every method ×
// {variables filled, every prefix, trailing slash, empty segment at the end}.
func fixed() []Case {
	var cases []Case
	for _, kind := range []string{"real", "real+oauth"} {
		routes := realRouters(kind).routes
		seenPath := map[string]bool{}
		var paths []string
		add := func(p string) {
			if !seenPath[p] {
				seenPath[p] = true
				paths = append(paths, p)
			}
		}
		for _, r := range routes {
			segs := splitSegs(r.P)
			for _, fill := range []string{"x", "@sql", "tables"} {
				var out []string
				for _, s := range segs {
					if strings.HasPrefix(s, "{{") {
						out = append(out, fill)
					} else {
						out = append(out, s)
					}
				}
				for k := 0; k <= len(out); k++ {
					p := "/" + strings.Join(out[:k], "/")
					add(p)
					if p != "/" {
						add(p + "/")
						add(p + "//")
					}
				}
				if fill == "x" {
					add("/" + strings.Join(out, "/") + "/extra")
				}
			}
		}
		for _, p := range paths {
			for _, m := range []string{"GET", "POST", "PUT", "DELETE", "PATCH", "HEAD"} {
				cases = append(cases, Case{Table: kind, Method: m, Path: p})
			}
		}
	}
	return cases
}

func TestC32(t *testing.T) {
	// Router.New reports an invalid or duplicate route through ui.Panic, which
	// exits the process unless EGO_PANIC asks for a real panic.
	os.Setenv("EGO_PANIC", "1")
	real := realTable(false)
	realO := realTable(true)
	if len(real) < 60 || len(realO) <= len(real) {
		t.Fatalf("c32 harness: real route table looks wrong (%d routes, %d with oauth)", len(real), len(realO))
	}
	if why := staticSubsetProblem(); why != "" {
		t.Fatalf("c32 harness: %s", why)
	}
	var fixedCount int
	vkit.Run(t, vkit.Spec[Case]{
		ID:    "C32",
		Level: "exploration",
		Rule: "tables: the server's real table (the router commands.VerifServerRouter builds: static, tables, lib/services, native admin/WebAuthn/cluster routes, redirects; and the same plus the config-gated OAuth routes mirrored from their source files) and generated tables of 2..9 routes " +
			"(static words, {{var}} segments, a trailing {{rest...}} glob, \"/\", trailing slash or not, methods GET/POST/PUT/DELETE/PATCH/HEAD/ANY; patterns derived from each other so they overlap); " +
			"paths: a pattern of the table with variables filled from a pool that contains the table's static words, then cut to a prefix, extended, with an empty segment or a trailing slash; plus the systematic list for the real tables (every pattern x every prefix x 6 methods). " +
			"Oracle: 40 FindRoute calls on each of 3 routers built in different registration orders return the same (pattern, method, status); the returned route has no more variables than any route that matches on its own. " +
			"Non-trivial: at least 2 routes of the table match the request on their own. Distinct by (table, method, path).",
		Assumptions: []string{
			"\"matches\" = a router holding only that route returns it with status 200 (the router's own matcher)",
			"real table = routes of commands.VerifServerRouter (hooks H1/H2); the OAuth routes of the real+oauth variant are (method, pattern) literals mirrored with go/parser; handlers, permissions and media types play no role in FindRoute",
			"a two-way tie is missed by 120 calls with probability < 1e-6 (Go randomises every map range)",
			"request paths start with \"/\"",
		},
		Gen:    gen,
		Oracle: oracle,
		Fixed: func() []Case {
			f := fixed()
			fixedCount = len(f)
			return f
		},
		Quick:    1500,
		Thorough: 40000,
		Extra: func() map[string]any {
			if fixedCount == 0 || vkit.ShardIndex() != 0 {
				return nil
			}
			return map[string]any{"real_routes": len(real), "real_routes_with_oauth": len(realO), "real_table_systematic_cases": fixedCount}
		},
	})
}

// TestC32Table prints the mirrored table (development aid).
func TestC32Table(t *testing.T) {
	if os.Getenv("C32_TABLE") == "" {
		t.Skip("set C32_TABLE=1")
	}
	for _, r := range realTable(true) {
		fmt.Printf("%-7s %s\n", r.M, r.P)
	}
}
