package c26

// runDashboard executes source text the way the dashboard's run endpoint does
// for a non-admin session (internal/server/admin/run.go: getOrCreateSymbolTable
// + executeAdminEgo): a "dashboard" root table with the standard packages, a
// console table, a fresh "editor" child table per run, compiler.CompileString
// (bare top-level statements allowed), Context.Sandboxed(true), output
// captured from the context.

import (
	"fmt"
	"runtime/debug"

	"github.com/tucats/ego/internal/errors"
	"github.com/tucats/ego/internal/language/bytecode"
	"github.com/tucats/ego/internal/language/compiler"
	"github.com/tucats/ego/internal/language/symbols"
	"github.com/tucats/ego/verif/egorun"
)

func runDashboard(src string) (res egorun.Result) {
	egorun.Init()
	defer func() {
		if p := recover(); p != nil {
			res.GoPanic = fmt.Sprint(p)
			res.Stack = string(debug.Stack())
		}
	}()
	root := symbols.NewRootSymbolTable("dashboard")
	console := symbols.NewChildSymbolTable("console", root)
	compiler.AddStandard(root)
	comp := compiler.New("dashboard").SetExtensionsEnabled(true).SetRoot(console)
	if err := comp.AutoImport(true, console); err != nil {
		res.CompileErr = err.Error()
		return res
	}
	s := symbols.NewChildSymbolTable("editor", console)
	bc, err := compiler.CompileString("dashboard", src, true)
	if err != nil {
		res.CompileErr = err.Error()
		return res
	}
	bc.Emit(bytecode.Stop)
	ctx := bytecode.NewContext(s, bc).Sandboxed(true).EnableConsoleOutput(false)
	err = ctx.Run()
	res.Stdout = ctx.GetOutput()
	if err != nil && !errors.Equals(err, errors.ErrStop) {
		res.RunErr = err.Error()
	}
	return res
}
