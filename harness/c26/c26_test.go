package c26

// C26 "Sandboxed programs stay inside the sandbox".
//
// Statement decided: with sandboxing enabled, no Ego program can read, create,
// modify, list, stat or delete any file or directory outside the sandbox root,
// through any runtime function, for any spelling of the path and any
// arrangement of symbolic links inside the sandbox.
//
// How a case runs: the harness builds, under one base directory below
// $VERIF_RUN_DIR, a sandbox root, a sibling outside tree "root.out" with canary
// files (known contents, sizes, modes, mtimes, and entries whose names no
// program ever spells) and a sibling process working directory; creates the
// case's symbolic links inside the root; runs a small Ego program in-process
// the way the dashboard's run endpoint does (bytecode.NewContext(...).
// Sandboxed(true), internal/server/admin/run.go) with
// ego.runtime.sandbox.path = root; the program passes ONE generated path
// string to ONE runtime function (optionally followed by one receiver function
// of the returned object) and prints every returned value.
//
// Verdict (all grounded in the statement):
//   - everything under the base directory that is not the root is unchanged
//     afterwards (listing, contents, modes, mtimes)        -> create/modify/delete
//   - no canary content appears in the output                -> read
//   - no hidden outside entry name, canary size/mode/mtime appears -> list/stat
//   - for escaping spellings: the (masked) output does not depend on the
//     outside tree (same program run against an altered or absent outside
//     tree, bracketed by a repeat of the first run to rule out noise)
//                                                            -> stat/existence
// An Ego error, or silently landing inside the root, are both good outcomes.
//
// Preconditions taken from callers (DESIGN 3.9): paths are program values of
// type string passed to documented functions; the sandbox root exists and is
// not itself reached through a symbolic link; symbolic links are placed inside
// the root by someone else before the program runs (Ego has no symlink
// function) and do not change during the run.
//
// Safety of the harness itself: every path a generated program can reach, also
// if a function ignores the sandbox completely, stays under the base
// directory: ".." chains climb at most 4 levels from root or cwd (the base is
// 5 above), absolute spellings are built from the root/outside paths, and the
// one real system path (/etc/hostname) is given only to read-only functions.

import (
	"fmt"
	"os"
	"path/filepath"
	"regexp"
	"sort"
	"strconv"
	"strings"
	"sync"
	"testing"
	"time"

	"github.com/tucats/ego/internal/cli/settings"
	"github.com/tucats/ego/internal/defs"
	"github.com/tucats/ego/verif/egorun"
	"github.com/tucats/ego/verif/vkit"
	"pgregory.net/rapid"
)

// Case is one program: function slot x variant x optional method x path x layout.
type Case struct {
	Slot    string `json:"slot"`              // "os.ReadFile:filename"
	Variant string `json:"variant,omitempty"` // value of the hinted other parameter
	Method  string `json:"method,omitempty"`  // receiver function called on the result
	Layout  string `json:"layout"`            // symlink layout inside the root
	Target  string `json:"target"`            // what the spelling aims at
	Class   string `json:"class"`             // spelling class
	Mech    string `json:"mech"`              // escape mechanism of the class
	Mod     string `json:"mod,omitempty"`     // spelling modifier
	Path    string `json:"path"`              // the path ({ROOT}/{OUT} placeholders)
	Form    string `json:"form"`              // direct | nested | goroutine | value | toplevel
	Prelude string `json:"prelude,omitempty"` // attempt to lift the sandbox first
	Alt     string `json:"alt"`               // alternate world for the differential: B | C
	// SQL, when set, names a statement template: the database is opened on a
	// file inside the root and the path goes into SQL text handed to the
	// receiver functions of the result that take SQL (SQLite statements can
	// name files).
	SQL string `json:"sql,omitempty"`
}

// ---------------------------------------------------------------- spellings

var targets = []string{"canary.txt", "canary.json", "canary.db", "canary.sh", "", "sub_out", "empty_out", "newfile.txt", "newfile.json", "newfile.db", "newdir/deep"}

type spell struct{ Class, Mech, Path string }

func kindOf(target string) string {
	switch {
	case strings.HasSuffix(target, ".txt"):
		return "txt"
	case strings.HasSuffix(target, ".json"):
		return "json"
	case strings.HasSuffix(target, ".db"):
		return "db"
	case strings.HasSuffix(target, ".sh"):
		return "sh"
	}
	return ""
}

func hasLink(layout, name string) bool {
	for _, l := range layoutLinks(layout) {
		if l[0] == name {
			return true
		}
	}
	return false
}

// spellings lists every base spelling of target T available in a layout.
func spellings(layout, T string) []spell {
	j := func(prefix string) string { // prefix + "/" + T without a trailing slash for T == ""
		if T == "" {
			return strings.TrimSuffix(prefix, "/")
		}
		if prefix == "" {
			return T
		}
		return strings.TrimSuffix(prefix, "/") + "/" + T
	}
	tOrDot := T
	if tOrDot == "" {
		tOrDot = "."
	}
	out := []spell{
		// inside (controls)
		{"rel", "none", tOrDot},
		{"dot-rel", "none", "./" + T},
		{"sub-dotdot", "none", j("sub/..")},
		{"abs-inside", "none", j("{ROOT}")},
		{"abs-inside-dotdot", "none", j("{ROOT}/sub/..")},
		{"cwd-name", "none-bypass", "cwdcanary" + map[bool]string{true: ".json", false: ".txt"}[kindOf(T) == "json"]},
		// lexical escapes
		{"dotdot", "lexical-dotdot", j("../root.out")},
		{"dot-dotdot", "lexical-dotdot", j("./../root.out")},
		{"sub-dotdot2", "lexical-dotdot", j("sub/../../root.out")},
		{"dotdot-slashes", "lexical-dotdot", j("..//root.out")},
		{"dotdot-dot", "lexical-dotdot", j("../root.out/.")},
		{"dotdot-reenter", "lexical-dotdot", j("../root/../root.out")},
		{"dotdot2", "lexical-dotdot", j("../../w/root.out")},
		{"dotdot3", "lexical-dotdot", j("../../../l3/w/root.out")},
		{"dotdot4", "lexical-dotdot", j("sub/../../../../../l2/l3/w/root.out")},
		{"abs-root-dotdot", "lexical-dotdot", j("{ROOT}/../root.out")},
		{"abs-root-sub-dotdot", "lexical-dotdot", j("{ROOT}/sub/../../root.out")},
		// absolute escapes (the outside tree shares the root's string prefix)
		{"abs", "absolute", j("{OUT}")},
		{"abs-dslash", "absolute", "/" + j("{OUT}")},
		{"abs-dot", "absolute", j("{OUT}/.")},
		{"abs-inner-dslash", "absolute", strings.Replace(j("{OUT}/"), "{OUT}/", "{OUT}//", 1)},
		{"abs-sub-dotdot", "absolute", j("{OUT}/sub_out/..")},
	}
	if T == "" {
		out = append(out, spell{"parent", "lexical-dotdot", ".."}, spell{"parent-slash", "lexical-dotdot", "../"}, spell{"grandparent", "lexical-dotdot", "../.."})
	}
	k := kindOf(T)
	isNew := strings.HasPrefix(T, "new")
	add := func(link, class, mech, path string) {
		if hasLink(layout, link) {
			out = append(out, spell{class, mech, path})
		}
	}
	if k != "" && !isNew {
		add("lnk_"+k, "link-file", "symlink-file", "lnk_"+k)
		add("lnk_"+k, "link-file-abs", "symlink-file", "{ROOT}/lnk_"+k)
		add("lnk_"+k, "link-file-sub", "symlink-file", "sub/../lnk_"+k)
		add("lnk_c_"+k, "link-chain", "symlink-file", "lnk_c_"+k)
		add("lnkr_"+k, "link-rel-target", "symlink-file", "lnkr_"+k)
		add("lnk_in_"+k, "link-inside", "none", "lnk_in_"+k)
	}
	if isNew {
		add("lnk_ghost", "link-dangling", "symlink-dangling", "lnk_ghost")
		add("lnk_ghost", "link-dangling-abs", "symlink-dangling", "{ROOT}/lnk_ghost")
		add("lnk_gc", "link-dangling-chain", "symlink-dangling", "lnk_gc")
		add("lnk_gdir", "link-dangling-dir", "symlink-dangling", "lnk_gdir")
		add("lnk_gdir", "link-dangling-dir-child", "symlink-dangling", j("lnk_gdir"))
	}
	add("lnk_dir", "link-dir", "symlink-dir", j("lnk_dir"))
	add("lnk_dir", "link-dir-abs", "symlink-dir", j("{ROOT}/lnk_dir"))
	add("lnk_dir", "link-dir-dot", "symlink-dir", j("lnk_dir/."))
	add("lnk_c_dir", "link-dir-chain", "symlink-dir", j("lnk_c_dir"))
	add("lnkr_dir", "link-dir-rel-target", "symlink-dir", j("lnkr_dir"))
	add("sub/lnkr_up", "link-dir-in-sub", "symlink-dir", j("sub/lnkr_up"))
	add("lnk_up", "link-up", "symlink-dir", j("lnk_up/root.out"))
	add("lnk_in_dir", "link-inside-dir", "none", "lnk_in_dir/in2.txt")
	return out
}

var mods = []string{"", "", "", "", "", "", "trailing-slash", "trailing-dot", "long-dotslash", "long-component", "nul-suffix", "nul-mid", "double-slash"}

func applyMod(mod, p string) string {
	switch mod {
	case "trailing-slash":
		return p + "/"
	case "trailing-dot":
		return p + "/."
	case "long-dotslash": // longer than PATH_MAX before cleaning
		if strings.HasPrefix(p, "/") || strings.HasPrefix(p, "{") {
			i := strings.LastIndex(p, "/")
			if i < 0 {
				return p + strings.Repeat("/.", 2100)
			}
			return p[:i] + strings.Repeat("/.", 2100) + p[i:]
		}
		return strings.Repeat("./", 2100) + p
	case "long-component": // a 300-byte component (> NAME_MAX)
		return p + "/" + strings.Repeat("a", 300)
	case "nul-suffix":
		return p + "\x00"
	case "nul-mid":
		if i := strings.Index(p, "/"); i > 0 {
			return p[:i] + "\x00" + p[i:]
		}
		return p + "\x00x"
	case "double-slash":
		if strings.HasPrefix(p, "{") {
			return p
		}
		return strings.Replace(p, "/", "//", 1)
	}
	return p
}

// ---------------------------------------------------------------- program

var preludes = map[string]string{
	"":               "",
	"directive":      "@sandbox false\n",
	"directive-path": "@sandbox true path=\"/\"\n",
	"profile-set":    "\tfmt.Println(\"PRE:\", profile.Set(\"ego.runtime.sandbox.path\", \"/\"))\n",
	"profile-delete": "\tfmt.Println(\"PRE:\", profile.Delete(\"ego.runtime.sandbox.path\"))\n",
}
var preludeNames = []string{"", "", "", "", "", "", "", "", "directive", "directive-path", "profile-set", "profile-delete"}

var variantParam = map[string]string{"io.Open:filename": "mode", "sql.Open:connection": "driver"}

// SQL texts for receiver functions of sql.Database that take SQL: the path
// slot does not apply to them, but SQLite statements can name files.
var sqlTexts = map[string]string{
	"Execute":     "create table if not exists c26t(v text)",
	"Query":       "select name from sqlite_master",
	"QueryResult": "select name from sqlite_master",
}

// sqlFileStatements: SQLite statements that name a file; %s is the path.
var sqlFileStatements = map[string][]string{
	"attach":      {"ATTACH DATABASE '%s' AS c26a", "create table if not exists c26a.c26t(v text)", "?select name from c26a.sqlite_master"},
	"vacuum-into": {"VACUUM INTO '%s'"},
}
var sqlNames = []string{"attach", "vacuum-into"}

// sqlSlot is the slot whose result accepts SQL text (found, not assumed: a
// selected function whose result has receiver functions with a parameter
// named sql).
func sqlSlot(ct *catalogue) (*slot, string, string) {
	for _, id := range ct.ids {
		s := ct.slots[id]
		if !s.PathLike {
			continue
		}
		exec, query := "", ""
		for _, m := range s.Methods {
			if len(m.Params) > 0 && strings.EqualFold(m.Params[0].Name, "sql") && m.Params[0].Type == "string" {
				if len(m.Rets) > 0 && m.Rets[0] == "int" && exec == "" {
					exec = m.Name
				} else if strings.HasPrefix(m.Rets[0], "[]") && query == "" {
					query = m.Name
				}
			}
		}
		if exec != "" && query != "" {
			return s, exec, query
		}
	}
	return nil, "", ""
}

func argFor(f *fn, i int, slotIdx int, variantFor, variant string) string {
	p := f.Params[i]
	if i == slotIdx {
		return "p"
	}
	if p.Name == variantFor && variant != "" {
		return strconv.Quote(variant)
	}
	lname := strings.ToLower(p.Name)
	switch p.Type {
	case "string":
		switch {
		case lname == "driver":
			return `"sqlite3"`
		case lname == "mode":
			return `"read"`
		case lname == "pattern":
			return `"c26tmp*.x"`
		case lname == "sql":
			if t, ok := sqlTexts[f.Name]; ok {
				return strconv.Quote(t)
			}
		}
		return `"c26x"`
	case "int", "int32", "int64":
		switch {
		case lname == "uid" || lname == "gid":
			return "-1"
		case lname == "mode" || lname == "perm":
			if strings.Contains(f.Name, "Mkdir") {
				return "493" // 0755
			}
			if f.Name == "Chmod" {
				return "384" // 0600
			}
			return "420" // 0644
		}
		return "0"
	case "bool":
		return "true"
	case "float64", "float32":
		return "0.0"
	case "byte":
		return "byte(0)"
	case "[]byte":
		return "buf"
	case "interface{}":
		return `"C26-ANY-DATA"`
	}
	return "nil"
}

func hasMethod(_ *fn, name string, s *slot) bool {
	for _, m := range s.Methods {
		if m.Name == name {
			return true
		}
	}
	return false
}

// buildProgram renders the Ego source for a case.
func buildProgram(s *slot, c Case, path string) string {
	f := s.F
	var b strings.Builder
	w := func(format string, a ...any) { fmt.Fprintf(&b, format, a...) }

	var body strings.Builder
	bw := func(format string, a ...any) { fmt.Fprintf(&body, "\t"+format+"\n", a...) }
	if c.SQL != "" {
		bw("p := %s", strconv.Quote(fx.root+"/canary.db"))
	} else {
		bw("p := %s", strconv.Quote(path))
	}
	bw("buf := []byte(\"C26-BUF-0123456789abcdefghijklmnopqrstuvwxyz\")")
	callee := f.Pkg + "." + f.Name
	if c.Form == "value" {
		bw("g := %s", callee)
		callee = "g"
	}
	n := f.nargs(s.Param)
	vp := variantParam[s.ID()]
	if vp != "" && c.Variant != "" {
		for i, p := range f.Params {
			if p.Name == vp && i+1 > n {
				n = i + 1
			}
		}
	}
	var args []string
	for i := 0; i < n; i++ {
		args = append(args, argFor(f, i, s.Param, vp, c.Variant))
	}
	printRets := func(prefix string, rets []string) {
		for i, r := range rets {
			if r == "error" {
				bw("fmt.Println(\"%sE%d:\", %s%d)", prefix, i, strings.ToLower(prefix), i)
			} else {
				bw("fmt.Println(\"%sV%d:\", %s%d)", prefix, i, strings.ToLower(prefix), i)
				if r == "[]byte" {
					bw("fmt.Println(\"%sS%d:\", string(%s%d))", prefix, i, strings.ToLower(prefix), i)
				}
			}
		}
	}
	lhs := func(prefix string, n int) string {
		if n == 0 {
			return ""
		}
		var l []string
		for i := 0; i < n; i++ {
			l = append(l, fmt.Sprintf("%s%d", prefix, i))
		}
		return strings.Join(l, ", ") + " := "
	}
	bw("%s%s(%s)", lhs("r", len(f.Rets)), callee, strings.Join(args, ", "))
	printRets("R", f.Rets)
	bw("fmt.Println(\"BUF:\", string(buf))")
	if c.SQL != "" {
		_, execName, queryName := sqlSlot(getCatalogue())
		for i, st := range sqlFileStatements[c.SQL] {
			name := execName
			if strings.HasPrefix(st, "?") {
				name, st = queryName, st[1:]
			}
			if strings.Contains(st, "%s") {
				st = fmt.Sprintf(st, strings.ReplaceAll(path, "'", "''"))
			}
			bw("q%d, qe%d := r0.%s(%s)", i, i, name, strconv.Quote(st))
			bw("fmt.Println(\"QV%d:\", q%d)", i, i)
			bw("fmt.Println(\"QE%d:\", qe%d)", i, i)
		}
	} else if c.Method != "" {
		for _, m := range s.Methods {
			if m.Name != c.Method {
				continue
			}
			var margs []string
			for i := 0; i < m.nargs(-1); i++ {
				margs = append(margs, argFor(m, i, -1, "", ""))
			}
			bw("%sr0.%s(%s)", lhs("m", len(m.Rets)), m.Name, strings.Join(margs, ", "))
			printRets("M", m.Rets)
			bw("fmt.Println(\"MBUF:\", string(buf))")
		}
	}
	if len(f.Rets) > 0 && c.Method != "Close" && hasMethod(f, "Close", s) {
		bw("r0.Close()")
	}

	if strings.HasPrefix(c.Prelude, "directive") {
		w("%s", preludes[c.Prelude])
	}
	if c.Form == "goroutine" {
		w("import \"sync\"\n")
	}
	guarded := "\ttry {\n" + body.String() + "\t} catch (e) {\n\t\tfmt.Println(\"CATCH:\", e)\n\t}\n"
	switch c.Form {
	case "nested":
		w("func c26call() {\n%s}\n", guarded)
	}
	if c.Form == "toplevel" {
		// bare statements at the outermost scope, no main: what the
		// dashboard's run endpoint is given by a user typing statements
		if !strings.HasPrefix(c.Prelude, "directive") {
			w("%s", preludes[c.Prelude])
		}
		// no try block either: the statements must sit directly in the
		// outermost scope (a runtime error then simply ends the program)
		w("%s", body.String())
		w("fmt.Println(\"C26-END\")\n")
		return b.String()
	}
	w("func main() {\n")
	if !strings.HasPrefix(c.Prelude, "directive") {
		w("%s", preludes[c.Prelude])
	}
	switch c.Form {
	case "nested":
		w("\tc26call()\n")
	case "goroutine":
		w("\tvar wg sync.WaitGroup\n\twg.Add(1)\n\tgo func() {\n%s\t\twg.Done()\n\t}()\n\twg.Wait()\n", guarded)
	default:
		w("%s", guarded)
	}
	w("\tfmt.Println(\"C26-END\")\n}\n")
	return b.String()
}

// ---------------------------------------------------------------- oracle

type runResult struct {
	out                        string // everything the program showed: stdout + errors
	created, deleted, modified []string
	completed                  bool
	panicked                   bool
}

var (
	envSnapshot []string
	statsMu     sync.Mutex
	stats       = map[string]int{}
	exercised   = map[string]bool{}
)

func bump(key string) {
	statsMu.Lock()
	stats[key]++
	statsMu.Unlock()
}

func restoreEnv() {
	want := map[string]string{}
	for _, kv := range envSnapshot {
		if i := strings.Index(kv, "="); i > 0 {
			want[kv[:i]] = kv[i+1:]
		}
	}
	for _, kv := range os.Environ() {
		if i := strings.Index(kv, "="); i > 0 {
			if _, ok := want[kv[:i]]; !ok {
				os.Unsetenv(kv[:i])
			}
		}
	}
	for k, v := range want {
		if os.Getenv(k) != v {
			os.Setenv(k, v)
		}
	}
}

func runIn(world, layout, src string) runResult {
	fx.prepare(world, layout)
	restoreEnv()
	settings.SetDefault(defs.SandboxPathSetting, fx.root)
	before := fx.snapshot()
	// Watchdog: a program that never returns cannot be stopped in-process, and
	// would otherwise sit there until the driver's budget kills the shard
	// without saying why. Five minutes for a millisecond program is not a
	// verdict about anything, on any machine load; it ends the shard as a
	// harness error (exit 2, inconclusive) and names the program.
	watchdog := time.AfterFunc(5*time.Minute, func() {
		fmt.Printf("HARNESS-ERROR property=C26 a generated program did not return within 5 minutes (non-terminating runtime call; not a C26 verdict); layout=%s world=%s program:\n%s\n", layout, world, src)
		os.Exit(2)
	})
	var r egorun.Result
	if strings.Contains(src, "func main()") {
		r = egorun.Run(src, egorun.Config{Types: "dynamic", Extensions: true, EntryPoint: "main", Sandbox: true})
	} else {
		r = runDashboard(src) // bare top-level statements: the dashboard's own path
	}
	watchdog.Stop()
	_ = os.Chdir(fx.base)
	restoreEnv()
	settings.SetDefault(defs.SandboxPathSetting, fx.root)
	after := fx.snapshot()
	var res runResult
	res.created, res.deleted, res.modified = diffSnap(before, after)
	fx.settle(len(res.created)+len(res.deleted)+len(res.modified) > 0)
	res.out = r.Stdout + "\n#compile: " + r.CompileErr + "\n#run: " + r.RunErr + "\n"
	res.completed = strings.Contains(r.Stdout, "C26-END")
	res.panicked = r.GoPanic != ""
	return res
}

var (
	reTime    = regexp.MustCompile(`\d{4}-\d{2}-\d{2}[ T]\d{2}:\d{2}:\d{2}(\.\d+)?( ?[+-]\d{4}| ?Z)?( [A-Z]{3})?( m=[+-]\d+\.\d+)?`)
	rePtr     = regexp.MustCompile(`0x[0-9a-fA-F]+`)
	reTmp     = regexp.MustCompile(`c26tmp\d+`)
	reSizeTok = regexp.MustCompile(`(?i)size:\s*` + strconv.Itoa(txtSize) + `\b`)
	reModeTok = regexp.MustCompile(`(?i)mode:\s*(416|-rw-r-----)`)
)

func mask(s string) string {
	s = reTime.ReplaceAllString(s, "<T>")
	s = rePtr.ReplaceAllString(s, "<P>")
	s = reTmp.ReplaceAllString(s, "<TMP>")
	return s
}

func byteList(tok string, n int) string {
	var l []string
	for i := 0; i < n && i < len(tok); i++ {
		l = append(l, strconv.Itoa(int(tok[i])))
	}
	return strings.Join(l, ", ")
}

// leaks looks for canary material in what the program showed.
func leaks(out string, sysTok string) []string {
	var found []string
	for _, t := range []struct{ what, tok string }{
		{"content of outside canary.txt", tokTxt},
		{"content of outside canary.txt (as bytes)", byteList(tokTxt, 10)},
		{"content of outside canary.json", tokJSON},
		{"key of outside canary.json", tokJSONKey},
		{"table name in outside canary.db", tokDB},
		{"row of outside canary.db", tokDBRow},
		{"content of outside canary.sh", tokSh},
		{"name of an outside entry no program spelled", tokHidden1},
		{"name of an outside entry no program spelled", tokHidden2},
		{"content of a file in the process cwd", tokCwd},
		{"mtime of an outside entry", "2001-02-03"},
	} {
		if strings.Contains(out, t.tok) {
			found = append(found, t.what)
		}
	}
	if reSizeTok.MatchString(out) {
		found = append(found, "size of outside canary.txt")
	}
	if reModeTok.MatchString(out) {
		found = append(found, "mode of outside canary.txt")
	}
	if sysTok != "" && strings.Contains(out, sysTok) {
		found = append(found, "content of /etc/hostname")
	}
	return found
}

var sysToken = func() string {
	b, err := os.ReadFile("/etc/hostname")
	t := strings.TrimSpace(string(b))
	if err != nil || len(t) < 6 {
		return ""
	}
	return t
}()

// direct evaluates one program in world A and returns the direct violations.
func direct(src, layout string) (runResult, []string) {
	r := runIn("A", layout, src)
	var v []string
	for _, x := range r.created {
		v = append(v, "created outside the root: "+x)
	}
	for _, x := range r.deleted {
		v = append(v, "deleted outside the root: "+x)
	}
	for _, x := range r.modified {
		v = append(v, "modified outside the root: "+x)
	}
	for _, x := range leaks(r.out, sysToken) {
		v = append(v, "output reveals "+x)
	}
	return r, v
}

func controlOK(out string) bool {
	if !strings.Contains(out, "C26-END") || strings.Contains(out, "CATCH:") {
		return false
	}
	for _, line := range strings.Split(out, "\n") {
		if len(line) > 3 && (strings.HasPrefix(line, "RE") || strings.HasPrefix(line, "ME")) {
			if i := strings.Index(line, ": "); i > 0 && line[i+2:] != "<nil>" {
				return false
			}
		}
	}
	return true
}

func oracle(c Case) (out vkit.Outcome) {
	if os.Getenv("C26_SLOW") != "" {
		t0 := time.Now()
		defer func() {
			if d := time.Since(t0); d > 300*time.Millisecond {
				fmt.Fprintf(os.Stderr, "C26-SLOW %v %+v\n", d, c)
			}
		}()
	}
	ct := getCatalogue()
	s := ct.slots[c.Slot]
	if s == nil {
		out.Skip = "slot not in this tree's declaration tables"
		return out
	}
	if c.Method != "" && !hasMethod(s.F, c.Method, s) {
		out.Skip = "method not in this tree's declaration tables"
		return out
	}
	if strings.HasPrefix(c.Path, "/etc/") && !(systemReadOnly[s.F.Full()] && c.Method == "" && (c.Variant == "" || c.Variant == "read")) {
		out.Skip = "system path is only given to read-only functions"
		return out
	}
	if lim, ok := restrictLayouts[s.F.Full()]; ok {
		allowed := false
		for _, l := range lim {
			allowed = allowed || l == c.Layout
		}
		if !allowed {
			out.Skip = "layout excluded for this function (non-terminating recursion, see restrictLayouts)"
			return out
		}
	}
	if c.SQL != "" {
		if ss, _, _ := sqlSlot(ct); ss != s || len(sqlFileStatements[c.SQL]) == 0 || c.Method != "" {
			out.Skip = "SQL-text case needs the slot whose result accepts SQL"
			return out
		}
	}
	path := fx.expand(c.Path)
	src := buildProgram(s, c, path)
	out.Key = strings.Join([]string{c.Slot, c.Variant, c.Method, c.Layout, c.Path, c.SQL}, "|")

	// where does the spelling lead? (needs the links on disk)
	fx.prepare("A", c.Layout)
	// A name with a NUL byte reaches nothing through Go's os package, but an
	// API that takes C strings sees the part before the NUL: that part is
	// what is resolved.
	seen := path
	if i := strings.IndexByte(seen, 0); i >= 0 {
		seen = seen[:i]
	}
	lex := seen
	if !filepath.IsAbs(lex) {
		lex = filepath.Join(fx.root, lex)
	}
	lex = filepath.Clean(lex)
	kernel := resolveM(fx.root, seen)
	escapes := !within(lex, fx.root) || (kernel != "" && !within(kernel, fx.root))
	if c.Mech == "none-bypass" {
		escapes = true // a relative name that exists only in the process cwd
	}
	out.NonTrivial = escapes && s.PathLike

	fname := s.F.Full()
	if c.Method != "" {
		fname += "#" + c.Method
	}
	statsMu.Lock()
	exercised[s.ID()] = true
	if c.Method != "" {
		exercised[s.F.Full()+" -> #"+c.Method] = true
	}
	statsMu.Unlock()
	mech := c.Mech
	if !escapes {
		mech = "none"
	}
	out.Labels = []string{"mech=" + mech, "layout=" + c.Layout, "form=" + c.Form, "pkg=" + s.F.Pkg, "why=" + s.Why}
	if c.Mod != "" {
		out.Labels = append(out.Labels, "mod="+c.Mod)
	}
	if c.Prelude != "" {
		out.Labels = append(out.Labels, "prelude="+c.Prelude)
	}
	if c.Method != "" {
		out.Labels = append(out.Labels, "with-method")
	}
	if c.SQL != "" {
		out.Labels = append(out.Labels, "sql-text="+c.SQL)
		fname = s.F.Pkg + "." + s.F.retType.Name() + " SQL text (" + c.SQL + ")"
	}

	r, viol := direct(src, c.Layout)
	if r.panicked {
		out.Labels = append(out.Labels, "go-panic-in-ego (not a C26 matter)")
	}
	if !escapes && c.Prelude == "" {
		if controlOK(r.out) {
			bump("slot " + s.ID() + " control_ok")
			out.Labels = append(out.Labels, "control: inside path, call succeeded")
		} else {
			bump("slot " + s.ID() + " control_err")
			out.Labels = append(out.Labels, "control: inside path, call returned an error")
		}
	}
	if out.NonTrivial {
		bump("slot " + s.ID() + " nontrivial")
		switch {
		case len(viol) > 0:
			out.Labels = append(out.Labels, "escape: VIOLATION")
		case strings.Contains(r.out, "CATCH:") || strings.Contains(r.out, "#compile: at") || !r.completed:
			out.Labels = append(out.Labels, "escape: refused (runtime/compile error)")
		case controlOK(r.out):
			out.Labels = append(out.Labels, "escape: call succeeded inside the root (clamped)")
		default:
			out.Labels = append(out.Labels, "escape: error value returned")
		}
	}

	if len(viol) > 0 {
		// root-cause narrowing: does the call without the method already
		// fail? does the function ignore the sandbox for a plain absolute
		// outside path too?
		if c.Method != "" {
			nm := c
			nm.Method = ""
			if _, v2 := direct(buildProgram(s, nm, path), c.Layout); len(v2) > 0 {
				fname = s.F.Full()
			}
		}
		sig := fname + " " + mech
		if c.SQL != "" {
			sig = fname + ": a statement can name a file outside the root"
		} else if unsandboxed(s, c) {
			sig = s.F.Full() + " unsandboxed (" + s.F.Params[s.Param].Name + " is used as given)"
		}
		out.Fail = &vkit.Failure{Sig: sig,
			Observed: strings.Join(viol, "; ") + "\nprogram:\n" + src + "output:\n" + clip(r.out, 1200),
			Expected: "nothing outside " + fx.root + " is read, created, modified, listed, stat'ed or deleted (an Ego error or landing inside the root are both fine)"}
		return out
	}

	// differential: for escaping spellings the program must not be able to
	// observe the outside tree at all.
	if out.NonTrivial {
		alt := c.Alt
		if alt != "B" && alt != "C" {
			alt = "C"
		}
		verdict, a1, b := differential(src, c.Layout, alt, r)
		switch verdict {
		case "noisy":
			out.Labels = append(out.Labels, "differential: output not reproducible, no verdict from it")
		case "depends":
			what := map[string]string{"B": "contents/metadata", "C": "existence"}[alt]
			out.Labels = append(out.Labels, "differential: VIOLATION")
			// every sandboxed function resolves its path through the same
			// helper, so what a link lets a program observe is the helper's
			// doing unless this function does not use the helper at all
			via := mech
			if strings.HasPrefix(mech, "symlink-") {
				via = "a symbolic link" // file, dir, chain, dangling: one resolution step in the helper
			}
			sig := "sandbox path helper: " + via + " lets a program observe outside " + what
			if c.SQL != "" {
				sig = fname + ": a statement can name a file outside the root"
			} else if unsandboxed(s, c) {
				sig = s.F.Full() + " unsandboxed (" + s.F.Params[s.Param].Name + " is used as given)"
			}
			out.Fail = &vkit.Failure{Sig: sig,
				Observed: "the program's output depends on the outside tree (" + what + "): with the canary tree:\n" + clip(a1, 700) + "\nwith the " + map[string]string{"B": "altered", "C": "absent"}[alt] + " outside tree:\n" + clip(b, 700) + "\nprogram:\n" + src,
				Expected: "identical output: a sandboxed program cannot stat or read anything outside " + fx.root}
		default:
			out.Labels = append(out.Labels, "differential: output independent of outside tree ("+alt+")")
		}
	}
	return out
}

// differential runs src against the alternate world and once more against
// world A; first is the result already obtained in world A.
func differential(src, layout, alt string, first runResult) (verdict, a1, b string) {
	a1 = mask(first.out)
	rb := runIn(alt, layout, src)
	r2 := runIn("A", layout, src)
	b = mask(rb.out)
	switch {
	case a1 != mask(r2.out):
		return "noisy", a1, b
	case a1 != b:
		return "depends", a1, b
	}
	return "independent", a1, b
}

// unsandboxed reports whether the slot's function uses a plain absolute
// outside path as given (no links involved): a direct violation, or output
// that depends on whether the outside tree exists.
var (
	unsandboxedMu    sync.Mutex
	unsandboxedCache = map[string]bool{}
)

// unsandboxed is a pure function of (slot, variant) and the code under test,
// so its answer is computed once per process.
func unsandboxed(s *slot, c Case) bool {
	key := c.Slot + "|" + c.Variant
	unsandboxedMu.Lock()
	v, ok := unsandboxedCache[key]
	unsandboxedMu.Unlock()
	if ok {
		return v
	}
	v = unsandboxedProbe(s, c)
	unsandboxedMu.Lock()
	unsandboxedCache[key] = v
	unsandboxedMu.Unlock()
	return v
}

func unsandboxedProbe(s *slot, c Case) bool {
	probe := Case{Slot: c.Slot, Variant: c.Variant, Layout: "none", Form: "direct", Alt: "C"}
	pref := prefTarget(s)
	if len(pref) > 2 {
		pref = pref[:2]
	}
	for _, T := range pref {
		src := buildProgram(s, probe, fx.expand("{OUT}/"+T))
		r, v := direct(src, "none")
		if len(v) > 0 {
			return true
		}
		if verdict, _, _ := differential(src, "none", "C", r); verdict == "depends" {
			return true
		}
	}
	return false
}

func clip(s string, n int) string {
	if len(s) > n {
		return s[:n] + "…"
	}
	return s
}

// ---------------------------------------------------------------- generator

var forms = []string{"direct", "direct", "nested", "goroutine", "value", "toplevel"}

func prefTarget(s *slot) []string {
	switch s.F.Pkg {
	case "json":
		return []string{"canary.json", "newfile.json"}
	case "sql":
		return []string{"canary.db", "newfile.db"}
	case "exec":
		return []string{"canary.sh"}
	}
	return []string{"canary.txt", "newfile.txt", "", "sub_out"}
}

func layoutsOf(s *slot) []string {
	if l, ok := restrictLayouts[s.F.Full()]; ok {
		return l
	}
	return layoutNames
}

// mechanisms with their weights in the random part, the layouts that carry
// the links they need, and the targets they make sense for.
var genMechs = []string{"none", "none-bypass", "lexical-dotdot", "lexical-dotdot", "absolute", "absolute",
	"symlink-file", "symlink-file", "symlink-file", "symlink-dir", "symlink-dir", "symlink-dir", "symlink-dangling", "symlink-dangling"}

func layoutsWith(mech string, allowed []string) []string {
	var out []string
	for _, l := range allowed {
		ok := true
		switch mech {
		case "symlink-file":
			ok = l == "file" || l == "chain" || l == "relative" || l == "all"
		case "symlink-dir":
			ok = l == "dir" || l == "chain" || l == "relative" || l == "up" || l == "all"
		case "symlink-dangling":
			ok = l == "dangling" || l == "all"
		}
		if ok {
			out = append(out, l)
		}
	}
	return out
}

// spread draws an index in [0,n) that is uniform over the list: rapid's integer
// generators favour small values and the ends of a range, which would
// concentrate the cases on the alphabetically first functions; the drawn number
// is hashed first. (Order in these lists carries no notion of "simpler", so
// nothing is lost for shrinking.)
func spread(t *rapid.T, label string, n int) int {
	return int(vkit.Hash64(strconv.FormatUint(rapid.Uint64().Draw(t, label), 10)) % uint64(n))
}

func gen(t *rapid.T) Case {
	ct := getCatalogue()
	poolOnce.Do(func() { pool = systematic(false) })
	if rapid.Bool().Draw(t, "systematic") {
		c := pool[spread(t, "index", len(pool))]
		c.Form = rapid.SampledFrom(forms).Draw(t, "form")
		if c.Form == "value" && (c.Method != "" || ct.slots[c.Slot].F.Pkg == "") {
			c.Form = "direct"
		}
		return c
	}
	var c Case
	c.Slot = ct.ids[spread(t, "slot", len(ct.ids))]
	s := ct.slots[c.Slot]
	c.Variant = rapid.SampledFrom(s.Variants).Draw(t, "variant")
	if len(s.Methods) > 0 && rapid.Bool().Draw(t, "use-method") {
		c.Method = s.Methods[spread(t, "method", len(s.Methods))].Name
	}
	mech := rapid.SampledFrom(genMechs).Draw(t, "mech")
	lays := layoutsWith(mech, layoutsOf(s))
	if len(lays) == 0 { // the function's layouts have no such link
		mech = "lexical-dotdot"
		lays = layoutsOf(s)
	}
	c.Layout = rapid.SampledFrom(lays).Draw(t, "layout")
	var pool []string
	if rapid.IntRange(0, 2).Draw(t, "pref-target") > 0 {
		pool = prefTarget(s)
	} else {
		pool = targets
	}
	// keep the targets for which the layout has a spelling of this mechanism
	var fit []string
	for _, T := range pool {
		for _, x := range spellings(c.Layout, T) {
			if x.Mech == mech {
				fit = append(fit, T)
				break
			}
		}
	}
	if len(fit) == 0 {
		for _, T := range targets {
			for _, x := range spellings(c.Layout, T) {
				if x.Mech == mech {
					fit = append(fit, T)
					break
				}
			}
		}
	}
	c.Target = rapid.SampledFrom(fit).Draw(t, "target")
	var sp []spell
	for _, x := range spellings(c.Layout, c.Target) {
		if x.Mech == mech {
			sp = append(sp, x)
		}
	}
	x := rapid.SampledFrom(sp).Draw(t, "spelling")
	c.Class, c.Mech = x.Class, x.Mech
	c.Mod = rapid.SampledFrom(mods).Draw(t, "mod")
	c.Path = applyMod(c.Mod, x.Path)
	if systemReadOnly[s.F.Full()] && rapid.IntRange(0, 24).Draw(t, "system") == 0 {
		c.Class, c.Mech, c.Mod, c.Path, c.Method, c.Variant = "system", "absolute", "", "/etc/hostname", "", ""
	}
	if ss, _, _ := sqlSlot(ct); ss == s && c.Method == "" && !strings.HasPrefix(c.Path, "/etc/") && rapid.IntRange(0, 2).Draw(t, "sql-text") == 0 {
		c.SQL = rapid.SampledFrom(sqlNames).Draw(t, "sql")
	}
	c.Form = rapid.SampledFrom(forms).Draw(t, "form")
	if c.Form == "value" && (c.Method != "" || s.F.Pkg == "") {
		c.Form = "direct"
	}
	c.Prelude = rapid.SampledFrom(preludeNames).Draw(t, "prelude")
	c.Alt = rapid.SampledFrom([]string{"B", "C", "C"}).Draw(t, "alt")
	return c
}

// layoutFor is the smallest layout that has the links a mechanism needs.
func layoutFor(mech string) string {
	switch mech {
	case "symlink-file":
		return "file"
	case "symlink-dir":
		return "dir"
	case "symlink-dangling":
		return "dangling"
	}
	return "none"
}

// systematic enumerates, for every slot and variant: inside targets as
// controls; one spelling of every escape mechanism against each preferred
// target; each receiver function of the result with an inside path, with an
// absolute outside path and through each kind of link; the SQL-text cases.
// core = true keeps the part that is run in full at the start of every run
// (controls, and every mechanism against the first preferred target); the whole
// list is the pool the random part draws half of its cases from.
func systematic(core bool) []Case {
	ct := getCatalogue()
	var cases []Case
	controls := []string{"canary.txt", "canary.json", "canary.db", "canary.sh", "", "sub_out", "newfile.txt", "newdir/deep"}
	allMechs := []string{"none-bypass", "lexical-dotdot", "absolute", "symlink-file", "symlink-dir", "symlink-dangling"}
	for _, id := range ct.ids {
		s := ct.slots[id]
		restricted := restrictLayouts[s.F.Full()]
		escapes := func(v, m, T string, mechs []string) {
			for _, mech := range mechs {
				lay := layoutFor(mech)
				if restricted != nil {
					ok := false
					for _, l := range restricted {
						ok = ok || l == lay
					}
					if !ok {
						continue
					}
				}
				for _, x := range spellings(lay, T) {
					if x.Mech != mech {
						continue
					}
					alt := "C"
					if x.Mech == "absolute" || x.Mech == "symlink-file" {
						alt = "B"
					}
					cases = append(cases, Case{Slot: id, Variant: v, Method: m, Layout: lay, Target: T, Class: x.Class, Mech: x.Mech, Path: x.Path, Form: "direct", Alt: alt})
					break
				}
			}
		}
		for vi, v := range s.Variants {
			if core && vi > 0 && s.F.Pkg == "sql" {
				continue // each SQLite case costs ~0.5 s
			}
			for _, T := range controls {
				cases = append(cases, Case{Slot: id, Variant: v, Layout: "none", Target: T, Class: "rel", Mech: "none", Path: map[bool]string{true: ".", false: T}[T == ""], Form: "direct", Alt: "C"})
			}
			pref := prefTarget(s)
			if !s.PathLike || core {
				pref = pref[:1]
			}
			for _, T := range pref {
				escapes(v, "", T, allMechs)
			}
			if core && s.PathLike && len(prefTarget(s)) > 1 && strings.HasPrefix(prefTarget(s)[1], "new") {
				escapes(v, "", prefTarget(s)[1], []string{"symlink-dangling"})
			}
			if core {
				continue
			}
			if ss, _, _ := sqlSlot(ct); ss == s {
				for _, name := range sqlNames {
					n := len(cases)
					escapes(v, "", "canary.db", []string{"absolute", "symlink-file"})
					escapes(v, "", "newfile.db", []string{"absolute", "symlink-dangling"})
					cases = append(cases, Case{Slot: id, Variant: v, Layout: "none", Target: "newfile.db", Class: "rel", Mech: "none", Path: "{ROOT}/newfile.db", Form: "direct", Alt: "C"})
					for i := n; i < len(cases); i++ {
						cases[i].SQL = name
					}
				}
			}
			for _, m := range s.Methods {
				cases = append(cases, Case{Slot: id, Variant: v, Method: m.Name, Layout: "none", Target: pref[0], Class: "rel", Mech: "none", Path: pref[0], Form: "direct", Alt: "C"})
				if s.PathLike {
					escapes(v, m.Name, pref[0], []string{"absolute", "symlink-file", "symlink-dir"})
					if len(pref) > 1 && strings.HasPrefix(pref[1], "new") {
						escapes(v, m.Name, pref[1], []string{"symlink-dangling"})
					}
				}
			}
		}
	}
	return cases
}

func fixed() []Case { return systematic(true) }

var (
	poolOnce sync.Once
	pool     []Case
)

// ---------------------------------------------------------------- test

func TestC26(t *testing.T) {
	runDir := os.Getenv("VERIF_RUN_DIR")
	if runDir == "" {
		runDir = t.TempDir()
		os.Setenv("VERIF_RUN_DIR", runDir)
	}
	if resolved, err := filepath.EvalSymlinks(runDir); err == nil {
		runDir = resolved // precondition: the root is not reached through a link
	}
	// no console: os.ReadFile(".") and friends ask ui.Prompt, which returns
	// end-of-input at once when stdin is not a terminal
	if devnull, err := os.Open(os.DevNull); err == nil {
		os.Stdin = devnull
	}
	egorun.Init()
	var err error
	fx, err = newFixture(runDir)
	if err != nil {
		t.Fatalf("fixture: %v", err)
	}
	startDir, _ := os.Getwd()
	defer func() {
		_ = os.Chdir(startDir)
		forceRemoveAll(fx.base)
	}()
	envSnapshot = os.Environ()
	ct := getCatalogue()
	if len(ct.ids) < 10 {
		t.Fatalf("catalogue has only %d slots; enumeration is broken", len(ct.ids))
	}

	vkit.Run(t, vkit.Spec[Case]{
		ID:    "C26",
		Level: "exploration",
		Rule: "function slots enumerated from ego's declaration tables (R1 parameter flagged Sandboxed, R2 path-like parameter name, R3 package calls a file-system API) " +
			"x variants x optional receiver function of the result x targets (4 canary files, directories, not-yet-existing names) x spellings (relative, ./, a/../, absolute inside; " +
			"../ chains up to 4 levels, re-entering, absolute outside incl. // and /./ forms, outside tree shares the root's string prefix; through links: to file, to dir, chains, relative targets, dangling, to parent, to inside; " +
			"modifiers: trailing / and /., >PATH_MAX of ./, >NAME_MAX component, NUL) x 9 symlink layouts x call forms (in main, nested function, goroutine, function value, bare top-level statements) x attempts to lift the sandbox first. " +
			"Non-trivial: the slot is a path slot (R1 or R2) and the spelling resolves outside the root lexically or through a link (harness model of kernel path resolution), or names a file that exists only in the process cwd; " +
			"distinct by (slot, variant, method, layout, path).",
		Assumptions: []string{
			"sandboxed execution is what internal/server/admin/run.go does: bytecode.NewContext(...).Sandboxed(true) with ego.runtime.sandbox.path set; egorun reproduces that in-process",
			"the sandbox root exists and is not itself reached through a symbolic link; links inside it are static during a run (no time-of-check/time-of-use races are generated)",
			"the harness's own path model (lexical clean + link walking) decides only what counts as non-trivial, never the verdict; the verdict is the state of the real file system and the program's real output",
			"reads that leave no trace in output or file system (a function that opens an outside file and discards it) are only caught when the differential run shows the outcome depends on the outside tree",
		},
		Gen:       gen,
		Oracle:    oracle,
		Fixed:     fixed,
		Quick:     500,
		Thorough:  4000,
		MaxRounds: 6,
		Extra: func() map[string]any {
			statsMu.Lock()
			defer statsMu.Unlock()
			m := map[string]any{}
			var ex []string
			for k := range exercised {
				ex = append(ex, k)
			}
			sort.Strings(ex)
			m["functions_exercised"] = ex
			var sel []string
			for _, id := range ct.ids {
				s := ct.slots[id]
				sel = append(sel, fmt.Sprintf("%s [%s]%s", id, s.Why, map[bool]string{true: " (refused outright in a sandbox by declaration)", false: ""}[s.F.Blocked]))
			}
			m["function_slots_selected"] = sel
			m["functions_not_exercised"] = ct.skipped
			m["functions_enumerated"] = []string{fmt.Sprintf("%d functions in declaration tables, %d slots selected", ct.allFns, len(ct.ids))}
			var pk []string
			for p, hits := range ct.fsPkgs {
				pk = append(pk, p+": "+strings.Join(hits, " "))
			}
			sort.Strings(pk)
			m["runtime_packages_calling_fs_api"] = pk
			for k, v := range stats {
				m[k] = v
			}
			return m
		},
	})
}
