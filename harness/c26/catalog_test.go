package c26

// Enumeration of the runtime functions the check exercises.
//
// Nothing in this file names a runtime function to *include*: the catalogue is
// built from the declaration tables ego itself registers (packages.List() after
// importing every directory under internal/runtime, builtins.FunctionDictionary,
// and the receiver functions of every type a selected function returns). A
// string parameter becomes a "slot" (the place the generated path goes) when
//
//	R1 the declaration flags the parameter Sandboxed (ego's own statement
//	   that it is a file path), or
//	R2 its name looks like a file/path/dir/name/connection/command, or
//	R3 the package's implementation calls a file-system API (static scan of
//	   internal/runtime/<pkg>/*.go in the tree under test).
//
// Every function that is not exercised is listed in the evidence with the
// reason. The only hand-written tables are (a) argument hints for the *other*
// parameters of a call (so that the control call with an inside path works),
// (b) hazards: calls the harness must not make (console input, network,
// a known non-terminating recursion) and (c) which functions may be pointed
// at a real system file (read-only ones).

import (
	"fmt"
	"os"
	"path/filepath"
	"regexp"
	"sort"
	"strings"
	"sync"

	"github.com/tucats/ego/internal/builtins"
	"github.com/tucats/ego/internal/language/data"
	"github.com/tucats/ego/internal/packages"
	"github.com/tucats/ego/verif/egorun"
)

type param struct {
	Name      string
	Type      string // ego spelling: string, int, []byte, interface{}, ...
	Sandboxed bool
}

type fn struct {
	Pkg      string // "os"; "" for builtins
	Recv     string // receiver type name for methods ("File"), else ""
	Name     string
	Params   []param
	Variadic bool
	ArgMin   int
	ArgMax   int
	Rets     []string // return type spellings
	Blocked  bool     // data.Function.Sandboxed: refused outright in a sandbox
	Native   bool
	retType  *data.Type // first return type, pointer stripped
}

func (f *fn) Full() string {
	if f.Recv != "" {
		return f.Pkg + "." + f.Recv + "#" + f.Name
	}
	if f.Pkg == "" {
		return f.Name
	}
	return f.Pkg + "." + f.Name
}

// slot = one string parameter of one package function that receives the path.
type slot struct {
	F        *fn
	Param    int
	Why      string // R1 declared | R2 named | R3 fs-package
	PathLike bool   // R1 or R2: counts for non-triviality
	Variants []string
	Methods  []*fn // receiver functions of the returned object that can be called
	Hazard   string
}

func (s *slot) ID() string { return s.F.Full() + ":" + s.F.Params[s.Param].Name }

type catalogue struct {
	slots   map[string]*slot
	ids     []string // sorted
	skipped []string // "name: reason"
	fsPkgs  map[string][]string
	allFns  int
}

var (
	catOnce sync.Once
	cat     *catalogue
)

var pathLikeName = regexp.MustCompile(`(?i)(file|path|dir|folder|name$|location|connection|dsn|command|database|source|src$|dest|dst$|target)`)

// file-system API names looked for in a package's implementation (R3).
var fsCall = regexp.MustCompile(`\b[A-Za-z_][A-Za-z0-9_]*\.(Open|OpenFile|Create|CreateTemp|ReadFile|WriteFile|Remove|RemoveAll|Rename|Mkdir|MkdirAll|MkdirTemp|ReadDir|Stat|Lstat|Chmod|Chown|Chdir|Symlink|Link|Readlink|Truncate|Walk|WalkDir|Glob|EvalSymlinks|LookPath|Command|LoadLocation|ServeFile|LoadX509KeyPair)\b`)

// hazards: slots (or whole packages) the harness must not call, with the reason
// that goes into the evidence.
var hazardPkg = map[string]string{
	"rest":  "network client: calls would attempt connections; the only file it reads is a fixed certificate path from the configuration, never a program-supplied path",
	"proxy": "network client",
	"ai":    "network client",
}

var hazardFn = map[string]string{
	"io.Prompt":  "reads the console (readline); not a file-path function",
	"cipher.New": "about a second of key derivation per call, no file access (the parameter called name is a token field)",
}

var hazardMethod = map[string]string{
	"SleepUntil": "sleeps until a wall-clock time",
	"Wait":       "may block",
	"Lock":       "may block",
	"RLock":      "may block",
}

// layoutsFor restricts the symlink layouts of a function (exclusion by
// construction of a defect that is not C26's subject).
var restrictLayouts = map[string][]string{
	// io.Expand recurses through ExpandPath, which applies the sandbox helper
	// again to every directory entry; an entry the helper clamps to the
	// sandbox root (a link that resolves outside; with the proposed fix
	// C26-3 also a dangling link) is then expanded as the root, which contains
	// that entry again: unbounded recursion (observed: no return after 20
	// minutes of CPU; the Go stack grows until the process dies). A liveness
	// defect, not an escape; with such layouts the call cannot be made
	// in-process, so they are not generated for it.
	"io.Expand": {"none", "inside"},
}

// systemReadOnly: functions that only read, and may therefore be given the one
// real system path the check uses (/etc/hostname).
var systemReadOnly = map[string]bool{
	"os.ReadFile": true, "os.Stat": true, "os.Open": true, "io.ReadDir": true,
	"json.ReadFile": true, "exec.LookPath": true,
}

// variant hints: alternative values for a non-slot parameter.
var variantHints = map[string][]string{
	"io.Open:filename": {"", "read", "write", "append", "create"},
	"sql.Open:connection": {"sqlite3", "sqlite"},
}

func repoDir() string {
	if r := os.Getenv("VERIF_REPO"); r != "" {
		return r
	}
	return "/repo"
}

func typeString(t *data.Type) string {
	if t == nil {
		return "?"
	}
	return t.String()
}

func fnFromDecl(pkg, recv string, f data.Function) *fn {
	d := f.Declaration
	if d == nil {
		return nil
	}
	out := &fn{Pkg: pkg, Recv: recv, Name: d.Name, Variadic: d.Variadic, ArgMin: d.ArgCount[0], ArgMax: d.ArgCount[1], Blocked: f.Sandboxed, Native: f.IsNative}
	for _, p := range d.Parameters {
		out.Params = append(out.Params, param{Name: p.Name, Type: typeString(p.Type), Sandboxed: p.Sandboxed})
	}
	for i, r := range d.Returns {
		out.Rets = append(out.Rets, typeString(r))
		if i == 0 && r != nil {
			rt := r
			if rt.IsPointer() {
				rt = rt.BaseType()
			}
			out.retType = rt
		}
	}
	return out
}

var methodName = regexp.MustCompile(`^(?:\([^)]*\)\s*)?([A-Za-z_][A-Za-z0-9_]*)\(`)

func methodsOf(pkg string, t *data.Type) []*fn {
	if t == nil {
		return nil
	}
	var out []*fn
	seen := map[string]bool{}
	for _, s := range t.FunctionNames() {
		m := methodName.FindStringSubmatch(s)
		if m == nil || seen[m[1]] {
			continue
		}
		seen[m[1]] = true
		if f := t.FunctionByName(m[1]); f != nil {
			if mf := fnFromDecl(pkg, t.Name(), *f); mf != nil {
				mf.Name = m[1]
				out = append(out, mf)
			}
		}
	}
	sort.Slice(out, func(i, j int) bool { return out[i].Name < out[j].Name })
	return out
}

func supportedType(t string) bool {
	switch t {
	case "string", "int", "int32", "int64", "bool", "float64", "float32", "byte", "[]byte", "interface{}":
		return true
	}
	return false
}

// nargs returns how many arguments a call passes when the slot is parameter
// idx (or idx < 0 for a method call without a slot).
func (f *fn) nargs(idx int) int {
	n := len(f.Params)
	if f.Variadic && n > 0 {
		n-- // the variadic tail is left empty unless it is the slot
	}
	if f.ArgMin != 0 || f.ArgMax != 0 {
		n = f.ArgMin
		if f.Variadic && len(f.Params) > 0 && n > len(f.Params)-1 {
			n = len(f.Params) - 1
		}
	}
	if idx+1 > n {
		n = idx + 1
	}
	if n > len(f.Params) {
		n = len(f.Params)
	}
	return n
}

func (f *fn) callable(idx int) (bool, string) {
	for i := 0; i < f.nargs(idx); i++ {
		if !supportedType(f.Params[i].Type) {
			return false, fmt.Sprintf("parameter %s has type %s the argument builder cannot construct", f.Params[i].Name, f.Params[i].Type)
		}
	}
	return true, ""
}

// scanFSPackages is R3: which runtime packages call a file-system API.
func scanFSPackages() map[string][]string {
	out := map[string][]string{}
	dirs, _ := os.ReadDir(filepath.Join(repoDir(), "internal", "runtime"))
	for _, d := range dirs {
		if !d.IsDir() {
			continue
		}
		files, _ := filepath.Glob(filepath.Join(repoDir(), "internal", "runtime", d.Name(), "*.go"))
		sort.Strings(files)
		hits := map[string]bool{}
		for _, f := range files {
			if strings.HasSuffix(f, "_test.go") {
				continue
			}
			b, err := os.ReadFile(f)
			if err != nil {
				continue
			}
			for _, line := range strings.Split(string(b), "\n") {
				if i := strings.Index(line, "//"); i >= 0 {
					line = line[:i]
				}
				for _, m := range fsCall.FindAllString(line, -1) {
					// receivers that are plainly values, not packages
					recv := m[:strings.Index(m, ".")]
					if recv == "data" || recv == "errors" || recv == "f" || recv == "fi" || recv == "file" || recv == "info" || recv == "i" || recv == "t" || recv == "c" || recv == "s" || recv == "r" || recv == "this" {
						continue
					}
					hits[m] = true
				}
			}
		}
		if len(hits) > 0 {
			var l []string
			for h := range hits {
				l = append(l, h)
			}
			sort.Strings(l)
			out[d.Name()] = l
		}
	}
	return out
}

func runtimePackageDirs() []string {
	var names []string
	dirs, _ := os.ReadDir(filepath.Join(repoDir(), "internal", "runtime"))
	for _, d := range dirs {
		if d.IsDir() {
			names = append(names, d.Name())
		}
	}
	sort.Strings(names)
	return names
}

func getCatalogue() *catalogue {
	catOnce.Do(func() {
		egorun.Init()
		// make every runtime package known: auto-import covers most, the rest
		// need an explicit import; a name that is not importable just fails to
		// compile and is ignored.
		for _, name := range runtimePackageDirs() {
			egorun.Run("import \""+name+"\"\nfunc main() { }", egorun.Config{Types: "dynamic", Extensions: true, EntryPoint: "main"})
		}
		c := &catalogue{slots: map[string]*slot{}, fsPkgs: scanFSPackages()}
		skip := func(name, why string) { c.skipped = append(c.skipped, name+": "+why) }

		consider := func(f *fn) {
			c.allFns++
			full := f.Full()
			if h, ok := hazardPkg[f.Pkg]; ok {
				skip(full, "not called: "+h)
				return
			}
			if h, ok := hazardFn[full]; ok {
				skip(full, "not called: "+h)
				return
			}
			nstr := 0
			selected := 0
			for i, p := range f.Params {
				if p.Type != "string" {
					continue
				}
				nstr++
				why := ""
				switch {
				case p.Sandboxed:
					why = "R1 declared"
				case pathLikeName.MatchString(p.Name):
					why = "R2 named"
				case len(c.fsPkgs[f.Pkg]) > 0:
					why = "R3 fs-package"
				}
				if why == "" {
					continue
				}
				if ok, reason := f.callable(i); !ok {
					skip(full+":"+p.Name, "selected ("+why+") but "+reason)
					continue
				}
				s := &slot{F: f, Param: i, Why: why, PathLike: why != "R3 fs-package"}
				s.Variants = variantHints[s.ID()]
				if len(s.Variants) == 0 {
					s.Variants = []string{""}
				}
				if f.retType != nil {
					for _, m := range methodsOf(f.Pkg, f.retType) {
						if h, bad := hazardMethod[m.Name]; bad {
							skip(m.Full()+" (on the result of "+full+")", "not called: "+h)
							continue
						}
						if ok, reason := m.callable(-1); ok {
							s.Methods = append(s.Methods, m)
						} else {
							skip(m.Full()+" (on the result of "+full+")", reason)
						}
					}
				}
				c.slots[s.ID()] = s
				selected++
			}
			if selected == 0 {
				switch {
				case nstr == 0:
					skip(full, "no string parameter")
				default:
					skip(full, "string parameters are not path-like by name, not flagged Sandboxed, and the package makes no file-system call")
				}
			}
		}

		for _, path := range packages.List() {
			p := packages.Get(path)
			if p == nil {
				continue
			}
			for _, k := range p.Keys() {
				v, _ := p.Get(k)
				switch x := v.(type) {
				case data.Function:
					if f := fnFromDecl(p.Name, "", x); f != nil {
						if f.Name == "" {
							f.Name = k
						}
						consider(f)
					}
				case *data.Type:
					// receiver functions are reached through the functions
					// that return the type; the ones never reached are listed.
				}
			}
		}
		// builtins (len, append, close, ...)
		var bnames []string
		for k := range builtins.FunctionDictionary {
			bnames = append(bnames, k)
		}
		sort.Strings(bnames)
		for _, k := range bnames {
			d := builtins.FunctionDictionary[k]
			if d.Declaration == nil {
				c.allFns++
				skip(k, "builtin without declaration (no string path parameter)")
				continue
			}
			f := fnFromDecl("", "", data.Function{Declaration: d.Declaration})
			f.Name = k
			consider(f)
		}
		// types whose receiver functions are not reachable from a selected function
		reached := map[string]bool{}
		for _, s := range c.slots {
			if s.F.retType != nil {
				reached[s.F.Pkg+"."+s.F.retType.Name()] = true
			}
		}
		for _, path := range packages.List() {
			p := packages.Get(path)
			if p == nil {
				continue
			}
			for _, k := range p.Keys() {
				v, _ := p.Get(k)
				if t, ok := v.(*data.Type); ok && len(t.FunctionNames()) > 0 && !reached[p.Name+"."+k] {
					skip(p.Name+"."+k+"#*", fmt.Sprintf("%d receiver functions; no selected function returns this type", len(t.FunctionNames())))
				}
			}
		}
		for id := range c.slots {
			c.ids = append(c.ids, id)
		}
		sort.Strings(c.ids)
		sort.Strings(c.skipped)
		dedup := c.skipped[:0]
		for i, x := range c.skipped {
			if i == 0 || x != c.skipped[i-1] {
				dedup = append(dedup, x)
			}
		}
		c.skipped = dedup
		cat = c
	})
	return cat
}
