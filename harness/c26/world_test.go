package c26

// The file-system fixture: a sandbox root, a sibling "outside" tree with
// canaries, a sibling process working directory, all under one base directory
// below $VERIF_RUN_DIR; symlink layouts inside the root; snapshots of
// everything under the base that is not the root.

import (
	"crypto/sha256"
	"database/sql"
	"encoding/hex"
	"fmt"
	"os"
	"path/filepath"
	"sort"
	"strings"
	"time"
)

type fixture struct {
	base string // $VERIF_RUN_DIR/c26-<pid>
	w    string // base/l1/l2/l3/w  (parent of root, outside and cwd)
	root string // w/root           the sandbox root
	out  string // w/root.out       the outside tree (shares the root's string prefix)
	cwd  string // w/cwd            the process working directory during a run
	seed string // base/seed        prepared sqlite files
	// Building a tree costs tens of milliseconds on a loaded machine, a rename
	// costs one system call: pristine copies of the outside tree (worlds A, B)
	// and of the root (one per symlink layout) are kept in base/store and
	// renamed into place; after every run the root is compared with its
	// pristine listing and rebuilt only when the program changed it.
	store        string
	curOut       string            // world whose outside tree is in place: A, B or "" (none)
	curRoot      string            // layout whose root is in place, "" = none
	haveRoot     map[string]bool   // store/root-<layout> (or the in-place root) is pristine
	haveOut      map[string]bool   // store/out-<world> (or the in-place tree) is pristine
	pristineRoot map[string]map[string]string
	region       string // base/l1: everything in it except the root must not change
}

var fx *fixture

// canary tokens. None of the hidden names is ever spelled by a generated
// program, so their appearance in output means a listing of the outside tree.
const (
	tokTxt     = "CANARYTXT_7f3a9c"
	tokJSON    = "CANARYJSON_b81e"
	tokJSONKey = "c26secret_k"
	tokDB      = "canarytbl_c26q"
	tokDBRow   = "CANARYDB_19cd"
	tokSh      = "CANARYSH_55aa"
	tokHidden1 = "hidden_zq7k"
	tokHidden2 = "hidden_m2p8"
	tokCwd     = "CWDCANARY_e4d1"
	txtSize    = 7717
)

var (
	timeA = time.Date(2001, 2, 3, 4, 5, 6, 0, time.UTC)
	timeB = time.Date(1999, 8, 7, 6, 5, 4, 0, time.UTC)
)

func newFixture(runDir string) (*fixture, error) {
	base := filepath.Join(runDir, fmt.Sprintf("c26-%d", os.Getpid()))
	f := &fixture{base: base}
	f.w = filepath.Join(base, "l1", "l2", "l3", "w")
	f.root = filepath.Join(f.w, "root")
	f.out = filepath.Join(f.w, "root.out")
	f.cwd = filepath.Join(f.w, "cwd")
	f.seed = filepath.Join(base, "seed")
	f.store = filepath.Join(base, "store")
	f.region = filepath.Join(base, "l1")
	f.haveRoot, f.haveOut, f.pristineRoot = map[string]bool{}, map[string]bool{}, map[string]map[string]string{}
	forceRemoveAll(base)
	if err := os.MkdirAll(f.seed, 0o755); err != nil {
		return nil, err
	}
	if err := os.MkdirAll(f.store, 0o755); err != nil {
		return nil, err
	}
	// sqlite seeds, made once with the driver ego registers ("sqlite").
	mk := func(name, table, row string) error {
		p := filepath.Join(f.seed, name)
		_ = os.Remove(p)
		db, err := sql.Open("sqlite", p)
		if err != nil {
			return err
		}
		defer db.Close()
		if _, err := db.Exec("create table " + table + "(v text)"); err != nil {
			return err
		}
		_, err = db.Exec("insert into "+table+" values (?)", row)
		return err
	}
	if err := mk("a.db", tokDB, tokDBRow); err != nil {
		return nil, err
	}
	if err := mk("b.db", "alteredtbl", "ALTEREDROW"); err != nil {
		return nil, err
	}
	if err := mk("in.db", "insidetbl", "INSIDEROW"); err != nil {
		return nil, err
	}
	return f, nil
}

func (f *fixture) expand(s string) string {
	s = strings.ReplaceAll(s, "{ROOT}", f.root)
	s = strings.ReplaceAll(s, "{OUT}", f.out)
	return s
}

func mustWrite(p string, b []byte, mode os.FileMode) {
	if err := os.WriteFile(p, b, mode); err != nil {
		panic("c26 fixture: " + err.Error())
	}
	_ = os.Chmod(p, mode)
}

func copyFile(src, dst string, mode os.FileMode) {
	b, err := os.ReadFile(src)
	if err != nil {
		panic("c26 fixture: " + err.Error())
	}
	mustWrite(dst, b, mode)
}

func padTo(s string, n int) []byte {
	b := []byte(s)
	for len(b) < n {
		b = append(b, "filler-line-0123456789\n"...)
	}
	return b[:n]
}

// layouts: link name (relative to root) -> target.
var layoutNames = []string{"none", "file", "dir", "chain", "dangling", "relative", "up", "inside", "all"}

func layoutLinks(layout string) [][2]string {
	file := [][2]string{
		{"lnk_txt", "{OUT}/canary.txt"}, {"lnk_json", "{OUT}/canary.json"},
		{"lnk_db", "{OUT}/canary.db"}, {"lnk_sh", "{OUT}/canary.sh"},
	}
	dir := [][2]string{{"lnk_dir", "{OUT}"}}
	chain := [][2]string{
		{"lnk_m_txt", "{OUT}/canary.txt"}, {"lnk_c_txt", "lnk_m_txt"},
		{"lnk_m_json", "{OUT}/canary.json"}, {"lnk_c_json", "lnk_m_json"},
		{"lnk_m_db", "{OUT}/canary.db"}, {"lnk_c_db", "lnk_m_db"},
		{"lnk_m_sh", "{OUT}/canary.sh"}, {"lnk_c_sh", "lnk_m_sh"},
		{"lnk_m_dir", "{OUT}"}, {"lnk_c_dir", "lnk_m_dir"},
	}
	dangling := [][2]string{
		{"lnk_ghost", "{OUT}/ghost.txt"},
		{"lnk_gm", "{OUT}/ghost2.txt"}, {"lnk_gc", "lnk_gm"},
		{"lnk_gdir", "{OUT}/ghostdir"},
	}
	relative := [][2]string{
		{"lnkr_txt", "../root.out/canary.txt"}, {"lnkr_json", "../root.out/canary.json"},
		{"lnkr_db", "../root.out/canary.db"}, {"lnkr_sh", "../root.out/canary.sh"},
		{"lnkr_dir", "../root.out"}, {"sub/lnkr_up", "../../root.out"},
	}
	up := [][2]string{{"lnk_up", ".."}}
	inside := [][2]string{
		{"lnk_in_txt", "canary.txt"}, {"lnk_in_json", "canary.json"}, {"lnk_in_db", "canary.db"},
		{"lnk_in_sh", "canary.sh"}, {"lnk_in_dir", "sub"}, {"lnk_in_abs", "{ROOT}/canary.txt"},
	}
	switch layout {
	case "file":
		return file
	case "dir":
		return dir
	case "chain":
		return chain
	case "dangling":
		return dangling
	case "relative":
		return relative
	case "up":
		return up
	case "inside":
		return inside
	case "all":
		var all [][2]string
		for _, l := range [][][2]string{file, dir, chain, dangling, relative, up, inside} {
			all = append(all, l...)
		}
		return all
	}
	return nil
}

func forceRemoveAll(p string) {
	if os.RemoveAll(p) == nil {
		return
	}
	_ = filepath.Walk(p, func(q string, info os.FileInfo, err error) error {
		if err == nil && info.IsDir() {
			_ = os.Chmod(q, 0o700)
		}
		return nil
	})
	_ = os.RemoveAll(p)
}

func mkdirs(dirs ...string) {
	for _, d := range dirs {
		if err := os.MkdirAll(d, 0o755); err != nil {
			panic("c26 fixture: " + err.Error())
		}
	}
}

// buildRoot creates the sandbox root in place with the given symlink layout.
func (f *fixture) buildRoot(layout string) {
	forceRemoveAll(f.root)
	mkdirs(f.root, filepath.Join(f.root, "sub"), filepath.Join(f.root, "sub_out"), filepath.Join(f.root, "empty_out"))
	// inside the root: same entry names as outside, different contents
	mustWrite(filepath.Join(f.root, "canary.txt"), []byte("INSIDETXT_line1\nINSIDETXT_line2\n"), 0o644)
	mustWrite(filepath.Join(f.root, "canary.json"), []byte(`{"inside":"INSIDEJSON"}`), 0o644)
	copyFile(filepath.Join(f.seed, "in.db"), filepath.Join(f.root, "canary.db"), 0o644)
	mustWrite(filepath.Join(f.root, "canary.sh"), []byte("#!/bin/sh\n# INSIDESH\nexit 0\n"), 0o755)
	mustWrite(filepath.Join(f.root, "sub", "in2.txt"), []byte("INSIDE2\n"), 0o644)
	for _, l := range layoutLinks(layout) {
		if err := os.Symlink(f.expand(l[1]), filepath.Join(f.root, l[0])); err != nil {
			panic("c26 fixture: " + err.Error())
		}
	}
	f.pristineRoot[layout] = snapshotDir(f.root, "")
	f.haveRoot[layout] = true
	f.curRoot = layout
}

// buildCwd creates the process working directory: files a relative name
// reaches only when a function resolves it against the cwd instead of the root.
func (f *fixture) buildCwd() {
	forceRemoveAll(f.cwd)
	mkdirs(f.cwd)
	mustWrite(filepath.Join(f.cwd, "cwdcanary.txt"), []byte(tokCwd+"\n"), 0o644)
	mustWrite(filepath.Join(f.cwd, "cwdcanary.json"), []byte(`{"cwd":"`+tokCwd+`"}`), 0o644)
}

// buildOut creates the outside tree of world A (canaries) or B (altered) in place.
func (f *fixture) buildOut(world string) {
	forceRemoveAll(f.out)
	mkdirs(f.out, filepath.Join(f.out, "sub_out"), filepath.Join(f.out, "empty_out"))
	var stamp time.Time
	if world == "A" {
		stamp = timeA
		mustWrite(filepath.Join(f.out, "canary.txt"), padTo(tokTxt+"\n"+tokTxt+"_line2\n", txtSize), 0o640)
		mustWrite(filepath.Join(f.out, "canary.json"), []byte(`{"`+tokJSONKey+`":"`+tokJSON+`"}`), 0o644)
		copyFile(filepath.Join(f.seed, "a.db"), filepath.Join(f.out, "canary.db"), 0o644)
		mustWrite(filepath.Join(f.out, "canary.sh"), []byte("#!/bin/sh\n# "+tokSh+"\necho ran > \"$0.ran\"\n"), 0o755)
		mustWrite(filepath.Join(f.out, tokHidden1+".dat"), []byte("hidden one\n"), 0o644)
		mustWrite(filepath.Join(f.out, "sub_out", tokHidden2+".dat"), []byte("hidden two\n"), 0o644)
	} else {
		stamp = timeB
		mustWrite(filepath.Join(f.out, "canary.txt"), []byte("ALTEREDTXT\n"), 0o600)
		mustWrite(filepath.Join(f.out, "canary.json"), []byte(`{"altered":[1,2,3,4,5,6,7,8,9]}`), 0o600)
		copyFile(filepath.Join(f.seed, "b.db"), filepath.Join(f.out, "canary.db"), 0o600)
		mustWrite(filepath.Join(f.out, "canary.sh"), []byte("not a script any more\n"), 0o644)
		mustWrite(filepath.Join(f.out, "altered_hidden_1.dat"), []byte("x\n"), 0o644)
		mustWrite(filepath.Join(f.out, "altered_hidden_2.dat"), []byte("y\n"), 0o644)
		mustWrite(filepath.Join(f.out, "sub_out", "altered_hidden_3.dat"), []byte("z\n"), 0o644)
	}
	// fixed mtimes outside, children before parents
	var paths []string
	_ = filepath.Walk(f.out, func(p string, _ os.FileInfo, err error) error {
		if err == nil {
			paths = append(paths, p)
		}
		return nil
	})
	sort.Sort(sort.Reverse(sort.StringSlice(paths)))
	for _, p := range paths {
		_ = os.Chtimes(p, stamp, stamp)
	}
	f.haveOut[world] = true
	f.curOut = world
}

func mustRename(from, to string) {
	if err := os.Rename(from, to); err != nil {
		panic("c26 fixture: " + err.Error())
	}
}

// prepare puts world ("A" canaries, "B" altered canaries, "C" no outside tree
// at all) and the root with the given symlink layout in place, both pristine,
// and makes f.cwd the process cwd.
func (f *fixture) prepare(world, layout string) {
	_ = os.Chdir(f.base)
	mkdirs(f.w)
	if _, err := os.Stat(filepath.Join(f.cwd, "cwdcanary.txt")); err != nil {
		f.buildCwd()
	}
	// outside tree
	want := world
	if want == "C" {
		want = ""
	}
	if f.curOut != want || (want != "" && !f.haveOut[want]) {
		if f.curOut != "" {
			if f.haveOut[f.curOut] {
				mustRename(f.out, filepath.Join(f.store, "out-"+f.curOut))
			} else {
				forceRemoveAll(f.out)
			}
			f.curOut = ""
		}
		forceRemoveAll(f.out) // whatever a program may have put there
		if want != "" {
			if f.haveOut[want] {
				mustRename(filepath.Join(f.store, "out-"+want), f.out)
				f.curOut = want
			} else {
				f.buildOut(want)
			}
		}
	}
	// root
	if f.curRoot != layout || !f.haveRoot[layout] {
		if f.curRoot != "" && f.haveRoot[f.curRoot] {
			mustRename(f.root, filepath.Join(f.store, "root-"+f.curRoot))
		} else {
			forceRemoveAll(f.root)
		}
		f.curRoot = ""
		if f.haveRoot[layout] {
			mustRename(filepath.Join(f.store, "root-"+layout), f.root)
			f.curRoot = layout
		} else {
			f.buildRoot(layout)
		}
	}
	if err := os.Chdir(f.cwd); err != nil {
		panic("c26 fixture: " + err.Error())
	}
}

// settle is called after a run: whatever the program changed is forgotten so
// that the next prepare rebuilds it.
func (f *fixture) settle(outsideChanged bool) {
	_ = os.Chdir(f.base)
	if f.curRoot != "" {
		now := snapshotDir(f.root, "")
		if !sameSnap(now, f.pristineRoot[f.curRoot]) {
			f.haveRoot[f.curRoot] = false
		}
	}
	if outsideChanged {
		if f.curOut != "" {
			f.haveOut[f.curOut] = false
		}
		// anything else in the region (cwd, stray entries in w or above)
		if f.curOut == "" {
			forceRemoveAll(f.out) // world C: a program may have created it
		}
		forceRemoveAll(f.cwd)
		f.cleanRegion()
	}
}

// cleanRegion removes every entry of the region that is not part of the
// fixture (stray files a program created next to or above the root).
func (f *fixture) cleanRegion() {
	keep := map[string]bool{f.region: true, filepath.Dir(filepath.Dir(f.w)): true, filepath.Dir(f.w): true, f.w: true, f.root: true, f.out: true, f.cwd: true}
	for _, dir := range []string{f.region, filepath.Dir(filepath.Dir(f.w)), filepath.Dir(f.w), f.w} {
		entries, _ := os.ReadDir(dir)
		for _, e := range entries {
			p := filepath.Join(dir, e.Name())
			if !keep[p] {
				forceRemoveAll(p)
			}
		}
	}
}

func sameSnap(a, b map[string]string) bool {
	if len(a) != len(b) {
		return false
	}
	for k, v := range a {
		if b[k] != v {
			return false
		}
	}
	return true
}

// snapshot lists everything in the region (base/l1: the ancestors of the root
// up to four levels, the outside tree, the process cwd) except the sandbox
// root's subtree: path -> "mode size mtime sha | link target".
func (f *fixture) snapshot() map[string]string {
	return snapshotDir(f.region, f.root)
}

func snapshotDir(top, skip string) map[string]string {
	snap := map[string]string{}
	_ = filepath.Walk(top, func(p string, info os.FileInfo, err error) error {
		if err != nil {
			snap[p] = "walk-error " + err.Error()
			return nil
		}
		if p == skip && info.IsDir() {
			return filepath.SkipDir
		}
		rel, _ := filepath.Rel(top, p)
		desc := fmt.Sprintf("%v size=%d mtime=%s", info.Mode(), info.Size(), info.ModTime().UTC().Format(time.RFC3339Nano))
		switch {
		case info.Mode()&os.ModeSymlink != 0:
			t, _ := os.Readlink(p)
			desc = fmt.Sprintf("%v -> %s", info.Mode(), t)
		case info.IsDir():
			desc = fmt.Sprintf("%v mtime=%s", info.Mode(), info.ModTime().UTC().Format(time.RFC3339Nano))
			if p == top {
				desc = fmt.Sprintf("%v", info.Mode())
			}
		case info.Mode().IsRegular():
			if b, err := os.ReadFile(p); err == nil {
				h := sha256.Sum256(b)
				desc += " sha=" + hex.EncodeToString(h[:8])
			}
		}
		snap[rel] = desc
		return nil
	})
	return snap
}

// diffSnap returns the changes outside the root, sorted; directory mtime
// changes are reported after creations/deletions/file changes.
func diffSnap(before, after map[string]string) (created, deleted, modified []string) {
	for p, d := range after {
		if b, ok := before[p]; !ok {
			created = append(created, p+" ["+d+"]")
		} else if b != d {
			modified = append(modified, p+" ["+b+"] => ["+d+"]")
		}
	}
	for p := range before {
		if _, ok := after[p]; !ok {
			deleted = append(deleted, p)
		}
	}
	sort.Strings(created)
	sort.Strings(deleted)
	sort.Strings(modified)
	return
}

// resolveM is the harness's model of where the operating system lands for a
// path as the sandbox would interpret it (relative paths against the root):
// components are walked, symbolic links are followed (also dangling ones and
// chains), "." and ".." are applied after link resolution as the kernel does,
// components that do not exist are appended lexically.
func resolveM(root, path string) string {
	if strings.ContainsRune(path, 0) {
		return "" // the kernel refuses such a name: it reaches nothing
	}
	if !filepath.IsAbs(path) {
		path = root + "/" + path
	}
	return walkLinks("/", strings.Split(path, "/"), 0)
}

func walkLinks(cur string, comps []string, depth int) string {
	for i, c := range comps {
		switch c {
		case "", ".":
			continue
		case "..":
			cur = filepath.Dir(cur)
			continue
		}
		next := filepath.Join(cur, c)
		if depth < 40 {
			if info, err := os.Lstat(next); err == nil && info.Mode()&os.ModeSymlink != 0 {
				if t, err := os.Readlink(next); err == nil {
					rest := comps[i+1:]
					tc := strings.Split(t, "/")
					if filepath.IsAbs(t) {
						return walkLinks("/", append(tc, rest...), depth+1)
					}
					return walkLinks(cur, append(tc, rest...), depth+1)
				}
			}
		}
		cur = next
	}
	return cur
}

func within(p, root string) bool {
	return p == root || strings.HasPrefix(p, root+"/")
}
