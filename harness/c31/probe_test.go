package c31

import (
	"fmt"
	"testing"
	"time"
	"github.com/tucats/ego/internal/defs"
)

func TestProbe(t *testing.T) {
	theT = t
	creds()
	t0 := time.Now()
	template()
	fmt.Println("template", time.Since(t0))
	p := &pair{dir: newCaseDir()}
	td, _ := template()
	copyDir(td, p.dir)
	t0 = time.Now()
	p.open("")
	fmt.Println("open both", time.Since(t0))
	for i := 0; i < 2; i++ {
		t0 = time.Now()
		for k := 0; k < 20; k++ {
			p.s[i].WriteUser(0, defs.User{Name: "alice", Password: "x", Permissions: []string{"a"}})
		}
		fmt.Println(storeNames[i], "20 writes", time.Since(t0))
		t0 = time.Now()
		for k := 0; k < 20; k++ {
			p.s[i].ListUsers(false)
		}
		fmt.Println(storeNames[i], "20 lists", time.Since(t0))
		t0 = time.Now()
		for k := 0; k < 20; k++ {
			p.s[i].WriteUser(0, defs.User{Name: "alice", Password: "x", Permissions: []string{"a"}})
			p.s[i].Flush()
		}
		fmt.Println(storeNames[i], "20 write+flush", time.Since(t0))
		t0 = time.Now()
		p.s[i].Close()
		fmt.Println(storeNames[i], "close", time.Since(t0))
	}
	t0 = time.Now()
	p.open("")
	fmt.Println("reopen both", time.Since(t0))
	u, _ := p.s[0].ReadUser(0, "admin", false)
	fmt.Println(u.Password)
	b, _ := os_ReadFile(p.filePath())
	fmt.Println(string(b))
}

func os_ReadFile(p string) ([]byte, error) { return osReadFile(p) }
