// Package c31 decides property C31 "User stores agree and persist".
//
// A case is a history of operations over four lower-case user names plus the
// default administrator, applied in lockstep to a file-backed user store
// (auth.NewFileService) and a SQLite-backed one (auth.NewDatabaseService), both
// living in a scratch directory under $VERIF_RUN_DIR.
//
// Oracle
//
//	(a) differential: after every step both stores hold the same users
//	    (ListUsers(false) compared as maps keyed by name) and every answer an
//	    operation returns (ReadUser, ListUsers, auth.GetPermissions,
//	    auth.GetPermission, error or no error) is the same for both;
//	(b) persistence: after Close + reopen each store holds what a plain
//	    map model of the history holds (WriteUser = upsert, DeleteUser =
//	    remove; the interface comments in users.go say exactly that), whether
//	    or not Flush was called before Close (users.go: "It is safe to call
//	    Close without first calling Flush").
//
// What is compared, and what is treated as incidental representation
//
//   - users are compared as maps keyed by name, never in iteration order;
//   - nil and empty permission lists are equal; permission lists are compared
//     as multisets (update.go: "permissions are not order-sensitive");
//   - the password field is compared literally first; when the literals differ
//     (only possible for the default administrator, whose password each store
//     hashes with its own salt) it is compared by "verifies the same non-empty
//     candidate passwords" (ValidatePassword rejects the empty candidate before
//     it looks at the store, so the empty candidate is not an answer);
//   - the ID of a user written by the harness is compared literally (both stores
//     are given the same value); the ID of the default administrator is
//     generated per store and is not compared across stores, only for stability
//     within a store;
//   - Passkeys is JSON text: compared after decoding (the file store re-indents
//     it, the SQL store turns nil into an empty non-nil value);
//   - the mask ListUsers(true) puts in the password field is NOT compared
//     literally (file: 10 stars, SQL: 8 stars). The only caller of
//     ListUsers(true), admin/users/list.go, builds its reply without the
//     Password field, so no caller can see the mask. What is asserted is what
//     "suppress" means: the stored credential is not returned.
//
// Preconditions taken from real callers
//
//   - names are already lower-case (auth.SetUser and the handlers lower-case
//     before they reach the store) and non-empty;
//   - the default user handed to the constructors is "admin" with the default
//     (empty) password, as auth.Initialize does without --default-credential;
//     one fixed case uses a non-empty default password (--default-credential
//     user:pass);
//   - Passkeys, when present, is valid JSON (router/webauthn.go stores
//     json.Marshal output); LastTokenAt is an RFC3339 string (router/admin.go);
//   - a permission change is ReadUser, edit, WriteUser [, Flush] against the
//     same store (auth.setPermission, admin/users/update.go);
//   - a reopen stands for a server restart: the process-wide AuthCache does not
//     survive a restart, so the harness removes the entries of its five names
//     from it when it reopens (and at the start of a case). The cache purge an
//     administrator can request (DELETE /admin/caches) is an operation of its
//     own.
package c31

import (
	"crypto/sha256"
	"encoding/hex"
	"encoding/json"
	"fmt"
	"io"
	"os"
	"path/filepath"
	"reflect"
	"sort"
	"strings"
	"sync"
	"testing"

	"github.com/google/uuid"
	"github.com/tucats/ego/internal/caches"
	"github.com/tucats/ego/internal/defs"
	"github.com/tucats/ego/internal/server/auth"
	"github.com/tucats/ego/verif/vkit"
	"golang.org/x/crypto/bcrypt"
	"pgregory.net/rapid"
)

// ---------------------------------------------------------------------------
// case data

// Op is one step of a history. Which fields matter depends on Kind.
type Op struct {
	// write | update | setperm | delete | read | perms | list | flush | reopen | purge
	Kind string `json:"kind"`
	// User indexes names (0..3 the pool, 4 the default administrator).
	User int `json:"user,omitempty"`
	// Cred indexes the credential table (write, update field=password).
	Cred int `json:"cred,omitempty"`
	// ID selects one of three deterministic UUIDs for the user (write).
	ID int `json:"id,omitempty"`
	// Perms is the permission list of a write; Nil makes it a nil slice.
	Perms    []string `json:"perms,omitempty"`
	NilPerms bool     `json:"nil_perms,omitempty"`
	// Passkeys / Token index the passkey and last-token tables (0 = absent).
	Passkeys int `json:"passkeys,omitempty"`
	Token    int `json:"token,omitempty"`
	// Field of an update: password | passkeys | token.
	Field string `json:"field,omitempty"`
	// Perm / Grant: the permission a setperm grants or revokes, or a perms step asks for.
	Perm  string `json:"perm,omitempty"`
	Grant bool   `json:"grant,omitempty"`
	// Flush: the mutating step is followed by Flush (as SetUser, DeleteUser,
	// setPermission do) or not (as the PATCH handler does).
	Flush bool `json:"flush,omitempty"`
	// Suppress is the argument of ListUsers.
	Suppress bool `json:"suppress,omitempty"`
}

// Case is a history plus how the stores come into being.
type Case struct {
	// Fresh: the stores are created by the constructors in an empty directory
	// (first start of a server). Otherwise the case starts from a copy of a
	// pair of stores the constructors created once per process and closed (a
	// restart on an existing user database) -- same content, but it avoids two
	// cost-12 bcrypt hashes per case.
	Fresh bool `json:"fresh,omitempty"`
	// DefaultPassword is the default credential's password handed to the
	// constructors ("" is what auth.Initialize passes by default).
	DefaultPassword string `json:"default_password,omitempty"`
	Ops             []Op   `json:"ops"`
}

const adminIdx = 4

var names = []string{"alice", "bob", "carol", "dave", "admin"}

var permPool = []string{defs.LogonPermission, defs.RootPermission, "ego.table.read", "payroll", "checks"}

var passkeyTable = []string{
	"",
	`[{"id":"AQID","publicKey":"BAUG","attestationType":"none","flags":{"userPresent":true,"backupState":false}}]`,
	`[{"id":"a b","note":"<&> é \"q\"","n":12},{"id":"c","transport":["usb","nfc"]}]`,
}

var tokenTable = []string{"", "2026-01-02T03:04:05Z", "2026-06-30T23:59:59+02:00"}

// plaintexts behind the credential table, also the candidates used to compare
// password fields by behaviour.
var plaintexts = []string{"secret", "Passw0rd!", "correct horse", "zork"}

var candidates = []string{"secret", "Passw0rd!", "correct horse", "zork", "password"}

var (
	credOnce  sync.Once
	credTable []string
)

// creds returns the stored-credential table: bcrypt (minimum cost) of each
// plaintext, one legacy SHA-256 credential and one {plaintext} credential. The
// stores must treat the field as an opaque string.
func creds() []string {
	credOnce.Do(func() {
		for _, p := range plaintexts {
			h, err := bcrypt.GenerateFromPassword([]byte(p), bcrypt.MinCost)
			if err != nil {
				panic(err)
			}
			credTable = append(credTable, string(h))
		}
		s := sha256.Sum256([]byte(plaintexts[0]))
		credTable = append(credTable, hex.EncodeToString(s[:]))
		credTable = append(credTable, "{"+plaintexts[1]+"}")
	})
	return credTable
}

const nCreds = 6

// ---------------------------------------------------------------------------
// the two stores

type svc interface {
	ReadUser(session int, name string, doNotLog bool) (defs.User, error)
	WriteUser(session int, user defs.User) error
	DeleteUser(session int, name string) error
	ListUsers(suppressPasswords bool) map[string]defs.User
	Flush() error
	Close() error
}

var storeNames = [2]string{"file", "db"}

type pair struct {
	dir string
	s   [2]svc
}

func (p *pair) filePath() string { return filepath.Join(p.dir, "users.json") }
func (p *pair) dbURL() string    { return "sqlite3://" + filepath.Join(p.dir, "users.db") }

func dropCacheEntries() {
	for _, n := range names {
		caches.Delete(caches.AuthCache, n)
	}
}

// open (re)creates both services on the files in p.dir.
func (p *pair) open(defaultPassword string) (errs [2]error) {
	dropCacheEntries()
	var f, d svc
	var err error
	if f, err = auth.NewFileService(p.filePath(), names[adminIdx], defaultPassword); err != nil {
		errs[0] = err
	} else {
		p.s[0] = f
	}
	if d, err = auth.NewDatabaseService(p.dbURL(), names[adminIdx], defaultPassword); err != nil {
		errs[1] = err
	} else {
		p.s[1] = d
	}
	return errs
}

func (p *pair) close() (errs [2]error) {
	for i := range p.s {
		if p.s[i] != nil {
			errs[i] = p.s[i].Close()
			p.s[i] = nil
		}
	}
	return errs
}

var (
	scratchOnce sync.Once
	scratchRoot string
	caseSeq     int
	tmplOnce    sync.Once
	tmplDir     string
	tmplErr     error
)

func scratch(t testing.TB) string {
	scratchOnce.Do(func() {
		base := os.Getenv("VERIF_RUN_DIR")
		if base == "" {
			base = t.TempDir()
		}
		scratchRoot = filepath.Join(base, fmt.Sprintf("c31-s%d-p%d", vkit.ShardIndex(), os.Getpid()))
		if err := os.MkdirAll(scratchRoot, 0o700); err != nil {
			panic(err)
		}
	})
	return scratchRoot
}

var theT testing.TB

func newCaseDir() string {
	caseSeq++
	d := filepath.Join(scratch(theT), fmt.Sprintf("case-%d", caseSeq))
	_ = os.RemoveAll(d)
	if err := os.MkdirAll(d, 0o700); err != nil {
		panic(err)
	}
	return d
}

// template builds, once per process, the pair of stores a first server start
// with the default (empty) default password leaves behind.
func template() (string, error) {
	tmplOnce.Do(func() {
		tmplDir = filepath.Join(scratch(theT), "template")
		if err := os.MkdirAll(tmplDir, 0o700); err != nil {
			tmplErr = err
			return
		}
		p := &pair{dir: tmplDir}
		errs := p.open("")
		if errs[0] != nil || errs[1] != nil {
			tmplErr = fmt.Errorf("template open: file=%v db=%v", errs[0], errs[1])
			return
		}
		cerrs := p.close()
		if cerrs[0] != nil || cerrs[1] != nil {
			tmplErr = fmt.Errorf("template close: file=%v db=%v", cerrs[0], cerrs[1])
		}
	})
	return tmplDir, tmplErr
}

func copyDir(from, to string) error {
	ents, err := os.ReadDir(from)
	if err != nil {
		return err
	}
	for _, e := range ents {
		if e.IsDir() {
			continue
		}
		in, err := os.Open(filepath.Join(from, e.Name()))
		if err != nil {
			return err
		}
		out, err := os.OpenFile(filepath.Join(to, e.Name()), os.O_CREATE|os.O_TRUNC|os.O_WRONLY, 0o600)
		if err != nil {
			in.Close()
			return err
		}
		_, err = io.Copy(out, in)
		in.Close()
		if cerr := out.Close(); err == nil {
			err = cerr
		}
		if err != nil {
			return err
		}
	}
	return nil
}

// ---------------------------------------------------------------------------
// normal form of a user record, and the model

type nUser struct {
	Name     string
	ID       string
	Pw       string
	Perms    []string
	Passkeys string
	Token    string
}

func canonJSON(raw json.RawMessage) string {
	if len(strings.TrimSpace(string(raw))) == 0 {
		return ""
	}
	var v any
	if err := json.Unmarshal(raw, &v); err != nil {
		return "!invalid:" + string(raw)
	}
	b, _ := json.Marshal(v)
	return string(b)
}

func normalize(u defs.User) nUser {
	p := append([]string{}, u.Permissions...)
	sort.Strings(p)
	return nUser{Name: u.Name, ID: u.ID.String(), Pw: u.Password, Perms: p, Passkeys: canonJSON(u.Passkeys), Token: u.LastTokenAt}
}

func normalizeMap(m map[string]defs.User) map[string]nUser {
	r := map[string]nUser{}
	for k, v := range m {
		r[k] = normalize(v)
	}
	return r
}

var (
	verifyMu   sync.Mutex
	verifyMemo = map[string]bool{}
)

// verifies says whether a stored credential accepts a candidate, by the three
// formats validate.go documents. Pure, memoised (the default administrator's
// credentials are cost-12 hashes).
func verifies(stored, cand string) bool {
	key := stored + "\x00" + cand
	verifyMu.Lock()
	v, ok := verifyMemo[key]
	verifyMu.Unlock()
	if ok {
		return v
	}
	switch {
	case auth.IsBcryptHash(stored):
		v = bcrypt.CompareHashAndPassword([]byte(stored), []byte(cand)) == nil
	case strings.HasPrefix(stored, "{") && strings.HasSuffix(stored, "}"):
		v = stored[1:len(stored)-1] == cand
	default:
		s := sha256.Sum256([]byte(cand))
		v = hex.EncodeToString(s[:]) == stored
	}
	verifyMu.Lock()
	verifyMemo[key] = v
	verifyMu.Unlock()
	return v
}

// samePassword: literal equality, else the same verdict on every candidate.
func samePassword(a, b string) (bool, string) {
	if a == b {
		return true, ""
	}
	for _, c := range candidates {
		if va, vb := verifies(a, c), verifies(b, c); va != vb {
			return false, fmt.Sprintf("candidate %q: %v vs %v", c, va, vb)
		}
	}
	return true, ""
}

// diffUsers names the first field in which two records differ ("" = equal).
// perStore: the record is the default administrator as a constructor made it;
// its ID is generated per store.
func diffUsers(a, b nUser, perStore bool) (field, detail string) {
	if a.Name != b.Name {
		return "name", fmt.Sprintf("%q vs %q", a.Name, b.Name)
	}
	if !perStore && a.ID != b.ID {
		return "id", fmt.Sprintf("%s vs %s", a.ID, b.ID)
	}
	if ok, why := samePassword(a.Pw, b.Pw); !ok {
		return "password", why
	}
	if len(a.Perms) != len(b.Perms) {
		return "permissions", fmt.Sprintf("%v vs %v", a.Perms, b.Perms)
	}
	for i := range a.Perms {
		if a.Perms[i] != b.Perms[i] {
			return "permissions", fmt.Sprintf("%v vs %v", a.Perms, b.Perms)
		}
	}
	if a.Passkeys != b.Passkeys {
		return "passkeys", fmt.Sprintf("%s vs %s", a.Passkeys, b.Passkeys)
	}
	if a.Token != b.Token {
		return "lasttokenat", fmt.Sprintf("%q vs %q", a.Token, b.Token)
	}
	return "", ""
}

func sortedKeys[V any](m map[string]V) []string {
	ks := make([]string, 0, len(m))
	for k := range m {
		ks = append(ks, k)
	}
	sort.Strings(ks)
	return ks
}

// mUser is what the model holds for a user. Records the harness wrote are the
// same for both stores; a default administrator made by a constructor is
// remembered per store (its ID and password hash are generated there).
type mUser struct {
	rec      [2]nUser
	perStore bool
}

type model map[string]*mUser

// ---------------------------------------------------------------------------
// the oracle

type run struct {
	c     Case
	p     *pair
	m     model
	out   vkit.Outcome
	step  int
	kind  string
	dirty bool // a mutating step since the last explicit Flush or reopen
	// bookkeeping for the non-triviality rule and the labels
	deleted          map[string]bool
	ntUnflushed      bool
	ntRecreate       bool
	reopens          int
	reopenEmpty      bool
	adminDeleted     bool
	lists, reads     int
	maskFile, maskDB string
}

func (r *run) fail(sig, observed, expected string) bool {
	if r.out.Fail == nil {
		r.out.Fail = &vkit.Failure{Sig: sig, Observed: fmt.Sprintf("step %d (%s): %s", r.step, r.kind, observed), Expected: expected}
	}
	return false
}

func errText(e error) string {
	if e == nil {
		return "nil"
	}
	return e.Error()
}

// sameErr: both operations failed or both succeeded.
func (r *run) sameErr(what string, e [2]error) bool {
	if (e[0] == nil) != (e[1] == nil) {
		return r.fail(fmt.Sprintf("diff op=%s %s error on one store only", r.kind, what),
			fmt.Sprintf("%s: file error=%s, db error=%s", what, errText(e[0]), errText(e[1])), "both stores succeed or both fail")
	}
	return true
}

// compareMaps compares the full contents of the two stores with each other.
func (r *run) compareMaps(where string, a, b map[string]nUser) bool {
	for _, k := range sortedKeys(a) {
		if _, ok := b[k]; !ok {
			return r.fail(fmt.Sprintf("diff op=%s %s presence", r.kind, where),
				fmt.Sprintf("%s: user %q is in the file store but not in the db store", where, k), "same set of users in both stores")
		}
	}
	for _, k := range sortedKeys(b) {
		if _, ok := a[k]; !ok {
			return r.fail(fmt.Sprintf("diff op=%s %s presence", r.kind, where),
				fmt.Sprintf("%s: user %q is in the db store but not in the file store", where, k), "same set of users in both stores")
		}
	}
	for _, k := range sortedKeys(a) {
		perStore := r.m[k] != nil && r.m[k].perStore
		if f, d := diffUsers(a[k], b[k], perStore); f != "" {
			return r.fail(fmt.Sprintf("diff op=%s %s field=%s", r.kind, where, f),
				fmt.Sprintf("%s: user %q differs in %s: file vs db: %s", where, k, f, d), "same record in both stores")
		}
	}
	return true
}

// compareModel compares one store's contents with the model.
func (r *run) compareModel(tag string, i int, got map[string]nUser) bool {
	for _, k := range sortedKeys(r.m) {
		if _, ok := got[k]; !ok {
			return r.fail(fmt.Sprintf("%s store=%s lost user", tag, storeNames[i]),
				fmt.Sprintf("user %q is missing from the %s store; it holds %v", k, storeNames[i], sortedKeys(got)), fmt.Sprintf("users %v", sortedKeys(r.m)))
		}
	}
	for _, k := range sortedKeys(got) {
		if _, ok := r.m[k]; !ok {
			return r.fail(fmt.Sprintf("%s store=%s extra user", tag, storeNames[i]),
				fmt.Sprintf("user %q is in the %s store but was deleted or never written", k, storeNames[i]), fmt.Sprintf("users %v", sortedKeys(r.m)))
		}
	}
	for _, k := range sortedKeys(got) {
		want := r.m[k].rec[i]
		g := got[k]
		if r.m[k].perStore && g.ID != want.ID {
			return r.fail(fmt.Sprintf("%s store=%s field=id", tag, storeNames[i]),
				fmt.Sprintf("user %q id changed from %s to %s", k, want.ID, g.ID), "id unchanged")
		}
		if f, d := diffUsers(g, want, r.m[k].perStore); f != "" {
			return r.fail(fmt.Sprintf("%s store=%s field=%s", tag, storeNames[i], f),
				fmt.Sprintf("user %q in the %s store differs from what was written in %s: got vs written: %s", k, storeNames[i], f, d), "the record last written")
		}
	}
	return true
}

func (r *run) listBoth() [2]map[string]nUser {
	var l [2]map[string]nUser
	for i := range r.p.s {
		l[i] = normalizeMap(r.p.s[i].ListUsers(false))
	}
	return l
}

// observe is run after every step.
func (r *run) observe() bool {
	l := r.listBoth()
	if !r.compareMaps("contents", l[0], l[1]) {
		return false
	}
	return r.compareModel("model", 0, l[0]) && r.compareModel("model", 1, l[1])
}

// adoptDefault records the default administrator a constructor has just made.
func (r *run) adoptDefault(l [2]map[string]nUser) {
	r.m[names[adminIdx]] = &mUser{rec: [2]nUser{l[0][names[adminIdx]], l[1][names[adminIdx]]}, perStore: true}
}

func cloneUser(u defs.User) defs.User {
	c := u
	if u.Permissions != nil {
		c.Permissions = append([]string{}, u.Permissions...)
	}
	if u.Passkeys != nil {
		c.Passkeys = append(json.RawMessage{}, u.Passkeys...)
	}
	return c
}

func idFor(name string, k int) uuid.UUID {
	return uuid.NewSHA1(uuid.NameSpaceOID, []byte(fmt.Sprintf("c31/%s/%d", name, k)))
}

func (r *run) setModel(name string, rec [2]nUser, perStore bool) {
	if r.deleted[name] {
		r.ntRecreate = true
	}
	r.m[name] = &mUser{rec: rec, perStore: perStore}
}

func (r *run) afterMutation(flush bool) bool {
	r.dirty = true
	if flush {
		var e [2]error
		for i := range r.p.s {
			e[i] = r.p.s[i].Flush()
		}
		if !r.sameErr("Flush", e) {
			return false
		}
		if e[0] != nil {
			return r.fail("flush fails", "Flush: "+errText(e[0]), "Flush succeeds")
		}
		r.dirty = false
	}
	return true
}

func (r *run) exec(op Op) bool {
	name := names[op.User%len(names)]
	switch op.Kind {
	case "write":
		u := defs.User{Name: name, ID: idFor(name, op.ID), Password: creds()[op.Cred%nCreds], LastTokenAt: tokenTable[op.Token%len(tokenTable)]}
		if !op.NilPerms {
			u.Permissions = append([]string{}, op.Perms...)
		}
		if pk := passkeyTable[op.Passkeys%len(passkeyTable)]; pk != "" {
			u.Passkeys = json.RawMessage(pk)
		}
		var e [2]error
		for i := range r.p.s {
			e[i] = r.p.s[i].WriteUser(0, cloneUser(u))
		}
		if !r.sameErr("WriteUser", e) {
			return false
		}
		if e[0] != nil {
			return r.fail("write fails", "WriteUser: "+errText(e[0]), "WriteUser succeeds")
		}
		n := normalize(u)
		r.setModel(name, [2]nUser{n, n}, false)
		return r.afterMutation(op.Flush)

	case "update", "setperm":
		// read-modify-write against each store's own answer
		var re, we [2]error
		var recs [2]nUser
		for i := range r.p.s {
			var u defs.User
			u, re[i] = r.p.s[i].ReadUser(0, name, false)
			if re[i] != nil {
				continue
			}
			u = cloneUser(u)
			if op.Kind == "setperm" {
				at := -1
				for j, p := range u.Permissions {
					if strings.EqualFold(p, op.Perm) {
						at = j
						break
					}
				}
				if op.Grant && at < 0 {
					u.Permissions = append(u.Permissions, op.Perm)
				} else if !op.Grant && at >= 0 {
					u.Permissions = append(u.Permissions[:at], u.Permissions[at+1:]...)
				}
			} else {
				switch op.Field {
				case "password":
					u.Password = creds()[op.Cred%nCreds]
				case "passkeys":
					if pk := passkeyTable[op.Passkeys%len(passkeyTable)]; pk != "" {
						u.Passkeys = json.RawMessage(pk)
					} else {
						u.Passkeys = nil
					}
				default:
					u.LastTokenAt = tokenTable[op.Token%len(tokenTable)]
				}
			}
			recs[i] = normalize(u)
			we[i] = r.p.s[i].WriteUser(0, u)
		}
		if !r.sameErr("ReadUser", re) || !r.sameErr("WriteUser", we) {
			return false
		}
		_, inModel := r.m[name]
		if (re[0] == nil) != inModel {
			return r.fail(fmt.Sprintf("model op=%s read presence", r.kind),
				fmt.Sprintf("ReadUser(%q) error=%s but the model says present=%v", name, errText(re[0]), inModel), "ReadUser finds exactly the users written and not deleted")
		}
		if re[0] != nil {
			return true
		}
		if we[0] != nil {
			return r.fail("write fails", "WriteUser: "+errText(we[0]), "WriteUser succeeds")
		}
		// the model applies the same edit to what it holds
		r.setModel(name, recs, r.m[name].perStore)
		return r.afterMutation(op.Flush)

	case "delete":
		var e [2]error
		for i := range r.p.s {
			e[i] = r.p.s[i].DeleteUser(0, name)
		}
		if !r.sameErr("DeleteUser", e) {
			return false
		}
		if _, ok := r.m[name]; ok {
			delete(r.m, name)
			r.deleted[name] = true
			if op.User%len(names) == adminIdx {
				r.adminDeleted = true
			}
		}
		return r.afterMutation(op.Flush)

	case "read":
		r.reads++
		var e [2]error
		var u [2]defs.User
		for i := range r.p.s {
			u[i], e[i] = r.p.s[i].ReadUser(0, name, false)
		}
		if !r.sameErr("ReadUser", e) {
			return false
		}
		mu, inModel := r.m[name]
		if (e[0] == nil) != inModel {
			return r.fail("model op=read presence",
				fmt.Sprintf("ReadUser(%q) error=%s but the model says present=%v", name, errText(e[0]), inModel), "ReadUser finds exactly the users written and not deleted")
		}
		if e[0] != nil {
			return true
		}
		a, b := normalize(u[0]), normalize(u[1])
		if f, d := diffUsers(a, b, mu.perStore); f != "" {
			return r.fail("diff op=read field="+f, fmt.Sprintf("ReadUser(%q) differs in %s: file vs db: %s", name, f, d), "same record from both stores")
		}
		for i, g := range []nUser{a, b} {
			if f, d := diffUsers(g, mu.rec[i], mu.perStore); f != "" {
				return r.fail(fmt.Sprintf("model op=read store=%s field=%s", storeNames[i], f),
					fmt.Sprintf("ReadUser(%q) on the %s store differs from what was written in %s: %s", name, storeNames[i], f, d), "the record last written")
			}
		}
		return true

	case "perms":
		var lists [2][]string
		var has [2]bool
		saved := auth.AuthService
		for i := range r.p.s {
			auth.AuthService = r.p.s[i]
			lists[i] = append([]string{}, auth.GetPermissions(0, name)...)
			has[i] = auth.GetPermission(0, name, op.Perm)
			sort.Strings(lists[i])
		}
		auth.AuthService = saved
		if !reflect.DeepEqual(lists[0], lists[1]) {
			return r.fail("diff op=perms GetPermissions", fmt.Sprintf("GetPermissions(%q): file %v, db %v", name, lists[0], lists[1]), "same permissions from both stores")
		}
		if has[0] != has[1] {
			return r.fail("diff op=perms GetPermission", fmt.Sprintf("GetPermission(%q,%q): file %v, db %v", name, op.Perm, has[0], has[1]), "same answer from both stores")
		}
		want := []string{}
		if mu, ok := r.m[name]; ok {
			want = mu.rec[0].Perms
		}
		if !reflect.DeepEqual(lists[0], append([]string{}, want...)) {
			return r.fail("model op=perms GetPermissions", fmt.Sprintf("GetPermissions(%q) = %v", name, lists[0]), fmt.Sprintf("%v", want))
		}
		return true

	case "list":
		r.lists++
		var l [2]map[string]defs.User
		for i := range r.p.s {
			l[i] = r.p.s[i].ListUsers(op.Suppress)
		}
		a, b := normalizeMap(l[0]), normalizeMap(l[1])
		if op.Suppress {
			// the mask is not an answer (see the package comment); what is
			// asserted is that the stored credential is not handed out.
			for i, m := range []map[string]nUser{a, b} {
				for _, k := range sortedKeys(m) {
					if mu, ok := r.m[k]; ok && m[k].Pw == mu.rec[i].Pw {
						return r.fail("list suppress=true returns the stored credential store="+storeNames[i],
							fmt.Sprintf("ListUsers(true) on the %s store returns the stored credential of %q", storeNames[i], k), "password suppressed")
					}
					if i == 0 {
						r.maskFile = m[k].Pw
					} else {
						r.maskDB = m[k].Pw
					}
					v := m[k]
					v.Pw = ""
					m[k] = v
				}
			}
			if !r.compareMaps("ListUsers(true)", a, b) {
				return false
			}
			return true
		}
		return r.compareMaps("ListUsers(false)", a, b)

	case "flush":
		var e [2]error
		for i := range r.p.s {
			e[i] = r.p.s[i].Flush()
		}
		if !r.sameErr("Flush", e) {
			return false
		}
		if e[0] != nil {
			return r.fail("flush fails", "Flush: "+errText(e[0]), "Flush succeeds")
		}
		r.dirty = false
		return true

	case "purge":
		caches.Purge(caches.AuthCache)
		return true

	case "reopen":
		r.reopens++
		if r.dirty {
			r.ntUnflushed = true
		}
		ce := r.p.close()
		if !r.sameErr("Close", ce) {
			return false
		}
		if ce[0] != nil {
			return r.fail("close fails", "Close: "+errText(ce[0]), "Close succeeds")
		}
		oe := r.p.open(r.c.DefaultPassword)
		if oe[0] != nil || oe[1] != nil {
			r.p.close()
			return r.fail("reopen fails", fmt.Sprintf("reopen: file error=%s, db error=%s", errText(oe[0]), errText(oe[1])), "both stores reopen")
		}
		r.dirty = false
		l := r.listBoth()
		admin := names[adminIdx]
		if len(r.m) == 0 {
			// No user is left: both constructors make a new default
			// administrator (users_file.go: "so there is always at least one
			// credential"; users_sqldb.go: "Does the default user already
			// exist? If not, create it").
			r.reopenEmpty = true
			for i := range l {
				if _, ok := l[i][admin]; !ok || len(l[i]) != 1 {
					return r.fail("reopen of an empty store: default user not re-created store="+storeNames[i],
						fmt.Sprintf("the %s store reopened with users %v", storeNames[i], sortedKeys(l[i])), "only the default user")
				}
			}
			r.adoptDefault(l)
		} else if _, ok := r.m[admin]; !ok {
			// The default user was deleted and other users remain. The
			// default credential applies "only when no existing user
			// database is found" (docs/DOCKER.md), "when there is no user
			// database" (docs/SERVER.md, ego.logon.defaultuser).
			for i := range l {
				if _, back := l[i][admin]; back {
					return r.fail("reopen: deleted default user re-created while other users exist store="+storeNames[i],
						fmt.Sprintf("after Close+reopen the %s store holds %v; %q had been deleted and %v remained", storeNames[i], sortedKeys(l[i]), admin, sortedKeys(r.m)),
						fmt.Sprintf("users %v in both stores (the other store holds %v)", sortedKeys(r.m), sortedKeys(l[1-i])))
				}
			}
		}
		if !r.compareMaps("after-reopen", l[0], l[1]) {
			return false
		}
		return r.compareModel("persist", 0, l[0]) && r.compareModel("persist", 1, l[1])
	}
	panic("unknown op kind " + op.Kind)
}

func oracle(c Case) (out vkit.Outcome) {
	r := &run{c: c, m: model{}, deleted: map[string]bool{}}
	r.p = &pair{dir: newCaseDir()}
	defer func() {
		r.p.close()
		dropCacheEntries()
		_ = os.RemoveAll(r.p.dir)
	}()

	if !c.Fresh {
		if c.DefaultPassword != "" {
			return vkit.Outcome{Skip: "template stores exist only for the empty default password"}
		}
		t, err := template()
		if err != nil {
			return vkit.Outcome{Inconclusive: "template: " + err.Error()}
		}
		if err := copyDir(t, r.p.dir); err != nil {
			return vkit.Outcome{Inconclusive: "template copy: " + err.Error()}
		}
	}
	r.kind = "open"
	oe := r.p.open(c.DefaultPassword)
	if oe[0] != nil || oe[1] != nil {
		r.fail("open fails", fmt.Sprintf("open: file error=%s, db error=%s", errText(oe[0]), errText(oe[1])), "both stores open")
		return r.out
	}
	l := r.listBoth()
	admin := names[adminIdx]
	ok := true
	for i := range l {
		if _, has := l[i][admin]; !has || len(l[i]) != 1 {
			ok = r.fail("open: default user missing store="+storeNames[i], fmt.Sprintf("the %s store opened with users %v", storeNames[i], sortedKeys(l[i])), "only the default user")
		}
	}
	if ok {
		r.adoptDefault(l)
		// The default user the two constructors make must be the same user:
		// same permissions, and a credential that accepts the same passwords.
		if f, d := diffUsers(l[0][admin], l[1][admin], true); f != "" {
			ok = r.fail(fmt.Sprintf("open: default user differs between stores field=%s default-password-given=%v", f, c.DefaultPassword != ""),
				fmt.Sprintf("constructors called with default user %q, default password %q: the default user differs in %s: file vs db: %s", admin, c.DefaultPassword, f, d),
				"the same default user from both constructors")
		}
	}
	for i, op := range c.Ops {
		if !ok {
			break
		}
		r.step, r.kind = i+1, op.Kind
		ok = r.exec(op)
		if ok && op.Kind != "reopen" {
			ok = r.observe()
		}
	}
	if ok {
		// final sweep through ReadUser (the path with the cache in front)
		r.step, r.kind = len(c.Ops)+1, "read"
		for i := range names {
			if ok {
				ok = r.exec(Op{Kind: "read", User: i})
			}
		}
	}

	out = r.out
	out.NonTrivial = r.ntUnflushed || r.ntRecreate
	kinds := map[string]bool{}
	for _, op := range c.Ops {
		kinds[op.Kind] = true
	}
	for _, k := range sortedKeys(kinds) {
		out.Labels = append(out.Labels, "has:"+k)
	}
	switch n := len(c.Ops); {
	case n <= 5:
		out.Labels = append(out.Labels, "len:1-5")
	case n <= 15:
		out.Labels = append(out.Labels, "len:6-15")
	default:
		out.Labels = append(out.Labels, "len:16+")
	}
	if r.ntUnflushed {
		out.Labels = append(out.Labels, "nt:reopen-after-unflushed-write")
	}
	if r.ntRecreate {
		out.Labels = append(out.Labels, "nt:delete-then-recreate")
	}
	if r.reopens > 0 && !r.ntUnflushed {
		out.Labels = append(out.Labels, "reopen-only-after-flush")
	}
	if r.reopens >= 2 {
		out.Labels = append(out.Labels, "reopens>=2")
	}
	if r.reopenEmpty {
		out.Labels = append(out.Labels, "reopen-with-no-user-left")
	}
	if r.adminDeleted {
		out.Labels = append(out.Labels, "default-user-deleted")
	}
	if c.Fresh {
		out.Labels = append(out.Labels, "fresh-stores")
	}
	if r.maskFile != "" && r.maskFile != r.maskDB {
		out.Labels = append(out.Labels, fmt.Sprintf("incidental: ListUsers(true) mask file=%d db=%d chars", len(r.maskFile), len(r.maskDB)))
	}
	return out
}

// ---------------------------------------------------------------------------
// generator

func genPerms(t *rapid.T) ([]string, bool) {
	switch rapid.IntRange(0, 9).Draw(t, "permshape") {
	case 0:
		return nil, true
	case 1:
		return []string{}, false
	}
	n := rapid.IntRange(1, 3).Draw(t, "nperms")
	seen := map[string]bool{}
	var p []string
	for i := 0; i < n; i++ {
		x := rapid.SampledFrom(permPool).Draw(t, "perm")
		if !seen[x] {
			seen[x] = true
			p = append(p, x)
		}
	}
	return p, false
}

func genUser(t *rapid.T) int {
	// the default administrator is addressed less often than the pool
	if rapid.IntRange(0, 9).Draw(t, "admin?") == 0 {
		return adminIdx
	}
	return rapid.IntRange(0, 3).Draw(t, "user")
}

func genOp(t *rapid.T) Op {
	k := rapid.IntRange(0, 99).Draw(t, "opclass")
	switch {
	case k < 26:
		op := Op{Kind: "write", User: genUser(t), Cred: rapid.IntRange(0, nCreds-1).Draw(t, "cred"), ID: rapid.IntRange(0, 2).Draw(t, "id"),
			Flush: rapid.Bool().Draw(t, "flush")}
		op.Perms, op.NilPerms = genPerms(t)
		if rapid.IntRange(0, 3).Draw(t, "pk?") == 0 {
			op.Passkeys = rapid.IntRange(1, len(passkeyTable)-1).Draw(t, "pk")
		}
		if rapid.IntRange(0, 3).Draw(t, "tok?") == 0 {
			op.Token = rapid.IntRange(1, len(tokenTable)-1).Draw(t, "tok")
		}
		return op
	case k < 36:
		op := Op{Kind: "update", User: genUser(t), Field: rapid.SampledFrom([]string{"password", "passkeys", "token"}).Draw(t, "field"), Flush: rapid.Bool().Draw(t, "flush")}
		switch op.Field {
		case "password":
			op.Cred = rapid.IntRange(0, nCreds-1).Draw(t, "cred")
		case "passkeys":
			op.Passkeys = rapid.IntRange(0, len(passkeyTable)-1).Draw(t, "pk")
		default:
			op.Token = rapid.IntRange(0, len(tokenTable)-1).Draw(t, "tok")
		}
		return op
	case k < 50:
		return Op{Kind: "setperm", User: genUser(t), Perm: rapid.SampledFrom(permPool).Draw(t, "perm"), Grant: rapid.Bool().Draw(t, "grant"), Flush: rapid.Bool().Draw(t, "flush")}
	case k < 62:
		return Op{Kind: "delete", User: genUser(t), Flush: rapid.Bool().Draw(t, "flush")}
	case k < 70:
		return Op{Kind: "read", User: genUser(t)}
	case k < 76:
		return Op{Kind: "perms", User: genUser(t), Perm: rapid.SampledFrom(permPool).Draw(t, "perm")}
	case k < 81:
		return Op{Kind: "list", Suppress: rapid.Bool().Draw(t, "suppress")}
	case k < 85:
		return Op{Kind: "flush"}
	case k < 88:
		return Op{Kind: "purge"}
	default:
		return Op{Kind: "reopen"}
	}
}

func gen(t *rapid.T) Case {
	c := Case{Fresh: rapid.IntRange(0, 39).Draw(t, "fresh?") == 17}
	n := rapid.IntRange(3, 24).Draw(t, "nops")
	for i := 0; i < n; i++ {
		c.Ops = append(c.Ops, genOp(t))
	}
	return c
}

func fixed() []Case {
	w := func(u int, flush bool) Op {
		return Op{Kind: "write", User: u, Cred: 0, Perms: []string{defs.LogonPermission}, Flush: flush}
	}
	return []Case{
		// first start, default credential without a password (the default)
		{Fresh: true, Ops: []Op{{Kind: "list", Suppress: true}, {Kind: "reopen"}}},
		// first start with --default-credential admin:secret
		{Fresh: true, DefaultPassword: "secret", Ops: []Op{{Kind: "read", User: adminIdx}}},
		// a write that is never flushed survives Close
		{Ops: []Op{w(0, false), {Kind: "reopen"}, {Kind: "read", User: 0}}},
		// delete, re-create with other content, restart
		{Ops: []Op{w(1, true), {Kind: "delete", User: 1}, {Kind: "write", User: 1, Cred: 4, ID: 1, NilPerms: true, Passkeys: 2, Token: 1}, {Kind: "reopen"}, {Kind: "perms", User: 1, Perm: defs.LogonPermission}}},
		// a permission change that is not flushed, cache purged, restart
		{Ops: []Op{w(2, true), {Kind: "setperm", User: 2, Perm: "payroll", Grant: true}, {Kind: "purge"}, {Kind: "reopen"}, {Kind: "perms", User: 2, Perm: "payroll"}}},
		// the default user is deleted, another user remains, restart
		{Ops: []Op{w(0, true), {Kind: "delete", User: adminIdx, Flush: true}, {Kind: "reopen"}, {Kind: "list"}}},
		// every user is deleted, restart
		{Ops: []Op{{Kind: "delete", User: adminIdx}, {Kind: "reopen"}, {Kind: "list"}}},
	}
}

func TestC31(t *testing.T) {
	theT = t
	creds()
	vkit.Run(t, vkit.Spec[Case]{
		ID:    "C31",
		Level: "exploration",
		Rule: "histories of 3..24 steps (write, read-modify-write of password/passkeys/last-token, grant/revoke a permission, delete, read, " +
			"GetPermissions/GetPermission, list with and without suppression, flush, admin cache purge, close+reopen) over alice/bob/carol/dave and the " +
			"default user admin, applied in lockstep to a file store and a SQLite store; mutating steps are followed by Flush or not. " +
			"Non-trivial: the history reopens the stores while a write/delete has not been followed by an explicit Flush, or it re-creates a user it deleted; distinct by history.",
		Assumptions: []string{
			"names are lower-case and non-empty (auth.SetUser and the handlers lower-case before the store is reached)",
			"Passkeys is valid JSON and is compared after decoding; permission lists are compared as multisets with nil = empty",
			"password fields are compared literally, else by the verdicts on five non-empty candidate passwords; the default user's ID is per store",
			"the ListUsers(true) mask (file 10 stars, db 8 stars) is not an answer: its only caller drops the Password field",
			"a reopen is a server restart: the harness removes its names from the process-wide AuthCache at that point",
			"after a restart the default user exists iff it was not deleted or no user is left (docs: the default credential applies only when there is no user database)",
		},
		Gen:      gen,
		Oracle:   oracle,
		Fixed:    fixed,
		Quick:    100,
		Thorough: 2000,
	})
}
