package c31
import "os"
var osReadFile = os.ReadFile
