// Package c40 decides property C40: "No request can crash a handler".
//
// Every route of the real route table (ego server run, hook H1/H2) receives
// generated requests — odd path variables, declared / undeclared / duplicated
// query parameters of the wrong type, header variants, bodies that are near
// the documented payload (one field dropped, retyped, nested, huge) or plain
// garbage — as the administrator, as a non-admin user, with broken credentials
// and with none, against a populated server. The router's last-resort panic
// recovery is switched off (ego.server.panic.recovery=false), so a handler
// panic reaches the harness: the verdict is Response.Panic == nil. Any status
// code is fine.
//
// Preconditions taken from real callers:
//
//   - Requests are what Go's net/http server hands to the router: the request
//     target parses (srvfix reports an unparsable target as status -1; such a
//     case is skipped), header values are trimmed, single-valued, without CR/LF
//     or NUL, the method is one of the standard tokens.
//     Content-Length always matches the body (net/http enforces it for a real
//     connection; httptest cannot express a mismatch).
//   - The server state is the one `ego server run` builds; between requests the
//     harness puts back what a request destroyed (see restore): configuration,
//     the three users, the two DSNs and their grant, the table and its rows,
//     logger switches, open transactions. Nothing is excluded from the input
//     space for the sake of the fixture, except:
//   - POST /services/admin/down and POST /services/cluster/shutdown are
//     replaced by a stub (they end the process);
//   - the Ego programs sent to /admin/run are drawn from a fixed list of
//     terminating programs (a generated program that loops forever or
//     exhausts the Go stack is property C07's subject, not a handler crash).
//     Both are counted in the label histogram ("stubbed …").
//   - The configuration state of the server is a drawn dimension of every case
//     (Case.Cfg), not a constant: the set of active loggers (baseline, none,
//     all 29, each single logger, REST plus one, random subsets), the log
//     format (text / json / indented) and up to three of 33 settings that
//     switch handler branches at request time (toggles in gen_test.go; the
//     ones left out and why are listed there). An operator sets all of these
//     with `ego server logging`, POST /admin/loggers and PATCH /admin/config,
//     so every drawn state is one a production server can be in. The state is
//     applied before the request and put back after it.
//   - The server log is written to a file inside the fixture directory, as for
//     `ego server start` (so the log-tail handler reads a real log); the file
//     is truncated when it passes 256 KB or when a case logs in another format
//     than the file holds (a real server writes one format per file).
//   - ego.server.ai.endpoint points at a closed loopback port, so the generate
//     handler runs up to the outbound call and fails fast without a network.
//   - Login lockout is disabled (ego.server.auth.maxattempts=0), otherwise the
//     generated wrong-password requests would lock the administrator out and
//     every later administrator case would stop at the gate with 429.
package c40

import (
	"bufio"
	"database/sql"
	"encoding/json"
	"fmt"
	"net/http"
	"os"
	"path/filepath"
	"sort"
	"strconv"
	"strings"
	"sync"
	"testing"

	"github.com/tucats/ego/internal/cli/settings"
	"github.com/tucats/ego/internal/cli/ui"
	"github.com/tucats/ego/internal/defs"
	egodsns "github.com/tucats/ego/internal/dsns"
	"github.com/tucats/ego/internal/router"
	"github.com/tucats/ego/internal/server/auth"
	"github.com/tucats/ego/verif/srvfix"
	"github.com/tucats/ego/verif/vkit"
	"golang.org/x/crypto/bcrypt"
	_ "modernc.org/sqlite"
	"pgregory.net/rapid"
)

// ---------------------------------------------------------------- fixture

const (
	adminName  = "admin"
	adminPass  = "secret0"
	userName   = "c40user"
	userPass   = "pw-user-1"
	victimName = "c40victim"
	victimPass = "pw-victim-1"
	dsnOpen    = "c40dsn"
	dsnRestr   = "c40r"
	tableName  = "c40t"
)

type env struct {
	f         *srvfix.Fixture
	routes    []router.VerifRouteInfo
	weighted  []router.VerifRouteInfo
	adminTok  string
	userTok   string
	revoked   string // a token whose id is on the blacklist
	revokedID string
	dbFile    string
	db        *sql.DB
	settings  map[string]string
	users     map[string]defs.User
	dsns      map[string]defs.DSN
	loggers   map[string]bool
	logNames  []string               // every logger name, sorted
	logPath   string                 // the server log file inside the fixture directory
	logFmt    string                 // format of what the current log file holds
	reached   *router.VerifRouteInfo // set by the probe when a handler is entered
	stubbed   bool
	restores  map[string]int
	dims      map[string]int // fine-grained counters of the configuration / size dimensions
}

var (
	envOnce sync.Once
	theEnv  *env
	envErr  error
)

const createTableSQL = `CREATE TABLE IF NOT EXISTS "c40t" ("id" integer, "name" text, "score" real, "ok" boolean, "_row_id_" text)`

var baselineRows = [][]any{
	{1, "alpha", 1.5, true, "00000000-0000-0000-0000-000000000001"},
	{2, "beta", 2.5, false, "00000000-0000-0000-0000-000000000002"},
	{3, "gamma 'quoted'", -3.25, true, "00000000-0000-0000-0000-000000000003"},
	{4, "", 0.0, false, "00000000-0000-0000-0000-000000000004"},
	{5, "ünïcode ☃", 1e10, true, "00000000-0000-0000-0000-000000000005"},
}

func getEnv() (*env, error) {
	envOnce.Do(func() {
		f, err := srvfix.Start(srvfix.Options{UserStore: "sqlite", Settings: map[string]string{
			defs.AuthMaxAttemptsSetting:       "0",
			defs.ServerAIModelSetting:         "c40-model",
			defs.ServerAIEndpointSetting:      "http://127.0.0.1:9/c40",
			defs.ServerAITimeoutSetting:       "2s",
			defs.WebAuthnAllowPasskeysSetting: "true",
			defs.WebAuthnRPIDSetting:          "localhost",
		}})
		if err != nil {
			envErr = err
			return
		}
		e := &env{f: f, restores: map[string]int{}, dims: map[string]int{}, users: map[string]defs.User{}, dsns: map[string]defs.DSN{}, loggers: map[string]bool{}}
		fail := func(what string, err error) bool {
			if err != nil && envErr == nil {
				envErr = fmt.Errorf("%s: %w", what, err)
			}
			return envErr != nil
		}
		e.adminTok, err = f.AdminToken()
		if fail("admin logon", err) {
			return
		}
		if fail("create user", f.CreateUser(e.adminTok, userName, userPass, []string{defs.LogonPermission, defs.TableReadPermission, defs.TableUpdatePermission})) {
			return
		}
		if fail("create victim", f.CreateUser(e.adminTok, victimName, victimPass, []string{defs.LogonPermission})) {
			return
		}
		e.dbFile = filepath.Join(f.Dir, "c40.db")
		if fail("dsn", f.CreateSQLiteDSN(e.adminTok, dsnOpen, e.dbFile, false)) {
			return
		}
		if fail("dsn", f.CreateSQLiteDSN(e.adminTok, dsnRestr, e.dbFile, true)) {
			return
		}
		hj := srvfix.Bearer(e.adminTok)
		hj["Content-Type"] = "application/json"
		r := f.Do(srvfix.Request{Method: "POST", Path: "/dsns/@permissions", Header: hj, Body: `{"dsn":"` + dsnRestr + `","user":"` + userName + `","actions":["read","write"]}`})
		if r.Status != 200 {
			// not fatal: the grant is restored through the service below
			_ = egodsns.DSNService.GrantDSN(0, userName, dsnRestr, egodsns.DSNReadAction+egodsns.DSNWriteAction, true)
		}
		if fail("table", e.resetTables()) {
			return
		}
		e.userTok, err = f.Logon(userName, userPass)
		if fail("user logon", err) {
			return
		}
		// a revoked token: log the victim on, then blacklist the token id
		lr := f.Do(srvfix.Request{Method: "POST", Path: "/services/admin/logon", Header: map[string]string{"Authorization": srvfix.Basic(victimName, victimPass)}})
		var lm map[string]any
		if lr.Status == 200 && lr.JSON(&lm) == nil {
			e.revoked, _ = lm["token"].(string)
			e.revokedID, _ = lm["tokenID"].(string)
		}
		if e.revoked == "" || e.revokedID == "" {
			fail("victim logon", fmt.Errorf("status %d %s", lr.Status, lr.Body))
			return
		}
		rr := f.Do(srvfix.Request{Method: "PUT", Path: "/admin/tokens/", Header: hj, Body: `["` + e.revokedID + `"]`})
		if rr.Status != 200 {
			fail("revoke", fmt.Errorf("status %d %s", rr.Status, rr.Body))
			return
		}
		// baselines. The REST-created users carry bcrypt cost-12 hashes (0.25 s
		// per Basic-authenticated request); replace them by minimum-cost hashes
		// of the same passwords, as srvfix does for the administrator.
		for _, n := range []string{adminName, userName, victimName} {
			u, err := auth.AuthService.ReadUser(0, n, true)
			if fail("read user "+n, err) {
				return
			}
			if pw := map[string]string{userName: userPass, victimName: victimPass}[n]; pw != "" {
				hash, herr := bcrypt.GenerateFromPassword([]byte(pw), bcrypt.MinCost)
				if fail("hash", herr) {
					return
				}
				u.Password = string(hash)
				if fail("write user "+n, auth.AuthService.WriteUser(0, u)) {
					return
				}
			}
			e.users[n] = u
		}
		_ = auth.AuthService.Flush()
		for _, n := range []string{dsnOpen, dsnRestr} {
			d, err := egodsns.DSNService.ReadDSN(0, adminName, n, true)
			if fail("read dsn "+n, err) {
				return
			}
			e.dsns[n] = d
		}
		gl := f.Do(srvfix.Request{Method: "GET", Path: "/admin/loggers/", Header: srvfix.Bearer(e.adminTok)})
		var lg struct {
			Loggers map[string]bool `json:"loggers"`
		}
		if gl.Status == 200 && gl.JSON(&lg) == nil {
			e.loggers = lg.Loggers
		}
		for _, n := range ui.LoggerNames() {
			if _, ok := e.loggers[n]; !ok {
				e.loggers[n] = ui.IsActive(ui.LoggerByName(n))
			}
		}
		for n := range e.loggers {
			if ui.LoggerByName(n) >= 0 {
				e.logNames = append(e.logNames, n)
			}
		}
		sort.Strings(e.logNames)
		// the server log goes to a file inside the fixture directory (as it does
		// for `ego server start`), never to the test's stdout; rollLog truncates
		// it when it grows or when the log format of a case differs
		e.logPath = filepath.Join(f.Dir, "c40-server.log")
		e.logFmt = ui.TextFormat
		if fail("log file", ui.OpenLogFile(e.logPath, false)) {
			return
		}
		e.settings = map[string]string{}
		for _, k := range settings.Keys() {
			e.settings[k] = settings.Get(k)
		}
		// probes and stubs
		f.Router.VerifWrapHandlers(func(info router.VerifRouteInfo, h router.HandlerFunc) router.HandlerFunc {
			info2 := info
			stub := (info.Method == "POST" && (strings.HasPrefix(info.Endpoint, "/services/admin/down") || strings.HasPrefix(info.Endpoint, "/services/cluster/shutdown")))
			return func(s *router.Session, w http.ResponseWriter, r *http.Request) int {
				e.reached = &info2
				if stub {
					e.stubbed = true
					w.WriteHeader(http.StatusServiceUnavailable)
					return http.StatusServiceUnavailable
				}
				if h == nil {
					return http.StatusNotFound
				}
				return h(s, w, r)
			}
		})
		e.routes = f.Router.VerifRoutes()
		// rapid favours small indexes; the table is sorted by endpoint, which
		// would make POST /admin/ast and DELETE /admin/caches (the latter empties
		// the token cache, so the next request pays a key derivation) by far the
		// most frequent routes. Order the table by a hash of the route instead.
		sort.SliceStable(e.routes, func(i, j int) bool {
			return vkit.Hash64(e.routes[i].Method+" "+e.routes[i].Endpoint) < vkit.Hash64(e.routes[j].Method+" "+e.routes[j].Endpoint)
		})
		theEnv = e
	})
	return theEnv, envErr
}

// resetTables puts the SQLite data file back: only table c40t, with exactly the
// baseline rows. It talks to the file directly (no ego code involved).
func (e *env) resetTables() error {
	if e.db == nil {
		db, err := sql.Open("sqlite", e.dbFile+"?_pragma=busy_timeout(2000)")
		if err != nil {
			return err
		}
		db.SetMaxOpenConns(1)
		e.db = db
	}
	db := e.db
	rows, err := db.Query(`SELECT type, name FROM sqlite_master WHERE name NOT LIKE 'sqlite_%'`)
	if err != nil {
		return err
	}
	var drop []string
	haveTable := false
	for rows.Next() {
		var typ, name string
		if err := rows.Scan(&typ, &name); err != nil {
			rows.Close()
			return err
		}
		if typ == "table" && name == tableName {
			haveTable = true
			continue
		}
		if typ == "table" || typ == "view" || typ == "index" || typ == "trigger" {
			drop = append(drop, fmt.Sprintf(`DROP %s IF EXISTS "%s"`, strings.ToUpper(typ), strings.ReplaceAll(name, `"`, `""`)))
		}
	}
	rows.Close()
	sort.Strings(drop)
	for _, d := range drop {
		_, _ = db.Exec(d)
	}
	same := false
	if haveTable {
		var n int
		var sum sql.NullFloat64
		var cols int
		if db.QueryRow(`SELECT count(*), sum(id*1000+score) FROM "c40t" WHERE name IN ('alpha','beta','gamma ''quoted''','','ünïcode ☃')`).Scan(&n, &sum) == nil &&
			db.QueryRow(`SELECT count(*) FROM pragma_table_info('c40t')`).Scan(&cols) == nil {
			var total int
			_ = db.QueryRow(`SELECT count(*) FROM "c40t"`).Scan(&total)
			same = n == len(baselineRows) && total == n && cols == 5 && sum.Valid && sum.Float64 == 15000+1.5+2.5-3.25+0+1e10
		}
	}
	if same {
		return nil
	}
	if _, err := db.Exec(`DROP TABLE IF EXISTS "c40t"`); err != nil {
		return err
	}
	if _, err := db.Exec(createTableSQL); err != nil {
		return err
	}
	for _, r := range baselineRows {
		if _, err := db.Exec(`INSERT INTO "c40t" ("id","name","score","ok","_row_id_") VALUES (?,?,?,?,?)`, r...); err != nil {
			return err
		}
	}
	e.restores["table"]++
	return nil
}

func sameStrings(a, b []string) bool {
	if len(a) != len(b) {
		return false
	}
	for i := range a {
		if a[i] != b[i] {
			return false
		}
	}
	return true
}

// restore puts back whatever the last request changed. It returns an error
// when the fixture cannot be repaired (harness problem, never a verdict).
func (e *env) restore(body []byte) error {
	// 1. configuration (always: cheap, and PATCH /admin/config can switch the
	// panic recovery on, child services on, move the library path, …)
	cur := settings.Keys()
	for _, k := range cur {
		want, ok := e.settings[k]
		if !ok {
			_ = settings.Delete(k)
			e.restores["setting"]++
		} else if settings.Get(k) != want {
			settings.Set(k, want)
			settings.SetDefault(k, want)
			e.restores["setting"]++
		}
	}
	for k, v := range e.settings {
		if settings.Get(k) != v {
			settings.SetDefault(k, v)
			e.restores["setting"]++
		}
	}
	if e.reached == nil {
		return nil
	}
	ep, m := e.reached.Endpoint, e.reached.Method
	mutating := m != "GET" && m != "HEAD"
	// 2. an opened transaction is rolled back at once (100 open ones make
	// BeginHandler answer 429; an open write transaction locks the file)
	if strings.HasSuffix(ep, "/begin") && len(body) > 0 {
		var tr struct {
			ID string `json:"id"`
		}
		if json.Unmarshal(body, &tr) == nil && tr.ID != "" {
			for _, d := range []string{dsnOpen, dsnRestr} {
				r := e.f.Do(srvfix.Request{Method: "GET", Path: "/dsns/" + d + "/rollback?transaction=" + tr.ID, Header: srvfix.Bearer(e.adminTok)})
				if r.Status == 200 {
					break
				}
			}
			e.restores["transaction"]++
		}
	}
	if !mutating {
		return nil
	}
	// 3. users
	if strings.HasPrefix(ep, "/admin/users") || strings.Contains(ep, "webauthn") || strings.HasPrefix(ep, "/admin/run") || strings.Contains(ep, "@sql") || strings.Contains(ep, "@transaction") {
		for _, n := range []string{adminName, userName, victimName} {
			want := e.users[n]
			got, err := auth.AuthService.ReadUser(0, n, true)
			if err != nil || got.Password != want.Password || got.ID != want.ID || !sameStrings(got.Permissions, want.Permissions) || string(got.Passkeys) != string(want.Passkeys) {
				if err := auth.AuthService.WriteUser(0, want); err != nil {
					return fmt.Errorf("restore user %s: %w", n, err)
				}
				e.restores["user"]++
			}
		}
		for n := range auth.AuthService.ListUsers(true) {
			if _, ok := e.users[n]; !ok {
				_ = auth.AuthService.DeleteUser(0, n)
				e.restores["extra-user"]++
			}
		}
		_ = auth.AuthService.Flush()
	}
	// 4. DSNs and the grant
	if strings.HasPrefix(ep, "/dsns/") && !strings.Contains(ep, "/tables/") || strings.HasPrefix(ep, "/admin/run") {
		for _, n := range []string{dsnOpen, dsnRestr} {
			want := e.dsns[n]
			got, err := egodsns.DSNService.ReadDSN(0, adminName, n, true)
			if err != nil || got != want {
				if err == nil {
					_ = egodsns.DSNService.DeleteDSN(0, adminName, n)
				}
				if err := egodsns.DSNService.WriteDSN(0, adminName, want); err != nil {
					return fmt.Errorf("restore dsn %s: %w", n, err)
				}
				e.restores["dsn"]++
			}
		}
		if list, err := egodsns.DSNService.ListDSNS(0, adminName); err == nil {
			for n := range list {
				if _, ok := e.dsns[n]; !ok {
					_ = egodsns.DSNService.DeleteDSN(0, adminName, n)
					e.restores["extra-dsn"]++
				}
			}
		}
		perms, _ := egodsns.DSNService.Permissions(0, adminName, dsnRestr)
		if perms[userName] != egodsns.DSNReadAction+egodsns.DSNWriteAction || len(perms) != 1 {
			_ = egodsns.DSNService.RevokeAllDSN(0, dsnRestr)
			_ = egodsns.DSNService.GrantDSN(0, userName, dsnRestr, egodsns.DSNReadAction+egodsns.DSNWriteAction, true)
			e.restores["grant"]++
		}
		_ = egodsns.DSNService.Flush()
	}
	// 5. tables and rows
	if strings.Contains(ep, "/tables/") || strings.HasPrefix(ep, "/admin/run") {
		if err := e.resetTables(); err != nil {
			return fmt.Errorf("restore tables: %w", err)
		}
	}
	return nil
}

// applyConfig puts the server into the configuration state the case drew:
// exactly the listed loggers active, the log format, the setting overrides.
// resetConfig undoes it (settings are put back by restore).
func (e *env) applyConfig(cfg Config) {
	want := map[string]bool{}
	for _, n := range cfg.Loggers {
		want[strings.ToUpper(n)] = true
	}
	all := cfg.LogClass == "all"
	baseline := cfg.LogClass == "" || cfg.LogClass == "baseline"
	for _, n := range e.logNames {
		on := all || want[strings.ToUpper(n)]
		if baseline {
			on = e.loggers[n]
		}
		ui.Active(ui.LoggerByName(n), on)
	}
	lf := cfg.LogFormat
	if lf == "" {
		lf = ui.TextFormat
	}
	e.rollLog(lf)
	ui.LogFormat = lf
	keys := make([]string, 0, len(cfg.Settings))
	for k := range cfg.Settings {
		keys = append(keys, k)
	}
	sort.Strings(keys)
	for _, k := range keys {
		settings.SetDefault(k, strings.ReplaceAll(cfg.Settings[k], "@DIR", e.f.Dir))
	}
}

func (e *env) resetConfig() {
	for _, n := range e.logNames {
		ui.Active(ui.LoggerByName(n), e.loggers[n])
	}
	ui.LogFormat = ui.TextFormat
}

// rollLog starts a fresh log file when the current one has grown past 256 KB,
// when it has gone away (a write error makes ego fall back to stdout), or when
// the case logs in another format than the file holds (a real server writes
// one format per file; the log-tail handler may assume that).
func (e *env) rollLog(format string) {
	roll := ui.CurrentLogFile() != e.logPath || format != e.logFmt
	if !roll {
		if st, err := os.Stat(e.logPath); err != nil || st.Size() > 256<<10 {
			roll = true
		}
	}
	if roll {
		keep := ui.LogFormat
		ui.LogFormat = format
		_ = ui.OpenLogFile(e.logPath, false)
		ui.LogFormat = keep
		e.logFmt = format
		e.restores["log-rolled"]++
	}
}

// ---------------------------------------------------------------- the case

type Case struct {
	Method   string            `json:"method"`
	Endpoint string            `json:"endpoint"` // route pattern the generator aimed at
	Path     string            `json:"path"`     // request target (path?query), escaped
	Auth     string            `json:"auth"`     // admin | user | none | revoked | basic-admin | basic-user | basic-wrong | literal
	AuthLit  string            `json:"auth_literal,omitempty"`
	Header   map[string]string `json:"header,omitempty"`
	Body     string            `json:"body,omitempty"`
	// classification (labels only)
	PathClass  string `json:"path_class"`
	QueryClass string `json:"query_class"`
	HdrClass   string `json:"hdr_class"`
	BodyClass  string `json:"body_class"`
	SizeClass  string `json:"size_class,omitempty"` // size class of a sized string in the request, if any
	// the configuration state of the server while the request is served
	Cfg Config `json:"cfg"`
}

// Config is the drawn server configuration of a case.
type Config struct {
	Loggers   []string          `json:"loggers,omitempty"`    // loggers switched on (all others off)
	LogFormat string            `json:"log_format,omitempty"` // "" = text | json | indented
	Settings  map[string]string `json:"settings,omitempty"`   // setting overrides (restored afterwards)
	LogClass  string            `json:"log_class"`            // baseline | none | all | single:<X> | rest+<X> | subset (label)
}

func (e *env) authHeader(c Case) string {
	switch c.Auth {
	case "admin":
		return "Bearer " + e.adminTok
	case "user":
		return "Bearer " + e.userTok
	case "revoked":
		return "Bearer " + e.revoked
	case "basic-admin":
		return srvfix.Basic(adminName, adminPass)
	case "basic-user":
		return srvfix.Basic(userName, userPass)
	case "basic-wrong":
		return srvfix.Basic(adminName, "not-the-password")
	case "literal":
		return c.AuthLit
	}
	return ""
}

// ---------------------------------------------------------------- oracle

// panicSite: the first ego frame below the ORIGINAL panic. With recovery off
// reportRequestPanic re-panics, so the trace holds two "panic(" lines; the
// original one is the last. (srvfix.PanicSite takes the first and therefore
// always answers internal/router.reportRequestPanic.)
func panicSite(stack string) string {
	lines := strings.Split(stack, "\n")
	last := -1
	for i, l := range lines {
		if strings.HasPrefix(l, "panic(") {
			last = i
		}
	}
	if last < 0 {
		return "unknown"
	}
	for _, l := range lines[last+1:] {
		if strings.HasPrefix(l, "github.com/tucats/ego/") && !strings.Contains(l, "/verif/") {
			if i := strings.LastIndex(l, "("); i > 0 {
				l = l[:i]
			}
			return strings.TrimPrefix(l, "github.com/tucats/ego/")
		}
	}
	return "unknown"
}

func clip(s string, n int) string {
	if len(s) > n {
		return s[:n] + fmt.Sprintf("…(%d bytes)", len(s))
	}
	return s
}

func oracle(c Case) vkit.Outcome {
	var out vkit.Outcome
	e, err := getEnv()
	if err != nil {
		out.Inconclusive = "fixture: " + err.Error()
		return out
	}
	h := map[string]string{}
	for k, v := range c.Header {
		h[k] = v
	}
	if a := e.authHeader(c); a != "" {
		h["Authorization"] = a
	}
	e.reached, e.stubbed = nil, false
	e.applyConfig(c.Cfg)
	resp := e.f.Do(srvfix.Request{Method: c.Method, Path: c.Path, Header: h, Body: c.Body})
	e.resetConfig()
	if resp.Status == -1 {
		_ = e.restore(nil)
		out.Skip = "unsendable target"
		return out
	}
	reached := e.reached
	out.NonTrivial = reached != nil
	out.Key = c.Method + " " + c.Endpoint + " | " + c.Auth + " | " + c.PathClass + " | " + c.QueryClass + " | " + c.HdrClass + " | " + c.BodyClass + " | " + c.Cfg.LogClass + " | " + fmt.Sprint(vkit.Hash64(c.Path+"\x00"+c.Body+"\x00"+fmt.Sprint(c.Cfg.Settings)))
	where := "gate"
	if reached != nil {
		where = "handler"
	}
	out.Labels = []string{
		"auth=" + c.Auth + " -> " + where,
		"path=" + c.PathClass + " -> " + where,
		"query=" + c.QueryClass + " -> " + where,
		"body=" + c.BodyClass + " -> " + where,
		fmt.Sprintf("status %dxx", resp.Status/100),
		"log=" + logClassOf(c.Cfg.LogClass) + " -> " + where,
	}
	if c.Cfg.LogFormat != "" {
		out.Labels = append(out.Labels, "logfmt="+c.Cfg.LogFormat)
	}
	if c.SizeClass != "" {
		out.Labels = append(out.Labels, "size="+sizeBucket(c.SizeClass)+" -> "+where)
		e.dims["size "+c.SizeClass]++
	}
	if len(c.Cfg.Settings) == 0 {
		out.Labels = append(out.Labels, "settings=default")
	} else {
		out.Labels = append(out.Labels, "settings=changed -> "+where)
	}
	// the fine-grained histograms of the configuration dimensions go to the
	// evidence as counters (the label list of the evidence is capped)
	if lc := logClassOf(c.Cfg.LogClass); lc == "single" || lc == "rest+" {
		e.dims["logger "+c.Cfg.LogClass]++
	}
	for _, n := range c.Cfg.Loggers {
		if reached != nil {
			e.dims["handler entered with logger "+n]++
		}
	}
	if c.Cfg.LogClass == "all" && reached != nil {
		e.dims["handler entered with all loggers"]++
	}
	for k := range c.Cfg.Settings {
		e.dims["set "+k]++
	}
	for _, hc := range strings.Split(c.HdrClass, "+") {
		out.Labels = append(out.Labels, "hdr="+hc+" -> "+where)
	}
	if reached != nil {
		out.Labels = append(out.Labels, "reached "+reached.Method+" "+reached.Endpoint, fmt.Sprintf("reached %s %s -> %dxx", reached.Method, reached.Endpoint, resp.Status/100))
	}
	if e.stubbed {
		out.Labels = append(out.Labels, "stubbed "+reached.Method+" "+reached.Endpoint)
	}
	if resp.Panic != nil {
		site := panicSite(resp.Stack)
		route := "no route"
		if reached != nil {
			route = reached.Method + " " + reached.Endpoint
		}
		out.Fail = &vkit.Failure{
			Sig:      "panic:" + site,
			Observed: fmt.Sprintf("%s %q (auth=%s, headers=%q, body=%q, loggers=%s %v, settings=%q) -> handler panic in %s [%s]: %q", c.Method, clip(c.Path, 300), c.Auth, c.Header, clip(c.Body, 300), c.Cfg.LogClass, c.Cfg.Loggers, c.Cfg.Settings, site, route, fmt.Sprint(resp.Panic)),
			Expected: "the handler's own success or error response; the last-resort panic recovery never fires",
		}
	}
	if err := e.restore(resp.Body); err != nil {
		out.Inconclusive = "restore: " + err.Error()
	}
	return out
}

// logClassOf maps a log class to its family (single:REST -> single, rest+SQL -> rest+).
func logClassOf(c string) string {
	switch {
	case c == "":
		return "baseline"
	case strings.HasPrefix(c, "single:"):
		return "single"
	case strings.HasPrefix(c, "rest+"):
		return "rest+"
	}
	return c
}

// sizeBucket names the threshold a size class sits at.
func sizeBucket(sc string) string {
	n, err := strconv.Atoi(sc)
	switch {
	case err != nil:
		return sc
	case n <= 1:
		return "0..1"
	case n <= 11:
		return "9..11 (10)"
	case n <= 51:
		return "46..51 (47,50)"
	case n <= 81:
		return "79..81 (80)"
	case n <= 121:
		return "116..121 (117,120)"
	case n <= 257:
		return "255..257 (256)"
	case n <= 1025:
		return "1000..1025 (1024)"
	case n <= 4097:
		return "4095..4097 (4096)"
	case n <= 65536:
		return "65536"
	}
	return "262143..262145 (256 KiB)"
}

func extra() map[string]any {
	m := map[string]any{}
	if theEnv != nil {
		for k, v := range theEnv.dims {
			m["dim: "+k] = v
		}
		for k, v := range theEnv.restores {
			m["restored_"+k] = v
		}
		m["routes"] = len(theEnv.routes)
	}
	return m
}

// sanitizeStdout routes everything written to os.Stdout (ego's loggers echo
// request bytes, e.g. a header value "\xff\xfe") through a filter that
// replaces invalid UTF-8, because the driver reads a shard's output as UTF-8
// text. The returned function flushes and restores os.Stdout.
func sanitizeStdout() func() {
	real := os.Stdout
	r, w, err := os.Pipe()
	if err != nil {
		return func() {}
	}
	os.Stdout = w
	done := make(chan struct{})
	go func() {
		defer close(done)
		br := bufio.NewReaderSize(r, 1<<16)
		for {
			line, err := br.ReadBytes('\n')
			if len(line) > 0 {
				_, _ = real.Write([]byte(strings.ToValidUTF8(string(line), "\uFFFD")))
			}
			if err != nil {
				return
			}
		}
	}()
	return func() {
		os.Stdout = real
		_ = w.Close()
		<-done
		_ = r.Close()
	}
}

func TestC40(t *testing.T) {
	defer sanitizeStdout()()
	if _, err := getEnv(); err != nil {
		t.Fatalf("fixture: %v", err)
	}
	vkit.Run(t, vkit.Spec[Case]{
		ID:    "C40",
		Level: "exploration",
		Rule: "one request per case against a populated in-process server (3 users, 2 SQLite DSNs, a 5-row table, a revoked token); state is restored after each request. " +
			"route = any of the real table (plus unknown paths and wrong methods); path variables = existing names or odd values (empty, 5000 chars, unicode, %00, quotes, .., SQL fragments); " +
			"query = declared parameters with right/wrong-typed/empty/huge/duplicated values, undeclared ones, malformed pairs; headers = Accept / Accept-Language / Content-Type / Range / Accept-Encoding / cluster-token variants; " +
			"credentials = admin, non-admin, none, revoked token, Basic (right, wrong), 12 malformed Authorization values; body = the route's documented payload with one mutation (field dropped / retyped / null / nested 1500 deep / huge number / unknown field / duplicate key), another route's payload, a JSON value of the wrong shape, invalid JSON, empty, 1 MB, Ego programs for the code routes. " +
			"Before the random search an enumerated first-order sweep runs: every route plain / with a missing DSN / with each declared parameter alone (empty, good, two ill-typed values) / each path variable with 8 odd values / every documented payload / every leaf of every documented payload emptied or nulled / 10 wrong-shape bodies / without credentials, as non-admin, with the revoked token. " +
			"Server configuration is part of every case: active loggers (baseline / none / all / each single one / REST+one / random subset), log format (text, json, indented) and 0..3 of 33 branch-switching settings; one string of a payload may be set to a size class (34 lengths on both sides of the thresholds 10, 47/50, 80, 117/120, 256, 1024, 4096, 256 KiB; plain, multi-byte, parsable code that formats long / short, unparsable code). The enumerated sweep also runs the size classes (code routes x 4 kinds x 14 lengths; 48/51/81/121 bytes in every string leaf of the first three payloads of every route), then runs everything a second time with all loggers on, and the plain request of every route under the REST logger alone with JSON logging (~7 000 cases, spread over the shards). " +
			"Non-trivial: the request passed the gate and entered a handler (probe installed with VerifWrapHandlers); distinct by route x classes x content hash.",
		Assumptions: []string{
			"a handler panic propagates to the caller of ServeHTTP because ego.server.panic.recovery=false (restored after every request)",
			"POST /services/admin/down and POST /services/cluster/shutdown are stubbed (they terminate the process)",
			"Ego programs sent to /admin/run come from a fixed list of terminating programs",
			"Content-Length always matches the body (httptest)",
			"settings never drawn: panic.recovery (the detector), auth.maxattempts (lockout of the administrator), authority / oauth.* / ai.endpoint (outbound network), child.services* (exec), token key / userdata / path settings (would invalidate the fixture), ego.runtime.panics (makes an Ego panic() a Go panic by design)",
			"the log file holds one log format at a time (it is truncated when a case switches the format)",
		},
		Gen:      genCase,
		Oracle:   oracle,
		Fixed:    fixedCases,
		Extra:    extra,
		Quick:    750,
		Thorough: 6000,
	})
}

// FuzzC40 is the native-fuzzing entry for manual, open-ended exploration
// (go test -fuzz FuzzC40): the bytes drive the same generator through rapid's
// byte-stream interface. The rapid run above decides the tier; this only ever
// adds replay files (written by hand from the crasher it reports).
func FuzzC40(f *testing.F) {
	if _, err := getEnv(); err != nil {
		f.Skipf("fixture: %v", err)
	}
	f.Add([]byte{0})
	f.Add([]byte("GET /dsns/c40dsn/tables/c40t/rows?filter=EQ(id,1)"))
	f.Add([]byte{7, 1, 200, 3, 9, 0, 255, 255, 4, 4, 18, 52, 86})
	known := knownSigs()
	f.Fuzz(rapid.MakeFuzz(func(t *rapid.T) {
		c := genCase(t)
		out := oracle(c)
		if out.Fail != nil && !known[out.Fail.Sig] {
			b, _ := json.Marshal(c)
			t.Fatalf("violation sig=%s\n observed=%s\n case=%s", out.Fail.Sig, out.Fail.Observed, b)
		}
	}))
}

func knownSigs() map[string]bool {
	m := map[string]bool{}
	p := os.Getenv("VERIF_KNOWN")
	if p == "" {
		p = filepath.Join(vkit.Root(), "harness", "c40", "known.json")
	}
	b, err := os.ReadFile(p)
	if err != nil {
		return m
	}
	var kf struct {
		Findings []struct{ Property, Sig string } `json:"findings"`
	}
	if json.Unmarshal(b, &kf) == nil {
		for _, f := range kf.Findings {
			m[f.Sig] = true
		}
	}
	return m
}
