package c40

import (
	"encoding/json"
	"fmt"
	"net/url"
	"sort"
	"strings"

	"github.com/tucats/ego/internal/router"
	"pgregory.net/rapid"
)

// ---------------------------------------------------------------- values

// oddStrings are the values put where a name, id or free string is expected.
var oddStrings = []string{
	"", " ", "a", "A", "0", "-1", "1", "null", "true", "undefined", "NaN",
	"..", "../..", "../../etc/passwd", ".", "/", "//", "\\", "a/b", "a\\b",
	"'", "\"", "`", "''", "a'b", "a\"b", "'; DROP TABLE c40t; --", "\" OR \"1\"=\"1", "c40t; select 1", "c40t--", "c40t/*", "*", "%", "_", "?", "#", "&", "=", "+", ";", ":", ",", "|", "$1", "${x}", "{{x}}", "{{", "}}", "%s%s%s%n", "%d",
	"\x00", "a\x00b", "\t", "\n", "a\r\nb", "\x7f", "\xff\xfe", "\u202e", "\ufeff", "ünï©ødé", "☃", "😀", "İ", "ß", "ǅ", "á",
	"admin", "ADMIN", "Admin", "c40user", "c40victim", "c40dsn", "c40r", "c40t", "C40T", "c40dsn.c40t", "admin.c40t", "c40t.id", "sqlite_master", "@sql", "@permissions", "@transaction", "@metadata", "rows", "permissions",
	"99999999999999999999999999", "-99999999999999999999999999", "9223372036854775807", "9223372036854775808", "-9223372036854775808", "1e309", "0x10", "1.5", "1,5", "٣",
	"00000000-0000-0000-0000-000000000000", "not-a-uuid", "123e4567-e89b-12d3-a456-426614174000",
}

func genOdd(t *rapid.T, label string) string {
	switch rapid.IntRange(0, 9).Draw(t, label+"-k") {
	case 0:
		n := rapid.SampledFrom([]int{10, 11, 47, 48, 50, 51, 64, 80, 81, 120, 121, 255, 256, 257, 1024, 1025, 4096, 4097, 5000, 70000}).Draw(t, label+"-n")
		return strings.Repeat(rapid.SampledFrom([]string{"a", "é", "%", "'", "../", "9"}).Draw(t, label+"-c"), n)
	case 1:
		return rapid.StringN(0, 12, -1).Draw(t, label+"-s")
	default:
		return rapid.SampledFrom(oddStrings).Draw(t, label)
	}
}

// goodVar returns existing / plausible values for a path variable.
func (e *env) goodVar(name string) []string {
	switch name {
	case "dsn":
		return []string{dsnOpen, dsnOpen, dsnRestr}
	case "table":
		return []string{tableName, tableName, tableName, "c40new", dsnOpen + "." + tableName}
	case "name": // user name, passkey owner, cluster name
		return []string{userName, victimName, adminName, "c40new"}
	case "id":
		return []string{e.revokedID, "123e4567-e89b-12d3-a456-426614174000"}
	case "value":
		return []string{"12", "1", "97"}
	case "code":
		return []string{"200", "404", "500", "204"}
	case "field":
		return []string{"name", "age"}
	case "item":
		return []string{"dashboard/dashboard.css", "logo.png"}
	}
	return []string{"x"}
}

// pathEscape encodes every byte that is not unreserved, so that any string can
// be a path segment of a parsable request target.
func pathEscape(s string) string {
	var b strings.Builder
	for i := 0; i < len(s); i++ {
		c := s[i]
		if c >= 'a' && c <= 'z' || c >= 'A' && c <= 'Z' || c >= '0' && c <= '9' || c == '-' || c == '_' || c == '.' || c == '~' || c == '@' {
			b.WriteByte(c)
		} else {
			fmt.Fprintf(&b, "%%%02X", c)
		}
	}
	return b.String()
}

// ---------------------------------------------------------------- path

// focus: in a focused case only ONE dimension (path variables, query, headers,
// credentials or body) is hostile, the others are well-formed, so that the
// request gets past the gate and the hostile part reaches the handler.
type focus struct {
	on  bool
	dim string // vars | query | headers | auth | body
}

func (f focus) calm(dim string) bool { return f.on && f.dim != dim }

func (e *env) genPath(t *rapid.T, info router.VerifRouteInfo, fc focus) (string, string) {
	parts := strings.Split(info.Endpoint, "/")
	class := "static"
	oddUsed, goodUsed := false, false
	for i, p := range parts {
		if !strings.HasPrefix(p, "{{") {
			continue
		}
		name := strings.TrimSuffix(strings.TrimSuffix(strings.TrimPrefix(p, "{{"), "}}"), "...")
		if !fc.calm("vars") && rapid.IntRange(0, 2).Draw(t, "var-"+name) == 0 {
			v := genOdd(t, "odd-"+name)
			// a slash inside the value is sent raw one time in two (changes the
			// number of segments), otherwise encoded
			if strings.Contains(v, "/") && rapid.Bool().Draw(t, "rawslash") {
				segs := strings.Split(v, "/")
				for j := range segs {
					segs[j] = pathEscape(segs[j])
				}
				parts[i] = strings.Join(segs, "/")
			} else {
				parts[i] = pathEscape(v)
			}
			oddUsed = true
		} else {
			parts[i] = pathEscape(rapid.SampledFrom(e.goodVar(name)).Draw(t, "good-"+name))
			goodUsed = true
		}
	}
	switch {
	case oddUsed:
		class = "odd-var"
	case goodUsed:
		class = "good-var"
	}
	p := strings.Join(parts, "/")
	if fc.on {
		return p, class
	}
	switch rapid.IntRange(0, 34).Draw(t, "pathmut") {
	case 0:
		if strings.HasSuffix(p, "/") {
			p = strings.TrimSuffix(p, "/")
		} else {
			p += "/"
		}
		class += "+slash"
	case 1:
		p += "/" + pathEscape(genOdd(t, "extra-seg"))
		class += "+extra-seg"
	case 2:
		p = strings.Replace(p, "/", "//", 1+rapid.IntRange(0, 2).Draw(t, "dbl"))
		class += "+double-slash"
	case 3:
		p = strings.ToUpper(p)
		class += "+upper"
	case 4:
		p += "%00"
		class += "+nul"
	}
	return p, class
}

// ---------------------------------------------------------------- query

var filterExprs = []string{
	"EQ(id,1)", "EQ(name,\"alpha\")", "AND(EQ(id,1),GT(score,0))", "NOT(EQ(id,1))", "LT(id,3)", "CONTAINS(name,\"a\")", "HASALL(name,\"a\",\"b\")",
	"EQ(id", "EQ(id,1))", "EQ()", "EQ(,)", "EQ(id,)", "(", ")", "((((((((", "AND()", "AND(", "NOT", "NOT()", "EQ", ",", "EQ(id,1),", "EQ(id,1)EQ(id,2)", "EQ(nosuch,1)", "EQ(id,'x')", "EQ(id,\"", "EQ(\"id\",1)",
	"id=1", "id = 1 or 1=1", "1", "true", "null", "\"", "'", "EQ(id,1);drop table c40t", "BOGUS(id,1)", "eq(id,1)", "EQ(id,99999999999999999999999)", "EQ(id,1e400)", "EQ(id,-)", "EQ(id,1.2.3)",
	"AND(EQ(id,1),AND(EQ(id,1),AND(EQ(id,1),AND(EQ(id,1),AND(EQ(id,1),EQ(id,2))))))",
}

// genParamValue draws a value for a declared query parameter. The class is
// drawn first (empty / well-formed / wrong type / odd string), so that the
// empty value and the other classes are frequent for every parameter.
func genParamValue(t *rapid.T, name, typ string) string {
	class := rapid.SampledFrom([]string{"empty", "good", "good", "bad", "bad", "odd"}).Draw(t, "class-"+name)
	if class == "empty" {
		return ""
	}
	if class == "odd" {
		return genOdd(t, "oddparam")
	}
	right := class == "good"
	switch {
	case name == "filter":
		if !right && rapid.IntRange(0, 5).Draw(t, "deepfilter") == 0 {
			n := rapid.SampledFrom([]int{50, 500, 5000}).Draw(t, "fn")
			return strings.Repeat("NOT(", n) + "EQ(id,1)" + strings.Repeat(")", n)
		}
		if right {
			return rapid.SampledFrom(filterExprs[:7]).Draw(t, "goodfilter")
		}
		return rapid.SampledFrom(filterExprs[7:]).Draw(t, "filter")
	case name == "columns" || name == "sort":
		if right {
			return rapid.SampledFrom([]string{"id", "id,name", "name,id,score,ok", "~id", "_row_id_"}).Draw(t, "goodcols")
		}
		return rapid.SampledFrom([]string{"-id", "id,", ",id", ",", ",,,", "~", "~,", "nosuch", "id,nosuch", "*", "id;drop", "\"id\"", "'id'", "id id", "count(*)", "id,id,id", strings.Repeat("id,", 3000) + "id", " "}).Draw(t, "cols")
	case name == "user":
		return rapid.SampledFrom([]string{userName, adminName, victimName, "nosuch", "'", "*", "a,b", "%00"}).Draw(t, "userv")
	case name == "transaction":
		return rapid.SampledFrom([]string{"123e4567-e89b-12d3-a456-426614174000", "x", "0", "-1", "null", "'", strings.Repeat("a", 5000)}).Draw(t, "txv")
	case name == "class":
		return rapid.SampledFrom([]string{"assets", "services", "assets,services", "all", "tokens", "users", "dsns", "schemas", "authorizations", ",", "bogus", "ASSETS", "assets,bogus", "*"}).Draw(t, "classv")
	case name == "order-by":
		return rapid.SampledFrom([]string{"name", "count", "size", "age", "bogus", "name,count", "~name", "'"}).Draw(t, "orderv")
	}
	switch typ {
	case "int":
		if right {
			return rapid.SampledFrom([]string{"0", "1", "2", "5", "100", "999", "1000", "1001"}).Draw(t, "int")
		}
		return rapid.SampledFrom([]string{"-1", "-0", "+1", "abc", "1.5", "1e3", "0x10", "99999999999999999999", "9223372036854775807", "-9223372036854775808", "2147483648", " 1", "1 ", "1,2", "٣", "null", "true"}).Draw(t, "badint")
	case "bool":
		if right {
			return rapid.SampledFrom([]string{"true", "false", "TRUE", "1", "0"}).Draw(t, "bool")
		}
		return rapid.SampledFrom([]string{"maybe", "yes", "no", "2", "-1", "tru", "null", "t", "f", "true,false", " true"}).Draw(t, "badbool")
	case "duration":
		if right {
			return rapid.SampledFrom([]string{"1s", "5m", "1h", "0s", "100ms", "1h30m"}).Draw(t, "dur")
		}
		return rapid.SampledFrom([]string{"-1s", "1d", "1", "xyz", "1h 30m", "99999999999h", "1e9s", "-9223372036854775808ns", ".s", "1ss"}).Draw(t, "baddur")
	case "list":
		return rapid.SampledFrom([]string{"a", "a,b", ",", ",,,", "a,,b", "'", "a;b", strings.Repeat("a,", 2000)}).Draw(t, "list")
	}
	if right {
		return rapid.SampledFrom([]string{"x", "name", "en", "fr", "GET", "POST", "/admin/users/", "/dsns/", "admin.users:post", "@user", "1"}).Draw(t, "str")
	}
	return genOdd(t, "oddparam")
}

func (e *env) genQuery(t *rapid.T, info router.VerifRouteInfo, fc focus) (string, string) {
	names := make([]string, 0, len(info.Parameters))
	for k := range info.Parameters {
		names = append(names, k)
	}
	sort.Strings(names)
	var pairs []string
	class := "none"
	rowsRoute := strings.HasSuffix(info.Endpoint, "/rows") && (info.Method == "DELETE" || info.Method == "PATCH")
	forced := ""
	if fc.on && fc.dim == "query" && len(names) > 0 {
		forced = rapid.SampledFrom(names).Draw(t, "forced")
	}
	for _, n := range names {
		if fc.calm("query") {
			// only what the handler insists on: a well-formed filter for row updates / deletes
			if n == "filter" && rowsRoute {
				pairs = append(pairs, "filter="+url.QueryEscape(rapid.SampledFrom(filterExprs[:7]).Draw(t, "goodfilter")))
				class = "declared-good"
			}
			continue
		}
		if rapid.IntRange(0, 2).Draw(t, "has-"+n) == 0 || (n == "filter" && rowsRoute && rapid.Bool().Draw(t, "needfilter")) || (fc.on && n == forced) {
			v := genParamValue(t, n, info.Parameters[n])
			pairs = append(pairs, url.QueryEscape(n)+"="+url.QueryEscape(v))
			class = "declared"
		}
	}
	qm := 99
	if !fc.calm("query") {
		qm = rapid.IntRange(0, 19).Draw(t, "qmut")
	}
	switch qm {
	case 0: // undeclared parameter
		pairs = append(pairs, rapid.SampledFrom([]string{"bogus=1", "x", "node_id=abc", "node_id=", "node_id=%00", "limit=5", "start=-1", "filter=EQ(id,1)", "user=admin", "transaction=1", "abstract=true", "rowids=true", "_=1"}).Draw(t, "undeclared"))
		class += "+undeclared"
	case 1: // duplicate of a declared one
		if len(names) > 0 {
			n := rapid.SampledFrom(names).Draw(t, "dupname")
			pairs = append(pairs, url.QueryEscape(n)+"="+url.QueryEscape(genParamValue(t, n, info.Parameters[n])), url.QueryEscape(n)+"="+url.QueryEscape(genParamValue(t, n, info.Parameters[n])))
			class += "+duplicate"
		}
	case 2: // name without value / value without name / malformed pairs
		pairs = append(pairs, rapid.SampledFrom([]string{"=", "=x", "&", "&&", "a=b=c", "%zz=1", "a=%zz", ";", "a;b", "%00=%00", "[]=1", "a[b]=1", "a.b=1", strings.Repeat("k=v&", 3000) + "k=v"}).Draw(t, "malformed"))
		class += "+malformed"
	case 3: // declared names in another case
		if len(names) > 0 {
			n := rapid.SampledFrom(names).Draw(t, "ucname")
			pairs = append(pairs, strings.ToUpper(n)+"="+url.QueryEscape(genParamValue(t, n, info.Parameters[n])))
			class += "+upper-name"
		}
	}
	if len(pairs) == 0 {
		return "", "none"
	}
	return "?" + strings.Join(pairs, "&"), class
}

// ---------------------------------------------------------------- headers

func (e *env) genHeaders(t *rapid.T, info router.VerifRouteInfo, fc focus) (map[string]string, string) {
	h := map[string]string{}
	var cls []string
	if fc.calm("headers") {
		h["Content-Type"] = "application/json"
		if len(info.AcceptMedia) > 0 {
			h["Accept"] = rapid.SampledFrom(info.AcceptMedia).Draw(t, "media")
		}
		return h, "plain"
	}
	// Accept: the route's own media type most of the time, so the gate lets the request pass
	switch rapid.IntRange(0, 15).Draw(t, "accept") {
	case 0:
		h["Accept"] = rapid.SampledFrom([]string{"text/plain", "text/html", "application/xml", "application/", "/", ";;;", "*", "*/*;q=abc", "application/json;q=0", "application/vnd.ego.bogus+json", strings.Repeat("a/b,", 4000), "application/json, text/plain;q=0.5, */*;q=0.1", "\x80\xff"}).Draw(t, "acceptv")
		cls = append(cls, "accept-odd")
	case 1:
		h["Accept"] = "*/*"
		cls = append(cls, "accept-any")
	case 2:
		h["Accept"] = "text/html,application/xhtml+xml,application/xml;q=0.9,*/*;q=0.8"
		cls = append(cls, "accept-browser")
	case 3:
		h["Accept"] = "text/plain"
		cls = append(cls, "accept-text")
	default:
		if len(info.AcceptMedia) > 0 {
			h["Accept"] = rapid.SampledFrom(info.AcceptMedia).Draw(t, "media")
		}
	}
	if rapid.IntRange(0, 3).Draw(t, "ct") == 0 {
		h["Content-Type"] = rapid.SampledFrom([]string{"application/json", "text/plain", "application/text", "application/x-www-form-urlencoded", "multipart/form-data; boundary=x", "application/json; charset=utf-16", "application/json;", "", "text", ";", "application/vnd.ego.rows+json", "application/vnd.ego.sql+json", strings.Repeat("x", 5000)}).Draw(t, "ctv")
		cls = append(cls, "content-type")
	} else {
		h["Content-Type"] = "application/json"
	}
	if rapid.IntRange(0, 5).Draw(t, "lang") == 0 {
		h["Accept-Language"] = rapid.SampledFrom([]string{"fr", "es", "en-US,en;q=0.9", "xx", "*", "", "fr;q=abc", ";", ",", "fr-", "-", "zh-Hant-TW", strings.Repeat("a", 5000), "fr, es;q=0.5, *;q=0", "\xff\xfe", "en;q=1e400"}).Draw(t, "langv")
		cls = append(cls, "accept-language")
	}
	if rapid.IntRange(0, 7).Draw(t, "range") == 0 {
		h["Range"] = rapid.SampledFrom([]string{"bytes=0-9", "bytes=5", "bytes=5-", "bytes=-5", "bytes=9999999-", "bytes=9-0", "bytes=0-1,3-4", "bytes=a-b", "items=0-1", ""}).Draw(t, "rangev")
		cls = append(cls, "range")
	}
	if rapid.IntRange(0, 7).Draw(t, "enc") == 0 {
		h["Accept-Encoding"] = rapid.SampledFrom([]string{"gzip", "gzip;q=0", "identity", "*", "br, gzip", "gzip;q=abc", ""}).Draw(t, "encv")
		cls = append(cls, "accept-encoding")
	}
	if rapid.IntRange(0, 9).Draw(t, "misc") == 0 {
		k := rapid.SampledFrom([]string{"X-Cluster-Token", "X-Cluster-Node", "X-Forwarded-For", "X-Forwarded-Proto", "Origin", "Cookie", "If-None-Match", "User-Agent", "Referer", "X-Ego-Session", "Content-Encoding", "Transfer-Encoding", "Expect", "Host", "Upgrade", "Connection"}).Draw(t, "misck")
		h[k] = rapid.SampledFrom([]string{"", "x", "1", "127.0.0.1", "gzip", "chunked", "100-continue", "a=b; c=d", "Mozilla/5.0", "null", strings.Repeat("z", 9000), "ünï"}).Draw(t, "miscv")
		cls = append(cls, "misc-header")
	}
	if len(cls) == 0 {
		return h, "plain"
	}
	return h, strings.Join(cls, "+")
}

// ---------------------------------------------------------------- auth

var authLiterals = []string{
	"Bearer", "Bearer ", "Bearer  ", "bearer x", "Bearer x", "Bearer " + "00", "Bearer zz", "Bearer " + "deadbeef", "Basic", "Basic ", "Basic !!!!", "Basic Og==", "Basic YWRtaW4=", "Basic YWRtaW46", "Basic OnNlY3JldDA=", "Basic YTpiOmM=",
	"Token abc", "Negotiate x", "x", "Bearer \xff\xfe", "Bearer eyJhbGciOiJub25lIn0.e30.", "Bearer eyJhbGciOiJIUzI1NiJ9.eyJzdWIiOiJhZG1pbiJ9.x", "Bearer a.b.c", "Bearer ..", "Bearer .",
}

func (e *env) genAuth(t *rapid.T, info router.VerifRouteInfo, fc focus) (string, string) {
	if fc.calm("auth") {
		if rapid.IntRange(0, 4).Draw(t, "calmuser") == 0 {
			return "user", ""
		}
		return "admin", ""
	}
	// Basic credentials cost a bcrypt verification each, hence rarer
	switch rapid.IntRange(0, 39).Draw(t, "auth") {
	case 0, 1, 2, 3, 4, 5, 6, 7, 8, 9, 10, 11, 12, 13, 14, 15, 16, 17:
		return "admin", ""
	case 18, 19, 20, 21, 22, 23, 24, 25:
		return "user", ""
	case 26, 27, 28:
		return "none", ""
	case 29:
		return "revoked", ""
	case 30:
		return "basic-admin", ""
	case 31:
		return "basic-user", ""
	case 32:
		return "basic-wrong", ""
	default:
		switch rapid.IntRange(0, 3).Draw(t, "litk") {
		case 0: // a real token, damaged
			tok := e.adminTok
			switch rapid.IntRange(0, 4).Draw(t, "dmg") {
			case 0:
				return "literal", "Bearer " + tok[:len(tok)/2]
			case 1:
				return "literal", "Bearer " + tok + "00"
			case 2:
				b := []byte(tok)
				i := rapid.IntRange(0, len(b)-1).Draw(t, "flip")
				if b[i] == '0' {
					b[i] = '1'
				} else {
					b[i] = '0'
				}
				return "literal", "Bearer " + string(b)
			case 3:
				return "literal", "Bearer " + strings.ToUpper(tok)
			default:
				return "literal", "Bearer " + tok[:32]
			}
		case 1:
			return "literal", "Bearer " + strings.Repeat(rapid.SampledFrom([]string{"0", "f", "ab", "zz"}).Draw(t, "hex"), rapid.SampledFrom([]int{1, 8, 16, 31, 32, 33, 64, 256, 5000}).Draw(t, "hexn"))
		default:
			return "literal", rapid.SampledFrom(authLiterals).Draw(t, "lit")
		}
	}
}

// ---------------------------------------------------------------- bodies

type M = map[string]any
type A = []any

var egoPrograms = []string{
	`fmt.Println("hi")`,
	`import "fmt"` + "\n" + `func main() { fmt.Println(1+2) }`,
	`x := 1 / 0`,
	`var a []int` + "\n" + `fmt.Println(a[5])`,
	`panic("boom")`,
	`var m map[string]int` + "\n" + `m["a"] = 1`,
	`x := `,
	`func (`,
	`}}}}`,
	`"unterminated`,
	"`raw",
	`import "nosuch"`,
	`@error "x"`,
	`return 5`,
	`type T struct { a int }` + "\n" + `t := T{}` + "\n" + `fmt.Println(t.b)`,
	`for i := 0; i < 3; i++ { fmt.Println(i) }`,
	`defer fmt.Println("d")`,
	`go func() { }()`,
	`x := []int{1,2,3}[1:9]`,
	`var p *int` + "\n" + `fmt.Println(*p)`,
	`s := "abc"` + "\n" + `fmt.Println(s[10])`,
	`fmt.Println(strings.Repeat("a", -1))`,
	`fmt.Println(int(""))`,
	`a := 1` + "\n" + `a.b.c()`,
	`try { x := 1/0 } catch (e) { fmt.Println(e) }`,
	`/* unterminated`,
	"\x00\x01\x02",
	``,
}

// basePayloads returns documented payloads of a route (valid or nearly so).
func (e *env) basePayloads(method, endpoint string) []any {
	key := method + " " + endpoint
	user := func(n string) M {
		return M{"name": n, "password": "pw-new-1", "permissions": A{"ego.logon", "ego.table.read"}}
	}
	row := M{"id": 9, "name": "new", "score": 9.5, "ok": true}
	switch key {
	case "POST /admin/users/":
		return []any{user("c40new"), user(victimName), user(userName), user(adminName), M{"name": "c40new"}, M{"name": "c40new", "password": "x", "permissions": A{}, "id": "123e4567-e89b-12d3-a456-426614174000", "passkeys": A{M{"id": "AAAA"}}, "lastTokenAt": "2026-01-01T00:00:00Z"}}
	case "PATCH /admin/users/{{name}}":
		return []any{user(victimName), user(userName), user(adminName), M{"name": victimName, "permissions": A{"+ego.sql", "-ego.logon"}}, M{"name": victimName, "password": ""}, M{"name": "other"}, M{"name": adminName, "permissions": A{"-ego.root"}}}
	case "POST /admin/loggers/":
		return []any{M{"loggers": M{"APP": true, "REST": false}}, M{"loggers": M{"SERVER": false}}, M{"loggers": M{"bogus": true}}, M{"keep": 5}, M{"keep": 5, "file": "x.log", "loggers": M{"AUTH": true}}, M{"loggers": M{}}}
	case "PATCH /admin/config":
		return []any{M{"ego.compiler.types": "strict"}, M{"ego.server.panic.recovery": true}, M{"ego.server.max.item.limit": 5}, M{"ego.server.token.key": "x"}, M{"ego.compiler.optimize": 2, "ego.compiler.extensions": false}, M{"ego.runtime.timezone": "Nowhere/Bogus"}, M{"ego.log.archive": "/nonexistent/dir/x.zip"}, M{"ego.log.retain": 0}, M{"ego.server.token.expiration": "1h"}, M{"ego.runtime.path": "/nonexistent"}, M{"ego.server.child.services": true}, M{"EGO.Compiler.Types": "relaxed"}, M{}}
	case "POST /admin/config":
		return []any{A{"ego.compiler.types"}, A{"ego.server.token.key", "ego.logon.token"}, A{"nosuch.setting"}, A{}, A{"ego.compiler.types", "ego.compiler.types"}, A{""}}
	case "POST /admin/caches":
		return []any{M{"count": 10}, M{"count": 0}, M{"count": -1}, M{"size": 10}, M{"count": 10, "assetSize": 100}, M{"serviceSize": 5}}
	case "PUT /admin/tokens/":
		return []any{A{e.revokedID}, A{"123e4567-e89b-12d3-a456-426614174000"}, A{}, A{""}, A{"x", "y"}, A{e.revokedID, e.revokedID}}
	case "POST /admin/run":
		var out []any
		for _, p := range egoPrograms {
			out = append(out, M{"code": p})
		}
		out = append(out, M{"code": `fmt.Println("t")`, "trace": true}, M{"code": `fmt.Println("c")`, "console": true}, M{"code": `fmt.Println(1)`, "session": "123e4567-e89b-12d3-a456-426614174000"}, M{"code": `fmt.Println(1)`, "session": "bad"},
			M{"code": `x := 1` + "\n" + `fmt.Println(x)`, "debug": true, "debugInput": "step\nshow symbols\ncontinue\n"}, M{"code": `fmt.Println(1)`, "debug": true, "debugInput": ""}, M{"code": `fmt.Println(1)`, "debug": true, "debugInput": "bogus\n\n\nquit\n"}, M{"code": `x := `, "debug": true, "debugInput": "continue\n"}, M{"code": `fmt.Println(1)`, "debug": true, "debugInput": "break at 1\ncontinue\ncontinue\n"}, M{})
		return out
	case "POST /admin/ast", "POST /admin/format":
		var out []any
		for _, p := range egoPrograms {
			out = append(out, M{"code": p})
		}
		return out
	case "POST /dsns/":
		d := func(n string) M {
			return M{"name": n, "provider": "sqlite", "database": e.dbFile, "restricted": false}
		}
		return []any{d("c40new"), d(dsnOpen), d(dsnRestr), M{"name": "c40pg", "provider": "postgres", "database": "db", "host": "127.0.0.1", "port": 1, "user": "u", "password": "p", "secured": true, "schema": "s", "rowid": true}, M{"name": "c40new", "provider": "SQLITE", "database": "x"}, M{"name": "c40new", "provider": "sqlite3", "database": "x"}, M{"name": "c40new", "provider": "sqlite", "database": ""}, M{"name": "", "provider": "sqlite", "database": "x"}, M{"name": "c40new", "provider": "sqlite", "database": "x", "id": "y", "port": 70000}}
	case "POST /dsns/@permissions":
		it := func(d, u string, a ...any) M { return M{"dsn": d, "user": u, "actions": A(a)} }
		return []any{it(dsnRestr, userName, "read"), it(dsnRestr, userName, "ego.dsn.read"), it(dsnRestr, victimName, "+ego.dsn.write", "-ego.dsn.read"), it(dsnRestr, victimName, "ego.dsn.admin"), it(dsnRestr, userName, ""), it(dsnRestr, userName, "+"), it(dsnRestr, victimName, "+write", "-read"), it(dsnOpen, userName, "admin"), it("nosuch", userName, "read"), it(dsnRestr, "nosuch", "read"), it(dsnRestr, userName), it(dsnRestr, userName, "bogus"), M{"items": A{it(dsnRestr, userName, "read"), it(dsnRestr, victimName, "write")}}, M{"items": A{}}, A{it(dsnRestr, userName, "read")}}
	case "PATCH /dsns/{{dsn}}/":
		return []any{M{"restricted": true}, M{"restricted": false}, M{"secured": true}, M{"password": "x"}, M{"password": "", "secured": nil, "restricted": nil}, M{}, M{"name": "other", "database": "/etc/passwd"}}
	case "PUT /dsns/{{dsn}}/tables/{{table}}":
		col := func(n, ty string) M { return M{"name": n, "type": ty} }
		return []any{A{col("id", "int"), col("name", "string")}, A{col("id", "int"), M{"name": "s", "type": "string", "size": 10, "nullable": M{"specified": true, "value": true}, "unique": M{"specified": true, "value": true}}}, A{}, A{col("", "int")}, A{col("id", "bogus")}, A{col("id", "")}, A{col("id", "int"), col("id", "int")}, A{col("a b", "int")}, A{col("a\"b", "int")}, A{col("select", "int")}, A{col("_row_id_", "string")}, A{col("f", "float64"), col("b", "bool"), col("t", "time"), col("i32", "int32"), col("by", "byte")}, A{M{"name": "id", "type": "int", "size": -1}}, A{M{"name": "id", "type": "int", "nullable": true}}, "create table x(a int)"}
	case "PUT /dsns/{{dsn}}/tables/{{table}}/rows":
		return []any{row, M{"rows": A{row, row}}, M{"rows": A{row}, "count": 1}, A{row, row}, M{"rows": A{}}, M{"rows": nil}, M{}, A{}, M{"id": 9}, M{"nosuch": 1}, M{"id": "text", "name": 5, "score": "x", "ok": "maybe"}, M{"id": 9, "name": nil}, M{"_row_id_": "00000000-0000-0000-0000-000000000001", "id": 1, "name": "up"}, M{"id": M{"a": 1}}, M{"id": A{1, 2}}, M{"rows": A{row, "x", 5, nil}}, M{"rows": M{"a": row}},
			M{"columns": A{M{"name": "id", "type": "int"}, M{"name": "name", "type": "string"}}, "rows": A{A{7, "seven"}, A{8, "eight"}}, "count": 2},
			M{"columns": A{M{"name": "id", "type": "int"}}, "rows": A{A{7, "too", "many"}}},
			M{"columns": A{}, "rows": A{A{}}},
			M{"columns": A{M{"name": "id", "type": "int"}, M{"name": "name", "type": "string"}}, "rows": A{A{7}}},
			M{"columns": nil, "rows": A{A{1}}},
		}
	case "PATCH /dsns/{{dsn}}/tables/{{table}}/rows":
		return []any{M{"name": "patched"}, M{"score": 0.5, "ok": false}, M{"nosuch": 1}, M{}, M{"id": nil}, M{"_row_id_": "x"}, M{"name": M{"a": 1}}, A{M{"name": "x"}}, M{"rows": A{M{"name": "x"}}},
			M{"columns": A{M{"name": "name", "type": "string"}}, "rows": A{A{"abs"}}}, M{"columns": A{M{"name": "name", "type": "string"}}, "rows": A{}}, M{"columns": A{}, "rows": A{A{"abs"}}}}
	case "POST /dsns/{{dsn}}/tables/@sql", "PUT /dsns/{{dsn}}/tables/@sql":
		return []any{A{"select * from c40t"}, A{"select * from c40t where id = 1", "select count(*) from c40t"}, A{"insert into c40t(id,name) values(10,'x')", "update c40t set name='y' where id=10", "delete from c40t where id=10"}, "select * from c40t", "select * from c40t; select 1", A{}, A{""}, A{";"}, "", ";", A{"drop table c40t"}, A{"create table c40x(a int)", "drop table c40x"}, A{"select * from nosuch"}, A{"selec"}, A{"select '"}, A{"select * from c40t", "bogus"}, A{"pragma table_info(c40t)"}, A{"begin", "commit"}, A{"select 1; select 2"}, A{"select * from sqlite_master"}, A{"with r as (select 1) select * from r"}, A{"select 1 -- comment"}, A{"/* c */ select 1"}, A{"select ?"}, A{"select $1"}, A{"vacuum"}, A{"explain select 1"}}
	case "POST /dsns/{{dsn}}/tables/@transaction":
		op := func(o, tbl string, more M) M {
			m := M{"operation": o, "table": tbl}
			for k, v := range more {
				m[k] = v
			}
			return m
		}
		return []any{
			A{op("select", tableName, M{"filters": A{"EQ(id,1)"}, "columns": A{"id", "name"}})},
			A{op("insert", tableName, M{"data": M{"id": 20, "name": "tx"}}), op("update", tableName, M{"filters": A{"EQ(id,20)"}, "data": M{"name": "tx2"}}), op("delete", tableName, M{"filters": A{"EQ(id,20)"}})},
			A{op("symbols", "", M{"data": M{"x": 1, "y": "two"}}), op("select", tableName, M{"filters": A{"EQ(id,{{x}})"}}), op("insert", tableName, M{"data": M{"id": "{{x}}", "name": "{{y}}"}})},
			A{op("readrows", tableName, M{"filters": A{"LT(id,3)"}})},
			A{op("sql", "", M{"sql": "update c40t set name='s' where id=1"})},
			A{op("sql", "", M{"sql": "select * from c40t"})},
			A{op("drop", "c40nosuch", nil)},
			A{op("drop", tableName, nil)},
			A{op("delete", tableName, M{"emptyError": true, "filters": A{"EQ(id,999)"}})},
			A{op("update", tableName, M{"data": M{}, "filters": A{}})},
			A{op("insert", tableName, M{})},
			A{op("insert", tableName, M{"data": nil})},
			A{op("select", tableName, M{"filters": A{"EQ(id"}})},
			A{op("select", tableName, M{"errors": A{M{"condition": "EQ(id,1)", "status": 418, "msg": "teapot"}}})},
			A{op("select", tableName, M{"errors": A{M{"condition": "EQ(", "status": 0}}})},
			A{op("symbols", "", M{})},
			A{op("symbols", "", M{"data": nil})},
			A{op("bogus", tableName, nil)},
			A{op("", tableName, nil)},
			A{op("SELECT", tableName, nil)},
			A{op("select", "", nil)},
			A{op("select", "nosuch", nil)},
			A{op("select", dsnOpen+"."+tableName, nil)},
			A{op("sql", "", M{"sql": ""})},
			A{op("sql", "", nil)},
			A{op("update", tableName, M{"data": M{"name": "{{nosuch}}"}, "filters": A{"EQ(id,{{nosuch}})"}})},
			A{op("insert", tableName, M{"data": M{"id": M{"a": 1}}})},
			A{op("select", tableName, M{"columns": A{"nosuch"}})},
			A{op("select", tableName, M{"columns": A{""}})},
			A{},
			M{"operation": "select", "table": tableName},
		}
	case "PUT /dsns/{{dsn}}/tables/{{table}}/permissions":
		return []any{A{"ego.table.read"}, A{"ego.table.read", "ego.table.update", "ego.table.delete"}, A{"+ego.table.write", "-ego.table.update"}, A{"ego.table.admin"}, A{" "}, A{"read"}, A{"+read", "-update"}, A{}, A{""}, A{"bogus"}, A{"-"}, A{"+"}, "read", M{"permissions": A{"read"}}}
	case "DELETE /dsns/{{dsn}}/tables/{{table}}/permissions":
		return []any{A{"read"}, nil}
	case "POST /dsns/{{dsn}}/tables/@generate":
		return []any{"list all rows", A{"list", "all", "rows"}, "", A{}, A{""}, M{"text": "x"}}
	case "POST /services/admin/logon":
		cr := func(u, p string) M { return M{"username": u, "password": p} }
		return []any{cr(adminName, adminPass), cr(userName, userPass), cr(userName, "wrong"), cr("nosuch", "x"), cr("", ""), M{"username": userName, "password": userPass, "expiration": "1h", "source": "Dashboard"}, M{"username": userName, "password": userPass, "expiration": "bogus"}, M{"username": userName, "password": userPass, "expiration": "-1h"}, M{"username": userName, "password": userPass, "expiration": "99999999h"}, M{"username": userName}, M{"user": userName, "pass": userPass}}
	case "POST /services/admin/webauthn/login/begin", "POST /services/admin/webauthn/register/begin":
		return []any{M{"username": userName}, M{"username": adminName}, M{"username": "nosuch"}, M{"username": ""}, M{}, M{"name": userName}}
	case "POST /services/admin/webauthn/login/finish", "POST /services/admin/webauthn/register/finish":
		cred := M{"id": "AAAA", "rawId": "AAAA", "type": "public-key", "response": M{"clientDataJSON": "e30", "authenticatorData": "AAAA", "signature": "AAAA", "userHandle": "AAAA", "attestationObject": "o2NmbXRkbm9uZQ"}}
		return []any{cred, M{"id": "AAAA", "type": "public-key"}, M{"id": "AAAA", "rawId": "!!!", "type": "public-key", "response": M{}}, M{"response": nil}, M{"session": "x", "credential": cred}, M{}}
	case "POST /services/cluster/flush":
		return []any{M{"cache_id": 1, "sender_id": "n1", "hops": 1}, M{"cache_id": -1}, M{"cache_id": 9999, "hops": 99}, M{}}
	case "POST /services/cluster/remove", "POST /services/cluster/shutdown":
		return []any{M{}, M{"node_id": "x"}}
	}
	if strings.HasPrefix(endpoint, "/services/") && method != "GET" && method != "DELETE" {
		return []any{M{"a": 1}, "text", A{1, 2}}
	}
	return nil
}

// foreign payloads: documented bodies of other routes, sent to this one.
var foreignKeys = [][2]string{
	{"POST", "/admin/users/"}, {"PUT", "/dsns/{{dsn}}/tables/{{table}}/rows"}, {"POST", "/dsns/{{dsn}}/tables/@transaction"}, {"POST", "/dsns/{{dsn}}/tables/@sql"}, {"PUT", "/dsns/{{dsn}}/tables/{{table}}"}, {"POST", "/dsns/"}, {"PATCH", "/admin/config"}, {"POST", "/admin/run"}, {"POST", "/admin/loggers/"}, {"PUT", "/admin/tokens/"},
}

var wrongShapes = []string{
	`null`, `true`, `false`, `0`, `-1`, `1.5`, `1e400`, `-0`, `99999999999999999999999999999`, `""`, `"x"`, `[]`, `{}`, `[null]`, `[[]]`, `[{}]`, `{"":""}`, `{"a":null}`, `[1,"a",null,true,{},[]]`, `{"rows":null}`, `{"rows":{}}`, `{"rows":[null]}`, `{"rows":[[]]}`, `[null,null]`, `"null"`, `{"a":{"b":{"c":{"d":{}}}}}`,
}

var invalidJSON = []string{
	`{`, `[`, `}`, `]`, `{"a"`, `{"a":`, `{"a":1,}`, `[1,]`, `{'a':1}`, `{a:1}`, `{"a":1}{"b":2}`, `{"a":1} x`, `nul`, `tru`, `+1`, `01`, `1.`, `.5`, `"abc`, `"\x"`, `"\ud800"`, `{"a":1,"a":2}`, "\x00", "{\"a\":\x00}", "\xff\xfe{\"a\":1}", "\xef\xbb\xbf{\"a\":1}", ` `, "\n", `<xml/>`, `a=1&b=2`, `--x\r\nContent-Disposition: form-data; name="a"\r\n\r\n1\r\n--x--`,
}

func deep(open, close string, n int) string {
	return strings.Repeat(open, n) + strings.Repeat(close, n)
}

// mutate applies one mutation to a JSON value; returns the value and the class.
func mutate(t *rapid.T, v any) (any, string) {
	replacement := func() any {
		return rapid.SampledFrom([]any{nil, true, false, 0, -1, 1.5, 1e300, "", "x", "99999999999999999999", A{}, M{}, A{nil}, A{1, "a"}, M{"a": 1}, strings.Repeat("y", 70000), json.Number("1e400"), json.Number("99999999999999999999999999999"), json.Number("-9223372036854775809")}).Draw(t, "repl")
	}
	switch x := v.(type) {
	case M:
		keys := make([]string, 0, len(x))
		for k := range x {
			keys = append(keys, k)
		}
		sort.Strings(keys)
		out := M{}
		for k, vv := range x {
			out[k] = vv
		}
		if len(keys) == 0 {
			out[genOdd(t, "newkey")] = replacement()
			return out, "add-field"
		}
		k := rapid.SampledFrom(keys).Draw(t, "key")
		switch rapid.IntRange(0, 6).Draw(t, "mmut") {
		case 0:
			delete(out, k)
			return out, "drop-field"
		case 1, 2:
			out[k] = replacement()
			return out, "retype-field"
		case 3:
			out[rapid.SampledFrom([]string{"bogus", "", "ID", "__proto__", strings.ToUpper(k), k + " "}).Draw(t, "nk")] = replacement()
			return out, "add-field"
		case 4:
			if s, ok := out[k].(string); ok {
				_ = s
				out[k] = genOdd(t, "oddfield")
				return out, "odd-string-field"
			}
			out[k] = replacement()
			return out, "retype-field"
		default:
			nv, cls := mutate(t, out[k])
			out[k] = nv
			return out, "nested-" + cls
		}
	case A:
		out := append(A{}, x...)
		if len(out) == 0 {
			return A{replacement()}, "add-element"
		}
		i := rapid.IntRange(0, len(out)-1).Draw(t, "idx")
		switch rapid.IntRange(0, 4).Draw(t, "amut") {
		case 0:
			return append(out[:i], out[i+1:]...), "drop-element"
		case 1:
			out[i] = replacement()
			return out, "retype-element"
		case 2:
			n := rapid.SampledFrom([]int{2, 50, 2000}).Draw(t, "rep")
			big := make(A, 0, n)
			for j := 0; j < n; j++ {
				big = append(big, out[i])
			}
			return big, "repeat-element"
		default:
			nv, cls := mutate(t, out[i])
			out[i] = nv
			return out, "nested-" + cls
		}
	case string:
		return genOdd(t, "oddstr"), "odd-string"
	}
	return replacement(), "retype"
}

func (e *env) genBody(t *rapid.T, info router.VerifRouteInfo, fc focus) (string, string) {
	hasBody := info.Method != "GET" && info.Method != "HEAD" && info.Method != "DELETE"
	base := e.basePayloads(info.Method, info.Endpoint)
	if fc.calm("body") {
		if len(base) == 0 {
			return "", "none"
		}
		b, _ := json.Marshal(rapid.SampledFrom(base).Draw(t, "calmbase"))
		return string(b), "documented"
	}
	if !hasBody && base == nil {
		// a body where none is expected, one time in ten
		if rapid.IntRange(0, 9).Draw(t, "getbody") != 0 {
			return "", "none"
		}
		return rapid.SampledFrom([]string{`{}`, `[]`, `x`, `{"a":1}`, strings.Repeat("z", 100000)}).Draw(t, "unexpected"), "unexpected-body"
	}
	enc := func(v any) string {
		b, err := json.Marshal(v)
		if err != nil {
			return "null"
		}
		return string(b)
	}
	k := rapid.IntRange(0, 23).Draw(t, "bodykind")
	switch {
	case k >= 20 && len(base) > 0:
		// one string leaf of a documented payload set to a size class
		n := rapid.SampledFrom(sizes).Draw(t, "size")
		kind := rapid.SampledFrom(sizeKinds).Draw(t, "sizekind")
		vs := replaceStringLeaves(rapid.SampledFrom(base).Draw(t, "base"), func(string) []string { return []string{sized(kind, n)} })
		if len(vs) > 0 {
			return enc(vs[rapid.IntRange(0, len(vs)-1).Draw(t, "leaf")]), fmt.Sprintf("sized:%s:%d", kind, n)
		}
		return sized(kind, n), fmt.Sprintf("sized-raw:%s:%d", kind, n)
	case k >= 20:
		n := rapid.SampledFrom(sizes).Draw(t, "size")
		return sized("a", n), fmt.Sprintf("sized-raw:a:%d", n)
	case k <= 4 && len(base) > 0:
		return enc(rapid.SampledFrom(base).Draw(t, "base")), "documented"
	case k <= 11 && len(base) > 0:
		v, cls := mutate(t, rapid.SampledFrom(base).Draw(t, "base"))
		if rapid.IntRange(0, 3).Draw(t, "twice") == 0 {
			v, _ = mutate(t, v)
			cls += "+2"
		}
		return enc(v), "mutated:" + cls
	case k == 12:
		fk := rapid.SampledFrom(foreignKeys).Draw(t, "foreign")
		fb := e.basePayloads(fk[0], fk[1])
		return enc(rapid.SampledFrom(fb).Draw(t, "fbase")), "foreign-payload"
	case k == 13 || k == 14:
		return rapid.SampledFrom(wrongShapes).Draw(t, "shape"), "wrong-shape"
	case k == 15:
		return rapid.SampledFrom(invalidJSON).Draw(t, "invalid"), "invalid-json"
	case k == 16:
		return "", "empty"
	case k == 17:
		n := rapid.SampledFrom([]int{100, 1000, 1500, 10000, 100000}).Draw(t, "depth")
		switch rapid.IntRange(0, 3).Draw(t, "deepk") {
		case 0:
			return deep("[", "]", n), "deep-array"
		case 1:
			return deep(`{"a":`, "}", n-1) + "", "deep-object-broken"
		case 2:
			return strings.Repeat(`{"rows":[`, n) + strings.Repeat(`]}`, n), "deep-object"
		default:
			return strings.Repeat("[", n), "deep-unclosed"
		}
	case k == 18:
		switch rapid.IntRange(0, 2).Draw(t, "bigk") {
		case 0:
			return `{"code":"` + strings.Repeat("a", 1<<20) + `"}`, "big-1MB"
		case 1:
			return `[` + strings.Repeat(`{"id":1,"name":"x"},`, 20000) + `{"id":1}]`, "big-array"
		default:
			return strings.Repeat("x", 1<<20), "big-garbage"
		}
	default:
		if len(base) > 0 {
			// truncated documented payload
			s := enc(rapid.SampledFrom(base).Draw(t, "base"))
			if len(s) > 1 {
				return s[:rapid.IntRange(1, len(s)-1).Draw(t, "cut")], "truncated"
			}
		}
		return rapid.StringN(0, 40, -1).Draw(t, "garbage"), "garbage"
	}
}

// ---------------------------------------------------------------- the case

// ---------------------------------------------------------------- configuration state

// allLoggerNames is ui.LoggerNames() upper-cased (fixed here so that Gen does
// not depend on the fixture): every logger of the server.
var allLoggerNames = []string{"AI", "APP", "ASSET", "AUTH", "BYTECODE", "CACHE", "CHILD", "CLI", "COMPILER", "DB", "DEBUG", "GOROUTINE", "INFO", "INTERNAL", "OPTIMIZER", "PACKAGES", "RESOURCES", "REST", "ROUTE", "SERVER", "SERVICES", "SQL", "STATS", "SYMBOLS", "TABLES", "TOKENIZER", "TRACE", "USER", "VALID"}

// toggles are the settings that internal/server/**, internal/router,
// internal/util, internal/caches and the service runner consult at request time
// and that are safe to change in-process (grep settings.Get* over those trees).
// Deliberately absent: ego.server.panic.recovery (the detector),
// ego.server.auth.maxattempts (would lock the administrator out),
// ego.server.authority / oauth.* / ai.endpoint (outbound network),
// ego.server.child.services* (exec of the test binary), token key / userdata /
// path settings (invalidate the fixture), ego.runtime.panics (turns an Ego
// panic() into a Go panic by design).
var toggles = []struct {
	key  string
	vals []string
}{
	{"ego.server.database.empty.filter.error", []string{"true", "false"}},
	{"ego.server.database.empty.rowset.error", []string{"true", "false"}},
	{"ego.server.database.partial.insert.error", []string{"true", "false"}},
	{"ego.server.max.item.limit", []string{"1", "2", "1000", "0", "-1", "abc"}},
	{"ego.server.compression.threshold", []string{"0", "1", "100", "-1", "abc"}},
	{"ego.runtime.timezone", []string{"UTC", "America/New_York", "Bogus/Zone", "Local", ""}},
	{"ego.server.log.response", []string{"true", "false"}},
	{"ego.server.report.fqdn", []string{"true", "false"}},
	{"ego.server.max.body.size", []string{"10", "100", "1000", "-1", "abc"}},
	{"ego.server.token.expiration", []string{"1h", "bogus", "-1h", "0s", ""}},
	{"ego.server.dashboard.inactivity", []string{"5m", "bogus", "0s", "-1m"}},
	{"ego.server.service.cache.size", []string{"0", "1", "abc", "-1"}},
	{"ego.server.cache.maxsize", []string{"0", "1", "abc"}},
	{"ego.server.allow.passkeys", []string{"true", "false"}},
	{"ego.server.webauthn.rpid", []string{"", "localhost", "bogus host", "ünï"}},
	{"ego.server.plaintext.passwords", []string{"true", "false"}},
	{"ego.server.superuser", []string{"", "c40user", "nosuch"}},
	{"ego.server.ai.model", []string{"", "c40-model"}},
	{"ego.server.js.minify", []string{"true", "false"}},
	{"ego.server.js.shortvarnames", []string{"true", "false"}},
	{"ego.compiler.types", []string{"strict", "relaxed", "dynamic", "bogus"}},
	{"ego.compiler.extensions", []string{"true", "false"}},
	{"ego.compiler.import", []string{"true", "false"}},
	{"ego.compiler.optimize", []string{"0", "1", "2", "3", "abc"}},
	{"ego.compiler.normalized", []string{"true", "false"}},
	{"ego.runtime.unchecked.errors", []string{"true", "false"}},
	{"ego.runtime.precision.error", []string{"true", "false"}},
	{"ego.runtime.float.div.zero.error", []string{"true", "false"}},
	{"ego.runtime.exec", []string{"true", "false"}},
	{"ego.runtime.sandbox.path", []string{"", "@DIR", "/nonexistent"}},
	{"ego.runtime.stack.trace", []string{"true", "false"}},
	{"ego.runtime.rest.errors", []string{"true", "false"}},
	{"ego.console.log", []string{"text", "json", "bogus"}},
}

func genConfig(t *rapid.T) Config {
	var cfg Config
	switch k := rapid.IntRange(0, 19).Draw(t, "logclass"); {
	case k <= 1:
		cfg.LogClass = "baseline"
	case k == 2:
		cfg.LogClass = "none"
	case k <= 7:
		cfg.LogClass = "all"
	case k <= 12:
		n := rapid.SampledFrom(allLoggerNames).Draw(t, "single")
		cfg.Loggers, cfg.LogClass = []string{n}, "single:"+n
	case k <= 14:
		n := rapid.SampledFrom(allLoggerNames).Draw(t, "restplus")
		cfg.Loggers, cfg.LogClass = []string{"REST", n}, "rest+"+n
	default:
		for _, n := range allLoggerNames {
			if rapid.Bool().Draw(t, "lg-"+n) {
				cfg.Loggers = append(cfg.Loggers, n)
			}
		}
		cfg.LogClass = "subset"
	}
	switch rapid.IntRange(0, 5).Draw(t, "logfmt") {
	case 0:
		cfg.LogFormat = "json"
	case 1:
		cfg.LogFormat = "indented"
	}
	if rapid.Bool().Draw(t, "settings") {
		n := rapid.IntRange(1, 3).Draw(t, "nset")
		cfg.Settings = map[string]string{}
		for i := 0; i < n; i++ {
			tg := toggles[rapid.IntRange(0, len(toggles)-1).Draw(t, "toggle")]
			cfg.Settings[tg.key] = rapid.SampledFrom(tg.vals).Draw(t, "toggleval")
		}
	}
	return cfg
}

// ---------------------------------------------------------------- size classes

// sizes sit on both sides of the literal thresholds the handlers slice or
// truncate at (10: token display; 47/50: symbol name/value in the task log;
// 80: code in the format/ast request log; 117/120: code in the run request
// log; 256/1024/4096: buffers; 256 KiB: the code-size limit).
var sizes = []int{0, 1, 9, 10, 11, 46, 47, 48, 49, 50, 51, 79, 80, 81, 116, 117, 118, 119, 120, 121, 255, 256, 257, 1000, 1023, 1024, 1025, 4095, 4096, 4097, 65536, 262143, 262144, 262145}

// sized returns a string of exactly n bytes of the given kind:
//
//	a           'a' repeated
//	utf8        two-byte runes (a cut at an odd offset splits a rune)
//	code-long   a parsable Ego statement padded with a comment (formats long)
//	code-short  a parsable Ego statement padded with blanks (formats short)
//	code-bad    an unparsable program (nothing to format)
func sized(kind string, n int) string {
	pad := func(prefix, fill string) string {
		if n <= len(prefix) {
			return strings.Repeat("a", n)
		}
		s := prefix + strings.Repeat(fill, (n-len(prefix))/len(fill)+1)
		return s[:n]
	}
	switch kind {
	case "utf8":
		s := strings.Repeat("é", n/2)
		if len(s) < n {
			s += "a"
		}
		return s
	case "code-long":
		return pad("x := 1 // ", "c")
	case "code-short":
		return pad("x := 1", " ")
	case "code-bad":
		return pad("x := ( ", "(")
	}
	return strings.Repeat("a", n)
}

var sizeKinds = []string{"a", "utf8", "code-long", "code-short", "code-bad"}

// replaceStringLeaves returns copies of v in which exactly one string leaf is
// replaced by f(old) (one copy per returned string).
func replaceStringLeaves(v any, f func(old string) []string) []any {
	var out []any
	var walk func(cur any, rebuild func(any) any)
	walk = func(cur any, rebuild func(any) any) {
		switch x := cur.(type) {
		case M:
			keys := make([]string, 0, len(x))
			for k := range x {
				keys = append(keys, k)
			}
			sort.Strings(keys)
			for _, k := range keys {
				k := k
				walk(x[k], func(nv any) any {
					cp := M{}
					for kk, vv := range x {
						cp[kk] = vv
					}
					cp[k] = nv
					return rebuild(cp)
				})
			}
		case A:
			for i := range x {
				i := i
				if i >= 3 {
					break
				}
				walk(x[i], func(nv any) any {
					cp := append(A{}, x...)
					cp[i] = nv
					return rebuild(cp)
				})
			}
		case string:
			for _, ns := range f(x) {
				out = append(out, rebuild(ns))
			}
		}
	}
	walk(v, func(nv any) any { return nv })
	return out
}

var allMethods = []string{"GET", "POST", "PUT", "PATCH", "DELETE", "HEAD", "OPTIONS", "TRACE", "get", "Get", "PROPFIND", "QUERY"}

func genCase(t *rapid.T) Case {
	e, err := getEnv()
	if err != nil {
		t.Fatalf("fixture: %v", err)
	}
	// route: uniform over the table, the table and row routes a bit heavier
	var info router.VerifRouteInfo
	if rapid.Bool().Draw(t, "weighted") {
		// weighted by surface: 1 + variables + declared parameters + documented payloads/4
		if e.weighted == nil {
			for _, r := range e.routes {
				w := 1 + strings.Count(r.Endpoint, "{{") + len(r.Parameters) + len(e.basePayloads(r.Method, r.Endpoint))/4
				for ; w > 0; w-- {
					e.weighted = append(e.weighted, r)
				}
			}
		}
		info = e.weighted[rapid.IntRange(0, len(e.weighted)-1).Draw(t, "wroute")]
	} else {
		info = e.routes[rapid.IntRange(0, len(e.routes)-1).Draw(t, "route")]
	}
	c := Case{Method: info.Method, Endpoint: info.Endpoint}
	if c.Method == "" || c.Method == "ANY" || c.Method == "*" {
		c.Method = "GET"
	}
	var q string
	var fc focus
	if rapid.IntRange(0, 2).Draw(t, "focused") != 0 {
		// the hostile dimension is drawn in proportion to the route's surface:
		// one share per path variable, per declared parameter, two per
		// documented payload (at most 8), one each for headers and credentials
		dims := []string{"headers", "auth"}
		for i := strings.Count(info.Endpoint, "{{"); i > 0; i-- {
			dims = append(dims, "vars")
		}
		for range info.Parameters {
			dims = append(dims, "query")
		}
		nb := 2 * len(e.basePayloads(info.Method, info.Endpoint))
		if nb > 8 {
			nb = 8
		}
		if nb == 0 && info.Method != "GET" && info.Method != "HEAD" && info.Method != "DELETE" {
			nb = 2
		}
		for ; nb > 0; nb-- {
			dims = append(dims, "body")
		}
		fc = focus{on: true, dim: rapid.SampledFrom(dims).Draw(t, "dim")}
	}
	c.Path, c.PathClass = e.genPath(t, info, fc)
	q, c.QueryClass = e.genQuery(t, info, fc)
	c.Path += q
	c.Header, c.HdrClass = e.genHeaders(t, info, fc)
	c.Auth, c.AuthLit = e.genAuth(t, info, fc)
	c.Body, c.BodyClass = e.genBody(t, info, fc)
	if strings.HasPrefix(c.BodyClass, "sized") {
		// "sized:<kind>:<n>" -> body class "sized:<kind>", size class "<n>"
		if i := strings.LastIndex(c.BodyClass, ":"); i > 0 {
			c.BodyClass, c.SizeClass = c.BodyClass[:i], c.BodyClass[i+1:]
		}
	}
	c.Cfg = genConfig(t)
	if fc.on {
		c.PathClass = "focus-" + fc.dim + ":" + c.PathClass
		return c
	}
	switch rapid.IntRange(0, 29).Draw(t, "routemut") {
	case 0: // another method on the same path
		c.Method = rapid.SampledFrom(allMethods).Draw(t, "method")
		c.PathClass += "+other-method"
	case 1: // a path that is in no table
		c.Path = rapid.SampledFrom([]string{"/", "/nosuch", "/admin", "/admin/", "/admin/nosuch", "/dsns", "/dsns//", "/dsns/c40dsn", "/dsns/c40dsn/tables", "/tables/c40t/rows", "/services", "/services/", "/services/nosuch", "/services/admin", "/services/admin/logon/extra", "/%00", "/..", "/../../etc/passwd", "/assets", "/favicon.ico", "/" + strings.Repeat("a/", 3000), "/ADMIN/USERS/", "//admin/users/", "/admin//users/"}).Draw(t, "nopath")
		c.PathClass = "unknown-path"
	}
	return c
}

// fixedCases is the enumerated first-order sweep, run before the random search
// (shard 0): for every route of the table
//
//	(a) one plain, well-formed administrator request (and one naming a DSN
//	    that does not exist);
//	(b) every declared query parameter alone, with the empty value, a
//	    well-formed value and two ill-typed ones;
//	(c) every path variable with each of 8 odd values, the others well-formed;
//	(d) every documented payload unchanged, then 10 wrong shapes / invalid
//	    documents as the body;
//	(d') every leaf of every documented payload replaced, one at a time, by
//	    "" (string leaves) and by null;
//	(e) the plain request without credentials, as the non-admin user and with
//	    the revoked token;
//	(f) string sizes on both sides of the thresholds the handlers truncate at
//	    (code of 0..262145 bytes, parsable / unparsable / formatting short, for
//	    the code routes; 48/51/81/121-byte values in every string leaf of the
//	    first three payloads of every route);
//	(g) all of the above once more with every logger switched on;
//	(h) the plain request under the REST logger alone with JSON logging.
//
// A defect that needs only one hostile element is therefore met in every run,
// whatever the seed; the random search covers the combinations.
func fixedCases() []Case {
	e, err := getEnv()
	if err != nil {
		return nil
	}
	var out []Case
	fill := func(ep string, odd map[string]string) string {
		parts := strings.Split(ep, "/")
		for i, p := range parts {
			if !strings.HasPrefix(p, "{{") {
				continue
			}
			name := strings.TrimSuffix(strings.TrimSuffix(strings.TrimPrefix(p, "{{"), "}}"), "...")
			if v, ok := odd[name]; ok {
				parts[i] = pathEscape(v)
			} else if name == "item" {
				parts[i] = "dashboard/dashboard.css"
			} else {
				parts[i] = pathEscape(e.goodVar(name)[0])
			}
		}
		return strings.Join(parts, "/")
	}
	typed := map[string][]string{
		"int":      {"", "5", "abc", "-1"},
		"bool":     {"", "true", "maybe", "2"},
		"duration": {"", "1m", "xyz", "-1s"},
		"list":     {"", "id,name", ",", "~"},
		"string":   {"", "x", "'", "\x00"},
		"any":      {"", "EQ(id,1)", "EQ(id", "(((("},
	}
	oddVars := []string{"", " ", "'", "\x00", "..", "ünï©ødé☃", strings.Repeat("a", 5000), "-1"}
	bodies := []string{`null`, `[]`, `{}`, `"x"`, `0`, `[null]`, `{"rows":null}`, `{`, ``, `[[[[[[[[[[[[[[[[[[[[`}
	for _, info := range e.routes {
		info := info
		base := func(pc string) Case {
			c := Case{Method: info.Method, Endpoint: info.Endpoint, Path: fill(info.Endpoint, nil), Auth: "admin", Header: map[string]string{"Content-Type": "application/json"}, PathClass: pc, QueryClass: "none", HdrClass: "plain", BodyClass: "none"}
			if len(info.AcceptMedia) > 0 {
				c.Header["Accept"] = info.AcceptMedia[0]
			}
			if b := e.basePayloads(info.Method, info.Endpoint); len(b) > 0 {
				bb, _ := json.Marshal(b[0])
				c.Body, c.BodyClass = string(bb), "documented"
			}
			if strings.HasSuffix(info.Endpoint, "/rows") && (info.Method == "DELETE" || info.Method == "PATCH") {
				c.Path += "?filter=" + url.QueryEscape("EQ(id,1)")
			}
			return c
		}
		// (a)
		out = append(out, base("fixed"))
		if strings.Contains(info.Endpoint, "{{dsn}}") {
			c := base("fixed-missing-dsn")
			c.Path = strings.Replace(c.Path, dsnOpen, "nosuchdsn", 1)
			out = append(out, c)
		}
		// (b)
		names := make([]string, 0, len(info.Parameters))
		for k := range info.Parameters {
			names = append(names, k)
		}
		sort.Strings(names)
		for _, n := range names {
			vals, ok := typed[info.Parameters[n]]
			if !ok {
				vals = typed["string"]
			}
			for _, v := range vals {
				c := base("fixed-param")
				sep := "?"
				if strings.Contains(c.Path, "?") {
					if n == "filter" {
						c.Path = c.Path[:strings.Index(c.Path, "?")]
					} else {
						sep = "&"
					}
				}
				c.Path += sep + url.QueryEscape(n) + "=" + url.QueryEscape(v)
				c.QueryClass = "declared:" + info.Parameters[n]
				out = append(out, c)
			}
		}
		// (c)
		for _, p := range strings.Split(info.Endpoint, "/") {
			if !strings.HasPrefix(p, "{{") {
				continue
			}
			name := strings.TrimSuffix(strings.TrimSuffix(strings.TrimPrefix(p, "{{"), "}}"), "...")
			for _, v := range oddVars {
				c := base("fixed-odd-var")
				q := ""
				if i := strings.Index(c.Path, "?"); i >= 0 {
					q = c.Path[i:]
				}
				c.Path = fill(info.Endpoint, map[string]string{name: v}) + q
				out = append(out, c)
			}
		}
		// (d)
		payloads := e.basePayloads(info.Method, info.Endpoint)
		for i, b := range payloads {
			if i == 0 {
				continue
			}
			c := base("fixed-payload")
			bb, _ := json.Marshal(b)
			c.Body, c.BodyClass = string(bb), "documented"
			out = append(out, c)
		}
		// (d') every leaf of every documented payload, one at a time, replaced by
		// the empty string (string leaves) and by null
		for i, b := range payloads {
			if i >= 12 {
				break
			}
			for _, v := range leafVariants(b) {
				c := base("fixed-leaf")
				bb, _ := json.Marshal(v)
				c.Body, c.BodyClass = string(bb), "leaf-emptied"
				out = append(out, c)
			}
		}
		if len(payloads) > 0 || (info.Method != "GET" && info.Method != "HEAD" && info.Method != "DELETE") {
			for _, b := range bodies {
				c := base("fixed-body")
				c.Body, c.BodyClass = b, "wrong-shape"
				out = append(out, c)
			}
		}
		// (e)
		for _, a := range []string{"none", "user", "revoked"} {
			c := base("fixed-auth")
			c.Auth = a
			out = append(out, c)
		}
		// (f) size classes around the thresholds the handlers truncate at
		if info.Endpoint == "/admin/run" || info.Endpoint == "/admin/ast" || info.Endpoint == "/admin/format" {
			for _, kind := range []string{"code-long", "code-short", "code-bad", "a"} {
				for _, n := range []int{0, 1, 50, 51, 79, 80, 81, 117, 118, 120, 121, 1000, 262144, 262145} {
					c := base("fixed-size")
					bb, _ := json.Marshal(M{"code": sized(kind, n)})
					c.Body, c.BodyClass, c.SizeClass = string(bb), "sized:"+kind, fmt.Sprint(n)
					out = append(out, c)
				}
			}
		}
		for i, b := range payloads {
			if i >= 3 {
				break
			}
			for _, n := range []int{48, 51, 81, 121} {
				n := n
				for _, v := range replaceStringLeaves(b, func(string) []string { return []string{sized("a", n)} }) {
					c := base("fixed-size")
					bb, _ := json.Marshal(v)
					c.Body, c.BodyClass, c.SizeClass = string(bb), "sized:a", fmt.Sprint(n)
					out = append(out, c)
				}
			}
		}
	}
	// (g) the whole sweep once more with every logger switched on, so that each
	// route x parameter x payload-leaf case also runs with every logging branch
	// live (payload logging, SQL, table, auth, route, validation loggers …)
	n := len(out)
	for i := 0; i < n; i++ {
		out[i].Cfg.LogClass = "baseline"
		c := out[i]
		c.Cfg = Config{LogClass: "all"}
		out = append(out, c)
	}
	// (h) the plain request of every route under the REST logger alone, in the
	// JSON log format, and with the response-payload logging setting on
	for i := 0; i < n; i++ {
		if out[i].PathClass != "fixed" {
			continue
		}
		c := out[i]
		c.Cfg = Config{LogClass: "single:REST", Loggers: []string{"REST"}, LogFormat: "json", Settings: map[string]string{"ego.server.log.response": "true"}}
		out = append(out, c)
	}
	return out
}

// leafVariants returns copies of v in which exactly one leaf (scalar, or empty
// container) is replaced: string leaves by "", every leaf by nil.
func leafVariants(v any) []any {
	var out []any
	var walk func(cur any, rebuild func(any) any)
	walk = func(cur any, rebuild func(any) any) {
		switch x := cur.(type) {
		case M:
			keys := make([]string, 0, len(x))
			for k := range x {
				keys = append(keys, k)
			}
			sort.Strings(keys)
			if len(keys) == 0 {
				out = append(out, rebuild(nil))
			}
			for _, k := range keys {
				k := k
				walk(x[k], func(nv any) any {
					cp := M{}
					for kk, vv := range x {
						cp[kk] = vv
					}
					cp[k] = nv
					return rebuild(cp)
				})
			}
		case A:
			if len(x) == 0 {
				out = append(out, rebuild(nil))
			}
			for i := range x {
				i := i
				if i >= 4 {
					break
				}
				walk(x[i], func(nv any) any {
					cp := append(A{}, x...)
					cp[i] = nv
					return rebuild(cp)
				})
			}
		case string:
			if x != "" {
				out = append(out, rebuild(""))
			}
			out = append(out, rebuild(nil))
		case nil:
		default:
			out = append(out, rebuild(nil))
		}
	}
	walk(v, func(nv any) any { return nv })
	return out
}
