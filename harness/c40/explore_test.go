package c40

import (
	"fmt"
	"strings"
	"testing"

	"github.com/tucats/ego/verif/srvfix"
	"pgregory.net/rapid"
)

func TestExplore(t *testing.T) {
	if _, err := getEnv(); err != nil {
		t.Fatal(err)
	}
	n := map[string]int{}
	rapid.Check(t, func(rt *rapid.T) {
		c := genCase(rt)
		if !strings.Contains(c.Endpoint, "/rows") && !strings.Contains(c.Endpoint, "@transaction") && !strings.HasSuffix(c.Endpoint, "{{table}}") && !strings.Contains(c.Endpoint, "@sql") {
			return
		}
		if !strings.HasPrefix(c.PathClass, "focus-") || c.Method == "GET" {
			return
		}
		k := c.Method + c.Endpoint
		if n[k] > 6 {
			return
		}
		n[k]++
		e := theEnv
		h := map[string]string{}
		for k, v := range c.Header {
			h[k] = v
		}
		h["Authorization"] = e.authHeader(c)
		e.reached = nil
		r := e.f.Do(srvfix.Request{Method: c.Method, Path: c.Path, Header: h, Body: c.Body})
		_ = e.restore(r.Body)
		fmt.Printf("CASE %s %s auth=%s %s hdr=%v body=%s\n   -> %d reached=%v %s\n", c.Method, clip(c.Path, 150), c.Auth, c.PathClass, c.Header, clip(c.Body, 200), r.Status, e.reached != nil, strings.Join(strings.Fields(clip(string(r.Body), 300)), " "))
	})
}
