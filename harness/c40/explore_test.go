package c40

import (
	"fmt"
	"strings"
	"testing"
	"time"

	"github.com/tucats/ego/verif/srvfix"
)

func TestExplore(t *testing.T) {
	e, err := getEnv()
	if err != nil {
		t.Fatal(err)
	}
	for _, c := range fixedCases() {
		if c.PathClass != "fixed" {
			continue
		}
		h := map[string]string{}
		for k, v := range c.Header {
			h[k] = v
		}
		h["Authorization"] = e.authHeader(c)
		e.reached = nil
		t0 := time.Now()
		r := e.f.Do(srvfix.Request{Method: c.Method, Path: c.Path, Header: h, Body: c.Body})
		d := time.Since(t0)
		b := strings.ReplaceAll(string(r.Body), "\n", " ")
		if len(b) > 260 {
			b = b[:260]
		}
		t1 := time.Now()
		rerr := e.restore(r.Body)
		fmt.Printf("%-6s %-50s %d reached=%v %v restore=%v %v | %s | %s\n", c.Method, c.Path, r.Status, e.reached != nil, d, time.Since(t1), rerr, c.Body, b)
	}
}
