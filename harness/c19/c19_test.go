// Package c19 decides property C19, "REST JSON responses carry exactly the
// handler's data": every JSON body written by util.WriteJSON, compressed or
// not, decodes to exactly the JSON value the handler produced, and the
// whitespace stripper (egostrings.JSONMinify) never alters string contents or
// structure.
//
// Preconditions taken from real callers and from the documentation:
//
//   - Every caller of util.WriteJSON passes a Go value that json.MarshalIndent
//     accepts (structs, maps, slices, scalars). The check passes maps, slices,
//     strings, json.Number, bool, nil and - as the "pre-encoded" form a handler
//     can hand to a writer that takes `any` - json.RawMessage. A []byte or
//     string body is not "pre-encoded JSON" for WriteJSON: encoding/json turns
//     it into a JSON string, which is covered by the string leaves.
//   - Every caller of egostrings.JSONMinify (util.WriteJSON, router/admin.go,
//     server/admin/validation.go, server/admin/users/list.go,
//     runtime/rest/exchange.go) feeds it the output of json.MarshalIndent with
//     ui.JSONIndentPrefix/Spacer. JSONMinify's own documentation promises more
//     ("removes all unnecessary whitespace from a JSON string without altering
//     its meaning"), so the direct part of the check feeds it any RFC 8259 JSON
//     text in valid UTF-8: arbitrary insignificant whitespace (space, tab, LF,
//     CR), every escape spelling, MarshalIndent output with odd prefix/indent.
//     Texts that are not valid JSON (e.g. U+00A0 between tokens) or not valid
//     UTF-8 are outside the domain and are never generated.
//   - Go strings in handler values are valid UTF-8 here. encoding/json replaces
//     invalid bytes by U+FFFD before the minifier sees the text, so they add
//     nothing for the code under test and would not survive the JSON replay
//     file.
//   - info.AcceptsGzip is computed the way router/serve.go does it:
//     util.AcceptsGzip(request). The header values are the documented examples
//     of util.AcceptsGzip's comment; the oracle only uses the documented
//     meaning of those examples ("gzip;q=0", "identity", absent header = do
//     not compress).
//   - The compression threshold is the documented setting
//     ego.server.compression.threshold (unset = 4096, 0 = never), set through
//     settings.SetDefault as the package's own tests do.
//
// Oracle. writer: the recorded body, gunzipped iff the response says
// Content-Encoding: gzip, must be one JSON document that deep-equals
// Unmarshal(Marshal(value)) (numbers compared as literals); a gzip encoding
// must not be sent to a client whose Accept-Encoding does not allow it (the
// client could not decode the body). minify: for valid text T,
// JSONMinify(T) is valid JSON and decodes to the same value as T.
package c19

import (
	"bytes"
	"compress/gzip"
	"encoding/json"
	"fmt"
	"io"
	"net/http"
	"net/http/httptest"
	"os"
	"reflect"
	"sort"
	"strings"
	"testing"
	"unicode"
	"unicode/utf8"

	"github.com/tucats/ego/internal/cli/settings"
	"github.com/tucats/ego/internal/defs"
	"github.com/tucats/ego/internal/util"
	egostrings "github.com/tucats/ego/internal/util/strings"
	"github.com/tucats/ego/verif/vkit"
	"pgregory.net/rapid"
)

// Node is a JSON value as plain data.
type Node struct {
	K string   `json:"k"`           // null | bool | num | str | arr | obj
	B bool     `json:"b,omitempty"` // bool
	N string   `json:"n,omitempty"` // number literal
	S string   `json:"s,omitempty"` // string
	A []*Node  `json:"a,omitempty"` // array elements
	O []Member `json:"o,omitempty"` // object members, in generation order
}

// Member is one object member.
type Member struct {
	Key string `json:"key"`
	V   *Node  `json:"v"`
}

// Case is one response ("writer") or one text for the minifier ("minify").
type Case struct {
	Kind string `json:"kind"`

	// writer
	Value *Node `json:"value,omitempty"`
	// Body: "value" passes the Go value built from Value; "raw" passes
	// json.RawMessage(Text) (Text is a spelling of Value drawn by the generator).
	Body string `json:"body,omitempty"`
	// Repeat > 1 wraps the value in an array of that many copies (row sets).
	Repeat int `json:"repeat,omitempty"`
	// HasAE / AcceptEncoding: the request's Accept-Encoding header.
	HasAE          bool   `json:"has_accept_encoding,omitempty"`
	AcceptEncoding string `json:"accept_encoding,omitempty"`
	// Threshold: value of ego.server.compression.threshold; "" = unset.
	Threshold string `json:"threshold,omitempty"`

	// overlap / storm: several writer cases in flight at once (overlap_test.go).
	// Threshold above is shared by all parts.
	Parts   []Case   `json:"parts,omitempty"`
	Hooks   []string `json:"hooks,omitempty"`
	Workers int      `json:"workers,omitempty"`

	// minify (and writer with Body "raw")
	Text string `json:"text,omitempty"`
	// How the text was produced (label only).
	Style string `json:"style,omitempty"`
}

// ---------------------------------------------------------------- generator

var alphabet = []rune{
	'\\', '\\', '\\', '\\', '"', '"', '"', ' ', ' ', ' ', ' ',
	'\t', '\n', '\r', '\b', '\f', 0x00, 0x01, 0x1f, 0x7f,
	'a', 'b', 'Z', '0', '9', '/', '<', '>', '&', '\'', ':', ',', '{', '}', '[', ']', 'u', 'n',
	0x85, 0xa0, 0x1680, 0x2003, 0x2028, 0x2029, 0x202f, 0x3000, 0xfeff,
	0xe9, 0x4e16, 0xfffd, 0x1f600, 0x10000, 0xd7ff, 0xe000,
}

var fixedStrings = []string{
	"", `\`, `\\`, `a\`, `a\\`, `"`, `\"`, `"\`, `\\"`, ` `, `a b`, ` \`, `\ `, "\\\n", "\u2028", "a\u00a0b",
	`C:\dir\`, `say "hi"`, `\u0041`, `\n`, "tab\there", `{"k": "v"}`, `[ 1, 2 ]`,
}

func genString(t *rapid.T) string {
	if rapid.IntRange(0, 5).Draw(t, "sfixed") == 0 {
		return rapid.SampledFrom(fixedStrings).Draw(t, "sf")
	}
	rs := rapid.SliceOfN(rapid.SampledFrom(alphabet), 0, 10).Draw(t, "runes")
	s := string(rs)
	switch rapid.IntRange(0, 11).Draw(t, "tail") {
	case 0:
		s += `\`
	case 1:
		s += `\\`
	case 2:
		s += `\"`
	}
	return s
}

var numbers = []string{"0", "-0", "1", "-1", "42", "3.14", "-2.5e10", "1E-7", "1e+3", "0.000001", "9007199254740993", "-9223372036854775808", "1.7976931348623157e308", "123456789012345678901234567890"}

func genRoot(t *rapid.T, depth int) *Node {
	if depth <= 0 {
		return genNode(t, 0)
	}
	// a container at the root (what handlers send), at least one element
	for {
		n := genNode(t, depth)
		if (n.K == "arr" && len(n.A) > 0) || (n.K == "obj" && len(n.O) > 0) {
			return n
		}
		if rapid.IntRange(0, 9).Draw(t, "scalar-root") == 0 {
			return n
		}
	}
}

func genNode(t *rapid.T, depth int) *Node {
	k := rapid.IntRange(0, 11).Draw(t, "kind")
	if depth <= 0 && k >= 6 {
		k = 3 + k%3
	}
	switch k {
	case 0:
		return &Node{K: "null"}
	case 1:
		return &Node{K: "bool", B: rapid.Bool().Draw(t, "b")}
	case 2:
		if rapid.Bool().Draw(t, "numfixed") {
			return &Node{K: "num", N: rapid.SampledFrom(numbers).Draw(t, "num")}
		}
		return &Node{K: "num", N: fmt.Sprint(rapid.IntRange(-1000, 1000).Draw(t, "int"))}
	case 3, 4, 5:
		return &Node{K: "str", S: genString(t)}
	case 6, 7, 8:
		n := rapid.IntRange(0, 4).Draw(t, "alen")
		nd := &Node{K: "arr"}
		for i := 0; i < n; i++ {
			nd.A = append(nd.A, genNode(t, depth-1))
		}
		return nd
	default:
		n := rapid.IntRange(0, 4).Draw(t, "olen")
		nd := &Node{K: "obj"}
		for i := 0; i < n; i++ {
			nd.O = append(nd.O, Member{Key: genString(t), V: genNode(t, depth-1)})
		}
		return nd
	}
}

// toGo builds the Go value a handler would pass.
func toGo(n *Node) any {
	if n == nil {
		return nil
	}
	switch n.K {
	case "bool":
		return n.B
	case "num":
		return json.Number(n.N)
	case "str":
		return n.S
	case "arr":
		a := make([]any, 0, len(n.A))
		for _, e := range n.A {
			a = append(a, toGo(e))
		}
		return a
	case "obj":
		m := map[string]any{}
		for _, e := range n.O {
			m[e.Key] = toGo(e.V)
		}
		return m
	}
	return nil
}

var wsMenu = []string{"", "", "", " ", " ", "\n", "\t", "\r", "\r\n", "  ", " \t ", "\n\n   ", "\n\t\t"}

const hexLower, hexUpper = "0123456789abcdef", "0123456789ABCDEF"

func uEscape(t *rapid.T, r rune) string {
	digits := hexLower
	if rapid.Bool().Draw(t, "hexcase") {
		digits = hexUpper
	}
	one := func(v rune) string {
		return `\u` + string([]byte{digits[(v>>12)&15], digits[(v>>8)&15], digits[(v>>4)&15], digits[v&15]})
	}
	if r >= 0x10000 {
		r -= 0x10000
		return one(0xd800+(r>>10)) + one(0xdc00+(r&0x3ff))
	}
	return one(r)
}

var shortEsc = map[rune]string{'"': `\"`, '\\': `\\`, '/': `\/`, '\b': `\b`, '\f': `\f`, '\n': `\n`, '\r': `\r`, '\t': `\t`}

// spellString writes s as a JSON string token, choosing per rune among the
// spellings RFC 8259 allows.
func spellString(t *rapid.T, s string, sb *strings.Builder) {
	sb.WriteByte('"')
	for _, r := range s {
		mustEscape := r < 0x20 || r == '"' || r == '\\'
		se, hasShort := shortEsc[r]
		style := rapid.IntRange(0, 5).Draw(t, "esc")
		switch {
		case !mustEscape && style <= 3:
			sb.WriteRune(r)
		case hasShort && style <= 4:
			sb.WriteString(se)
		default:
			sb.WriteString(uEscape(t, r))
		}
	}
	sb.WriteByte('"')
}

func ws(t *rapid.T, sb *strings.Builder) {
	sb.WriteString(rapid.SampledFrom(wsMenu).Draw(t, "ws"))
}

// spell writes n as JSON text with drawn whitespace and escape spellings.
func spell(t *rapid.T, n *Node, sb *strings.Builder) {
	switch n.K {
	case "null":
		sb.WriteString("null")
	case "bool":
		if n.B {
			sb.WriteString("true")
		} else {
			sb.WriteString("false")
		}
	case "num":
		sb.WriteString(n.N)
	case "str":
		spellString(t, n.S, sb)
	case "arr":
		sb.WriteByte('[')
		ws(t, sb)
		for i, e := range n.A {
			if i > 0 {
				sb.WriteByte(',')
				ws(t, sb)
			}
			spell(t, e, sb)
			ws(t, sb)
		}
		sb.WriteByte(']')
	case "obj":
		sb.WriteByte('{')
		ws(t, sb)
		for i, e := range n.O {
			if i > 0 {
				sb.WriteByte(',')
				ws(t, sb)
			}
			spellString(t, e.Key, sb)
			ws(t, sb)
			sb.WriteByte(':')
			ws(t, sb)
			spell(t, e.V, sb)
			ws(t, sb)
		}
		sb.WriteByte('}')
	}
}

var indentMenu = []string{"", " ", "  ", "   ", "\t", " \t", "\t ", "       ", "\n", "\r"}

// genText draws a JSON text for the value n.
func genText(t *rapid.T, n *Node) (text, style string) {
	switch rapid.IntRange(0, 5).Draw(t, "textstyle") {
	case 0, 1, 2:
		var sb strings.Builder
		ws(t, &sb)
		spell(t, n, &sb)
		ws(t, &sb)
		return sb.String(), "spelled"
	case 3:
		prefix := rapid.SampledFrom(indentMenu).Draw(t, "prefix")
		indent := rapid.SampledFrom(indentMenu).Draw(t, "indent")
		b, err := json.MarshalIndent(toGo(n), prefix, indent)
		if err != nil {
			panic(err)
		}
		return string(b), "marshalindent"
	case 4:
		// same, HTML escaping off: raw <, >, & and raw U+2028/U+2029 in strings
		var buf bytes.Buffer
		enc := json.NewEncoder(&buf)
		enc.SetEscapeHTML(false)
		enc.SetIndent(rapid.SampledFrom(indentMenu).Draw(t, "prefix"), rapid.SampledFrom(indentMenu).Draw(t, "indent"))
		if err := enc.Encode(toGo(n)); err != nil {
			panic(err)
		}
		return buf.String(), "encoder-nohtml"
	default:
		b, err := json.Marshal(toGo(n))
		if err != nil {
			panic(err)
		}
		return string(b), "compact"
	}
}

// The documented examples of util.AcceptsGzip with their documented meaning.
var acceptEncodings = []struct {
	has    bool
	value  string
	accept bool
}{
	{false, "", false},
	{true, "gzip", true},
	{true, "gzip, deflate", true},
	{true, "gzip;q=0.5, br", true},
	{true, "*", true},
	{true, "GZIP", true},
	{true, "deflate, gzip;q=1.0", true},
	{true, "gzip;q=0", false},
	{true, "identity", false},
	{true, "deflate", false},
	{true, "gzip;q=0, *", false},
	{true, "", false},
}

func documentedAccept(has bool, value string) (accept, known bool) {
	for _, a := range acceptEncodings {
		if a.has == has && a.value == value {
			return a.accept, true
		}
	}
	return false, false
}

var thresholds = []string{"", "", "", "0", "1", "64", "256", "1000", "4096", "100000"}

func gen(t *rapid.T) Case {
	switch rapid.IntRange(0, 19).Draw(t, "inflight") {
	case 0, 1:
		return genInFlight(t, "overlap")
	case 2:
		return genInFlight(t, "storm")
	}
	depth := rapid.SampledFrom([]int{0, 1, 1, 2, 2, 3, 3}).Draw(t, "depth")
	if rapid.Bool().Draw(t, "case") {
		n := genRoot(t, depth)
		text, style := genText(t, n)
		return Case{Kind: "minify", Text: text, Style: style}
	}
	c := Case{Kind: "writer", Body: "value", Value: genRoot(t, depth)}
	if rapid.IntRange(0, 5).Draw(t, "rawbody") == 0 {
		c.Body = "raw"
		var sb strings.Builder
		spell(t, c.Value, &sb)
		c.Text, c.Style = sb.String(), "spelled"
	}
	switch rapid.IntRange(0, 3).Draw(t, "size") {
	case 0:
		c.Repeat = rapid.IntRange(2, 40).Draw(t, "repeat")
	case 1:
		c.Repeat = rapid.IntRange(40, 400).Draw(t, "repeat")
	}
	ae := rapid.SampledFrom(acceptEncodings).Draw(t, "ae")
	c.HasAE, c.AcceptEncoding = ae.has, ae.value
	c.Threshold = rapid.SampledFrom(thresholds).Draw(t, "threshold")
	return c
}

// ------------------------------------------------------------------- oracle

// decodeOne decodes exactly one JSON document (numbers kept as literals).
func decodeOne(b []byte) (any, error) {
	dec := json.NewDecoder(bytes.NewReader(b))
	dec.UseNumber()
	var v any
	if err := dec.Decode(&v); err != nil {
		return nil, err
	}
	var extra any
	if err := dec.Decode(&extra); err != io.EOF {
		return nil, fmt.Errorf("trailing data after the JSON document (%v)", err)
	}
	return v, nil
}

// interesting reports whether some string (key or value) of v contains a
// backslash, a quote or white space; endsBS whether one ends in a backslash.
func interesting(v any) (special, endsBS, uniSpace bool) {
	var walk func(v any)
	str := func(s string) {
		if strings.ContainsAny(s, "\\\"") {
			special = true
		}
		for _, r := range s {
			if unicode.IsSpace(r) {
				special = true
				if r > 0x7f {
					uniSpace = true
				}
			}
		}
		if strings.HasSuffix(s, `\`) {
			endsBS = true
		}
	}
	walk = func(v any) {
		switch x := v.(type) {
		case string:
			str(x)
		case []any:
			for _, e := range x {
				walk(e)
			}
		case map[string]any:
			for k, e := range x {
				str(k)
				walk(e)
			}
		}
	}
	walk(v)
	return
}

// hasEscapedBackslashBeforeQuote scans JSON text and reports whether some
// string token ends in an escaped backslash (an even, non-zero run of
// backslashes directly before the closing quote).
func hasEscapedBackslashBeforeQuote(text string) bool {
	in := false
	run := 0
	for i := 0; i < len(text); i++ {
		ch := text[i]
		if !in {
			if ch == '"' {
				in, run = true, 0
			}
			continue
		}
		switch {
		case ch == '\\':
			run++
		case ch == '"' && run%2 == 0:
			if run > 0 {
				return true
			}
			in = false
		default:
			run = 0
		}
	}
	return false
}

func rootCause(indented string, what string) string {
	if hasEscapedBackslashBeforeQuote(indented) {
		return "JSONMinify: string token ending in an escaped backslash (\\\\\") desynchronises quote tracking"
	}
	return what
}

func depthOf(v any) int {
	d := 0
	switch x := v.(type) {
	case []any:
		for _, e := range x {
			if k := depthOf(e) + 1; k > d {
				d = k
			}
		}
	case map[string]any:
		for _, e := range x {
			if k := depthOf(e) + 1; k > d {
				d = k
			}
		}
	}
	return d
}

func show(b []byte) string {
	if len(b) > 600 {
		return fmt.Sprintf("%q… (%d bytes)", b[:600], len(b))
	}
	return fmt.Sprintf("%q", b)
}

func oracle(c Case) vkit.Outcome {
	switch c.Kind {
	case "minify":
		return oracleMinify(c)
	case "writer":
		return oracleWriter(c)
	case "overlap", "storm":
		return oracleInFlight(c)
	}
	return vkit.Outcome{Skip: "unknown kind"}
}

func oracleMinify(c Case) vkit.Outcome {
	var out vkit.Outcome
	if !utf8.ValidString(c.Text) || !json.Valid([]byte(c.Text)) {
		out.Skip = "generated text is not valid JSON"
		return out
	}
	want, err := decodeOne([]byte(c.Text))
	if err != nil {
		out.Skip = "generated text does not decode"
		return out
	}
	special, endsBS, uni := interesting(want)
	pattern := hasEscapedBackslashBeforeQuote(c.Text)
	out.NonTrivial = special
	out.Key = "m:" + c.Text
	out.Labels = []string{
		"kind=minify style=" + c.Style,
		fmt.Sprintf("minify special=%v ends-in-backslash=%v", special, endsBS),
		fmt.Sprintf("minify escaped-backslash-before-quote=%v", pattern),
		fmt.Sprintf("minify unicode-space-in-string=%v", uni),
		fmt.Sprintf("minify depth=%d", depthOf(want)),
	}
	got := egostrings.JSONMinify(c.Text)
	if !json.Valid([]byte(got)) {
		out.Fail = &vkit.Failure{Sig: rootCause(c.Text, "JSONMinify: output is not valid JSON"),
			Observed: "JSONMinify(" + show([]byte(c.Text)) + ") = " + show([]byte(got)) + " which is not valid JSON",
			Expected: "valid JSON with the same meaning"}
		return out
	}
	gv, err := decodeOne([]byte(got))
	if err != nil || !reflect.DeepEqual(gv, want) {
		wj, _ := json.Marshal(want)
		out.Fail = &vkit.Failure{Sig: rootCause(c.Text, "JSONMinify: decoded value differs"),
			Observed: "JSONMinify(" + show([]byte(c.Text)) + ") = " + show([]byte(got)) + fmt.Sprintf(" (decode error: %v)", err),
			Expected: "a text that decodes to " + show(wj)}
	}
	return out
}

// writerPrep builds the value a handler would pass to util.WriteJSON and the
// value its body must decode to.
func writerPrep(c Case) (body any, want any, compact []byte, skip string) {
	switch c.Body {
	case "raw":
		if !utf8.ValidString(c.Text) || !json.Valid([]byte(c.Text)) {
			return nil, nil, nil, "generated text is not valid JSON"
		}
		body = json.RawMessage(c.Text)
	default:
		body = toGo(c.Value)
	}
	if c.Repeat > 1 {
		rows := make([]any, c.Repeat)
		for i := range rows {
			rows[i] = body
		}
		body = rows
	}
	compact, err := json.Marshal(body)
	if err != nil {
		return nil, nil, nil, "value cannot be marshalled"
	}
	want, err = decodeOne(compact)
	if err != nil {
		return nil, nil, nil, "marshalled value does not decode"
	}
	return body, want, compact, ""
}

func setThreshold(th string) {
	if th == "" {
		settings.DeleteDefault(defs.ServerCompressionThresholdSetting)
	} else {
		settings.SetDefault(defs.ServerCompressionThresholdSetting, th)
	}
}

// writerSend performs the response through w as a handler does.
func writerSend(c Case, body any, w http.ResponseWriter) (indented []byte, acceptsGzip bool, length int) {
	req := httptest.NewRequest(http.MethodGet, "/tables/x/rows", nil)
	if c.HasAE {
		req.Header["Accept-Encoding"] = []string{c.AcceptEncoding}
	}
	info := util.ResponseInfo{SessionID: 1, AcceptsGzip: util.AcceptsGzip(req), Length: &length}
	indented = util.WriteJSON(w, info, http.StatusOK, body)
	return indented, info.AcceptsGzip, length
}

func oracleWriter(c Case) vkit.Outcome {
	var out vkit.Outcome
	body, want, compact, skip := writerPrep(c)
	if skip != "" {
		out.Skip = skip
		return out
	}
	setThreshold(c.Threshold)
	rec := httptest.NewRecorder()
	indented, acceptsGzip, length := writerSend(c, body, rec)
	return writerJudge(c, rec, indented, acceptsGzip, length, want, compact)
}

// writerJudge decides one finished response.
func writerJudge(c Case, rec *httptest.ResponseRecorder, indented []byte, acceptsGzip bool, length int, want any, compact []byte) vkit.Outcome {
	var out vkit.Outcome
	res := rec.Result()
	raw, _ := io.ReadAll(res.Body)

	special, endsBS, uni := interesting(want)
	pattern := hasEscapedBackslashBeforeQuote(string(indented))
	enc := res.Header.Get("Content-Encoding")
	// the size the writer compares with the threshold is that of the minified
	// text, which is the compact encoding unless the minifier left something in
	minified := len(egostrings.JSONMinify(string(indented)))
	threshold := util.CompressionThreshold()
	side := "below-threshold"
	if threshold == 0 {
		side = "compression-off"
	} else if minified >= threshold {
		side = "at-or-above-threshold"
	}
	out.NonTrivial = special
	out.Key = fmt.Sprintf("w:%s:%d:%s:%v:%s:%s", c.Body, c.Repeat, c.Threshold, c.HasAE, c.AcceptEncoding, compact)
	out.Labels = []string{
		"kind=writer body=" + c.Body,
		fmt.Sprintf("writer special=%v ends-in-backslash=%v", special, endsBS),
		fmt.Sprintf("writer escaped-backslash-before-quote=%v", pattern),
		fmt.Sprintf("writer unicode-space-in-string=%v", uni),
		fmt.Sprintf("writer %s accepts-gzip=%v sent-encoding=%q", side, acceptsGzip, enc),
		fmt.Sprintf("writer depth=%d", depthOf(want)),
	}

	payload := raw
	switch strings.ToLower(enc) {
	case "":
	case "gzip":
		if accept, known := documentedAccept(c.HasAE, c.AcceptEncoding); known && !accept {
			out.Fail = &vkit.Failure{Sig: "writer: gzip body sent to a client that did not accept gzip",
				Observed: fmt.Sprintf("Accept-Encoding present=%v %q, response Content-Encoding: gzip", c.HasAE, c.AcceptEncoding),
				Expected: "an identity-encoded body (util.AcceptsGzip documents this header as a refusal)"}
			return out
		}
		zr, err := gzip.NewReader(bytes.NewReader(raw))
		if err == nil {
			payload, err = io.ReadAll(zr)
		}
		if err != nil {
			out.Fail = &vkit.Failure{Sig: "writer: Content-Encoding gzip but the body is not a complete gzip stream",
				Observed: fmt.Sprintf("gunzip error %v on %d bytes", err, len(raw)), Expected: "a gzip stream of the JSON body"}
			return out
		}
	default:
		out.Fail = &vkit.Failure{Sig: "writer: unknown Content-Encoding", Observed: enc, Expected: "none or gzip"}
		return out
	}
	if length != len(raw) {
		// not part of the verdict; recorded so a drift is visible in the labels
		out.Labels = append(out.Labels, "writer length-counter-differs-from-bytes-written")
	}
	got, err := decodeOne(payload)
	if err != nil {
		out.Fail = &vkit.Failure{Sig: rootCause(string(indented), "writer: body is not one valid JSON document"),
			Observed: fmt.Sprintf("decode error %v; body %s", err, show(payload)), Expected: "a body that decodes to " + show(compact)}
		return out
	}
	if !reflect.DeepEqual(got, want) {
		out.Fail = &vkit.Failure{Sig: rootCause(string(indented), "writer: decoded body differs from the handler's value"),
			Observed: "body " + show(payload) + " differs at " + firstDiff(want, got, "$"), Expected: "a body that decodes to " + show(compact)}
	}
	return out
}

// firstDiff names the first path at which two decoded values differ.
func firstDiff(a, b any, path string) string {
	switch x := a.(type) {
	case map[string]any:
		y, ok := b.(map[string]any)
		if !ok {
			return path
		}
		keys := make([]string, 0, len(x))
		for k := range x {
			keys = append(keys, k)
		}
		sort.Strings(keys)
		for _, k := range keys {
			if _, ok := y[k]; !ok {
				return fmt.Sprintf("%s: key %q missing", path, k)
			}
			if !reflect.DeepEqual(x[k], y[k]) {
				return firstDiff(x[k], y[k], fmt.Sprintf("%s[%q]", path, k))
			}
		}
		return path + ": extra keys"
	case []any:
		y, ok := b.([]any)
		if !ok || len(x) != len(y) {
			return path
		}
		for i := range x {
			if !reflect.DeepEqual(x[i], y[i]) {
				return firstDiff(x[i], y[i], fmt.Sprintf("%s[%d]", path, i))
			}
		}
	}
	return fmt.Sprintf("%s: want %#v got %#v", path, a, b)
}

// fixed cases: the documented examples, the shapes named in the property and
// one body on each side of the default threshold for every header example.
func fixed() []Case {
	str := func(s string) *Node { return &Node{K: "str", S: s} }
	var cs []Case
	for _, t := range []string{
		`{"name": "Alice", "age": 30}`, `[]`, `{}`, `""`, ` null `, "[ 1 , 2 ]", `"a b"`, `{"a":"x y","b":"\"q\" z"}`,
		"{\n\t\"k\" : [ true , false , null ] ,\r\n \"s\" : \"\\u0020 \\t\"\n}", `["\/", "\u005c", "\u0022 x"]`,
	} {
		cs = append(cs, Case{Kind: "minify", Text: t, Style: "fixed"})
	}
	row := &Node{K: "obj", O: []Member{{"id", &Node{K: "num", N: "17"}}, {"name", str("Tom \"T\" O'Neil")}, {"note", str("line one\nline two\ttabbed  two spaces")}, {"path", str(`C:\Users\tom`)}}}
	for _, ae := range acceptEncodings {
		for _, rep := range []int{0, 200} {
			for _, th := range []string{"", "0", "64"} {
				cs = append(cs, Case{Kind: "writer", Body: "value", Value: row, Repeat: rep, HasAE: ae.has, AcceptEncoding: ae.value, Threshold: th})
			}
		}
	}
	return append(cs, fixedInFlight()...)
}

func TestMain(m *testing.M) {
	// nothing in this check reads or writes the profile, but keep ego away
	// from the real home directory in any case.
	dir, temp := os.Getenv("VERIF_RUN_DIR"), false
	if dir == "" {
		dir, _ = os.MkdirTemp("", "c19-")
		temp = true
	}
	os.Setenv("HOME", dir)
	os.Setenv("EGO_PATH", dir)
	rc := m.Run()
	if temp {
		os.RemoveAll(dir)
	}
	os.Exit(rc)
}

func TestC19(t *testing.T) {
	vkit.Run(t, vkit.Spec[Case]{
		ID:    "C19",
		Level: "exploration",
		Rule: "writer: JSON values (depth<=3, strings over an alphabet weighted to backslash, quote, JSON and Unicode white space, U+2028, control characters; " +
			"numbers as literals; optionally repeated 2..400 times as a row set or passed as json.RawMessage) through util.WriteJSON with a documented " +
			"Accept-Encoding example and a compression threshold in {unset,0,1,64,256,1000,4096,100000}; the body, gunzipped iff Content-Encoding says so, " +
			"must decode to Unmarshal(Marshal(value)). minify: any spelling of such a value (drawn white space between tokens, drawn escape spelling per rune, " +
			"MarshalIndent / Encoder output with odd prefix and indent, compact) through JSONMinify; output valid and decoding to the same value. " +
			"in flight: 2..4 such responses nested at a drawn point of each other's writing (overlap, deterministic) or 6..16 written by 2..6 goroutines at once (storm); each body judged against its own value (non-trivial: at least two of them compressed). " +
			"Non-trivial: some key or string value contains a backslash, a quote or white space; distinct by value/text (writer: plus header, threshold, repeat).",
		Assumptions: []string{
			"encoding/json (Marshal, Unmarshal with UseNumber, Valid) and compress/gzip are the reference for JSON meaning and gzip decoding",
			"handler values are valid UTF-8; minifier inputs are RFC 8259 texts in valid UTF-8",
			"the Accept-Encoding values are the documented examples of util.AcceptsGzip; only their documented meaning is used",
		},
		Gen:      gen,
		Oracle:   oracle,
		Fixed:    fixed,
		Quick:    20000,
		Thorough: 250000,
	})
}
