package c19

// Responses in flight at the same time. C19 is about every response the
// server writes; a server writes many at once, and the writer may share
// state between them (buffers, pools, encoders). Two kinds of case:
//
//   overlap  a generated interleaving the harness owns: response i+1 is
//            produced, start to finish, while response i sits at a drawn
//            point of its own writing (first Header() call, before or after
//            WriteHeader, before or after Write). The nested response runs on
//            its own goroutine with GOMAXPROCS(1) for the duration of the
//            case, so the interleaving is the same on every run. Every body is
//            then decoded and compared with its own handler value.
//   storm    the same responses written by several goroutines at once with a
//            writer that yields in every method; schedule is the runtime's.
//            This kind can only find, it cannot prove.
//
// A nested response that does not finish while the outer one is parked is
// reported as inconclusive (the writer serialises responses), never as a
// violation.

import (
	"fmt"
	"net/http"
	"net/http/httptest"
	"runtime"
	"strings"
	"sync"
	"time"

	"github.com/tucats/ego/verif/vkit"
	"pgregory.net/rapid"
)

var hookPoints = []string{"header", "writeheader-before", "writeheader-after", "write-before", "write-after"}

type hookWriter struct {
	rec   *httptest.ResponseRecorder
	at    string
	fn    func()
	fired bool
	yield bool
}

func (h *hookWriter) fire(point string) {
	if h.yield {
		runtime.Gosched()
	}
	if h.fn != nil && !h.fired && h.at == point {
		h.fired = true
		h.fn()
	}
}

func (h *hookWriter) Header() http.Header {
	h.fire("header")
	return h.rec.Header()
}

func (h *hookWriter) WriteHeader(status int) {
	h.fire("writeheader-before")
	h.rec.WriteHeader(status)
	h.fire("writeheader-after")
}

func (h *hookWriter) Write(b []byte) (int, error) {
	h.fire("write-before")
	n, err := h.rec.Write(b)
	h.fire("write-after")
	return n, err
}

type sent struct {
	rec      *httptest.ResponseRecorder
	indented []byte
	accepts  bool
	length   int
	done     bool
}

// genWriter draws one writer case; inFlight biases it towards responses that
// are actually compressed (the shared state of interest is on that path).
func genWriter(t *rapid.T, inFlight bool) Case {
	depth := rapid.SampledFrom([]int{0, 1, 1, 2, 2, 3}).Draw(t, "depth")
	c := Case{Kind: "writer", Body: "value", Value: genRoot(t, depth)}
	if rapid.IntRange(0, 5).Draw(t, "rawbody") == 0 {
		c.Body = "raw"
		var sb strings.Builder
		spell(t, c.Value, &sb)
		c.Text, c.Style = sb.String(), "spelled"
	}
	switch rapid.IntRange(0, 3).Draw(t, "size") {
	case 0:
		c.Repeat = rapid.IntRange(2, 40).Draw(t, "repeat")
	case 1, 2:
		if inFlight || rapid.Bool().Draw(t, "big") {
			c.Repeat = rapid.IntRange(40, 400).Draw(t, "repeat")
		}
	}
	ae := rapid.SampledFrom(acceptEncodings).Draw(t, "ae")
	if inFlight && rapid.IntRange(0, 3).Draw(t, "gz") != 0 {
		ae = acceptEncodings[rapid.IntRange(1, 6).Draw(t, "gzae")]
	}
	c.HasAE, c.AcceptEncoding = ae.has, ae.value
	return c
}

func genInFlight(t *rapid.T, kind string) Case {
	c := Case{Kind: kind}
	n := rapid.IntRange(2, 4).Draw(t, "parts")
	if kind == "storm" {
		n = rapid.IntRange(6, 16).Draw(t, "parts")
		c.Workers = rapid.IntRange(2, 6).Draw(t, "workers")
	}
	for i := 0; i < n; i++ {
		c.Parts = append(c.Parts, genWriter(t, true))
		if kind == "overlap" && i < n-1 {
			c.Hooks = append(c.Hooks, rapid.SampledFrom(hookPoints).Draw(t, "hook"))
		}
	}
	c.Threshold = rapid.SampledFrom([]string{"", "1", "64", "256", "1000", "4096"}).Draw(t, "threshold")
	return c
}

const nestedWait = 60 * time.Second

func oracleInFlight(c Case) vkit.Outcome {
	var out vkit.Outcome
	n := len(c.Parts)
	if n < 2 || (c.Kind == "overlap" && len(c.Hooks) != n-1) {
		out.Skip = "malformed in-flight case"
		return out
	}
	bodies, wants, compacts := make([]any, n), make([]any, n), make([][]byte, n)
	for i, p := range c.Parts {
		var skip string
		bodies[i], wants[i], compacts[i], skip = writerPrep(p)
		if skip != "" {
			out.Skip = skip
			return out
		}
	}
	setThreshold(c.Threshold)
	results := make([]sent, n)
	blocked, unreached := false, 0

	if c.Kind == "overlap" {
		old := runtime.GOMAXPROCS(1)
		defer runtime.GOMAXPROCS(old)
		var run func(i int)
		run = func(i int) {
			rec := httptest.NewRecorder()
			w := &hookWriter{rec: rec}
			if i < n-1 {
				w.at = c.Hooks[i]
				w.fn = func() {
					done := make(chan struct{})
					go func() { defer close(done); run(i + 1) }()
					select {
					case <-done:
					case <-time.After(nestedWait):
						blocked = true
					}
				}
			}
			ind, acc, length := writerSend(c.Parts[i], bodies[i], w)
			results[i] = sent{rec: rec, indented: ind, accepts: acc, length: length, done: true}
			if i < n-1 && !w.fired {
				// the writer never reached the drawn point (e.g. it does not
				// call Header() on this path): the next response follows it
				unreached++
				run(i + 1)
			}
		}
		run(0)
	} else {
		workers := c.Workers
		if workers < 2 {
			workers = 2
		}
		var wg sync.WaitGroup
		for g := 0; g < workers; g++ {
			wg.Add(1)
			go func(g int) {
				defer wg.Done()
				for i := g; i < n; i += workers {
					rec := httptest.NewRecorder()
					w := &hookWriter{rec: rec, yield: true}
					ind, acc, length := writerSend(c.Parts[i], bodies[i], w)
					results[i] = sent{rec: rec, indented: ind, accepts: acc, length: length, done: true}
				}
			}(g)
		}
		wg.Wait()
	}
	if blocked {
		out.Inconclusive = "a response did not finish while another was parked in its writer (responses are serialised)"
		return out
	}

	compressed := 0
	for i := range results {
		if !results[i].done {
			continue
		}
		if strings.EqualFold(results[i].rec.Header().Get("Content-Encoding"), "gzip") {
			compressed++
		}
	}
	out.NonTrivial = compressed >= 2
	out.Key = fmt.Sprintf("%s:%s:%v:%d", c.Kind, c.Threshold, c.Hooks, c.Workers)
	for i := range compacts {
		out.Key += ":" + string(compacts[i][:min(len(compacts[i]), 64)]) + fmt.Sprint(c.Parts[i].Repeat, c.Parts[i].AcceptEncoding)
	}
	out.Labels = []string{
		"kind=" + c.Kind,
		fmt.Sprintf("%s responses=%d compressed=%d", c.Kind, n, min(compressed, 4)),
	}
	if c.Kind == "overlap" {
		for _, h := range c.Hooks {
			out.Labels = append(out.Labels, "overlap nested-at="+h)
		}
		out.Labels = append(out.Labels, fmt.Sprintf("overlap hook-points-not-reached=%d", unreached))
	}
	for i := range results {
		if !results[i].done {
			out.Fail = &vkit.Failure{Sig: c.Kind + ": a response was never written", Observed: fmt.Sprintf("response %d of %d", i, n), Expected: "every response written"}
			return out
		}
		r := writerJudge(c.Parts[i], results[i].rec, results[i].indented, results[i].accepts, results[i].length, wants[i], compacts[i])
		if r.Fail != nil {
			where := fmt.Sprintf("response %d of %d", i, n)
			if c.Kind == "overlap" && i < n-1 {
				where += " (next response produced at " + c.Hooks[i] + ")"
			}
			out.Fail = &vkit.Failure{Sig: c.Kind + ": " + r.Fail.Sig, Observed: where + ": " + r.Fail.Observed, Expected: r.Fail.Expected}
			return out
		}
	}
	return out
}

func fixedInFlight() []Case {
	str := func(s string) *Node { return &Node{K: "str", S: s} }
	rowA := &Node{K: "obj", O: []Member{{"id", &Node{K: "num", N: "1"}}, {"name", str("alpha alpha alpha")}, {"note", str("first response \\ \"a\"")}}}
	rowB := &Node{K: "obj", O: []Member{{"id", &Node{K: "num", N: "2"}}, {"name", str("beta beta")}, {"note", str("second response \t \"b\"")}}}
	var cs []Case
	for _, h := range hookPoints {
		for _, th := range []string{"", "64"} {
			a := Case{Kind: "writer", Body: "value", Value: rowA, Repeat: 300, HasAE: true, AcceptEncoding: "gzip"}
			b := Case{Kind: "writer", Body: "value", Value: rowB, Repeat: 200, HasAE: true, AcceptEncoding: "gzip"}
			cs = append(cs, Case{Kind: "overlap", Parts: []Case{a, b}, Hooks: []string{h}, Threshold: th})
			cs = append(cs, Case{Kind: "overlap", Parts: []Case{b, a, b}, Hooks: []string{h, h}, Threshold: th})
		}
	}
	a := Case{Kind: "writer", Body: "value", Value: rowA, Repeat: 300, HasAE: true, AcceptEncoding: "gzip"}
	b := Case{Kind: "writer", Body: "value", Value: rowB, Repeat: 200, HasAE: true, AcceptEncoding: "gzip"}
	cs = append(cs, Case{Kind: "storm", Parts: []Case{a, b, a, b, a, b, a, b}, Workers: 4, Threshold: "64"})
	return cs
}
