// Package c20 decides property C20 "Routes run only for authorized requests".
//
// Two domains, one oracle direction (probe invoked => declared requirements
// were met by the request):
//
//	(a) "real": the route table of the running server (hook H1) with EVERY
//	    handler replaced by a recording probe (hook H2). The real handlers are
//	    never called during the search, so destructive routes are safe.
//	(b) "gen": a fresh router.NewRouter per case, one route built by
//	    r.New(endpoint, probe, method) followed by a drawn sequence (any order,
//	    repeats allowed) of the builder calls real code uses.
//
// Preconditions taken from real callers / documentation (so that the check
// does not alarm on inputs no caller produces):
//
//   - Generated declarations only use builder calls that routes.go,
//     tables/routes.go, commands/server.go, the services loader
//     (services/define.go) and the OAuth packages use: Authentication,
//     Permissions, LightWeight, Class, AcceptMedia, Parameter,
//     CanAuthenticate, Credentials, AllowRedirects. Permissions is always
//     called with one or more names (its doc: "one or more user permissions";
//     the services loader guards len(permissions) > 0). Parameter kinds and
//     Class values are the documented constants (others panic by design).
//   - Users are created through POST /admin/users (names stored lower-case,
//     DESIGN §3.9); afterwards the stored bcrypt hash is replaced by a hash of
//     the same password at bcrypt.MinCost (same "$2a$" format, same code path
//     in auth.ValidatePassword) so that a Basic request costs 1 ms, not 250 ms.
//   - Tokens are what POST /services/admin/logon issues; for users that never
//     had ego.logon the token is minted with tokens.New exactly as
//     cipher.NewToken does (an administrator can remove ego.logon after a
//     token was issued, so such tokens exist in the field).
//   - Login lockout is switched off with the documented setting
//     ego.server.auth.maxattempts=0: a locked account answers 429 for every
//     request, which can only hide violations of this one-directional property.
//   - The user store is the SQLite one (the server default), because the
//     token revocation list lives in the same database.
//   - JWT credentials are not generated: the OAuth resource-server role needs
//     an identity provider (discovery document + JWKS over HTTP); JWTs are
//     the subject of check C22.
//
// What "declared requirements" means:
//
//   - real routes: what VerifRoutes() reports: Permissions (all of them, or
//     ego.root) and MustAuthenticate. A non-empty permission list implies
//     authentication (router.go: "Permissions() ... already implies
//     authentication is required").
//   - generated routes: the doc comments of router.go.
//     Permissions(p...): every p named in ANY Permissions call must be held by
//     the authenticated user, or the user is ego.root; authentication is
//     required, in whatever order the calls were made.
//     Authentication(true): "if it is set, the router will return suitable HTTP
//     status without calling the handler"; Authentication(false)/never called:
//     not checked. The last Authentication call decides.
//     LightWeight(true): "A lightweight route also cannot require/use
//     authentication" - so a LightWeight(true) call after the last
//     Authentication(true) withdraws the requirement (both readings agree).
//     LightWeight(true) BEFORE Authentication(true) with the route still
//     lightweight at the end is a combination on which the two comments
//     contradict each other: not asserted, only labelled.
//     LightWeight(false) is documented as "not lightweight" only; the code
//     additionally turns authentication on, which is stricter and never
//     matters for a one-directional oracle.
//   - A token of a user that was deleted after the token was issued: such a
//     token is issued here, unaltered, unexpired and not revoked, which is the
//     validity model of C21; nothing in the statement or the docs says that
//     deleting a user invalidates its tokens. So on routes that only require
//     authentication it is NOT asserted (labelled "observe:..."); on routes
//     that name permissions it IS asserted, because a user that does not exist
//     holds no permission.
package c20

import (
	"bytes"
	"encoding/base64"
	"encoding/json"
	"fmt"
	"net/http"
	"net/http/httptest"
	"os"
	"runtime/debug"
	"sort"
	"strconv"
	"strings"
	"sync"
	"testing"
	"time"

	"github.com/tucats/ego/internal/defs"
	"github.com/tucats/ego/internal/language/tokens"
	"github.com/tucats/ego/internal/router"
	"github.com/tucats/ego/internal/server/auth"
	"github.com/tucats/ego/verif/srvfix"
	"github.com/tucats/ego/verif/vkit"
	"golang.org/x/crypto/bcrypt"
	"pgregory.net/rapid"
)

// ---------------------------------------------------------------- the case

// Op is one builder call of a generated declaration.
type Op struct {
	Name string   `json:"op"`
	Flag bool     `json:"flag,omitempty"`
	Args []string `json:"args,omitempty"`
	Int  int      `json:"int,omitempty"`
}

// Decl is a generated route declaration.
type Decl struct {
	Method   string `json:"method"`
	Endpoint string `json:"endpoint"`
	Ops      []Op   `json:"ops"`
}

// Cred is a credential form; User names a member of the roster, Variant
// selects among sub-forms (malformed header #, tamper position, ...).
type Cred struct {
	Form    string `json:"form"`
	User    string `json:"user,omitempty"`
	Variant int    `json:"variant,omitempty"`
}

// Case is one request against one declaration.
type Case struct {
	Kind   string `json:"kind"`            // "real" | "gen"
	Route  string `json:"route,omitempty"` // real: "METHOD endpoint"
	Decl   *Decl  `json:"decl,omitempty"`  // gen
	Cred   Cred   `json:"cred"`
	Accept string `json:"accept,omitempty"` // default application/json
	Query  string `json:"query,omitempty"`
}

// ---------------------------------------------------------------- the world

const (
	pRoot   = "ego.root"
	pLogon  = "ego.logon"
	pAdmin  = "ego.server.admin"
	pCode   = "ego.code"
	pSQL    = "ego.sql"
	pDSN    = "ego.dsn.admin"
	pTRead  = "ego.table.read"
	pCustom = "app.custom"
)

// permission names that generated routes may require
var permUniverse = []string{pRoot, pLogon, pAdmin, pCode, pSQL, pDSN, pTRead, pCustom}

type user struct {
	Name    string
	Pass    string
	Perms   []string // permissions held NOW (after demotion)
	Created []string // permissions at creation
	Deleted bool
}

// The roster. Order matters only for set-up.
func rosterSpec() []*user {
	mk := func(n string, p ...string) *user {
		return &user{Name: n, Pass: "pw-" + n + "-1", Perms: p, Created: p}
	}
	return []*user{
		mk("root2", pRoot),                  // administrator without ego.logon
		mk("ulogon", pLogon),                // logon only
		mk("usrv", pLogon, pAdmin),          // server admin
		mk("ucode", pLogon, pCode),          //
		mk("usql", pLogon, pSQL),            //
		mk("udsn", pLogon, pDSN),            //
		mk("utread", pLogon, pTRead),        //
		mk("ucustom", pLogon, pCustom),      //
		mk("ucodesql", pLogon, pCode, pSQL), //
		mk("usqlonly", pSQL),                // no logon
		mk("usrvonly", pAdmin, pCode),       // no logon
		mk("umany", pLogon, pAdmin, pCode, pSQL, pDSN, pTRead, pCustom),  // everything but root
		mk("urev", pLogon, pAdmin, pCode, pSQL, pDSN, pTRead, pCustom),   // owner of the revoked tokens
		mk("ughost", pLogon, pAdmin, pCode, pSQL, pDSN, pTRead, pCustom), // deleted after its tokens were issued
		mk("udemo", pLogon, pAdmin, pSQL),                                // ego.server.admin and ego.sql removed after its token was issued
		// last: revoking a token and changing a user purge the token cache, and
		// one of the short-lived tokens must still be cached when it expires
		mk("uexp", pLogon, pAdmin, pCode, pSQL, pDSN, pTRead, pCustom), // owner of the short-lived tokens
	}
}

type hit struct {
	n             int
	info          router.VerifRouteInfo
	user          string
	authenticated bool
	admin         bool
	perms         []string
}

type world struct {
	f      *srvfix.Fixture
	users  map[string]*user
	names  []string          // roster names that exist (not deleted), plus admin, sorted
	tok    map[string]string // named tokens
	routes map[string]router.VerifRouteInfo
	keys   []string // sorted route keys
	cur    hit
	notes  []string
	// reached: real routes whose probe ran for a valid administrator
	// credential (measures that the probes are reachable at all)
	reached map[string]bool
}

var (
	wOnce sync.Once
	w     *world
	wErr  error
)

func debugf(format string, args ...any) {
	if os.Getenv("C20_DEBUG") != "" {
		fmt.Printf("C20-DEBUG "+format+"\n", args...)
	}
}

// logon performs POST /services/admin/logon; expiration "" means the server
// default. It returns token and token id.
func logon(f *srvfix.Fixture, u, p, expiration string, payload bool) (string, string, error) {
	rq := srvfix.Request{Method: "POST", Path: "/services/admin/logon", Header: map[string]string{}}
	if payload {
		b, _ := json.Marshal(map[string]string{"username": u, "password": p, "expiration": expiration})
		rq.Body = string(b)
		rq.Header["Content-Type"] = "application/json"
	} else {
		rq.Header["Authorization"] = srvfix.Basic(u, p)
	}
	r := f.Do(rq)
	if r.Status != 200 {
		return "", "", fmt.Errorf("logon %s: status %d: %s", u, r.Status, r.Body)
	}
	var m map[string]any
	if err := r.JSON(&m); err != nil {
		return "", "", err
	}
	tok, _ := m["token"].(string)
	id, _ := m["tokenID"].(string)
	if tok == "" || id == "" {
		return "", "", fmt.Errorf("logon %s: no token/id in %s", u, r.Body)
	}
	return tok, id, nil
}

func cheapenPassword(name, pass string) error {
	u, err := auth.AuthService.ReadUser(0, name, false)
	if err != nil {
		return fmt.Errorf("read user %s: %v", name, err)
	}
	h, err := bcrypt.GenerateFromPassword([]byte(pass), bcrypt.MinCost)
	if err != nil {
		return err
	}
	u.Password = string(h)
	if err := auth.AuthService.WriteUser(0, u); err != nil {
		return err
	}
	return auth.AuthService.Flush()
}

func getWorld(t *testing.T) *world {
	wOnce.Do(func() { w, wErr = buildWorld(t) })
	if wErr != nil {
		t.Fatalf("C20 set-up: %v", wErr)
	}
	return w
}

func buildWorld(t *testing.T) (*world, error) {
	if os.Getenv("VERIF_RUN_DIR") == "" {
		os.Setenv("VERIF_RUN_DIR", t.TempDir())
	}
	f, err := srvfix.Start(srvfix.Options{UserStore: "sqlite", Settings: map[string]string{
		defs.AuthMaxAttemptsSetting:       "0",   // documented: 0 disables lockout
		defs.ServerTokenExpirationSetting: "48h", // tokens outlive a thorough run
	}})
	if err != nil {
		return nil, err
	}
	wd := &world{f: f, users: map[string]*user{}, tok: map[string]string{}, routes: map[string]router.VerifRouteInfo{}, reached: map[string]bool{}}
	adminTok, err := f.AdminToken()
	if err != nil {
		return nil, err
	}
	wd.users["admin"] = &user{Name: "admin", Pass: "secret0", Perms: []string{pRoot, pLogon}, Created: []string{pRoot, pLogon}}
	wd.tok["valid:admin"] = adminTok

	authHdr := func(tok string) map[string]string {
		h := srvfix.Bearer(tok)
		h["Content-Type"] = "application/json"
		return h
	}
	use := func(tok string) int { // a request on an authentication-only route: fills the token cache
		return f.Do(srvfix.Request{Method: "GET", Path: "/services/admin/authenticate", Header: srvfix.Bearer(tok)}).Status
	}

	var expiredAt time.Time
	for _, u := range rosterSpec() {
		debugf("set-up user %s at %s", u.Name, time.Now().Format("15:04:05.000"))
		if err := f.CreateUser(adminTok, u.Name, u.Pass, u.Created); err != nil {
			return nil, err
		}
		if err := cheapenPassword(u.Name, u.Pass); err != nil {
			return nil, err
		}
		wd.users[u.Name] = u
		hasLogon := false
		for _, p := range u.Created {
			if p == pLogon || p == pRoot {
				hasLogon = true
			}
		}
		var tok string
		if hasLogon {
			if tok, _, err = logon(f, u.Name, u.Pass, "", false); err != nil {
				return nil, err
			}
		} else {
			// what cipher.NewToken does on behalf of the logon handler
			if tok, err = tokens.New(u.Name, "", "48h", defs.InstanceID, 0); err != nil {
				return nil, fmt.Errorf("tokens.New: %v", err)
			}
		}
		wd.tok["valid:"+u.Name] = tok

		switch u.Name {
		case "uexp":
			// two short-lived tokens: one never used, one used (and cached)
			// while valid. The lifetime starts at 3 s and doubles until the
			// logon handler (which unwraps the fresh token itself) and the
			// first use succeed, so that a very slow machine cannot make the
			// set-up fail.
			mintShort := func(mustUse bool) (string, time.Time, error) {
				var lastErr error
				for life := 3; life <= 200; life *= 2 {
					tk, _, err := logon(f, u.Name, u.Pass, fmt.Sprintf("%ds", life), true)
					if err != nil {
						lastErr = err
						continue
					}
					deadline := time.Now().Add(time.Duration(life+1) * time.Second)
					if !mustUse {
						return tk, deadline, nil
					}
					if s := use(tk); s == 200 {
						return tk, deadline, nil
					} else {
						lastErr = fmt.Errorf("short-lived token refused while fresh: %d", s)
					}
				}
				return "", time.Time{}, fmt.Errorf("cannot mint a short-lived token: %v", lastErr)
			}
			a, da, err := mintShort(false)
			if err != nil {
				return nil, err
			}
			b, db, err := mintShort(true)
			if err != nil {
				return nil, err
			}
			expiredAt = da
			if db.After(expiredAt) {
				expiredAt = db
			}
			wd.tok["expired:0"], wd.tok["expired:1"] = a, b
		case "urev":
			a, ida, err := logon(f, u.Name, u.Pass, "", false)
			if err != nil {
				return nil, err
			}
			b, idb, err := logon(f, u.Name, u.Pass, "", true)
			if err != nil {
				return nil, err
			}
			if s := use(b); s != 200 {
				return nil, fmt.Errorf("fresh token of urev refused: %d", s)
			}
			ids, _ := json.Marshal([]string{ida, idb})
			r := f.Do(srvfix.Request{Method: "PUT", Path: "/admin/tokens/", Header: authHdr(adminTok), Body: string(ids)})
			if r.Status != 200 {
				return nil, fmt.Errorf("revoke: %d %s", r.Status, r.Body)
			}
			wd.tok["revoked:0"], wd.tok["revoked:1"] = a, b
		case "ughost":
			b, _, err := logon(f, u.Name, u.Pass, "", false)
			if err != nil {
				return nil, err
			}
			if s := use(b); s != 200 {
				return nil, fmt.Errorf("fresh token of ughost refused: %d", s)
			}
			// a Basic request while the user exists (fills any credential cache)
			f.Do(srvfix.Request{Method: "GET", Path: "/dsns/", Header: map[string]string{"Authorization": srvfix.Basic(u.Name, u.Pass)}})
			r := f.Do(srvfix.Request{Method: "DELETE", Path: "/admin/users/" + u.Name, Header: authHdr(adminTok)})
			if r.Status != 200 {
				return nil, fmt.Errorf("delete user: %d %s", r.Status, r.Body)
			}
			wd.tok["deleted:0"], wd.tok["deleted:1"] = tok, b
			delete(wd.tok, "valid:"+u.Name)
			u.Deleted, u.Perms = true, nil
		case "udemo":
			if s := use(tok); s != 200 {
				return nil, fmt.Errorf("fresh token of udemo refused: %d", s)
			}
			// a request that needed ego.server.admin while it was held
			f.Do(srvfix.Request{Method: "GET", Path: "/admin/memory", Header: srvfix.Bearer(tok)})
			body, _ := json.Marshal(map[string]any{"name": u.Name, "permissions": []string{"-" + pAdmin, "-" + pSQL}})
			h := authHdr(adminTok)
			h["Accept"] = defs.UserMediaType
			r := f.Do(srvfix.Request{Method: "PATCH", Path: "/admin/users/" + u.Name, Header: h, Body: string(body)})
			if r.Status != 200 {
				return nil, fmt.Errorf("demote user: %d %s", r.Status, r.Body)
			}
			got := auth.GetPermissions(0, u.Name)
			sort.Strings(got)
			if strings.Join(got, ",") != pLogon {
				return nil, fmt.Errorf("demote user: store says %v", got)
			}
			u.Perms = []string{pLogon}
		}
	}
	if d := time.Until(expiredAt); d > 0 {
		time.Sleep(d) // set-up only; no verdict depends on the clock after this point
	}
	for n, u := range wd.users {
		if !u.Deleted {
			wd.names = append(wd.names, n)
		}
	}
	sort.Strings(wd.names)

	// From here on no real handler runs any more.
	f.Router.VerifWrapHandlers(func(info router.VerifRouteInfo, _ router.HandlerFunc) router.HandlerFunc {
		return wd.probe(info)
	})
	for _, ri := range f.Router.VerifRoutes() {
		k := ri.Method + " " + ri.Endpoint
		wd.routes[k] = ri
		wd.keys = append(wd.keys, k)
	}
	sort.Strings(wd.keys)
	debugf("world ready: %d routes, users %v, notes %v", len(wd.keys), wd.names, wd.notes)
	return wd, nil
}

func (wd *world) probe(info router.VerifRouteInfo) router.HandlerFunc {
	return func(s *router.Session, rw http.ResponseWriter, _ *http.Request) int {
		wd.cur.n++
		wd.cur.info = info
		wd.cur.user = s.User
		wd.cur.authenticated = s.Authenticated
		wd.cur.admin = s.Admin
		wd.cur.perms = append([]string{}, s.Permissions...)
		rw.Header().Set("Content-Type", "text/plain")
		rw.WriteHeader(http.StatusOK)
		_, _ = rw.Write([]byte("probe"))
		return http.StatusOK
	}
}

// serve sends one request through rt.ServeHTTP (gate + probe).
func serve(rt *router.Router, method, path string, header map[string]string, body string) (status int, hdr http.Header, panicked any, stack string) {
	req, err := http.NewRequest(method, "http://localhost"+path, bytes.NewReader([]byte(body)))
	if err != nil {
		return -1, nil, nil, ""
	}
	req.RemoteAddr = "127.0.0.1:55555"
	req.RequestURI = path
	keys := make([]string, 0, len(header))
	for k := range header {
		keys = append(keys, k)
	}
	sort.Strings(keys)
	for _, k := range keys {
		req.Header[http.CanonicalHeaderKey(k)] = []string{header[k]}
	}
	rec := httptest.NewRecorder()
	func() {
		defer func() {
			if p := recover(); p != nil {
				panicked, stack = p, string(debug.Stack())
			}
		}()
		rt.ServeHTTP(rec, req)
	}()
	return rec.Code, rec.Header(), panicked, stack
}

// ---------------------------------------------------------------- credentials

var malformed = []string{
	"Garbage abcdef",
	"Basic !!!not-base64!!!",
	"Basic " + base64.StdEncoding.EncodeToString([]byte("no-colon-here")),
	"Basic",
	"Basic ",
	"Bearer junk",
	"Bearer ",
	"Bearer",
	"Bearer 00",
	"Bearer " + strings.Repeat("ab", 120),
	"Negotiate " + base64.StdEncoding.EncodeToString([]byte("admin:secret0")),
	"admin:secret0",
	"Bearer eyJhbGciOiJub25lIn0.eyJzdWIiOiJhZG1pbiJ9.", // JWT-shaped, alg none
}

// cheap forms whose meaning depends on a roster user; the first four are
// enumerated for every user, the others for three users
var userFormsCore = []string{"basic-ok", "basic-wrong", "basic-empty", "token"}
var userFormsMore = []string{"basic-upper", "basic-lcscheme", "token-lcscheme", "token-wrongscheme", "payload-ok", "payload-wrong"}

// cheap forms that do not
var fixedForms = []string{"none", "empty-header", "malformed", "basic-unknown-user", "basic-deleted-user"}

// forms that cost the server one Argon2id key derivation (32 MiB, 0.1-1 s on
// a busy machine) per request: sampled sparsely, enumerated completely only
// in the thorough tier
var costlyUserForms = []string{"token-tampered", "token-suffix", "token-trunc"}
var costlyFixedForms = []string{"token-expired", "token-revoked", "token-deleted-user", "token-tampered-admin"}

// identity is what the credential proves, by the harness's own model (never
// by asking ego).
type identity struct {
	// Valid: the credential is an intact, current credential of an existing user.
	Valid bool
	// Ghost: an intact, unexpired, unrevoked token whose user was deleted.
	Ghost bool
	User  string
	Perms []string
	Root  bool
	Class string // label
}

func tamper(tok string, variant int) string {
	if len(tok) == 0 {
		return tok
	}
	if variant < 0 {
		variant = -variant
	}
	pos := variant % len(tok)
	delta := 1 + (variant/len(tok))%15
	const hexd = "0123456789abcdef"
	i := strings.IndexByte(hexd, tok[pos]|0x20)
	if i < 0 {
		i = 0
	}
	b := []byte(tok)
	b[pos] = hexd[(i+delta)%16] // a different hex value, never a mere change of case
	return string(b)
}

// credential builds the request's Authorization header / body for c and says
// what it proves.
func (wd *world) credential(c Cred) (header map[string]string, body string, id identity, ok bool) {
	header = map[string]string{}
	u := wd.users[c.User]
	existing := func() bool { return u != nil && !u.Deleted }
	proves := func(class string) identity {
		root := false
		for _, p := range u.Perms {
			if p == pRoot {
				root = true
			}
		}
		return identity{Valid: true, User: u.Name, Perms: u.Perms, Root: root, Class: class}
	}
	vtok := func() string { return wd.tok["valid:"+c.User] }
	switch c.Form {
	case "none":
		return header, "", identity{Class: "none"}, true
	case "empty-header":
		header["Authorization"] = ""
		return header, "", identity{Class: "none"}, true
	case "malformed":
		header["Authorization"] = malformed[((c.Variant%len(malformed))+len(malformed))%len(malformed)]
		return header, "", identity{Class: "malformed"}, true
	case "basic-unknown-user":
		header["Authorization"] = srvfix.Basic("nosuchuser", "whatever1")
		return header, "", identity{Class: "basic-invalid"}, true
	case "basic-deleted-user":
		g := wd.users["ughost"]
		header["Authorization"] = srvfix.Basic(g.Name, g.Pass)
		return header, "", identity{Class: "basic-invalid"}, true
	case "token-expired":
		header["Authorization"] = "Bearer " + wd.tok[fmt.Sprintf("expired:%d", c.Variant&1)]
		return header, "", identity{Class: "token-expired"}, true
	case "token-revoked":
		header["Authorization"] = "Bearer " + wd.tok[fmt.Sprintf("revoked:%d", c.Variant&1)]
		return header, "", identity{Class: "token-revoked"}, true
	case "token-deleted-user":
		header["Authorization"] = "Bearer " + wd.tok[fmt.Sprintf("deleted:%d", c.Variant&1)]
		return header, "", identity{Ghost: true, User: "ughost", Class: "token-deleted-user"}, true
	case "token-tampered-admin":
		header["Authorization"] = "Bearer " + tamper(wd.tok["valid:admin"], c.Variant)
		return header, "", identity{Class: "token-tampered"}, true
	}
	if !existing() {
		return nil, "", identity{}, false
	}
	switch c.Form {
	case "basic-ok":
		header["Authorization"] = srvfix.Basic(u.Name, u.Pass)
		return header, "", proves("basic-ok"), true
	case "basic-upper":
		header["Authorization"] = srvfix.Basic(strings.ToUpper(u.Name), u.Pass)
		return header, "", proves("basic-ok"), true
	case "basic-lcscheme":
		header["Authorization"] = "basic " + strings.TrimPrefix(srvfix.Basic(u.Name, u.Pass), "Basic ")
		return header, "", proves("basic-ok"), true
	case "basic-wrong":
		header["Authorization"] = srvfix.Basic(u.Name, u.Pass+"x")
		return header, "", identity{Class: "basic-invalid"}, true
	case "basic-empty":
		header["Authorization"] = srvfix.Basic(u.Name, "")
		return header, "", identity{Class: "basic-invalid"}, true
	case "token":
		header["Authorization"] = "Bearer " + vtok()
		return header, "", proves("token"), true
	case "token-lcscheme":
		header["Authorization"] = "bearer " + vtok()
		return header, "", proves("token"), true
	case "token-wrongscheme":
		header["Authorization"] = "Token " + vtok()
		return header, "", identity{Class: "malformed"}, true
	case "token-suffix":
		header["Authorization"] = "Bearer " + vtok() + "00"
		return header, "", identity{Class: "token-tampered"}, true
	case "token-trunc":
		header["Authorization"] = "Bearer " + vtok()[:len(vtok())-2]
		return header, "", identity{Class: "token-tampered"}, true
	case "token-tampered":
		header["Authorization"] = "Bearer " + tamper(vtok(), c.Variant)
		return header, "", identity{Class: "token-tampered"}, true
	case "payload-ok":
		b, _ := json.Marshal(map[string]string{"username": u.Name, "password": u.Pass})
		header["Content-Type"] = "application/json"
		return header, string(b), proves("payload-ok"), true
	case "payload-wrong":
		b, _ := json.Marshal(map[string]string{"username": u.Name, "password": u.Pass + "x"})
		header["Content-Type"] = "application/json"
		return header, string(b), identity{Class: "payload-invalid"}, true
	}
	return nil, "", identity{}, false
}

func holds(perms []string, p string) bool {
	for _, q := range perms {
		if strings.EqualFold(p, q) {
			return true
		}
	}
	return false
}

// ---------------------------------------------------------------- requirements

type requirement struct {
	Auth  bool     // authentication required
	Perms []string // every one required (or root)
	// Unclear: the doc comments contradict each other for this declaration;
	// authentication is not asserted.
	Unclear string
	Shape   string // label: the order of the calls that matter
}

// declared derives the requirement of a generated declaration from the doc
// comments of router.go (see the package comment).
func declared(d *Decl) requirement {
	var rq requirement
	lastAuth, lastAuthFlag := -1, false
	lwFinal := false
	var shape []string
	seen := map[string]bool{}
	for i, op := range d.Ops {
		switch op.Name {
		case "Permissions":
			for _, p := range op.Args {
				if !seen[p] {
					seen[p] = true
					rq.Perms = append(rq.Perms, p)
				}
			}
			shape = append(shape, "P")
		case "Authentication":
			lastAuth, lastAuthFlag = i, op.Flag
			shape = append(shape, fmt.Sprintf("A%d", b2i(op.Flag)))
		case "LightWeight":
			lwFinal = op.Flag
			shape = append(shape, fmt.Sprintf("L%d", b2i(op.Flag)))
		}
	}
	// collapse immediate repetitions
	var cs []string
	for _, s := range shape {
		if len(cs) == 0 || cs[len(cs)-1] != s {
			cs = append(cs, s)
		}
	}
	rq.Shape = strings.Join(cs, " ")
	if rq.Shape == "" {
		rq.Shape = "-"
	}
	if len(rq.Perms) > 0 {
		rq.Auth = true
		return rq
	}
	if lastAuth < 0 || !lastAuthFlag {
		return rq
	}
	for _, op := range d.Ops[lastAuth+1:] {
		if op.Name == "LightWeight" && op.Flag {
			return rq // withdrawn: "a lightweight route cannot require authentication"
		}
	}
	if lwFinal {
		rq.Unclear = "LightWeight(true) before Authentication(true), still lightweight"
		return rq
	}
	rq.Auth = true
	return rq
}

// sigClass coarsens the credential class for signatures: everything that is
// not a token is one region ("no valid credential in header or payload"),
// each way a token can be invalid is its own.
func sigClass(class string) string {
	if strings.HasPrefix(class, "token") {
		return class
	}
	return "no-token"
}

func b2i(b bool) int {
	if b {
		return 1
	}
	return 0
}

// ---------------------------------------------------------------- building requests

var fillers = map[string]string{"name": "ulogon", "dsn": "verifdsn", "table": "t1", "id": "6c1f0c62-6a53-4d3a-9d0c-3a8f4f1f7e11",
	"item...": "dashboard/index.html", "value": "12", "field": "name", "code": "200"}

func fillPath(endpoint string) string {
	parts := strings.Split(endpoint, "/")
	for i, p := range parts {
		if strings.HasPrefix(p, "{{") && strings.HasSuffix(p, "}}") {
			n := strings.TrimSuffix(strings.TrimPrefix(p, "{{"), "}}")
			if v, ok := fillers[n]; ok {
				parts[i] = v
			} else {
				parts[i] = "x1"
			}
		}
	}
	return strings.Join(parts, "/")
}

// bodies that pass the route's payload validation, so that an authorized
// request can reach the probe
var validBodies = map[string]string{
	"admin.users:post":       `{"name":"someone","password":"pw-someone-1","permissions":["ego.logon"]}`,
	"admin.users.name:patch": `{"name":"ulogon","permissions":["+ego.logon"]}`,
	"admin.loggers:post":     `{"keep":3,"loggers":{"auth":true}}`,
	"admin.config:patch":     `{"ego.compiler.extensions":true}`,
	"dsns:post":              `{"name":"verifdsn","provider":"sqlite","database":"x.db"}`,
	"dsns.@permissions:post": `{"dsn":"verifdsn","user":"ulogon","actions":["+read"]}`,
}

var paramValues = map[string]string{"int": "3", "bool": "true", "string": "abc", "list": "a,b", "duration": "5s", "any": "zz", "flag": "", "string|flag": "v"}

// ---------------------------------------------------------------- the oracle

func (wd *world) oracle(c Case) (out vkit.Outcome) {
	header, body, id, ok := wd.credential(c.Cred)
	if !ok {
		out.Skip = "credential names no roster user"
		return out
	}
	accept := c.Accept
	if accept == "" {
		accept = "application/json"
	}
	header["Accept"] = accept

	var (
		rt     *router.Router
		info   router.VerifRouteInfo
		rq     requirement
		method string
		path   string
		declK  string
	)
	switch c.Kind {
	case "real":
		ri, found := wd.routes[c.Route]
		if !found {
			out.Skip = "route not in the table"
			return out
		}
		rt, info = wd.f.Router, ri
		rq = requirement{Auth: ri.MustAuthenticate || len(ri.Permissions) > 0, Perms: ri.Permissions, Shape: "real"}
		method = ri.Method
		if method == router.AnyMethod {
			method = "GET"
		}
		path = fillPath(ri.Endpoint)
		if body == "" {
			for _, v := range ri.Validations {
				if b, ok := validBodies[v]; ok {
					body = b
					header["Content-Type"] = "application/json"
				}
			}
		}
		declK = c.Route
	case "gen":
		if c.Decl == nil {
			out.Skip = "no declaration"
			return out
		}
		rt = router.NewRouter("c20-generated")
		route := rt.New(c.Decl.Endpoint, wd.probe(router.VerifRouteInfo{Endpoint: c.Decl.Endpoint, Method: c.Decl.Method}), c.Decl.Method)
		for _, op := range c.Decl.Ops {
			switch op.Name {
			case "Authentication":
				route.Authentication(op.Flag)
			case "Permissions":
				route.Permissions(op.Args...)
			case "LightWeight":
				route.LightWeight(op.Flag)
			case "Class":
				route.Class(router.ServiceClass(op.Int))
			case "AcceptMedia":
				route.AcceptMedia(op.Args...)
			case "Parameter":
				route.Parameter(op.Args[0], op.Args[1])
			case "CanAuthenticate":
				route.CanAuthenticate(op.Flag)
			case "Credentials":
				route.Credentials(op.Flag)
			case "AllowRedirects":
				route.AllowRedirects(op.Flag)
			default:
				out.Skip = "unknown builder call " + op.Name
				return out
			}
		}
		info = route.VerifInfo()
		rq = declared(c.Decl)
		method = c.Decl.Method
		if method == router.AnyMethod {
			method = "GET"
		}
		path = fillPath(c.Decl.Endpoint)
		b, _ := json.Marshal(c.Decl.Ops)
		declK = c.Decl.Method + " " + c.Decl.Endpoint + " " + string(b)
	default:
		out.Skip = "unknown kind"
		return out
	}
	if c.Query != "" {
		path += "?" + c.Query
	}

	wd.cur = hit{}
	t0 := time.Now()
	status, _, panicked, stack := serve(rt, method, path, header, body)
	if timing != nil {
		timing[c.Cred.Form] += time.Since(t0)
		timingN[c.Cred.Form]++
	}
	ran := wd.cur.n > 0
	if ran && c.Kind == "real" && id.Valid && id.Root {
		wd.reached[c.Route] = true
	}
	if !ran && c.Kind == "real" && id.Valid && id.Root && c.Cred.Form == "token" {
		debugf("admin token did not reach %s: status %d", c.Route, status)
	}

	// ---- bookkeeping
	permKey := strings.Join(id.Perms, ",")
	if id.Ghost {
		permKey = "(deleted user)"
	}
	out.Key = c.Kind + "|" + declK + "|" + c.Cred.Form + "|" + permKey
	hasReq := rq.Auth || len(rq.Perms) > 0
	out.NonTrivial = hasReq && !(id.Valid && id.Root)
	satisfied := !rq.Auth || id.Valid
	for _, p := range rq.Perms {
		if !(id.Valid && (id.Root || holds(id.Perms, p))) {
			satisfied = false
		}
	}
	reqClass := "open"
	switch {
	case len(rq.Perms) > 0:
		reqClass = "perms"
	case rq.Auth:
		reqClass = "auth"
	case rq.Unclear != "":
		reqClass = "unclear"
	}
	out.Labels = append(out.Labels,
		fmt.Sprintf("%s req=%s cred=%s ran=%v", c.Kind, reqClass, id.Class, ran),
		fmt.Sprintf("%s req=%s satisfied=%v ran=%v", c.Kind, reqClass, satisfied, ran),
		"form:"+c.Cred.Form)
	if c.Kind == "gen" {
		out.Labels = append(out.Labels, fmt.Sprintf("gen shape[%s] lw=%v must=%v ran=%v", rq.Shape, info.Lightweight, info.MustAuthenticate, ran))
	}
	if hasReq && satisfied && !ran {
		// the reverse direction: recorded, never asserted
		out.Labels = append(out.Labels, fmt.Sprintf("reverse: satisfied but refused: %s req=%s cred=%s lw=%v status=%d", c.Kind, reqClass, id.Class, info.Lightweight, status))
	}
	if rq.Unclear != "" && ran && !id.Valid {
		out.Labels = append(out.Labels, "observe: "+rq.Unclear+": handler ran without a valid credential")
	}
	if id.Ghost && ran && rq.Auth && len(rq.Perms) == 0 {
		out.Labels = append(out.Labels, "observe: token of a deleted user reached the handler of an authentication-only route")
	}
	if !rq.Auth && ran && wd.cur.authenticated && !id.Valid && !id.Ghost {
		out.Labels = append(out.Labels, "observe: session marked authenticated for an invalid credential (open route) cred="+id.Class)
	}

	if panicked != nil {
		out.Fail = &vkit.Failure{Sig: "panic in gate: " + srvfix.PanicSite(stack), Observed: fmt.Sprintf("panic: %v\n%s", panicked, stack), Expected: "no panic"}
		return out
	}
	if wd.cur.n > 1 {
		out.Fail = &vkit.Failure{Sig: "handler invoked more than once", Observed: fmt.Sprintf("%d invocations", wd.cur.n), Expected: "at most one"}
		return out
	}
	if !ran || !hasReq {
		return out
	}

	// ---- probe invoked => requirements met
	where := fmt.Sprintf("%s declared=%s lw=%v", c.Kind, reqClass, info.Lightweight)
	describe := func() string {
		return fmt.Sprintf("handler of %s %s ran (status %d); declaration [%s] requires: authentication=%v permissions=%v (resulting route flags: mustAuthenticate=%v lightweight=%v perms=%v); credential form %s user %q proves %+v; session given to the handler: user=%q authenticated=%v admin=%v perms=%v",
			method, path, status, rq.Shape, rq.Auth, rq.Perms, info.MustAuthenticate, info.Lightweight, info.Permissions, c.Cred.Form, c.Cred.User, id,
			wd.cur.user, wd.cur.authenticated, wd.cur.admin, wd.cur.perms)
	}
	ghostOK := id.Ghost && len(rq.Perms) == 0
	if rq.Auth && ((!id.Valid && !ghostOK) || !wd.cur.authenticated) {
		// When the builder left mustAuthenticate=false on a declaration that
		// requires authentication, that is the root cause whatever the
		// credential was; otherwise the credential class names the region.
		sig := "unauthenticated request reached handler: " + where + " cred=" + sigClass(id.Class)
		if !info.MustAuthenticate && !info.Lightweight {
			sig = "declaration requires authentication but the built route has mustAuthenticate=false: " + where
		}
		out.Fail = &vkit.Failure{Sig: sig, Observed: describe(),
			Expected: "refused: the declaration requires authentication and the request carries no valid credential of an existing user"}
		return out
	}
	for _, p := range rq.Perms {
		if !(id.Valid && (id.Root || holds(id.Perms, p))) {
			out.Fail = &vkit.Failure{Sig: "permission not held but handler ran: " + where + " cred=" + id.Class,
				Observed: describe(), Expected: fmt.Sprintf("refused: permission %s is required and the identity holds %v", p, id.Perms)}
			return out
		}
	}
	// the session handed to the handler must describe the identity the
	// credential proves
	if id.Valid && !strings.EqualFold(wd.cur.user, id.User) {
		out.Fail = &vkit.Failure{Sig: "handler ran with another identity than the credential proves: " + where + " cred=" + id.Class,
			Observed: describe(), Expected: fmt.Sprintf("session user %q", id.User)}
		return out
	}
	if id.Valid && wd.cur.admin != id.Root {
		out.Fail = &vkit.Failure{Sig: "handler ran with wrong administrator status: " + where + " cred=" + id.Class,
			Observed: describe(), Expected: fmt.Sprintf("session.Admin=%v", id.Root)}
		return out
	}
	return out
}

// ---------------------------------------------------------------- generators

func genCred(t *rapid.T, wd *world) Cred {
	variant := rapid.IntRange(0, 6000).Draw(t, "variant")
	switch k := rapid.IntRange(0, 99).Draw(t, "credclass"); {
	case k < 40:
		return Cred{Form: rapid.SampledFrom(userFormsCore).Draw(t, "form"), User: rapid.SampledFrom(wd.names).Draw(t, "user"), Variant: variant}
	case k < 60:
		return Cred{Form: rapid.SampledFrom(userFormsMore).Draw(t, "form"), User: rapid.SampledFrom(wd.names).Draw(t, "user"), Variant: variant}
	case k < 97:
		return Cred{Form: rapid.SampledFrom(fixedForms).Draw(t, "form"), Variant: variant}
	case k < 98:
		return Cred{Form: rapid.SampledFrom(costlyUserForms).Draw(t, "form"), User: rapid.SampledFrom(wd.names).Draw(t, "user"), Variant: variant}
	default:
		return Cred{Form: rapid.SampledFrom(costlyFixedForms).Draw(t, "form"), Variant: variant}
	}
}

var (
	genEndpoints = []string{"/verif/probe", "/verif/probe/", "/verif/items/{{name}}", "/verif/{{dsn}}/tables/{{table}}/rows", "/services/verif/x"}
	genMethods   = []string{"GET", "GET", "POST", "PUT", "DELETE", "PATCH", router.AnyMethod}
	genMedia     = []string{"application/json", defs.UserMediaType, defs.DSNMediaType, "text/plain"}
	genKinds     = []string{"int", "bool", "string", "list", "duration", "any", "flag"}
)

func genOp(t *rapid.T) Op {
	switch rapid.IntRange(0, 13).Draw(t, "op") {
	case 0, 1, 2:
		return Op{Name: "Authentication", Flag: rapid.Bool().Draw(t, "flag")}
	case 3, 4, 5:
		n := rapid.IntRange(1, 3).Draw(t, "nperm")
		var ps []string
		for i := 0; i < n; i++ {
			ps = append(ps, rapid.SampledFrom(permUniverse).Draw(t, "perm"))
		}
		return Op{Name: "Permissions", Args: ps}
	case 6, 7, 8:
		return Op{Name: "LightWeight", Flag: rapid.Bool().Draw(t, "flag")}
	case 9:
		return Op{Name: "Class", Int: rapid.IntRange(0, 6).Draw(t, "class")}
	case 10:
		return Op{Name: "AcceptMedia", Args: []string{rapid.SampledFrom(genMedia).Draw(t, "media")}}
	case 11:
		return Op{Name: "Parameter", Args: []string{rapid.SampledFrom([]string{"limit", "start", "user", "flag1"}).Draw(t, "pname"), rapid.SampledFrom(genKinds).Draw(t, "pkind")}}
	case 12:
		return Op{Name: "CanAuthenticate", Flag: rapid.Bool().Draw(t, "flag")}
	default:
		if rapid.Bool().Draw(t, "which") {
			return Op{Name: "Credentials", Flag: rapid.Bool().Draw(t, "flag")}
		}
		return Op{Name: "AllowRedirects", Flag: rapid.Bool().Draw(t, "flag")}
	}
}

func genDecl(t *rapid.T) *Decl {
	d := &Decl{Method: rapid.SampledFrom(genMethods).Draw(t, "method"), Endpoint: rapid.SampledFrom(genEndpoints).Draw(t, "endpoint")}
	n := rapid.IntRange(0, 6).Draw(t, "nops")
	for i := 0; i < n; i++ {
		d.Ops = append(d.Ops, genOp(t))
	}
	return d
}

func genCase(t *rapid.T, wd *world) Case {
	c := Case{Cred: genCred(t, wd)}
	if rapid.IntRange(0, 9).Draw(t, "domain") < 3 {
		c.Kind = "real"
		c.Route = rapid.SampledFrom(wd.keys).Draw(t, "route")
	} else {
		c.Kind = "gen"
		c.Decl = genDecl(t)
		// sometimes send a declared parameter with a value of its kind
		if rapid.IntRange(0, 5).Draw(t, "withquery") == 0 {
			for _, op := range c.Decl.Ops {
				if op.Name == "Parameter" {
					c.Query = op.Args[0]
					if v := paramValues[op.Args[1]]; v != "" {
						c.Query += "=" + v
					}
				}
			}
		}
	}
	if rapid.IntRange(0, 11).Draw(t, "acceptclass") == 0 {
		c.Accept = rapid.SampledFrom([]string{"*/*", "application/xml", "text/plain", defs.UserMediaType}).Draw(t, "accept")
	}
	return c
}

// fixedCases enumerates every real route x every credential form x every
// roster user the form depends on (one variant of the expensive forms), and
// the order-sensitive generated declarations named in the property's
// why_tests_cant.
func fixedCases(wd *world) []Case {
	var cs []Case
	var creds, costly []Cred
	few := []string{"admin", "ulogon", "umany"}
	for _, f := range fixedForms {
		if f == "malformed" {
			for i := range malformed {
				creds = append(creds, Cred{Form: f, Variant: i})
			}
			continue
		}
		creds = append(creds, Cred{Form: f})
	}
	for _, f := range userFormsCore {
		for _, n := range wd.names {
			creds = append(creds, Cred{Form: f, User: n})
		}
	}
	for _, f := range userFormsMore {
		for _, n := range few {
			creds = append(creds, Cred{Form: f, User: n})
		}
	}
	thorough := vkit.Tier() == "thorough"
	for _, f := range costlyFixedForms {
		costly = append(costly, Cred{Form: f, Variant: 1}) // expired/revoked/deleted: the token that was cached while valid
		if thorough {
			costly = append(costly, Cred{Form: f, Variant: 40})
		}
	}
	for _, f := range costlyUserForms {
		costly = append(costly, Cred{Form: f, User: "umany", Variant: 131})
		if thorough {
			costly = append(costly, Cred{Form: f, User: "admin", Variant: 77})
		}
	}
	// quick: the costly forms meet one route of every gate-relevant class;
	// thorough: every route
	seenClass := map[string]bool{}
	for _, k := range wd.keys {
		ri := wd.routes[k]
		for _, cr := range creds {
			cs = append(cs, Case{Kind: "real", Route: k, Cred: cr})
		}
		class := fmt.Sprintf("%v/%v/%v/%v/%v", ri.MustAuthenticate, len(ri.Permissions) > 0, ri.Lightweight, ri.CanAuthenticate, ri.Redirect != "")
		if thorough || !seenClass[class] {
			seenClass[class] = true
			for _, cr := range costly {
				cs = append(cs, Case{Kind: "real", Route: k, Cred: cr})
			}
		}
	}
	A := func(b bool) Op { return Op{Name: "Authentication", Flag: b} }
	L := func(b bool) Op { return Op{Name: "LightWeight", Flag: b} }
	P := func(p ...string) Op { return Op{Name: "Permissions", Args: p} }
	C := func(b bool) Op { return Op{Name: "CanAuthenticate", Flag: b} }
	shapes := [][]Op{
		{}, {A(true)}, {A(false)}, {L(true)}, {L(false)}, {P(pSQL)}, {P(pRoot)}, {P(pSQL, pCode)}, {P(pSQL), P(pCode)},
		{P(pSQL), L(true)}, {L(true), P(pSQL)}, {P(pSQL), A(false)}, {A(false), P(pSQL)}, {P(pSQL), A(true)}, {A(true), P(pSQL)},
		{P(pSQL), L(false)}, {L(false), P(pSQL)}, {A(true), L(true)}, {L(true), A(true)}, {A(true), L(false)}, {L(false), A(true)},
		{A(false), L(false)}, {L(false), A(false)}, {A(true), L(true), L(false)}, {L(true), A(true), L(false)},
		{P(pSQL), A(false), C(true)}, {A(true), C(true)}, {A(true), C(true), P(pCustom)}, {P(pSQL), L(true), L(false)},
		{P(pSQL), A(false), L(false)}, {P(pSQL), L(true), A(true)}, {A(true), A(false)}, {A(false), A(true)},
		{P(pLogon), Op{Name: "Credentials", Flag: true}}, {A(true), Op{Name: "Credentials", Flag: true}},
	}
	for i, ops := range shapes {
		for _, m := range []string{"GET", "POST"} {
			for _, cr := range creds {
				cs = append(cs, Case{Kind: "gen", Decl: &Decl{Method: m, Endpoint: "/verif/probe", Ops: ops}, Cred: cr})
			}
			if thorough || (m == "GET" && i%6 == 5) {
				for _, cr := range costly {
					cs = append(cs, Case{Kind: "gen", Decl: &Decl{Method: m, Endpoint: "/verif/probe", Ops: ops}, Cred: cr})
				}
			}
		}
	}
	return cs
}

var timing, timingN = map[string]time.Duration{}, map[string]int{}

func TestC20(t *testing.T) {
	wd := getWorld(t)
	if os.Getenv("C20_DEBUG") == "" {
		timing = nil
	} else {
		defer func() {
			for k, v := range timing {
				debugf("timing %-22s n=%6d total=%8.2fs avg=%6.2fms", k, timingN[k], v.Seconds(), v.Seconds()*1000/float64(timingN[k]))
			}
		}()
	}
	vkit.Run(t, vkit.Spec[Case]{
		ID:    "C20",
		Level: "exploration",
		Rule: "real: every route of the running server's table (all handlers replaced by probes) x credential form x roster user, enumerated once (spread over the shards) and sampled; " +
			"gen: fresh router, one route, 0-6 builder calls drawn with repetition in any order from Authentication/Permissions/LightWeight/Class/AcceptMedia/Parameter/CanAuthenticate/Credentials/AllowRedirects, " +
			"plus an enumerated list of order-sensitive shapes. Credential forms: none, empty/malformed Authorization (13), Basic wrong/empty/unknown/deleted user, Basic correct (also upper-case name, lower-case scheme), " +
			"token valid, expired (fresh/cached), tampered (any hex digit), extended, truncated, wrong scheme, revoked (fresh/cached), token of a deleted user, payload credentials. " +
			"Oracle: probe invoked => authentication valid when required and every declared permission held (or root), and the session names that identity. " +
			"Non-trivial: the declaration has a requirement and the credential is not a valid administrator credential; distinct by (declaration, credential form, permission set).",
		Assumptions: []string{
			"JWT credentials are left to C22 (resource-server mode needs an identity provider)",
			"login lockout disabled (ego.server.auth.maxattempts=0, documented); SQLite user store; token lifetime 48h",
			"stored password hashes re-hashed at bcrypt.MinCost for speed (same format and code path)",
			"a token of a deleted user is treated as authenticated-but-without-permissions; its reaching authentication-only handlers is labelled, not asserted",
			"LightWeight(true) followed by Authentication(true) on a route that stays lightweight: docs contradict, labelled, not asserted",
		},
		Gen:    func(rt *rapid.T) Case { return genCase(rt, wd) },
		Oracle: wd.oracle,
		Fixed: func() []Case {
			cs := fixedCases(wd)
			if n, _ := strconv.Atoi(os.Getenv("C20_FIXED_EVERY")); n > 1 { // development aid
				var sub []Case
				for i := 0; i < len(cs); i += n {
					sub = append(sub, cs[i])
				}
				return sub
			}
			return cs
		},
		Quick:    6000,
		Thorough: 120000,
		Extra: func() map[string]any {
			// lists are united over the shards by the driver (the fixed cases
			// are spread round-robin over the shards)
			var reached []string
			for _, k := range wd.keys {
				if wd.reached[k] {
					reached = append(reached, k)
				}
			}
			return map[string]any{"route_table": wd.keys, "routes_whose_probe_ran_for_an_administrator": reached,
				"users": wd.names, "setup_notes": wd.notes}
		},
	})
}
