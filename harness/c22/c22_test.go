package c22

// C22 "JWT bearer tokens are verified and revocable".
//
// Statement (fixed): In OAuth resource-server mode, a JWT is accepted only if its
// signature verifies with a published key using an allowed algorithm, its
// issuer and audience match the configuration, it has not expired, and its
// token ID has not been revoked. Revocation takes effect for every later
// request whether or not the token was seen before.
//
// What is driven. An in-memory OIDC provider: oauth's HTTP client
// (client.go: `idpClient = &http.Client{Timeout: 10s}`, no Transport) uses
// http.DefaultTransport at call time, so the harness installs a RoundTripper
// there that serves https://idp.c22.example/.well-known/openid-configuration
// and /jwks (one RSA-2048 key, kid "rsa-1", listed first; one EC P-256 key,
// kid "ec-1") without any socket. The real server start-up sequence (srvfix,
// SQLite user database, so that the revocation store of
// internal/language/tokens is live) runs with ego.server.oauth.provider
// pointing at that URL, ego.server.oauth.audience set and
// ego.server.oauth.jwks.cache.ttl set per process (see below), so
// commands/server.go calls oauth.Initialize (discovery + JWKS fetch) exactly
// as `ego server run` does. JWTs are minted in the harness with
// github.com/golang-jwt/jwt/v5 primitives and presented
//   - directly to oauth.ValidateJWT (what router.Authenticate calls), and
//   - through router.ServeHTTP to a probe route declared .Authentication(true)
//     (GET /services/admin/authenticate is no use for JWTs: its handler runs
//     cipher.Extract on the bearer string and answers 400 for every JWT).
// jti values are revoked through PUT /admin/tokens (the administrator's REST
// endpoint) or tokens.Blacklist (what authserver/revoke.go calls), un-revoked
// through DELETE /admin/tokens/{id} or tokens.Delete, the list is flushed
// through DELETE /admin/tokens or tokens.Flush, and caches are dropped through
// DELETE /admin/caches[?class=blacklist] or caches.Purge.
//
// Time. Every history runs inside a testing/synctest bubble (DESIGN 1.4, as
// C21/C24): all rapid draws happen before the bubble, the verdict leaves it as
// a value; the bubble of the n-th case first sleeps to 2100-01-01 + n*3 days (int64 nanoseconds end in 2262: with 30-day steps from 2200 the thorough tier ran past that and crashed the Go runtime),
// so every time stamp ego kept from an earlier case (JWKS fetch time, miss
// refresh time) or from the start-up outside the bubble lies in the past and
// every case starts with a stale JWKS cache (the first key lookup re-fetches
// the JWKS through the in-memory transport, inside the bubble). Tokens are
// minted at the start of the bubble with exp / nbf relative to that instant;
// "sleep" steps advance virtual time by fixed amounts, to a token's exp or
// nbf -1s / -1ns / 0 / +1ns / +1s / +61s, to one JWKS/JWT cache TTL -1s / +1s
// / +61s, or arbitrarily up to 5 h. The JWT result cache is created by
// oauth.Initialize outside the bubble together with its sweeper goroutine; the
// setup purges it and waits (real time, once per process, <= ~65 s) until
// that sweeper has seen the cache gone and exited, and every case then
// re-creates the cache inside its bubble with caches.SetExpiration(ttl) (the
// call Initialize makes), so that the sweeper runs on virtual time and cached
// results really age out. At the end of a bubble the caches are purged and one
// scan interval is slept so the sweepers exit. A bubble that does not end
// (real-time watchdog) or deadlocks is a HARNESS-ERROR (exit 2), never a
// verdict.
//
// ego.server.oauth.jwks.cache.ttl is read once by oauth.Initialize, so it is a
// per-process dimension: shards with an even index run with "1h" (the
// default), odd shards with "90s" (VERIF_C22_TTL overrides). Token lifetimes
// (20 s, 90 s, 5 min, 30 min, 1 h, 2 h, 10 y) lie on both sides of both
// values. The model does not depend on the TTL.
//
// Oracle (three-valued, per presentation at virtual time t):
//   must reject  <= the signature cannot be verified with a published key by
//                   an allowed algorithm (unpublished key, corrupted, alg none,
//                   HS256 keyed with a published public key, header alg that
//                   does not belong to the signature), or iss differs from the
//                   configured provider, or aud does not contain the configured
//                   audience (string, list, missing), or exp is missing or
//                   t > exp, or t < nbf, or the jti is on the revocation list
//                   at that moment.              -> accepted = VIOLATION
//   must accept  <= RS256/384/512 by the published RSA key or ES256 by the
//                   published EC key, kid naming that key, unmodified, iss and
//                   aud matching, t < exp, nbf absent or t > nbf, jti absent or
//                   not revoked, non-empty sub.  -> rejected = VIOLATION
//                   (the documented behaviour of resource-server mode,
//                   docs/SERVER.md "Ego as an OAuth2 Resource Server"; it also
//                   keeps the check from being satisfied by a server, or a
//                   harness, that rejects everything)
//   either       otherwise: t == exp or t == nbf exactly (jwt.go builds the
//                   parser without jwt.WithLeeway, so the validator's clock
//                   skew allowance is 0 and the undecided window is that one
//                   instant); no kid / empty kid (ego picks the first
//                   published key), kid naming the other published key, PS256
//                   (the statement does not say whether RSA-PSS is "allowed"),
//                   empty sub (no user identity).
// The statement says "only if"; nbf is not in it, but docs/internals/OAUTH.md
// ("jwt.go: extract and validate standard claims iss, aud, exp, nbf") and RFC
// 7519 make a not-yet-valid token a must-reject.
//
// Preconditions taken from real callers / documentation:
//   * The provider setting has no trailing slash and the audience setting is a
//     single non-empty string (docs/SERVER.md examples); provider, audience and
//     JWKS TTL are fixed for the process (oauth.Initialize runs once).
//   * The JWKS is constant (no key rotation). The JWKS key cache cannot be
//     purged from outside the package, but it lapses by time (TTL) inside the
//     bubble, and unknown-kid presentations drive the rate-limited refresh.
//   * exp / nbf are whole seconds (NumericDate), as every IdP issues them.
//   * jti values are unique per evaluated case, and every case starts from an
//     empty revocation list and empty JWT / blacklist caches, so no state
//     leaks between cases.
//   * The model of the revocation list follows the operations; it is compared
//     with tokens.List() after every mutating step, and a disagreement makes
//     the case inconclusive (the store is C21/C31 territory, not this check's).
//   * A second revoke of a revoked id answers 500 (UNIQUE constraint); the
//     model treats it as still revoked.

import (
	"bytes"
	"crypto/ecdsa"
	"crypto/elliptic"
	"crypto/rand"
	"crypto/rsa"
	"crypto/x509"
	"encoding/base64"
	"encoding/json"
	"encoding/pem"
	"fmt"
	"io"
	"math/big"
	"net/http"
	"os"
	"path/filepath"
	"runtime"
	"sort"
	"strconv"
	"strings"
	"testing"
	"testing/synctest"
	"time"

	"github.com/golang-jwt/jwt/v5"
	"github.com/tucats/ego/internal/caches"
	"github.com/tucats/ego/internal/defs"
	"github.com/tucats/ego/internal/language/tokens"
	"github.com/tucats/ego/internal/router"
	"github.com/tucats/ego/internal/server/oauth"
	"github.com/tucats/ego/verif/srvfix"
	"github.com/tucats/ego/verif/vkit"
	"pgregory.net/rapid"
)

// ---------------------------------------------------------------- case data

// Tok describes one JWT by classes; the oracle resolves them against the
// provider stub (URL, keys) and the virtual instant at which the case starts.
type Tok struct {
	Key     string `json:"key"`               // rsa-pub | ec-pub | rsa-other | ec-other  (private key that signs)
	Alg     string `json:"alg"`               // see algs
	Kid     string `json:"kid"`               // own | rsa | ec | unknown | missing | empty
	Corrupt string `json:"corrupt,omitempty"` // "" | sig-flip | sig-trunc | payload-swap
	Iss     string `json:"iss"`               // match | slash | other | missing | upper
	Aud     string `json:"aud"`               // str | list-has | list-first | list-only | str-other | list-not | missing | empty-list | str-prefix | str-upper
	Exp     string `json:"exp"`               // see expOff: lifetime from the start of the case; past | just-past | missing
	Nbf     string `json:"nbf"`               // none | past | 30s | soon (60s) | 10m | future (1h)
	Jti     string `json:"jti"`               // none | a | b
	Sub     string `json:"sub"`               // user | empty
}

// Adv is a clock advance.
//
//	abs: Ns nanoseconds
//	exp: up to the exp instant of token Tok plus Delta ns (Ns if that is in the past or the token has no exp)
//	nbf: up to the nbf instant of token Tok plus Delta ns (same fallback)
//	ttl: one JWKS/JWT cache TTL of this process plus Delta ns
type Adv struct {
	Kind  string `json:"kind"`
	Ns    int64  `json:"ns,omitempty"`
	Delta int64  `json:"delta,omitempty"`
}

// Step is one operation of the history.
type Step struct {
	Op   string `json:"op"`            // present | revoke | unrevoke | flush | purge | sleep
	Tok  int    `json:"tok,omitempty"` // index into Toks (mod len)
	Via  string `json:"via,omitempty"` // present: direct|router; revoke/unrevoke/flush: rest|direct
	What string `json:"what,omitempty"`
	// purge: jwt | blacklist | blacklist-rest | all-rest
	Adv *Adv `json:"adv,omitempty"` // sleep
}

type Case struct {
	Toks  []Tok  `json:"toks"`
	Steps []Step `json:"steps"`
}

const (
	maxToks  = 3
	maxSteps = 12
	audience = "ego-api"
	issuer   = "https://idp.c22.example"
	scanNs   = int64(60 * time.Second)
)

var (
	keysAll  = []string{"rsa-pub", "ec-pub", "rsa-other", "ec-other"}
	algsRSA  = []string{"RS256", "RS384", "RS512", "PS256", "hdrES256-sigRS256"}
	algsEC   = []string{"ES256", "hdrRS256-sigES256"}
	algsFree = []string{"none", "none-sig", "HS256-pem", "HS256-der", "HS256-n"}
	kidsAll  = []string{"own", "rsa", "ec", "unknown", "missing", "empty"}
	corrAll  = []string{"", "sig-flip", "sig-trunc", "payload-swap"}
	issAll   = []string{"match", "slash", "other", "missing", "upper"}
	audAll   = []string{"str", "list-has", "list-first", "list-only", "str-other", "list-not", "missing", "empty-list", "str-prefix", "str-upper"}
	expAll   = []string{"20s", "90s", "soon", "30m", "future", "2h", "far", "past", "just-past", "missing"}
	nbfAll   = []string{"none", "past", "30s", "soon", "10m", "future"}
	jtiAll   = []string{"none", "a", "b"}
	subAll   = []string{"user", "empty"}
	purgeAll = []string{"jwt", "blacklist", "blacklist-rest", "all-rest"}

	// offsets from the start of the case
	expOff = map[string]time.Duration{"20s": 20 * time.Second, "90s": 90 * time.Second, "soon": 5 * time.Minute, "30m": 30 * time.Minute,
		"future": time.Hour, "2h": 2 * time.Hour, "far": 10 * 365 * 24 * time.Hour, "past": -time.Hour, "just-past": -time.Second}
	nbfOff = map[string]time.Duration{"past": -time.Minute, "30s": 30 * time.Second, "soon": 60 * time.Second, "10m": 10 * time.Minute, "future": time.Hour}
)

func in(s string, l []string) bool {
	for _, x := range l {
		if x == s {
			return true
		}
	}
	return false
}

// ---------------------------------------------------------------- generator

func genTok(t *rapid.T) Tok {
	tk := Tok{Kid: "own", Iss: "match", Sub: "user"}
	if rapid.Bool().Draw(t, "ec") {
		tk.Key, tk.Alg = "ec-pub", "ES256"
	} else {
		tk.Key, tk.Alg = "rsa-pub", rapid.SampledFrom([]string{"RS256", "RS256", "RS256", "RS384", "RS512"}).Draw(t, "rsalg")
	}
	tk.Aud = rapid.SampledFrom([]string{"str", "str", "list-has", "list-first", "list-only"}).Draw(t, "audOK")
	tk.Nbf = rapid.SampledFrom([]string{"none", "none", "none", "past", "30s", "soon", "10m"}).Draw(t, "nbfOK")
	tk.Exp = rapid.SampledFrom([]string{"20s", "90s", "soon", "soon", "30m", "future", "future", "2h", "far"}).Draw(t, "expOK")
	tk.Jti = rapid.SampledFrom([]string{"a", "a", "a", "b", "none"}).Draw(t, "jti")

	flaws := rapid.SampledFrom([]int{0, 0, 0, 0, 0, 0, 1, 1, 1, 2}).Draw(t, "flaws")
	for i := 0; i < flaws; i++ {
		switch rapid.IntRange(0, 8).Draw(t, "dim") {
		case 0: // signing key
			if strings.HasPrefix(tk.Key, "rsa") {
				tk.Key = "rsa-other"
			} else {
				tk.Key = "ec-other"
			}
		case 1: // algorithm
			var pool []string
			if strings.HasPrefix(tk.Key, "rsa") {
				pool = append(append([]string{}, algsFree...), "PS256", "hdrES256-sigRS256")
			} else {
				pool = append(append([]string{}, algsFree...), "hdrRS256-sigES256")
			}
			tk.Alg = rapid.SampledFrom(pool).Draw(t, "alg")
		case 2:
			tk.Kid = rapid.SampledFrom([]string{"rsa", "ec", "unknown", "missing", "empty"}).Draw(t, "kid")
		case 3:
			tk.Corrupt = rapid.SampledFrom(corrAll[1:]).Draw(t, "corrupt")
		case 4:
			tk.Iss = rapid.SampledFrom(issAll[1:]).Draw(t, "iss")
		case 5:
			tk.Aud = rapid.SampledFrom([]string{"str-other", "list-not", "list-not", "missing", "empty-list", "str-prefix", "str-upper"}).Draw(t, "aud")
		case 6:
			tk.Exp = rapid.SampledFrom([]string{"past", "just-past", "missing"}).Draw(t, "exp")
		case 7:
			tk.Nbf = rapid.SampledFrom([]string{"future", "10m"}).Draw(t, "nbf")
		case 8:
			tk.Sub = "empty"
		}
	}
	return tk
}

func genAdv(t *rapid.T) *Adv {
	switch k := rapid.IntRange(0, 19).Draw(t, "advClass"); {
	case k < 4:
		return &Adv{Kind: "abs", Ns: rapid.SampledFrom([]int64{1, int64(time.Second), int64(19 * time.Second), int64(30 * time.Second), int64(59 * time.Second),
			int64(61 * time.Second), int64(2 * time.Minute), int64(10 * time.Minute), int64(time.Hour)}).Draw(t, "ns")}
	case k < 11: // aimed at the exp of a token
		return &Adv{Kind: "exp", Delta: rapid.SampledFrom([]int64{-int64(time.Second), -1, 0, 1, 1, int64(time.Second), int64(time.Second), int64(61 * time.Second)}).Draw(t, "delta"),
			Ns: rapid.SampledFrom([]int64{0, int64(time.Second), int64(30 * time.Second)}).Draw(t, "fallback")}
	case k < 14: // aimed at the nbf of a token
		return &Adv{Kind: "nbf", Delta: rapid.SampledFrom([]int64{-int64(time.Second), -1, 0, 1, int64(time.Second)}).Draw(t, "delta"),
			Ns: rapid.SampledFrom([]int64{0, int64(time.Second), int64(30 * time.Second)}).Draw(t, "fallback")}
	case k < 17: // one cache TTL
		return &Adv{Kind: "ttl", Delta: rapid.SampledFrom([]int64{-int64(time.Second), int64(time.Second), int64(61 * time.Second)}).Draw(t, "delta")}
	default:
		return &Adv{Kind: "abs", Ns: rapid.Int64Range(0, int64(5*time.Hour)).Draw(t, "any")}
	}
}

func genStep(t *rapid.T, ntok int) Step {
	tok := rapid.IntRange(0, ntok-1).Draw(t, "tok")
	switch k := rapid.IntRange(0, 24).Draw(t, "op"); {
	case k < 10:
		return Step{Op: "present", Tok: tok, Via: rapid.SampledFrom([]string{"direct", "direct", "router"}).Draw(t, "via")}
	case k < 13:
		return Step{Op: "revoke", Tok: tok, Via: rapid.SampledFrom([]string{"rest", "direct"}).Draw(t, "via")}
	case k < 15:
		return Step{Op: "unrevoke", Tok: tok, Via: rapid.SampledFrom([]string{"rest", "direct"}).Draw(t, "via")}
	case k < 16:
		return Step{Op: "flush", Via: rapid.SampledFrom([]string{"rest", "direct"}).Draw(t, "via")}
	case k < 19:
		return Step{Op: "purge", What: rapid.SampledFrom([]string{"jwt", "jwt", "jwt", "blacklist", "blacklist-rest", "all-rest"}).Draw(t, "what")}
	default:
		return Step{Op: "sleep", Tok: tok, Adv: genAdv(t)}
	}
}

func genCase(t *rapid.T) Case {
	n := rapid.SampledFrom([]int{1, 1, 2, 2, 3}).Draw(t, "ntok")
	c := Case{}
	for i := 0; i < n; i++ {
		c.Toks = append(c.Toks, genTok(t))
	}
	via := func(l string) string { return rapid.SampledFrom([]string{"direct", "router"}).Draw(t, l) }
	switch k := rapid.IntRange(0, 9).Draw(t, "template"); {
	case k < 3:
		// the history the statement's second sentence is about: revoke, then a
		// presentation with or without an earlier sighting and with or without
		// a cache purge in between
		if rapid.Bool().Draw(t, "seenBefore") {
			c.Steps = append(c.Steps, Step{Op: "present", Tok: 0, Via: via("v0")})
		}
		c.Steps = append(c.Steps, Step{Op: "revoke", Tok: 0, Via: rapid.SampledFrom([]string{"rest", "direct"}).Draw(t, "rv")})
		if rapid.Bool().Draw(t, "purgeBetween") {
			c.Steps = append(c.Steps, Step{Op: "purge", What: rapid.SampledFrom(purgeAll).Draw(t, "pw")})
		}
		c.Steps = append(c.Steps, Step{Op: "present", Tok: 0, Via: via("v1")})
	case k < 6:
		// the same token before and after its exp, with or without the cached
		// result still there
		c.Steps = append(c.Steps, Step{Op: "present", Tok: 0, Via: via("v0")})
		if rapid.IntRange(0, 3).Draw(t, "early") == 0 {
			c.Steps = append(c.Steps, Step{Op: "sleep", Tok: 0, Adv: &Adv{Kind: "exp", Delta: rapid.SampledFrom([]int64{-int64(time.Second), -1}).Draw(t, "d0")}},
				Step{Op: "present", Tok: 0, Via: via("v1")})
		}
		c.Steps = append(c.Steps, Step{Op: "sleep", Tok: 0, Adv: &Adv{Kind: "exp", Delta: rapid.SampledFrom([]int64{1, 1, int64(time.Second), int64(61 * time.Second)}).Draw(t, "d1")}})
		if rapid.IntRange(0, 3).Draw(t, "purgeAfter") == 0 {
			c.Steps = append(c.Steps, Step{Op: "purge", What: "jwt"})
		}
		c.Steps = append(c.Steps, Step{Op: "present", Tok: 0, Via: via("v2")})
	case k < 7:
		// nbf crossing
		c.Steps = append(c.Steps, Step{Op: "present", Tok: 0, Via: via("v0")},
			Step{Op: "sleep", Tok: 0, Adv: &Adv{Kind: "nbf", Delta: rapid.SampledFrom([]int64{-1, 1, 1, int64(time.Second)}).Draw(t, "d0"), Ns: int64(time.Second)}},
			Step{Op: "present", Tok: 0, Via: via("v1")})
	case k < 8:
		// cached result ages out (one TTL and a sweep), then presented again
		c.Steps = append(c.Steps, Step{Op: "present", Tok: 0, Via: via("v0")},
			Step{Op: "sleep", Adv: &Adv{Kind: "ttl", Delta: rapid.SampledFrom([]int64{-int64(time.Second), int64(time.Second), int64(61 * time.Second)}).Draw(t, "d0")}},
			Step{Op: "present", Tok: 0, Via: via("v1")})
	}
	room := maxSteps - len(c.Steps)
	tail := rapid.IntRange(0, room).Draw(t, "tail")
	if len(c.Steps) == 0 && tail == 0 {
		tail = 1
	}
	for i := 0; i < tail; i++ {
		c.Steps = append(c.Steps, genStep(t, n))
	}
	return c
}

// ---------------------------------------------------------------- fixture

type fixture struct {
	srv      *srvfix.Fixture
	t        *testing.T
	rsaPub   *rsa.PrivateKey
	rsaOther *rsa.PrivateKey
	ecPub    *ecdsa.PrivateKey
	ecOther  *ecdsa.PrivateKey
	jwksHits int
	seq      int
	ttl      time.Duration
	// sweeperOutside: the JWT cache sweeper that oauth.Initialize started
	// outside the bubble could not be seen to exit; cached results then never
	// age out on virtual time (weaker coverage, no effect on verdicts).
	sweeperOutside bool
}

var fx *fixture

func b64(b []byte) string { return base64.RawURLEncoding.EncodeToString(b) }

// idpTransport is the in-memory identity provider.
type idpTransport struct{ f *fixture }

func (tr idpTransport) RoundTrip(r *http.Request) (*http.Response, error) {
	f := tr.f
	reply := func(code int, v any) (*http.Response, error) {
		b, _ := json.Marshal(v)
		return &http.Response{StatusCode: code, Status: strconv.Itoa(code) + " " + http.StatusText(code), Proto: "HTTP/1.1", ProtoMajor: 1, ProtoMinor: 1,
			Header: http.Header{"Content-Type": []string{"application/json"}}, Body: io.NopCloser(bytes.NewReader(b)), ContentLength: int64(len(b)), Request: r}, nil
	}
	if r.URL.Scheme+"://"+r.URL.Host != issuer {
		return nil, fmt.Errorf("c22: no network in this harness (%s)", r.URL)
	}
	switch r.URL.Path {
	case "/.well-known/openid-configuration":
		return reply(200, map[string]any{
			"issuer":                 issuer,
			"authorization_endpoint": issuer + "/authorize",
			"token_endpoint":         issuer + "/token",
			"userinfo_endpoint":      issuer + "/userinfo",
			"jwks_uri":               issuer + "/jwks",
		})
	case "/jwks":
		f.jwksHits++
		ecBytes := func(v *big.Int) []byte { return v.FillBytes(make([]byte, 32)) }
		return reply(200, map[string]any{"keys": []map[string]any{
			{"kty": "RSA", "kid": "rsa-1", "use": "sig", "alg": "RS256",
				"n": b64(f.rsaPub.N.Bytes()), "e": b64(big.NewInt(int64(f.rsaPub.E)).Bytes())},
			{"kty": "EC", "kid": "ec-1", "use": "sig", "alg": "ES256", "crv": "P-256",
				"x": b64(ecBytes(f.ecPub.X)), "y": b64(ecBytes(f.ecPub.Y))},
		}})
	}
	return reply(404, map[string]any{"error": "not found"})
}

// jwtSweeperAlive reports whether a goroutine is running caches.expire for
// the JWT result cache (its first argument is the cache class).
func jwtSweeperAlive() (alive, readable bool) {
	buf := make([]byte, 1<<20)
	buf = buf[:runtime.Stack(buf, true)]
	needle := fmt.Sprintf("internal/caches.expire(%#x", caches.OAuthJWTCache)
	for _, l := range strings.Split(string(buf), "\n") {
		if strings.Contains(l, "internal/caches.expire(") {
			readable = true
			if strings.HasPrefix(strings.TrimSpace(l), "github.com/tucats/ego/"+needle) {
				rest := strings.TrimPrefix(strings.TrimSpace(l), "github.com/tucats/ego/"+needle)
				if rest == "" || rest[0] == ',' || rest[0] == ')' || rest[0] == '?' {
					alive = true
				}
			}
		}
	}
	return alive, readable
}

func setup(t *testing.T) *fixture {
	f := &fixture{t: t}
	var err error
	must := func(e error) {
		if e != nil {
			t.Fatalf("harness: %v", e)
		}
	}
	f.rsaPub, err = rsa.GenerateKey(rand.Reader, 2048)
	must(err)
	f.rsaOther, err = rsa.GenerateKey(rand.Reader, 2048)
	must(err)
	f.ecPub, err = ecdsa.GenerateKey(elliptic.P256(), rand.Reader)
	must(err)
	f.ecOther, err = ecdsa.GenerateKey(elliptic.P256(), rand.Reader)
	must(err)

	// oauth's idpClient has no Transport of its own: it uses this one.
	http.DefaultTransport = idpTransport{f}

	ttl := "1h"
	if vkit.ShardIndex()%2 == 1 {
		ttl = "90s"
	}
	if v := os.Getenv("VERIF_C22_TTL"); v != "" {
		ttl = v
	}
	f.ttl, err = time.ParseDuration(ttl)
	must(err)

	f.srv, err = srvfix.Start(srvfix.Options{UserStore: "sqlite", Settings: map[string]string{
		defs.OAuthProviderSetting:     issuer,
		defs.OAuthAudienceSetting:     audience,
		defs.OAuthClientIDSetting:     "c22-client",
		defs.OAuthModeSetting:         "hybrid",
		defs.OAuthJWKSCacheTTLSetting: ttl,
	}})
	must(err)
	started := time.Now()
	// From here on nothing outside a bubble may touch the JWT result cache:
	// Initialize created it (SetExpiration) with a sweeper on the real clock.
	caches.Purge(caches.OAuthJWTCache)

	if !oauth.IsEnabled() {
		t.Fatalf("harness: resource-server mode is not enabled after start-up")
	}
	if f.jwksHits == 0 {
		t.Fatalf("harness: the server start-up did not fetch the JWKS from the provider stub (oauth.Initialize not run or failed)")
	}
	f.srv.Router.New("/c22/probe", func(s *router.Session, w http.ResponseWriter, r *http.Request) int {
		w.WriteHeader(http.StatusOK)
		_, _ = w.Write([]byte(s.User))
		return http.StatusOK
	}, http.MethodGet).Authentication(true)

	// Warm-up outside any bubble (DESIGN 1.4c): the rate-limit pruner (Basic
	// credentials), request bookkeeping, the revocation store's first database
	// connection. None of this creates the JWT or the blacklist cache.
	if r := f.admin("GET", "/admin/tokens/", ""); r.Status != 200 {
		t.Fatalf("harness: warm-up GET /admin/tokens with Basic admin credentials: %d %s", r.Status, r.Body)
	}
	if r := f.srv.Do(srvfix.Request{Method: "GET", Path: "/c22/probe", Header: srvfix.Bearer("not-a-token")}); r.Status != 403 && r.Status != 401 {
		t.Fatalf("harness: warm-up GET /c22/probe with a garbage bearer: %d %s", r.Status, r.Body)
	}
	// The revocation store must be live, otherwise every revocation is a no-op
	// and the check would blame ego for a harness mistake.
	must(tokens.Blacklist("c22-selftest"))
	l, err := tokens.List()
	must(err)
	if len(l) != 1 || l[0].ID != "c22-selftest" {
		t.Fatalf("harness: revocation store is not live (list after one insert: %v)", l)
	}
	_, err = tokens.Flush()
	must(err)
	if n := caches.Size(caches.OAuthJWTCache) + caches.Size(caches.BlacklistCache); n != 0 {
		t.Fatalf("harness: the warm-up populated the JWT / blacklist cache (%d entries)", n)
	}

	// Wait until the outside sweeper of the JWT cache has met its next scan
	// (60 s after Initialize created the cache), found the cache gone and
	// exited, so that the next sweeper is born inside a bubble.
	if alive, readable := jwtSweeperAlive(); alive || !readable {
		deadline := started.Add(100 * time.Second)
		for time.Now().Before(deadline) {
			time.Sleep(500 * time.Millisecond)
			if time.Since(started) < 58*time.Second {
				continue
			}
			alive, readable = jwtSweeperAlive()
			if !alive && (readable || time.Since(started) > 65*time.Second) {
				break
			}
		}
		if alive, _ := jwtSweeperAlive(); alive {
			f.sweeperOutside = true
		}
	}

	// A plainly valid token must be accepted both ways, a revoked one rejected.
	good := Tok{Key: "rsa-pub", Alg: "RS256", Kid: "own", Iss: "match", Aud: "str", Exp: "future", Nbf: "none", Jti: "a", Sub: "user"}
	fx = f
	out := oracle(Case{Toks: []Tok{good}, Steps: []Step{{Op: "present", Via: "direct"}, {Op: "present", Via: "router"},
		{Op: "purge", What: "jwt"}, {Op: "present", Via: "router"}, {Op: "revoke", Via: "direct"}, {Op: "present", Via: "direct"}}})
	if out.Fail != nil || out.Skip != "" || out.Inconclusive != "" {
		t.Fatalf("harness: self-test history (valid RS256 token accepted, then revoked and rejected) did not hold: %+v %s %s", out.Fail, out.Skip, out.Inconclusive)
	}
	return f
}

// mint builds the JWT string of tk at the instant now (the start of the case,
// a whole second). tag makes jti / sub unique per evaluation.
func (f *fixture) mint(tk Tok, tag string, now time.Time) (string, error) {
	claims := map[string]any{"iat": now.Add(-10 * time.Second).Unix(), "scope": "ego:read"}
	switch tk.Sub {
	case "user":
		claims["sub"] = "c22user"
	case "empty":
	}
	switch tk.Iss {
	case "match":
		claims["iss"] = issuer
	case "slash":
		claims["iss"] = issuer + "/"
	case "other":
		claims["iss"] = "http://127.0.0.1:1/other-issuer"
	case "upper":
		claims["iss"] = strings.ToUpper(issuer)
	case "missing":
	}
	switch tk.Aud {
	case "str":
		claims["aud"] = audience
	case "list-has":
		claims["aud"] = []string{"other-service", audience}
	case "list-first":
		claims["aud"] = []string{audience, "other-service"}
	case "list-only":
		claims["aud"] = []string{audience}
	case "str-other":
		claims["aud"] = "other-service"
	case "list-not":
		claims["aud"] = []string{"other-service", "hr-system"}
	case "empty-list":
		claims["aud"] = []string{}
	case "str-prefix":
		claims["aud"] = audience + "-v2"
	case "str-upper":
		claims["aud"] = strings.ToUpper(audience)
	case "missing":
	}
	if off, ok := expOff[tk.Exp]; ok {
		claims["exp"] = now.Add(off).Unix()
	}
	if off, ok := nbfOff[tk.Nbf]; ok {
		claims["nbf"] = now.Add(off).Unix()
	}
	if tk.Jti != "none" {
		claims["jti"] = tag + "-" + tk.Jti
	}
	claims["nonce"] = tag // distinct token strings per evaluation

	var priv any
	var pubForHMAC any
	switch tk.Key {
	case "rsa-pub":
		priv, pubForHMAC = f.rsaPub, &f.rsaPub.PublicKey
	case "rsa-other":
		priv, pubForHMAC = f.rsaOther, &f.rsaPub.PublicKey
	case "ec-pub":
		priv, pubForHMAC = f.ecPub, &f.ecPub.PublicKey
	case "ec-other":
		priv, pubForHMAC = f.ecOther, &f.ecPub.PublicKey
	}
	hdrAlg, sigAlg := tk.Alg, tk.Alg
	switch tk.Alg {
	case "none", "none-sig":
		hdrAlg, sigAlg = "none", "none"
	case "HS256-pem", "HS256-der", "HS256-n":
		hdrAlg, sigAlg = "HS256", "HS256"
	case "hdrES256-sigRS256":
		hdrAlg, sigAlg = "ES256", "RS256"
	case "hdrRS256-sigES256":
		hdrAlg, sigAlg = "RS256", "ES256"
	}
	header := map[string]any{"typ": "JWT", "alg": hdrAlg}
	own := "rsa-1"
	if strings.HasPrefix(tk.Key, "ec") {
		own = "ec-1"
	}
	switch tk.Kid {
	case "own":
		header["kid"] = own
	case "rsa":
		header["kid"] = "rsa-1"
	case "ec":
		header["kid"] = "ec-1"
	case "unknown":
		header["kid"] = "no-such-key"
	case "empty":
		header["kid"] = ""
	case "missing":
	}
	seg := func(v any) string {
		b, _ := json.Marshal(v)
		return b64(b)
	}
	input := seg(header) + "." + seg(claims)

	var key any = priv
	switch sigAlg {
	case "none":
		key = jwt.UnsafeAllowNoneSignatureType
	case "HS256":
		der, err := x509.MarshalPKIXPublicKey(pubForHMAC)
		if err != nil {
			return "", err
		}
		switch tk.Alg {
		case "HS256-pem":
			key = pem.EncodeToMemory(&pem.Block{Type: "PUBLIC KEY", Bytes: der})
		case "HS256-der":
			key = der
		default:
			if rp, ok := pubForHMAC.(*rsa.PublicKey); ok {
				key = rp.N.Bytes()
			} else {
				key = pubForHMAC.(*ecdsa.PublicKey).X.Bytes()
			}
		}
	}
	m := jwt.GetSigningMethod(sigAlg)
	if m == nil {
		return "", fmt.Errorf("no signing method %q", sigAlg)
	}
	sig, err := m.Sign(input, key)
	if err != nil {
		return "", fmt.Errorf("sign %s with %s: %w", sigAlg, tk.Key, err)
	}
	if tk.Alg == "none-sig" {
		sig = []byte("not-a-signature")
	}
	switch tk.Corrupt {
	case "sig-flip":
		if len(sig) > 0 {
			sig[len(sig)/2] ^= 0x10
		}
	case "sig-trunc":
		if len(sig) > 1 {
			sig = sig[:len(sig)-1]
		}
	case "payload-swap":
		claims["sub"] = "intruder"
		claims["scope"] = "ego:admin"
		input = seg(header) + "." + seg(claims)
	}
	return input + "." + b64(sig), nil
}

// present shows the token and classifies the answer.
func (f *fixture) present(tok, via string) string {
	if via == "direct" {
		_, _, err := oauth.ValidateJWT(0, tok)
		if err == nil {
			return "accepted"
		}
		return "rejected"
	}
	r := f.srv.Do(srvfix.Request{Method: "GET", Path: "/c22/probe", Header: srvfix.Bearer(tok)})
	switch {
	case r.Panic != nil:
		return fmt.Sprintf("handler panic: %v", r.Panic)
	case r.Status == http.StatusOK:
		return "accepted"
	case r.Status == http.StatusForbidden || r.Status == http.StatusUnauthorized:
		return "rejected"
	default:
		return fmt.Sprintf("status %d: %s", r.Status, clip(string(r.Body), 200))
	}
}

func clip(s string, n int) string {
	if len(s) > n {
		return s[:n] + "..."
	}
	return s
}

func (f *fixture) admin(method, path, body string) *srvfix.Response {
	h := map[string]string{"Authorization": srvfix.Basic("admin", "secret0")}
	if body != "" {
		h["Content-Type"] = "application/json"
	}
	return f.srv.Do(srvfix.Request{Method: method, Path: path, Header: h, Body: body})
}

// ---------------------------------------------------------------- the model

// sigClass: "ok" = verifies with a published key by an allowed algorithm;
// "bad:<why>" = cannot; "maybe" = the statement does not decide.
func sigClass(tk Tok) string {
	switch {
	case tk.Corrupt != "":
		return "bad:corrupt=" + tk.Corrupt
	case tk.Alg == "none" || tk.Alg == "none-sig":
		return "bad:alg=none"
	case strings.HasPrefix(tk.Alg, "HS256"):
		return "bad:alg=HS256 keyed with a published public key"
	case strings.HasPrefix(tk.Alg, "hdr"):
		return "bad:header alg does not match the signature (" + tk.Alg + ")"
	case strings.HasSuffix(tk.Key, "-other"):
		return "bad:signed by an unpublished key (alg " + tk.Alg + ")"
	case tk.Alg == "PS256":
		return "maybe"
	}
	return "ok"
}

// staticReason returns the first reason that does not depend on time or on
// the revocation list for which the statement requires rejection ("" if none).
func staticReason(tk Tok) string {
	if s := sigClass(tk); strings.HasPrefix(s, "bad:") {
		return strings.TrimPrefix(s, "bad:")
	}
	if tk.Iss != "match" {
		return "iss=" + tk.Iss
	}
	if !in(tk.Aud, []string{"str", "list-has", "list-first", "list-only"}) {
		return "aud=" + tk.Aud
	}
	if tk.Exp == "missing" {
		return "exp=missing"
	}
	return ""
}

// timeReason judges exp and nbf at t (ns since the start of the case):
// reason != "" means must reject; undecided means t is exactly exp or nbf.
func timeReason(tk Tok, t int64) (reason string, undecided bool) {
	if off, ok := expOff[tk.Exp]; ok {
		switch {
		case t > int64(off):
			return "expired", false
		case t == int64(off):
			undecided = true
		}
	}
	if off, ok := nbfOff[tk.Nbf]; ok {
		switch {
		case t < int64(off):
			return "not yet valid (nbf)", false
		case t == int64(off):
			undecided = true
		}
	}
	return "", undecided
}

// reasonClass shortens a reason to its dimension for the label histogram.
func reasonClass(reason string) string {
	switch {
	case strings.HasPrefix(reason, "header alg"):
		return "alg (header/signature mismatch)"
	case strings.HasPrefix(reason, "signed by an unpublished key"):
		return "unpublished key"
	}
	return strings.SplitN(reason, "=", 2)[0]
}

// clean: apart from time and revocation the token must be accepted.
func clean(tk Tok) bool {
	if staticReason(tk) != "" || sigClass(tk) != "ok" || tk.Sub != "user" {
		return false
	}
	own := "rsa"
	if strings.HasPrefix(tk.Key, "ec") {
		own = "ec"
	}
	return tk.Kid == "own" || tk.Kid == own
}

func validCase(c Case) string {
	if len(c.Toks) < 1 || len(c.Toks) > maxToks || len(c.Steps) < 1 || len(c.Steps) > 4*maxSteps {
		return "sizes outside the stated domain"
	}
	for _, tk := range c.Toks {
		if !in(tk.Key, keysAll) || !in(tk.Kid, kidsAll) || !in(tk.Corrupt, corrAll) || !in(tk.Iss, issAll) || !in(tk.Aud, audAll) ||
			!in(tk.Exp, expAll) || !in(tk.Nbf, nbfAll) || !in(tk.Jti, jtiAll) || !in(tk.Sub, subAll) {
			return "token class outside the stated domain"
		}
		switch {
		case in(tk.Alg, algsFree):
		case in(tk.Alg, algsRSA) && strings.HasPrefix(tk.Key, "rsa"):
		case in(tk.Alg, algsEC) && strings.HasPrefix(tk.Key, "ec"):
		default:
			return "algorithm cannot be produced with that key"
		}
	}
	for _, s := range c.Steps {
		switch s.Op {
		case "present":
			if s.Via != "direct" && s.Via != "router" {
				return "bad via"
			}
		case "revoke", "unrevoke", "flush":
			if s.Via != "rest" && s.Via != "direct" {
				return "bad via"
			}
		case "purge":
			if !in(s.What, purgeAll) {
				return "bad purge class"
			}
		case "sleep":
			if s.Adv == nil || !in(s.Adv.Kind, []string{"abs", "exp", "nbf", "ttl"}) || s.Adv.Ns < 0 || s.Adv.Ns > int64(100*time.Hour) ||
				s.Adv.Delta < -int64(time.Hour) || s.Adv.Delta > int64(time.Hour) {
				return "bad sleep"
			}
		default:
			return "unknown op"
		}
		if s.Tok < 0 {
			return "negative token index"
		}
	}
	return ""
}

// ---------------------------------------------------------------- oracle

var bubbleBase = time.Date(2100, 1, 1, 0, 0, 0, 0, time.UTC)

const watchdogS = 900

func oracle(c Case) vkit.Outcome {
	if why := validCase(c); why != "" {
		return vkit.Outcome{Skip: why}
	}
	f := fx
	f.seq++
	// outside the bubble: an empty list (the caches were purged by the
	// previous case's epilogue)
	if _, err := tokens.Flush(); err != nil {
		return vkit.Outcome{Inconclusive: "cannot flush the revocation store"}
	}
	wd := time.AfterFunc(watchdogS*time.Second, func() {
		fmt.Printf("HARNESS-ERROR property=C22 a synctest bubble did not end within %ds (a goroutine started inside it never exits)\n", watchdogS)
		os.Exit(2)
	})
	defer wd.Stop()

	epoch := bubbleBase.Add(time.Duration(f.seq) * 3 * 24 * time.Hour)
	var out vkit.Outcome
	func() {
		defer func() {
			if p := recover(); p != nil {
				// synctest reports a bubble it cannot finish by panicking out of
				// Test: the harness's problem, never a verdict
				fmt.Printf("HARNESS-ERROR property=C22 synctest: %v\n", p)
				os.Exit(2)
			}
		}()
		synctest.Test(f.t, func(*testing.T) {
			defer func() {
				if p := recover(); p != nil {
					out = vkit.Outcome{Fail: &vkit.Failure{Sig: "panic inside the bubble", Observed: fmt.Sprint(p), Expected: "no panic"}}
				}
				// epilogue (DESIGN 1.4c): leave nothing behind
				caches.Purge(caches.OAuthJWTCache)
				caches.Purge(caches.BlacklistCache)
				caches.Purge(caches.AuthCache)
				caches.Purge(caches.TokenCache)
				time.Sleep(time.Duration(scanNs) + time.Second)
				synctest.Wait()
			}()
			time.Sleep(time.Until(epoch))
			out = f.execute(c)
		})
	}()
	return out
}

// execute runs inside the bubble.
func (f *fixture) execute(c Case) vkit.Outcome {
	start := time.Now()
	now := func() int64 { return int64(time.Since(start)) }
	tag := fmt.Sprintf("c22-%d", f.seq)

	// the state right after start-up: the JWT result cache exists with the
	// configured lifetime (oauth.Initialize: caches.SetExpiration)
	if err := caches.SetExpiration(caches.OAuthJWTCache, fmt.Sprintf("%.0fs", f.ttl.Seconds())); err != nil {
		return vkit.Outcome{Inconclusive: "cannot set the JWT cache lifetime"}
	}

	strs := make([]string, len(c.Toks))
	for i, tk := range c.Toks {
		s, err := f.mint(tk, tag, start)
		if err != nil {
			return vkit.Outcome{Skip: "cannot mint: " + err.Error()}
		}
		strs[i] = s
	}
	jtiOf := func(i int) string {
		if c.Toks[i].Jti == "none" {
			return ""
		}
		return tag + "-" + c.Toks[i].Jti
	}

	type tstate struct {
		acceptedBeforeExp bool  // accepted at some t < exp
		rejectedBeforeNbf bool  // presented at some t < nbf
		cached            bool  // accepted and no purge of the JWT cache since
		lastAccept        int64 // instant of the last acceptance (-1 none)
	}
	st := make([]tstate, len(c.Toks))
	for i := range st {
		st[i].lastAccept = -1
	}
	revoked := map[string]bool{}
	unrevoked := map[string]bool{}
	labels := map[string]bool{}
	var trace []string
	nonTrivial := false
	var out vkit.Outcome
	var firstFail *vkit.Failure

	note := func(format string, a ...any) {
		trace = append(trace, fmt.Sprintf("t=%v ", time.Duration(now()))+fmt.Sprintf(format, a...))
		if len(trace) > 60 {
			trace = append([]string{"..."}, trace[len(trace)-45:]...)
		}
	}
	finish := func() vkit.Outcome {
		out.NonTrivial = nonTrivial
		out.Labels = labelList(labels, nonTrivial)
		out.Fail = firstFail
		return out
	}
	syncCheck := func() string {
		l, err := tokens.List()
		if err != nil {
			return "tokens.List failed"
		}
		got := map[string]bool{}
		for _, it := range l {
			if it.Active {
				got[it.ID] = true
			}
		}
		if len(got) != len(revoked) {
			return "revocation store disagrees with the operations"
		}
		for id := range revoked {
			if !got[id] {
				return "revocation store disagrees with the operations"
			}
		}
		return ""
	}
	dropCached := func() {
		for i := range st {
			st[i].cached = false
		}
	}

	for si, stp := range c.Steps {
		ti := stp.Tok % len(c.Toks)
		tk := c.Toks[ti]
		switch stp.Op {
		case "revoke":
			id := jtiOf(ti)
			if id == "" {
				labels["revoke of a token without jti (no-op)"] = true
				note("#%d revoke tok%d: no jti", si, ti)
				continue
			}
			if revoked[id] {
				labels["second revoke of the same jti"] = true
			}
			if stp.Via == "rest" {
				b, _ := json.Marshal([]string{id})
				r := f.admin("PUT", "/admin/tokens/", string(b))
				note("#%d PUT /admin/tokens [%s] -> %d", si, jtiName(ti, tk), r.Status)
			} else {
				err := tokens.Blacklist(id)
				note("#%d tokens.Blacklist(%s) -> %v", si, jtiName(ti, tk), err)
			}
			revoked[id] = true
		case "unrevoke":
			id := jtiOf(ti)
			if id == "" {
				continue
			}
			if stp.Via == "rest" {
				r := f.admin("DELETE", "/admin/tokens/"+id, "")
				note("#%d DELETE /admin/tokens/{%s} -> %d", si, jtiName(ti, tk), r.Status)
			} else {
				err := tokens.Delete(id)
				note("#%d tokens.Delete(%s) -> %v", si, jtiName(ti, tk), err)
			}
			if revoked[id] {
				unrevoked[id] = true
				labels["un-revoke of a revoked jti"] = true
			}
			delete(revoked, id)
		case "flush":
			if stp.Via == "rest" {
				r := f.admin("DELETE", "/admin/tokens/", "")
				note("#%d DELETE /admin/tokens -> %d", si, r.Status)
			} else {
				_, err := tokens.Flush()
				note("#%d tokens.Flush -> %v", si, err)
			}
			for id := range revoked {
				unrevoked[id] = true
				labels["flush with revoked jti on the list"] = true
			}
			revoked = map[string]bool{}
		case "purge":
			switch stp.What {
			case "jwt":
				caches.Purge(caches.OAuthJWTCache)
				dropCached()
			case "blacklist":
				caches.Purge(caches.BlacklistCache)
			case "blacklist-rest":
				r := f.admin("DELETE", "/admin/caches?class=blacklist", "")
				if r.Status != 200 {
					out.Inconclusive = "cache purge endpoint failed"
					return finish()
				}
			case "all-rest":
				r := f.admin("DELETE", "/admin/caches", "")
				if r.Status != 200 {
					out.Inconclusive = "cache purge endpoint failed"
					return finish()
				}
				dropCached()
			}
			note("#%d purge %s", si, stp.What)
			continue
		case "sleep":
			d := stp.Adv.Ns
			switch stp.Adv.Kind {
			case "exp":
				if off, ok := expOff[tk.Exp]; ok && int64(off)+stp.Adv.Delta >= now() {
					d = int64(off) + stp.Adv.Delta - now()
				}
			case "nbf":
				if off, ok := nbfOff[tk.Nbf]; ok && int64(off)+stp.Adv.Delta >= now() {
					d = int64(off) + stp.Adv.Delta - now()
				}
			case "ttl":
				d = int64(f.ttl) + stp.Adv.Delta
			}
			if d < 0 {
				d = 0
			}
			before := now()
			held := caches.Size(caches.OAuthJWTCache)
			if d > 0 {
				time.Sleep(time.Duration(d))
				synctest.Wait() // let sweepers that woke at this instant finish
			}
			if caches.Size(caches.OAuthJWTCache) < held {
				labels["cached JWT results swept on virtual time during a sleep"] = true
			}
			note("#%d sleep %v (%s)", si, time.Duration(d), stp.Adv.Kind)
			for i, o := range c.Toks {
				if off, ok := expOff[o.Exp]; ok && before <= int64(off) && now() > int64(off) {
					labels["a token's exp is crossed by a sleep"] = true
					if st[i].cached {
						labels["a token's exp is crossed while its result is cached"] = true
					}
				}
				if off, ok := nbfOff[o.Nbf]; ok && off > 0 && before < int64(off) && now() >= int64(off) {
					labels["a token's nbf is crossed by a sleep"] = true
				}
			}
			if d >= int64(f.ttl) {
				labels["sleep >= one cache TTL"] = true
			}
			continue
		case "present":
			t := now()
			id := jtiOf(ti)
			isRevoked := id != "" && revoked[id]
			reason := staticReason(tk)
			tReason, undecidedInstant := timeReason(tk, t)
			if reason == "" {
				reason = tReason
			}
			_, hit := caches.Find(caches.OAuthJWTCache, strs[ti])
			cacheState := "miss"
			if hit {
				cacheState = "hit"
			}
			obs := f.present(strs[ti], stp.Via)
			note("#%d present tok%d via %s (cache %s, revoked %v) -> %s", si, ti, stp.Via, cacheState, isRevoked, obs)

			isClean := clean(tk)
			s := &st[ti]
			// classification
			switch {
			case reason == "expired" && isClean && !isRevoked:
				when := "never accepted before"
				if s.acceptedBeforeExp {
					when = "accepted before exp"
					nonTrivial = true
				}
				labels["present after exp: "+when+", JWT cache "+cacheState] = true
			case reason == "not yet valid (nbf)":
				labels["present before nbf (nbf="+tk.Nbf+")"] = true
				if isClean {
					s.rejectedBeforeNbf = true
				}
			case reason != "":
				labels["present: must-reject "+reasonClass(reason)] = true
			case undecidedInstant:
				labels["present exactly at exp / nbf (undecided) -> "+obs] = true
			case isRevoked:
				labels["present: revoked, JWT cache "+cacheState+", via "+stp.Via] = true
				if !hit && isClean {
					nonTrivial = true
				}
			case isClean:
				labels["present: valid "+tk.Alg+" aud="+tk.Aud+" exp="+tk.Exp] = true
				if id != "" && unrevoked[id] {
					labels["present: valid again after un-revoke/flush, JWT cache "+cacheState] = true
				}
				if s.rejectedBeforeNbf {
					labels["nbf crossing: presented before nbf, valid after, JWT cache "+cacheState] = true
					nonTrivial = true
				}
				if s.lastAccept >= 0 && s.cached && !hit {
					labels["TTL lapse: accepted earlier, cached result aged out without a purge"] = true
				}
				if s.lastAccept >= 0 && hit && t-s.lastAccept >= int64(f.ttl) {
					labels["cached result still served one TTL or more after the first acceptance (kept alive by hits)"] = true
				}
			default:
				labels["present: undecided by the statement (kid="+tk.Kid+" alg="+tk.Alg+" sub="+tk.Sub+") -> "+obs] = true
			}
			if obs == "accepted" {
				if off, ok := expOff[tk.Exp]; ok && t < int64(off) {
					s.acceptedBeforeExp = true
				}
				s.cached = true
				s.lastAccept = t
			} else if hit {
				s.cached = false // ego evicts a cached result it no longer honours
			}

			fail := func(sig, exp string) {
				fl := &vkit.Failure{Sig: sig,
					Observed: fmt.Sprintf("step #%d at t=%v (jwks/jwt cache ttl %v): %s; token %s; history: %s", si, time.Duration(t), f.ttl, obs, describe(tk), strings.Join(trace, "; ")),
					Expected: exp}
				// The history continues behind a failure: the first failure whose
				// signature is not a recorded finding is the one reported, else
				// the first one.
				if firstFail == nil || (knownSig[firstFail.Sig] && !knownSig[sig]) {
					firstFail = fl
				}
			}
			switch {
			case obs != "accepted" && obs != "rejected":
				fail("unexpected answer from the probe route ("+strings.SplitN(obs, ":", 2)[0]+")", "200 or 403")
			case obs == "accepted" && (reason == "expired" || reason == "not yet valid (nbf)"):
				fail("accepted: "+reason+", JWT result cache "+cacheState, "rejected ("+reason+")")
			case obs == "accepted" && reason != "":
				fail("accepted: "+reason, "rejected ("+reason+")")
			case undecidedInstant:
				// either
			case obs == "accepted" && isRevoked:
				fail("accepted although jti revoked: JWT result cache "+cacheState, "rejected: the jti is on the revocation list at that moment")
			case obs == "rejected" && reason == "" && !isRevoked && isClean:
				state := "never revoked"
				if id != "" && unrevoked[id] {
					state = "after un-revoke/flush"
				}
				// never revoked: the cause lies in the token's shape or the
				// clock; after an un-revoke or flush: in the revocation state
				shape := fmt.Sprintf(" alg=%s aud=%s nbf=%s", tk.Alg, tk.Aud, tk.Nbf)
				if state != "never revoked" {
					shape = ""
				}
				if s.rejectedBeforeNbf {
					state += ", nbf passed"
				}
				fail(fmt.Sprintf("rejected a valid token:%s (%s, JWT cache %s)", shape, state, cacheState),
					"accepted: signed by a published key, iss/aud match, not expired, nbf passed, jti not revoked")
			}
			continue
		}
		if why := syncCheck(); why != "" {
			out.Inconclusive = why
			return finish()
		}
	}
	if f.sweeperOutside {
		labels["the JWT cache sweeper runs outside the bubble (no ageing of cached results)"] = true
	}
	return finish()
}

// knownSig holds the signatures of the recorded findings of this property
// (VERIF_KNOWN or /verif/known_findings.json). It only decides which of
// several failures of one history is the one handed to vkit.
var knownSig = map[string]bool{}

func loadKnownSigs() {
	p := os.Getenv("VERIF_KNOWN")
	if p == "" {
		p = filepath.Join(vkit.Root(), "known_findings.json")
	}
	b, err := os.ReadFile(p)
	if err != nil {
		return
	}
	var kf struct {
		Findings []struct {
			Property string `json:"property"`
			Sig      string `json:"sig"`
		} `json:"findings"`
	}
	if json.Unmarshal(b, &kf) != nil {
		return
	}
	for _, k := range kf.Findings {
		if k.Property == "C22" {
			knownSig[k.Sig] = true
		}
	}
}

func labelList(labels map[string]bool, nonTrivial bool) []string {
	var l []string
	for k := range labels {
		l = append(l, k)
	}
	if nonTrivial {
		l = append(l, "non-trivial: revoked+cold cache, or re-presented after exp, or re-presented after nbf")
	}
	sort.Strings(l)
	return l
}

// jtiName names a token's jti in the trace.
func jtiName(i int, tk Tok) string { return fmt.Sprintf("jti %s of tok%d", tk.Jti, i) }

func describe(tk Tok) string {
	b, _ := json.Marshal(tk)
	return string(b)
}

// ---------------------------------------------------------------- fixed cases

func fixedCases() []Case {
	good := Tok{Key: "rsa-pub", Alg: "RS256", Kid: "own", Iss: "match", Aud: "str", Exp: "future", Nbf: "none", Jti: "a", Sub: "user"}
	ec := good
	ec.Key, ec.Alg = "ec-pub", "ES256"
	with := func(base Tok, f func(*Tok)) Tok { f(&base); return base }
	p := func(i int, via string) Step { return Step{Op: "present", Tok: i, Via: via} }
	var cs []Case
	// revocation histories
	cs = append(cs,
		Case{Toks: []Tok{good}, Steps: []Step{p(0, "direct"), {Op: "revoke", Tok: 0, Via: "rest"}, p(0, "direct"), p(0, "router")}},
		Case{Toks: []Tok{ec}, Steps: []Step{p(0, "router"), {Op: "revoke", Tok: 0, Via: "direct"}, p(0, "router"), {Op: "unrevoke", Tok: 0, Via: "rest"}, p(0, "router"), p(0, "direct")}},
		Case{Toks: []Tok{good, ec}, Steps: []Step{p(0, "direct"), p(1, "direct"), {Op: "revoke", Tok: 0, Via: "direct"}, p(1, "direct"), p(0, "direct"), {Op: "flush", Via: "rest"}, p(0, "direct"), p(1, "router")}},
	)
	// every single-dimension flaw, presented both ways on a cold cache
	for _, a := range []string{"none", "none-sig", "HS256-pem", "HS256-der", "HS256-n", "PS256", "hdrES256-sigRS256", "RS384", "RS512"} {
		cs = append(cs, Case{Toks: []Tok{with(good, func(t *Tok) { t.Alg = a })}, Steps: []Step{p(0, "direct"), p(0, "router")}})
	}
	cs = append(cs, Case{Toks: []Tok{with(ec, func(t *Tok) { t.Alg = "hdrRS256-sigES256" })}, Steps: []Step{p(0, "direct"), p(0, "router")}})
	for _, k := range []string{"rsa-other", "ec-other"} {
		base := good
		if k == "ec-other" {
			base = ec
		}
		cs = append(cs, Case{Toks: []Tok{with(base, func(t *Tok) { t.Key = k })}, Steps: []Step{p(0, "direct"), p(0, "router")}})
	}
	for _, k := range kidsAll {
		cs = append(cs, Case{Toks: []Tok{with(good, func(t *Tok) { t.Kid = k }), with(ec, func(t *Tok) { t.Kid = k })}, Steps: []Step{p(0, "direct"), p(1, "direct"), p(0, "router"), p(1, "router")}})
	}
	for _, x := range corrAll[1:] {
		cs = append(cs, Case{Toks: []Tok{with(good, func(t *Tok) { t.Corrupt = x }), with(ec, func(t *Tok) { t.Corrupt = x })}, Steps: []Step{p(0, "direct"), p(1, "router")}})
	}
	for _, x := range issAll {
		cs = append(cs, Case{Toks: []Tok{with(good, func(t *Tok) { t.Iss = x })}, Steps: []Step{p(0, "direct"), p(0, "router")}})
	}
	for _, x := range audAll {
		cs = append(cs, Case{Toks: []Tok{with(good, func(t *Tok) { t.Aud = x })}, Steps: []Step{p(0, "direct"), p(0, "router")}})
	}
	for _, x := range expAll {
		cs = append(cs, Case{Toks: []Tok{with(good, func(t *Tok) { t.Exp = x })}, Steps: []Step{p(0, "direct"), p(0, "router")}})
	}
	for _, x := range nbfAll {
		cs = append(cs, Case{Toks: []Tok{with(ec, func(t *Tok) { t.Nbf = x })}, Steps: []Step{p(0, "direct"), p(0, "router")}})
	}
	// time: the same token before and after exp, with the cached result still
	// there (hit), aged out (miss after TTL + sweep) or purged; nbf crossing
	sl := func(kind string, delta time.Duration) Step {
		return Step{Op: "sleep", Tok: 0, Adv: &Adv{Kind: kind, Delta: int64(delta)}}
	}
	for _, life := range []string{"20s", "90s", "soon", "30m", "future", "2h"} {
		tk := with(good, func(t *Tok) { t.Exp = life })
		cs = append(cs,
			Case{Toks: []Tok{tk}, Steps: []Step{p(0, "direct"), sl("exp", -time.Second), p(0, "direct"), sl("exp", -1), p(0, "router"), sl("exp", 0), p(0, "direct"),
				sl("exp", 1), p(0, "direct"), p(0, "router"), sl("exp", time.Second), p(0, "direct"), sl("exp", 61*time.Second), p(0, "router")}},
			Case{Toks: []Tok{with(tk, func(t *Tok) { t.Key, t.Alg = "ec-pub", "ES256" })}, Steps: []Step{p(0, "router"), sl("exp", time.Second), p(0, "router"), {Op: "purge", What: "jwt"}, p(0, "direct")}},
		)
	}
	for _, n := range []string{"30s", "soon", "10m", "future"} {
		tk := with(ec, func(t *Tok) { t.Nbf = n; t.Exp = "2h" })
		cs = append(cs, Case{Toks: []Tok{tk}, Steps: []Step{p(0, "direct"), sl("nbf", -time.Second), p(0, "router"), sl("nbf", -1), p(0, "direct"), sl("nbf", 0), p(0, "direct"),
			sl("nbf", 1), p(0, "direct"), p(0, "router"), sl("nbf", time.Second), p(0, "direct")}})
	}
	far := with(good, func(t *Tok) { t.Exp = "far" })
	cs = append(cs,
		Case{Toks: []Tok{far}, Steps: []Step{p(0, "direct"), sl("ttl", -time.Second), p(0, "direct"), sl("ttl", time.Second), p(0, "direct"), sl("ttl", 61*time.Second), p(0, "router"),
			{Op: "revoke", Tok: 0, Via: "direct"}, sl("ttl", 61*time.Second), p(0, "direct"), p(0, "router")}},
		Case{Toks: []Tok{far, with(ec, func(t *Tok) { t.Kid = "unknown"; t.Exp = "far" })}, Steps: []Step{p(0, "direct"), p(1, "direct"), {Op: "sleep", Adv: &Adv{Kind: "abs", Ns: int64(29 * time.Second)}}, p(1, "direct"),
			{Op: "sleep", Adv: &Adv{Kind: "abs", Ns: int64(2 * time.Second)}}, p(1, "router"), sl("ttl", time.Second), p(0, "router"), p(1, "direct")}},
	)
	return cs
}

// ---------------------------------------------------------------- test

func TestC22(t *testing.T) {
	loadKnownSigs()
	fx = setup(t)
	vkit.Run(t, vkit.Spec[Case]{
		ID:    "C22",
		Level: "exploration",
		Rule: "1..3 JWTs drawn as class vectors {signing key (published RSA/EC, unpublished RSA/EC) x alg (RS256/384/512, ES256, PS256, none, HS256 keyed with the public key in 3 encodings, header/signature alg mismatch) x kid (own, other published, unknown, missing, empty) x corruption (signature bit, truncation, payload swap) x iss (5) x aud (10: string, list, missing, ...) x exp (lifetime 20s, 90s, 5m, 30m, 1h, 2h, 10y; past; missing) x nbf (none, past, +30s, +60s, +10m, +1h) x jti (none, a, b) x sub}, " +
			"mostly valid with 0..2 flaws, and a history of 1..12 steps {present via oauth.ValidateJWT or via router.ServeHTTP on an .Authentication(true) route; revoke / un-revoke the jti and flush the list via the admin REST endpoints or the tokens package; purge the JWT result cache, the blacklist cache, or all caches; " +
			"advance virtual time by fixed steps, to a token's exp or nbf -1s/-1ns/0/+1ns/+1s/+61s, by one JWKS/JWT cache TTL -1s/+1s/+61s, or arbitrarily up to 5h}, executed in a testing/synctest bubble against an in-memory OIDC provider, with ego.server.oauth.jwks.cache.ttl = 1h on even shards and 90s on odd shards. " +
			"Oracle: three-valued model of the statement (must reject / must accept / undecided) at every presentation. " +
			"Non-trivial: (a) an otherwise valid token whose jti is on the revocation list is presented while the JWT result cache holds no entry for it, or (b) a token that was accepted before its exp is presented again after it, or (c) a token that was presented before its nbf is presented again after it; distinct by case.",
		Assumptions: []string{
			"provider, audience and JWKS cache TTL are fixed for the process (oauth.Initialize runs once); the TTL is 1h on even shards, 90s on odd shards; the JWKS is constant",
			"the validator's leeway is 0 (jwt.go passes no jwt.WithLeeway); exactly at exp or nbf either answer is accepted; exp/nbf are whole seconds",
			"a valid token (published key, RS256/384/512 or ES256, matching kid, iss, aud, t < exp, nbf passed, no revocation, non-empty sub) must be accepted (docs/SERVER.md); tokens without kid, with the other key's kid, PS256 or without sub are undecided",
			"nbf in the future is a must-reject (docs/internals/OAUTH.md, RFC 7519) although the statement does not list it",
			"every case starts from the state right after start-up: JWT result cache created with the configured lifetime (caches.SetExpiration, as oauth.Initialize does), JWKS cache stale",
			"the model's revocation list follows the operations and is compared with tokens.List() after every mutating step (disagreement = inconclusive)",
		},
		Gen:      genCase,
		Oracle:   oracle,
		Fixed:    fixedCases,
		Quick:    400,
		Thorough: 6000,
		Extra: func() map[string]any {
			return map[string]any{"jwks_cache_ttl": fx.ttl.String(), "jwks_fetches": fx.jwksHits, "jwt_sweeper_outside_bubble": fx.sweeperOutside}
		},
	})
}
