package c22

// C22 "JWT bearer tokens are verified and revocable".
//
// Statement (fixed): In OAuth resource-server mode, a JWT is accepted only if its
// signature verifies with a published key using an allowed algorithm, its
// issuer and audience match the configuration, it has not expired, and its
// token ID has not been revoked. Revocation takes effect for every later
// request whether or not the token was seen before.
//
// What is driven. A loopback OIDC provider (net/http/httptest on 127.0.0.1)
// serves /.well-known/openid-configuration and a JWKS with one RSA-2048 key
// (kid "rsa-1", listed first) and one EC P-256 key (kid "ec-1"). The real
// server start-up sequence (srvfix, SQLite user database, so that the
// revocation store of internal/language/tokens is live) is run with
// ego.server.oauth.provider pointing at the stub and ego.server.oauth.audience
// set, so commands/server.go calls oauth.Initialize (discovery + JWKS fetch)
// exactly as `ego server run` does. JWTs are minted in the harness with
// github.com/golang-jwt/jwt/v5 primitives and presented
//   - directly to oauth.ValidateJWT (what router.Authenticate calls), and
//   - through router.ServeHTTP to a probe route declared .Authentication(true)
//     (GET /services/admin/authenticate is no use for JWTs: its handler runs
//     cipher.Extract on the bearer string and answers 400 for every JWT).
// jti values are revoked through PUT /admin/tokens (the administrator's REST
// endpoint) or tokens.Blacklist (what authserver/revoke.go calls), un-revoked
// through DELETE /admin/tokens/{id} or tokens.Delete, the list is flushed
// through DELETE /admin/tokens or tokens.Flush, and caches are dropped through
// DELETE /admin/caches[?class=blacklist] or caches.Purge. Time is real: a
// loopback HTTP client does not work inside a synctest bubble. Time-dependent
// steps are therefore expressed as explicit cache purges, and every exp / nbf
// value is at least 60 s away from "now" so no verdict depends on the clock.
//
// Oracle (three-valued, per presentation):
//   must reject  <= the signature cannot be verified with a published key by
//                   an allowed algorithm (unpublished key, corrupted, alg none,
//                   HS256 keyed with a published public key, header alg that
//                   does not belong to the signature), or iss differs from the
//                   configured provider, or aud does not contain the configured
//                   audience (string, list, missing), or exp is past / missing,
//                   or nbf is in the future, or the jti is on the revocation
//                   list at that moment.           -> accepted = VIOLATION
//   must accept  <= RS256/384/512 by the published RSA key or ES256 by the
//                   published EC key, kid naming that key, unmodified, iss and
//                   aud matching, exp >= 5 min ahead, nbf absent or past, jti
//                   absent or not revoked, non-empty sub. -> rejected = VIOLATION
//                   (this is the documented behaviour of resource-server mode,
//                   docs/SERVER.md "Ego as an OAuth2 Resource Server"; it also
//                   keeps the check from being satisfied by a server, or a
//                   harness, that rejects everything)
//   either       otherwise: no kid / empty kid (ego picks the first published
//                   key), kid naming the other published key, PS256 (the
//                   statement does not say whether RSA-PSS is "allowed"),
//                   empty sub (no user identity).
// The statement says "only if"; nbf is not in it, but docs/internals/OAUTH.md
// ("jwt.go: extract and validate standard claims iss, aud, exp, nbf") and RFC
// 7519 make a not-yet-valid token a must-reject.
//
// Preconditions taken from real callers / documentation:
//   * The provider setting has no trailing slash and the audience setting is a
//     single non-empty string (docs/SERVER.md examples); both are fixed for
//     the process (oauth.Initialize runs once).
//   * The JWKS is constant (no key rotation); the JWKS key cache itself cannot
//     be purged from outside the package (resetJWKSCache is unexported), so
//     "purge the JWKS cache" is not generated; unknown-kid presentations do
//     drive the refresh path.
//   * jti values are unique per evaluated case, and every case starts from an
//     empty revocation list and empty JWT / blacklist caches, so no state
//     leaks between cases.
//   * The model of the revocation list follows the operations; it is compared
//     with tokens.List() after every mutating step, and a disagreement makes
//     the case inconclusive (the store is C21/C31 territory, not this check's).
//   * A second revoke of a revoked id answers 500 (UNIQUE constraint); the
//     model treats it as still revoked.

import (
	"crypto/ecdsa"
	"crypto/elliptic"
	"crypto/rand"
	"crypto/rsa"
	"crypto/x509"
	"encoding/base64"
	"encoding/json"
	"encoding/pem"
	"fmt"
	"math/big"
	"net/http"
	"net/http/httptest"
	"os"
	"path/filepath"
	"sort"
	"strings"
	"testing"
	"time"

	"github.com/golang-jwt/jwt/v5"
	"github.com/tucats/ego/internal/caches"
	"github.com/tucats/ego/internal/defs"
	"github.com/tucats/ego/internal/language/tokens"
	"github.com/tucats/ego/internal/router"
	"github.com/tucats/ego/internal/server/oauth"
	"github.com/tucats/ego/verif/srvfix"
	"github.com/tucats/ego/verif/vkit"
	"pgregory.net/rapid"
)

// ---------------------------------------------------------------- case data

// Tok describes one JWT by classes; the oracle resolves them against the
// running provider stub (URL, keys, current time).
type Tok struct {
	Key     string `json:"key"`               // rsa-pub | ec-pub | rsa-other | ec-other  (private key that signs)
	Alg     string `json:"alg"`               // see algs
	Kid     string `json:"kid"`               // own | rsa | ec | unknown | missing | empty
	Corrupt string `json:"corrupt,omitempty"` // "" | sig-flip | sig-trunc | payload-swap
	Iss     string `json:"iss"`               // match | slash | other | missing | upper
	Aud     string `json:"aud"`               // str | list-has | list-first | list-only | str-other | list-not | missing | empty-list | str-prefix | str-upper
	Exp     string `json:"exp"`               // future | far | soon | past | just-past | missing
	Nbf     string `json:"nbf"`               // none | past | future | soon
	Jti     string `json:"jti"`               // none | a | b
	Sub     string `json:"sub"`               // user | empty
}

// Step is one operation of the history.
type Step struct {
	Op   string `json:"op"`            // present | revoke | unrevoke | flush | purge
	Tok  int    `json:"tok,omitempty"` // index into Toks (mod len)
	Via  string `json:"via,omitempty"` // present: direct|router; revoke/unrevoke/flush: rest|direct
	What string `json:"what,omitempty"`
	// purge: jwt | blacklist | blacklist-rest | all-rest
}

type Case struct {
	Toks  []Tok  `json:"toks"`
	Steps []Step `json:"steps"`
}

const (
	maxToks  = 3
	maxSteps = 10
	audience = "ego-api"
)

var (
	keysAll  = []string{"rsa-pub", "ec-pub", "rsa-other", "ec-other"}
	algsRSA  = []string{"RS256", "RS384", "RS512", "PS256", "hdrES256-sigRS256"}
	algsEC   = []string{"ES256", "hdrRS256-sigES256"}
	algsFree = []string{"none", "none-sig", "HS256-pem", "HS256-der", "HS256-n"}
	kidsAll  = []string{"own", "rsa", "ec", "unknown", "missing", "empty"}
	corrAll  = []string{"", "sig-flip", "sig-trunc", "payload-swap"}
	issAll   = []string{"match", "slash", "other", "missing", "upper"}
	audAll   = []string{"str", "list-has", "list-first", "list-only", "str-other", "list-not", "missing", "empty-list", "str-prefix", "str-upper"}
	expAll   = []string{"future", "far", "soon", "past", "just-past", "missing"}
	nbfAll   = []string{"none", "past", "future", "soon"}
	jtiAll   = []string{"none", "a", "b"}
	subAll   = []string{"user", "empty"}
	purgeAll = []string{"jwt", "blacklist", "blacklist-rest", "all-rest"}
)

func in(s string, l []string) bool {
	for _, x := range l {
		if x == s {
			return true
		}
	}
	return false
}

// ---------------------------------------------------------------- generator

func genTok(t *rapid.T) Tok {
	tk := Tok{Kid: "own", Iss: "match", Exp: "future", Nbf: "none", Sub: "user"}
	if rapid.Bool().Draw(t, "ec") {
		tk.Key, tk.Alg = "ec-pub", "ES256"
	} else {
		tk.Key, tk.Alg = "rsa-pub", rapid.SampledFrom([]string{"RS256", "RS256", "RS256", "RS384", "RS512"}).Draw(t, "rsalg")
	}
	tk.Aud = rapid.SampledFrom([]string{"str", "str", "list-has", "list-first", "list-only"}).Draw(t, "audOK")
	tk.Nbf = rapid.SampledFrom([]string{"none", "none", "past"}).Draw(t, "nbfOK")
	tk.Exp = rapid.SampledFrom([]string{"future", "future", "far", "soon"}).Draw(t, "expOK")
	tk.Jti = rapid.SampledFrom([]string{"a", "a", "a", "b", "none"}).Draw(t, "jti")

	flaws := rapid.SampledFrom([]int{0, 0, 0, 0, 0, 1, 1, 1, 1, 2}).Draw(t, "flaws")
	for i := 0; i < flaws; i++ {
		switch rapid.IntRange(0, 8).Draw(t, "dim") {
		case 0: // signing key
			if strings.HasPrefix(tk.Key, "rsa") {
				tk.Key = "rsa-other"
			} else {
				tk.Key = "ec-other"
			}
		case 1: // algorithm
			var pool []string
			if strings.HasPrefix(tk.Key, "rsa") {
				pool = append(append([]string{}, algsFree...), "PS256", "hdrES256-sigRS256")
			} else {
				pool = append(append([]string{}, algsFree...), "hdrRS256-sigES256")
			}
			tk.Alg = rapid.SampledFrom(pool).Draw(t, "alg")
		case 2:
			tk.Kid = rapid.SampledFrom([]string{"rsa", "ec", "unknown", "missing", "empty"}).Draw(t, "kid")
		case 3:
			tk.Corrupt = rapid.SampledFrom(corrAll[1:]).Draw(t, "corrupt")
		case 4:
			tk.Iss = rapid.SampledFrom(issAll[1:]).Draw(t, "iss")
		case 5:
			tk.Aud = rapid.SampledFrom([]string{"str-other", "list-not", "list-not", "missing", "empty-list", "str-prefix", "str-upper"}).Draw(t, "aud")
		case 6:
			tk.Exp = rapid.SampledFrom([]string{"past", "just-past", "missing"}).Draw(t, "exp")
		case 7:
			tk.Nbf = rapid.SampledFrom([]string{"future", "soon"}).Draw(t, "nbf")
		case 8:
			tk.Sub = "empty"
		}
	}
	return tk
}

func genStep(t *rapid.T, ntok int) Step {
	tok := rapid.IntRange(0, ntok-1).Draw(t, "tok")
	switch k := rapid.IntRange(0, 19).Draw(t, "op"); {
	case k < 9:
		return Step{Op: "present", Tok: tok, Via: rapid.SampledFrom([]string{"direct", "direct", "router"}).Draw(t, "via")}
	case k < 13:
		return Step{Op: "revoke", Tok: tok, Via: rapid.SampledFrom([]string{"rest", "direct"}).Draw(t, "via")}
	case k < 15:
		return Step{Op: "unrevoke", Tok: tok, Via: rapid.SampledFrom([]string{"rest", "direct"}).Draw(t, "via")}
	case k < 16:
		return Step{Op: "flush", Via: rapid.SampledFrom([]string{"rest", "direct"}).Draw(t, "via")}
	default:
		return Step{Op: "purge", What: rapid.SampledFrom([]string{"jwt", "jwt", "jwt", "blacklist", "blacklist-rest", "all-rest"}).Draw(t, "what")}
	}
}

func genCase(t *rapid.T) Case {
	n := rapid.SampledFrom([]int{1, 1, 2, 2, 3}).Draw(t, "ntok")
	c := Case{}
	for i := 0; i < n; i++ {
		c.Toks = append(c.Toks, genTok(t))
	}
	if rapid.IntRange(0, 9).Draw(t, "template") < 4 {
		// the history the statement's second sentence is about: revoke, then a
		// presentation with or without an earlier sighting and with or without
		// a cache purge in between
		via := func(l string) string { return rapid.SampledFrom([]string{"direct", "router"}).Draw(t, l) }
		if rapid.Bool().Draw(t, "seenBefore") {
			c.Steps = append(c.Steps, Step{Op: "present", Tok: 0, Via: via("v0")})
		}
		c.Steps = append(c.Steps, Step{Op: "revoke", Tok: 0, Via: rapid.SampledFrom([]string{"rest", "direct"}).Draw(t, "rv")})
		if rapid.Bool().Draw(t, "purgeBetween") {
			c.Steps = append(c.Steps, Step{Op: "purge", What: rapid.SampledFrom(purgeAll).Draw(t, "pw")})
		}
		c.Steps = append(c.Steps, Step{Op: "present", Tok: 0, Via: via("v1")})
	}
	tail := rapid.IntRange(0, maxSteps-len(c.Steps)).Draw(t, "tail")
	if len(c.Steps) == 0 && tail == 0 {
		tail = 1
	}
	for i := 0; i < tail; i++ {
		c.Steps = append(c.Steps, genStep(t, n))
	}
	return c
}

// ---------------------------------------------------------------- fixture

type fixture struct {
	srv      *srvfix.Fixture
	idp      *httptest.Server
	issuer   string
	rsaPub   *rsa.PrivateKey
	rsaOther *rsa.PrivateKey
	ecPub    *ecdsa.PrivateKey
	ecOther  *ecdsa.PrivateKey
	jwksHits int
	seq      int
}

var fx *fixture

func b64(b []byte) string { return base64.RawURLEncoding.EncodeToString(b) }

func setup(t *testing.T) *fixture {
	f := &fixture{}
	var err error
	must := func(e error) {
		if e != nil {
			t.Fatalf("harness: %v", e)
		}
	}
	f.rsaPub, err = rsa.GenerateKey(rand.Reader, 2048)
	must(err)
	f.rsaOther, err = rsa.GenerateKey(rand.Reader, 2048)
	must(err)
	f.ecPub, err = ecdsa.GenerateKey(elliptic.P256(), rand.Reader)
	must(err)
	f.ecOther, err = ecdsa.GenerateKey(elliptic.P256(), rand.Reader)
	must(err)

	mux := http.NewServeMux()
	f.idp = httptest.NewServer(mux) // listens on 127.0.0.1
	f.issuer = f.idp.URL
	mux.HandleFunc("/.well-known/openid-configuration", func(w http.ResponseWriter, r *http.Request) {
		w.Header().Set("Content-Type", "application/json")
		_ = json.NewEncoder(w).Encode(map[string]any{
			"issuer":                 f.issuer,
			"authorization_endpoint": f.issuer + "/authorize",
			"token_endpoint":         f.issuer + "/token",
			"userinfo_endpoint":      f.issuer + "/userinfo",
			"jwks_uri":               f.issuer + "/jwks",
		})
	})
	ecBytes := func(v *big.Int) []byte { return v.FillBytes(make([]byte, 32)) }
	mux.HandleFunc("/jwks", func(w http.ResponseWriter, r *http.Request) {
		f.jwksHits++
		w.Header().Set("Content-Type", "application/json")
		_ = json.NewEncoder(w).Encode(map[string]any{"keys": []map[string]any{
			{"kty": "RSA", "kid": "rsa-1", "use": "sig", "alg": "RS256",
				"n": b64(f.rsaPub.N.Bytes()), "e": b64(big.NewInt(int64(f.rsaPub.E)).Bytes())},
			{"kty": "EC", "kid": "ec-1", "use": "sig", "alg": "ES256", "crv": "P-256",
				"x": b64(ecBytes(f.ecPub.X)), "y": b64(ecBytes(f.ecPub.Y))},
		}})
	})

	f.srv, err = srvfix.Start(srvfix.Options{UserStore: "sqlite", Settings: map[string]string{
		defs.OAuthProviderSetting: f.issuer,
		defs.OAuthAudienceSetting: audience,
		defs.OAuthClientIDSetting: "c22-client",
		defs.OAuthModeSetting:     "hybrid",
	}})
	must(err)
	if !oauth.IsEnabled() {
		t.Fatalf("harness: resource-server mode is not enabled after start-up")
	}
	if f.jwksHits == 0 {
		t.Fatalf("harness: the server start-up did not fetch the JWKS from the provider stub (oauth.Initialize not run or failed)")
	}
	f.srv.Router.New("/c22/probe", func(s *router.Session, w http.ResponseWriter, r *http.Request) int {
		w.WriteHeader(http.StatusOK)
		_, _ = w.Write([]byte(s.User))
		return http.StatusOK
	}, http.MethodGet).Authentication(true)

	// The revocation store must be live, otherwise every revocation is a no-op
	// and the check would blame ego for a harness mistake.
	must(tokens.Blacklist("c22-selftest"))
	l, err := tokens.List()
	must(err)
	if len(l) != 1 || l[0].ID != "c22-selftest" {
		t.Fatalf("harness: revocation store is not live (list after one insert: %v)", l)
	}
	_, err = tokens.Flush()
	must(err)

	// And a plainly valid token must be accepted both ways.
	good := Tok{Key: "rsa-pub", Alg: "RS256", Kid: "own", Iss: "match", Aud: "str", Exp: "future", Nbf: "none", Jti: "none", Sub: "user"}
	s, err := f.mint(good, "selftest")
	must(err)
	if _, _, e := oauth.ValidateJWT(0, s); e != nil {
		t.Fatalf("harness: a valid RS256 token is rejected by ValidateJWT: %v", e)
	}
	if o := f.present(s, "router"); o != "accepted" {
		t.Fatalf("harness: a valid RS256 token through the probe route: %s", o)
	}
	caches.Purge(caches.OAuthJWTCache)
	return f
}

// mint builds the JWT string of tk. tag makes jti / sub unique per evaluation.
func (f *fixture) mint(tk Tok, tag string) (string, error) {
	now := time.Now()
	claims := map[string]any{"iat": now.Add(-10 * time.Second).Unix(), "scope": "ego:read"}
	switch tk.Sub {
	case "user":
		claims["sub"] = "c22user"
	case "empty":
	}
	switch tk.Iss {
	case "match":
		claims["iss"] = f.issuer
	case "slash":
		claims["iss"] = f.issuer + "/"
	case "other":
		claims["iss"] = "http://127.0.0.1:1/other-issuer"
	case "upper":
		claims["iss"] = strings.ToUpper(f.issuer)
	case "missing":
	}
	switch tk.Aud {
	case "str":
		claims["aud"] = audience
	case "list-has":
		claims["aud"] = []string{"other-service", audience}
	case "list-first":
		claims["aud"] = []string{audience, "other-service"}
	case "list-only":
		claims["aud"] = []string{audience}
	case "str-other":
		claims["aud"] = "other-service"
	case "list-not":
		claims["aud"] = []string{"other-service", "hr-system"}
	case "empty-list":
		claims["aud"] = []string{}
	case "str-prefix":
		claims["aud"] = audience + "-v2"
	case "str-upper":
		claims["aud"] = strings.ToUpper(audience)
	case "missing":
	}
	switch tk.Exp {
	case "future":
		claims["exp"] = now.Add(time.Hour).Unix()
	case "far":
		claims["exp"] = now.Add(10 * 365 * 24 * time.Hour).Unix()
	case "soon":
		claims["exp"] = now.Add(5 * time.Minute).Unix()
	case "past":
		claims["exp"] = now.Add(-time.Hour).Unix()
	case "just-past":
		claims["exp"] = now.Add(-60 * time.Second).Unix()
	case "missing":
	}
	switch tk.Nbf {
	case "past":
		claims["nbf"] = now.Add(-time.Minute).Unix()
	case "future":
		claims["nbf"] = now.Add(time.Hour).Unix()
	case "soon":
		claims["nbf"] = now.Add(60 * time.Second).Unix()
	}
	if tk.Jti != "none" {
		claims["jti"] = tag + "-" + tk.Jti
	}
	claims["nonce"] = tag // distinct token strings per evaluation

	var priv any
	var pubForHMAC any
	switch tk.Key {
	case "rsa-pub":
		priv, pubForHMAC = f.rsaPub, &f.rsaPub.PublicKey
	case "rsa-other":
		priv, pubForHMAC = f.rsaOther, &f.rsaPub.PublicKey
	case "ec-pub":
		priv, pubForHMAC = f.ecPub, &f.ecPub.PublicKey
	case "ec-other":
		priv, pubForHMAC = f.ecOther, &f.ecPub.PublicKey
	}
	hdrAlg, sigAlg := tk.Alg, tk.Alg
	switch tk.Alg {
	case "none", "none-sig":
		hdrAlg, sigAlg = "none", "none"
	case "HS256-pem", "HS256-der", "HS256-n":
		hdrAlg, sigAlg = "HS256", "HS256"
	case "hdrES256-sigRS256":
		hdrAlg, sigAlg = "ES256", "RS256"
	case "hdrRS256-sigES256":
		hdrAlg, sigAlg = "RS256", "ES256"
	}
	header := map[string]any{"typ": "JWT", "alg": hdrAlg}
	own := "rsa-1"
	if strings.HasPrefix(tk.Key, "ec") {
		own = "ec-1"
	}
	switch tk.Kid {
	case "own":
		header["kid"] = own
	case "rsa":
		header["kid"] = "rsa-1"
	case "ec":
		header["kid"] = "ec-1"
	case "unknown":
		header["kid"] = "no-such-key"
	case "empty":
		header["kid"] = ""
	case "missing":
	}
	seg := func(v any) string {
		b, _ := json.Marshal(v)
		return b64(b)
	}
	input := seg(header) + "." + seg(claims)

	var key any = priv
	switch sigAlg {
	case "none":
		key = jwt.UnsafeAllowNoneSignatureType
	case "HS256":
		der, err := x509.MarshalPKIXPublicKey(pubForHMAC)
		if err != nil {
			return "", err
		}
		switch tk.Alg {
		case "HS256-pem":
			key = pem.EncodeToMemory(&pem.Block{Type: "PUBLIC KEY", Bytes: der})
		case "HS256-der":
			key = der
		default:
			if rp, ok := pubForHMAC.(*rsa.PublicKey); ok {
				key = rp.N.Bytes()
			} else {
				key = pubForHMAC.(*ecdsa.PublicKey).X.Bytes()
			}
		}
	}
	m := jwt.GetSigningMethod(sigAlg)
	if m == nil {
		return "", fmt.Errorf("no signing method %q", sigAlg)
	}
	sig, err := m.Sign(input, key)
	if err != nil {
		return "", fmt.Errorf("sign %s with %s: %w", sigAlg, tk.Key, err)
	}
	if tk.Alg == "none-sig" {
		sig = []byte("not-a-signature")
	}
	switch tk.Corrupt {
	case "sig-flip":
		if len(sig) > 0 {
			sig[len(sig)/2] ^= 0x10
		}
	case "sig-trunc":
		if len(sig) > 1 {
			sig = sig[:len(sig)-1]
		}
	case "payload-swap":
		claims["sub"] = "intruder"
		claims["scope"] = "ego:admin"
		input = seg(header) + "." + seg(claims)
	}
	return input + "." + b64(sig), nil
}

// present shows the token and classifies the answer.
func (f *fixture) present(tok, via string) string {
	if via == "direct" {
		_, _, err := oauth.ValidateJWT(0, tok)
		if err == nil {
			return "accepted"
		}
		return "rejected"
	}
	r := f.srv.Do(srvfix.Request{Method: "GET", Path: "/c22/probe", Header: srvfix.Bearer(tok)})
	switch {
	case r.Panic != nil:
		return fmt.Sprintf("handler panic: %v", r.Panic)
	case r.Status == http.StatusOK:
		return "accepted"
	case r.Status == http.StatusForbidden || r.Status == http.StatusUnauthorized:
		return "rejected"
	default:
		return fmt.Sprintf("status %d: %s", r.Status, clip(string(r.Body), 200))
	}
}

func clip(s string, n int) string {
	if len(s) > n {
		return s[:n] + "..."
	}
	return s
}

func (f *fixture) admin(method, path, body string) *srvfix.Response {
	h := map[string]string{"Authorization": srvfix.Basic("admin", "secret0")}
	if body != "" {
		h["Content-Type"] = "application/json"
	}
	return f.srv.Do(srvfix.Request{Method: method, Path: path, Header: h, Body: body})
}

// ---------------------------------------------------------------- the model

// sigClass: "ok" = verifies with a published key by an allowed algorithm;
// "bad:<why>" = cannot; "maybe" = the statement does not decide.
func sigClass(tk Tok) string {
	switch {
	case tk.Corrupt != "":
		return "bad:corrupt=" + tk.Corrupt
	case tk.Alg == "none" || tk.Alg == "none-sig":
		return "bad:alg=none"
	case strings.HasPrefix(tk.Alg, "HS256"):
		return "bad:alg=HS256 keyed with a published public key"
	case strings.HasPrefix(tk.Alg, "hdr"):
		return "bad:header alg does not match the signature (" + tk.Alg + ")"
	case strings.HasSuffix(tk.Key, "-other"):
		return "bad:signed by an unpublished key (alg " + tk.Alg + ")"
	case tk.Alg == "PS256":
		return "maybe"
	}
	return "ok"
}

// staticReason returns the first reason, other than revocation, for which
// the statement requires rejection ("" if none).
func staticReason(tk Tok) string {
	if s := sigClass(tk); strings.HasPrefix(s, "bad:") {
		return strings.TrimPrefix(s, "bad:")
	}
	if tk.Iss != "match" {
		return "iss=" + tk.Iss
	}
	if !in(tk.Aud, []string{"str", "list-has", "list-first", "list-only"}) {
		return "aud=" + tk.Aud
	}
	if !in(tk.Exp, []string{"future", "far", "soon"}) {
		return "exp=" + tk.Exp
	}
	if in(tk.Nbf, []string{"future", "soon"}) {
		return "nbf=" + tk.Nbf
	}
	return ""
}

// reasonClass shortens a reason to its dimension for the label histogram.
func reasonClass(reason string) string {
	switch {
	case strings.HasPrefix(reason, "header alg"):
		return "alg (header/signature mismatch)"
	case strings.HasPrefix(reason, "signed by an unpublished key"):
		return "unpublished key"
	}
	return strings.SplitN(reason, "=", 2)[0]
}

// clean: with no revocation the token must be accepted.
func clean(tk Tok) bool {
	if staticReason(tk) != "" || sigClass(tk) != "ok" || tk.Sub != "user" {
		return false
	}
	own := "rsa"
	if strings.HasPrefix(tk.Key, "ec") {
		own = "ec"
	}
	return tk.Kid == "own" || tk.Kid == own
}

func validCase(c Case) string {
	if len(c.Toks) < 1 || len(c.Toks) > maxToks || len(c.Steps) < 1 || len(c.Steps) > 4*maxSteps {
		return "sizes outside the stated domain"
	}
	for _, tk := range c.Toks {
		if !in(tk.Key, keysAll) || !in(tk.Kid, kidsAll) || !in(tk.Corrupt, corrAll) || !in(tk.Iss, issAll) || !in(tk.Aud, audAll) ||
			!in(tk.Exp, expAll) || !in(tk.Nbf, nbfAll) || !in(tk.Jti, jtiAll) || !in(tk.Sub, subAll) {
			return "token class outside the stated domain"
		}
		switch {
		case in(tk.Alg, algsFree):
		case in(tk.Alg, algsRSA) && strings.HasPrefix(tk.Key, "rsa"):
		case in(tk.Alg, algsEC) && strings.HasPrefix(tk.Key, "ec"):
		default:
			return "algorithm cannot be produced with that key"
		}
	}
	for _, s := range c.Steps {
		switch s.Op {
		case "present":
			if s.Via != "direct" && s.Via != "router" {
				return "bad via"
			}
		case "revoke", "unrevoke", "flush":
			if s.Via != "rest" && s.Via != "direct" {
				return "bad via"
			}
		case "purge":
			if !in(s.What, purgeAll) {
				return "bad purge class"
			}
		default:
			return "unknown op"
		}
		if s.Tok < 0 {
			return "negative token index"
		}
	}
	return ""
}

// ---------------------------------------------------------------- oracle

func oracle(c Case) vkit.Outcome {
	if why := validCase(c); why != "" {
		return vkit.Outcome{Skip: why}
	}
	f := fx
	f.seq++
	tag := fmt.Sprintf("c22-%d", f.seq)

	// isolation: empty list, empty caches
	if _, err := tokens.Flush(); err != nil {
		return vkit.Outcome{Inconclusive: "cannot flush the revocation store"}
	}
	caches.Purge(caches.OAuthJWTCache)
	caches.Purge(caches.BlacklistCache)

	strs := make([]string, len(c.Toks))
	for i, tk := range c.Toks {
		s, err := f.mint(tk, tag)
		if err != nil {
			return vkit.Outcome{Skip: "cannot mint: " + err.Error()}
		}
		strs[i] = s
	}
	jtiOf := func(i int) string {
		if c.Toks[i].Jti == "none" {
			return ""
		}
		return tag + "-" + c.Toks[i].Jti
	}

	revoked := map[string]bool{}
	everRevoked := map[string]bool{}
	unrevoked := map[string]bool{}
	labels := map[string]bool{}
	var trace []string
	nonTrivial := false
	var out vkit.Outcome
	var firstFail *vkit.Failure

	syncCheck := func() string {
		l, err := tokens.List()
		if err != nil {
			return "tokens.List failed"
		}
		got := map[string]bool{}
		for _, it := range l {
			if it.Active {
				got[it.ID] = true
			}
		}
		if len(got) != len(revoked) {
			return "revocation store disagrees with the operations"
		}
		for id := range revoked {
			if !got[id] {
				return "revocation store disagrees with the operations"
			}
		}
		return ""
	}

	for si, st := range c.Steps {
		ti := st.Tok % len(c.Toks)
		tk := c.Toks[ti]
		switch st.Op {
		case "revoke":
			id := jtiOf(ti)
			if id == "" {
				labels["revoke of a token without jti (no-op)"] = true
				trace = append(trace, fmt.Sprintf("#%d revoke tok%d: no jti", si, ti))
				continue
			}
			if revoked[id] {
				labels["second revoke of the same jti"] = true
			}
			if st.Via == "rest" {
				b, _ := json.Marshal([]string{id})
				r := f.admin("PUT", "/admin/tokens/", string(b))
				trace = append(trace, fmt.Sprintf("#%d PUT /admin/tokens [%s] -> %d", si, jtiName(ti, tk), r.Status))
			} else {
				err := tokens.Blacklist(id)
				trace = append(trace, fmt.Sprintf("#%d tokens.Blacklist(%s) -> %v", si, jtiName(ti, tk), err))
			}
			revoked[id] = true
			everRevoked[id] = true
		case "unrevoke":
			id := jtiOf(ti)
			if id == "" {
				continue
			}
			if st.Via == "rest" {
				r := f.admin("DELETE", "/admin/tokens/"+id, "")
				trace = append(trace, fmt.Sprintf("#%d DELETE /admin/tokens/{%s} -> %d", si, jtiName(ti, tk), r.Status))
			} else {
				err := tokens.Delete(id)
				trace = append(trace, fmt.Sprintf("#%d tokens.Delete(%s) -> %v", si, jtiName(ti, tk), err))
			}
			if revoked[id] {
				unrevoked[id] = true
				labels["un-revoke of a revoked jti"] = true
			}
			delete(revoked, id)
		case "flush":
			if st.Via == "rest" {
				r := f.admin("DELETE", "/admin/tokens/", "")
				trace = append(trace, fmt.Sprintf("#%d DELETE /admin/tokens -> %d", si, r.Status))
			} else {
				_, err := tokens.Flush()
				trace = append(trace, fmt.Sprintf("#%d tokens.Flush -> %v", si, err))
			}
			for id := range revoked {
				unrevoked[id] = true
				labels["flush with revoked jti on the list"] = true
			}
			revoked = map[string]bool{}
		case "purge":
			switch st.What {
			case "jwt":
				caches.Purge(caches.OAuthJWTCache)
			case "blacklist":
				caches.Purge(caches.BlacklistCache)
			case "blacklist-rest":
				r := f.admin("DELETE", "/admin/caches?class=blacklist", "")
				if r.Status != 200 {
					return vkit.Outcome{Inconclusive: "cache purge endpoint failed"}
				}
			case "all-rest":
				r := f.admin("DELETE", "/admin/caches", "")
				if r.Status != 200 {
					return vkit.Outcome{Inconclusive: "cache purge endpoint failed"}
				}
			}
			trace = append(trace, fmt.Sprintf("#%d purge %s", si, st.What))
			continue
		case "present":
			id := jtiOf(ti)
			isRevoked := id != "" && revoked[id]
			reason := staticReason(tk)
			_, hit := caches.Find(caches.OAuthJWTCache, strs[ti])
			cacheState := "miss"
			if hit {
				cacheState = "hit"
			}
			obs := f.present(strs[ti], st.Via)
			trace = append(trace, fmt.Sprintf("#%d present tok%d via %s (cache %s, revoked %v) -> %s", si, ti, st.Via, cacheState, isRevoked, obs))

			// classification
			switch {
			case reason != "":
				labels["present: must-reject "+reasonClass(reason)] = true
			case isRevoked:
				labels["present: revoked, JWT cache "+cacheState+", via "+st.Via] = true
				if !hit {
					nonTrivial = true
				}
			case clean(tk):
				labels["present: valid "+tk.Alg+" aud="+tk.Aud] = true
				if id != "" && unrevoked[id] {
					labels["present: valid again after un-revoke/flush, JWT cache "+cacheState] = true
				}
			default:
				labels["present: undecided by the statement (kid="+tk.Kid+" alg="+tk.Alg+" sub="+tk.Sub+") -> "+obs] = true
			}

			fail := func(sig, exp string) {
				fl := &vkit.Failure{Sig: sig,
					Observed: fmt.Sprintf("step #%d: %s; token %s; history: %s", si, obs, describe(tk), strings.Join(trace, "; ")),
					Expected: exp}
				// The history continues behind a failure: the first failure whose
				// signature is not a recorded finding is the one reported, else
				// the first one.
				if firstFail == nil || (knownSig[firstFail.Sig] && !knownSig[sig]) {
					firstFail = fl
				}
			}
			switch {
			case obs != "accepted" && obs != "rejected":
				fail("unexpected answer from the probe route ("+strings.SplitN(obs, ":", 2)[0]+")", "200 or 403")
			case obs == "accepted" && reason != "":
				fail("accepted: "+reason, "rejected ("+reason+")")
			case obs == "accepted" && isRevoked:
				fail("accepted although jti revoked: JWT result cache "+cacheState, "rejected: the jti is on the revocation list at that moment")
			case obs == "rejected" && reason == "" && !isRevoked && clean(tk):
				state := "never revoked"
				if id != "" && unrevoked[id] {
					state = "after un-revoke/flush"
				}
				// never revoked: the cause lies in the token's shape; after an
				// un-revoke or flush: in the revocation state, whatever the shape
				shape := fmt.Sprintf(" alg=%s aud=%s nbf=%s", tk.Alg, tk.Aud, tk.Nbf)
				if state != "never revoked" {
					shape = ""
				}
				fail(fmt.Sprintf("rejected a valid token:%s (%s, JWT cache %s)", shape, state, cacheState),
					"accepted: signed by a published key, iss/aud match, not expired, jti not revoked")
			}
			continue
		}
		if why := syncCheck(); why != "" {
			out.Inconclusive = why
			out.Fail = firstFail
			return out
		}
	}

	out.NonTrivial = nonTrivial
	out.Labels = labelList(labels, nonTrivial)
	out.Fail = firstFail
	return out
}

// knownSig holds the signatures of the recorded findings of this property
// (VERIF_KNOWN or /verif/known_findings.json). It only decides which of
// several failures of one history is the one handed to vkit.
var knownSig = map[string]bool{}

func loadKnownSigs() {
	p := os.Getenv("VERIF_KNOWN")
	if p == "" {
		p = filepath.Join(vkit.Root(), "known_findings.json")
	}
	b, err := os.ReadFile(p)
	if err != nil {
		return
	}
	var kf struct {
		Findings []struct {
			Property string `json:"property"`
			Sig      string `json:"sig"`
		} `json:"findings"`
	}
	if json.Unmarshal(b, &kf) != nil {
		return
	}
	for _, k := range kf.Findings {
		if k.Property == "C22" {
			knownSig[k.Sig] = true
		}
	}
}

func labelList(labels map[string]bool, nonTrivial bool) []string {
	var l []string
	for k := range labels {
		l = append(l, k)
	}
	if nonTrivial {
		l = append(l, "non-trivial: presentation of an otherwise valid token after revocation with the JWT cache cold")
	}
	sort.Strings(l)
	return l
}

// jtiName names a token's jti in the trace.
func jtiName(i int, tk Tok) string { return fmt.Sprintf("jti %s of tok%d", tk.Jti, i) }

func describe(tk Tok) string {
	b, _ := json.Marshal(tk)
	return string(b)
}

// ---------------------------------------------------------------- fixed cases

func fixedCases() []Case {
	good := Tok{Key: "rsa-pub", Alg: "RS256", Kid: "own", Iss: "match", Aud: "str", Exp: "future", Nbf: "none", Jti: "a", Sub: "user"}
	ec := good
	ec.Key, ec.Alg = "ec-pub", "ES256"
	with := func(base Tok, f func(*Tok)) Tok { f(&base); return base }
	p := func(i int, via string) Step { return Step{Op: "present", Tok: i, Via: via} }
	var cs []Case
	// revocation histories
	cs = append(cs,
		Case{Toks: []Tok{good}, Steps: []Step{p(0, "direct"), {Op: "revoke", Tok: 0, Via: "rest"}, p(0, "direct"), p(0, "router")}},
		Case{Toks: []Tok{ec}, Steps: []Step{p(0, "router"), {Op: "revoke", Tok: 0, Via: "direct"}, p(0, "router"), {Op: "unrevoke", Tok: 0, Via: "rest"}, p(0, "router"), p(0, "direct")}},
		Case{Toks: []Tok{good, ec}, Steps: []Step{p(0, "direct"), p(1, "direct"), {Op: "revoke", Tok: 0, Via: "direct"}, p(1, "direct"), p(0, "direct"), {Op: "flush", Via: "rest"}, p(0, "direct"), p(1, "router")}},
	)
	// every single-dimension flaw, presented both ways on a cold cache
	for _, a := range []string{"none", "none-sig", "HS256-pem", "HS256-der", "HS256-n", "PS256", "hdrES256-sigRS256", "RS384", "RS512"} {
		cs = append(cs, Case{Toks: []Tok{with(good, func(t *Tok) { t.Alg = a })}, Steps: []Step{p(0, "direct"), p(0, "router")}})
	}
	cs = append(cs, Case{Toks: []Tok{with(ec, func(t *Tok) { t.Alg = "hdrRS256-sigES256" })}, Steps: []Step{p(0, "direct"), p(0, "router")}})
	for _, k := range []string{"rsa-other", "ec-other"} {
		base := good
		if k == "ec-other" {
			base = ec
		}
		cs = append(cs, Case{Toks: []Tok{with(base, func(t *Tok) { t.Key = k })}, Steps: []Step{p(0, "direct"), p(0, "router")}})
	}
	for _, k := range kidsAll {
		cs = append(cs, Case{Toks: []Tok{with(good, func(t *Tok) { t.Kid = k }), with(ec, func(t *Tok) { t.Kid = k })}, Steps: []Step{p(0, "direct"), p(1, "direct"), p(0, "router"), p(1, "router")}})
	}
	for _, x := range corrAll[1:] {
		cs = append(cs, Case{Toks: []Tok{with(good, func(t *Tok) { t.Corrupt = x }), with(ec, func(t *Tok) { t.Corrupt = x })}, Steps: []Step{p(0, "direct"), p(1, "router")}})
	}
	for _, x := range issAll {
		cs = append(cs, Case{Toks: []Tok{with(good, func(t *Tok) { t.Iss = x })}, Steps: []Step{p(0, "direct"), p(0, "router")}})
	}
	for _, x := range audAll {
		cs = append(cs, Case{Toks: []Tok{with(good, func(t *Tok) { t.Aud = x })}, Steps: []Step{p(0, "direct"), p(0, "router")}})
	}
	for _, x := range expAll {
		cs = append(cs, Case{Toks: []Tok{with(good, func(t *Tok) { t.Exp = x })}, Steps: []Step{p(0, "direct"), p(0, "router")}})
	}
	for _, x := range nbfAll {
		cs = append(cs, Case{Toks: []Tok{with(ec, func(t *Tok) { t.Nbf = x })}, Steps: []Step{p(0, "direct"), p(0, "router")}})
	}
	return cs
}

// ---------------------------------------------------------------- test

func TestC22(t *testing.T) {
	loadKnownSigs()
	fx = setup(t)
	defer fx.idp.Close()
	vkit.Run(t, vkit.Spec[Case]{
		ID:    "C22",
		Level: "exploration",
		Rule: "1..3 JWTs drawn as class vectors {signing key (published RSA/EC, unpublished RSA/EC) x alg (RS256/384/512, ES256, PS256, none, HS256 keyed with the public key in 3 encodings, header/signature alg mismatch) x kid (own, other published, unknown, missing, empty) x corruption (signature bit, truncation, payload swap) x iss (5) x aud (10: string, list, missing, ...) x exp (6) x nbf (4) x jti (none, a, b) x sub}, " +
			"mostly valid with 0..2 flaws, and a history of 1..10 steps {present via oauth.ValidateJWT or via router.ServeHTTP on an .Authentication(true) route; revoke / un-revoke the jti and flush the list via the admin REST endpoints or the tokens package; purge the JWT result cache, the blacklist cache, or all caches}, against a loopback OIDC provider, real time. " +
			"Oracle: three-valued model of the statement (must reject / must accept / undecided) at every presentation. " +
			"Non-trivial: an otherwise valid token whose jti is on the revocation list is presented while the JWT result cache holds no entry for it (never seen, or purged); distinct by case.",
		Assumptions: []string{
			"provider and audience settings are fixed for the process; the JWKS is constant; every exp/nbf is >= 60 s away from now so no verdict depends on the clock",
			"a valid token (published key, RS256/384/512 or ES256, matching kid, iss, aud, exp, no revocation, non-empty sub) must be accepted (docs/SERVER.md); tokens without kid, with the other key's kid, PS256 or without sub are undecided",
			"nbf in the future is a must-reject (docs/internals/OAUTH.md, RFC 7519) although the statement does not list it",
			"the JWKS key cache cannot be purged from outside the package; time-dependent steps are expressed as explicit purges of the JWT result cache and the blacklist cache",
			"the model's revocation list follows the operations and is compared with tokens.List() after every mutating step (disagreement = inconclusive)",
		},
		Gen:      genCase,
		Oracle:   oracle,
		Fixed:    fixedCases,
		Quick:    400,
		Thorough: 6000,
	})
}
