package c05

import (
	"fmt"
	"sort"
	"strings"

	"pgregory.net/rapid"
)

// The generator writes Ego programs (Go-like core plus Ego extensions) as
// text, with comments at many positions and a randomised layout. It keeps the
// programs valid by construction: every variable is declared before use and
// used afterwards (the CLI's default makes an unused variable an error), every
// loop is bounded, integer division only by non-zero literals, indexes only
// inside the known length of a slice. All random choices are rapid draws whose
// lowest value is the simplest alternative, so that shrinking simplifies.

type gen struct {
	t    *rapid.T
	feat map[string]bool
	nc   int // comments
	nv   int // names
	nl   int // labels
	np   int // print tags

	ints    []string
	strs    []string
	bools   []string
	slices  []sliceVar
	maps    []string // map[string]int with key "a"
	structs []string // values of type T0
	ptrs    []string // *T0

	loops    int             // loop nesting in the current function
	labels   []string        // labels of enclosing loops
	inFunc   bool            // inside a function body (defer permitted)
	bareRet  bool            // a plain "return" is permitted here
	budget   int             // remaining statements
	nest     int             // block nesting below the function body
	hdr      int             // > 0 while generating an if/for/switch header
	ro       map[string]bool // loop control variables: never assigned in a body
	hasT0    bool
	helpers  []helper
	imports  map[string]bool
	fragment bool
}

type sliceVar struct {
	name string
	n    int // guaranteed minimum length
}

type helper struct {
	name   string
	nInt   int  // leading int parameters
	str    bool // then one string parameter
	varia  bool // then ...int
	result int  // 0: none, 1: int, 2: (int, string)
	method bool
}

func (g *gen) f(name string) { g.feat[name] = true }

// pick draws 0..n-1 (0 is the simplest alternative).
func (g *gen) pick(label string, n int) int {
	if n <= 1 {
		return 0
	}
	return rapid.IntRange(0, n-1).Draw(g.t, label)
}

// chance is true with probability pct/100; shrinks to false.
func (g *gen) chance(label string, pct int) bool {
	return rapid.IntRange(0, 99).Draw(g.t, label) >= 100-pct
}

func (g *gen) name(prefix string) string {
	g.nv++
	return fmt.Sprintf("%s%d", prefix, g.nv)
}

type scope struct{ i, s, b, sl, m, st, p int }

func (g *gen) enter() scope {
	return scope{len(g.ints), len(g.strs), len(g.bools), len(g.slices), len(g.maps), len(g.structs), len(g.ptrs)}
}

func (g *gen) leave(s scope) {
	g.ints, g.strs, g.bools, g.slices, g.maps, g.structs, g.ptrs = g.ints[:s.i], g.strs[:s.s], g.bools[:s.b], g.slices[:s.sl], g.maps[:s.m], g.structs[:s.st], g.ptrs[:s.p]
}

// declared lists the names declared since s (to print them before the scope
// closes, so that every variable is used and its value is observable).
func (g *gen) declared(s scope) []string {
	var out []string
	out = append(out, g.ints[s.i:]...)
	out = append(out, g.strs[s.s:]...)
	out = append(out, g.bools[s.b:]...)
	for _, v := range g.slices[s.sl:] {
		out = append(out, v.name)
	}
	for _, v := range g.maps[s.m:] {
		out = append(out, "len("+v+")")
	}
	for _, v := range g.structs[s.st:] {
		out = append(out, v+".a")
	}
	for _, v := range g.ptrs[s.p:] {
		out = append(out, v+".a")
	}
	return out
}

// ---------------------------------------------------------------------------
// comments
// ---------------------------------------------------------------------------

var commentTails = []string{"", " note", " plain words here", " ends with a period.", " has \"quotes\" inside", " a: b, c", " /* looks nested",
	" keeps // slashes", " {", " }", " x := 1;", " else", " é ünï", " (paren", " case 1:", " trailing comma,", " func()", " 100%"}

func (g *gen) ctext() string {
	g.nc++
	return fmt.Sprintf("c%d%s", g.nc, commentTails[g.pick("ctail", len(commentTails))])
}

// lineComment returns "// cN ...".
func (g *gen) lineComment() string {
	g.f("comment-line")
	sp := " "
	if g.chance("cnosp", 10) {
		sp = ""
	}
	return "//" + sp + g.ctext()
}

// blockComment returns a /* */ comment on one line.
func (g *gen) blockComment() string {
	g.f("comment-block")
	t := g.ctext()
	t = strings.ReplaceAll(t, "/*", "/ *")
	return "/* " + t + " */"
}

// ownLineComments returns 0..2 comment lines to put before a statement.
func (g *gen) ownLineComments(pct int) []string {
	if !g.chance("cown", pct) {
		return nil
	}
	switch g.pick("cownkind", 6) {
	case 0:
		return []string{g.lineComment()}
	case 1:
		return []string{g.blockComment()}
	case 2:
		return []string{g.lineComment(), g.lineComment()}
	case 3: // multi-line block, star style
		g.f("comment-block-multiline-star")
		a, b := g.ctext(), g.ctext()
		a, b = strings.ReplaceAll(a, "/*", "/ *"), strings.ReplaceAll(b, "/*", "/ *")
		return []string{"/*", " * " + a, " * " + b, " */"}
	case 4: // multi-line block, plain
		g.f("comment-block-multiline")
		a, b := g.ctext(), g.ctext()
		a, b = strings.ReplaceAll(a, "/*", "/ *"), strings.ReplaceAll(b, "/*", "/ *")
		return []string{"/* " + a, "   " + b + " */"}
	default:
		return []string{g.blockComment(), g.lineComment()}
	}
}

// trail appends a trailing comment to the last line with probability pct.
func (g *gen) trail(lines []string, pct int, what string) []string {
	if len(lines) == 0 || !g.chance("ctrail", pct) {
		return lines
	}
	last := lines[len(lines)-1]
	if strings.Contains(last, "//") {
		return lines
	}
	g.f("comment-trailing-" + what)
	c := g.lineComment()
	if g.chance("ctrailblock", 20) {
		c = g.blockComment()
	}
	lines[len(lines)-1] = last + " " + c
	return lines
}

// ---------------------------------------------------------------------------
// expressions
// ---------------------------------------------------------------------------

func (g *gen) sp() string {
	if g.chance("nospace", 15) {
		return ""
	}
	return " "
}

func (g *gen) intLit() string {
	switch g.pick("intlit", 4) {
	case 0, 1:
		return fmt.Sprint(g.pick("lit", 10))
	case 2:
		return fmt.Sprint(10 + g.pick("lit2", 90))
	default:
		return fmt.Sprintf("0x%X", 1+g.pick("lithex", 254))
	}
}

// assignable picks an int variable that may be assigned (not a loop control
// variable, not a constant).
func (g *gen) assignable() (string, bool) {
	var c []string
	for _, v := range g.ints {
		if !g.ro[v] && !strings.HasPrefix(v, "k") && !strings.HasPrefix(v, "K") {
			c = append(c, v)
		}
	}
	if len(c) == 0 {
		return "", false
	}
	return c[len(c)-1-g.pick("avar", len(c))], true
}

func (g *gen) intVar() (string, bool) {
	if len(g.ints) == 0 {
		return "", false
	}
	return g.ints[len(g.ints)-1-g.pick("ivar", len(g.ints))], true
}

// intExpr returns an int-valued expression. Nested operands are parenthesised
// or not at random: the text is what the compiler parses, whatever its
// precedence rules are.
func (g *gen) intExpr(d int) string {
	k := 0
	if d > 0 {
		k = g.pick("iexpr", 14)
	} else {
		k = g.pick("iexpr0", 2)
	}
	switch k {
	case 0:
		return g.intLit()
	case 1:
		if v, ok := g.intVar(); ok {
			return v
		}
		return g.intLit()
	case 2, 3: // binary
		ops := []string{"+", "-", "*", "+", "-", "|", "&", "^"}
		op := ops[g.pick("iop", len(ops))]
		a, b := g.intExpr(d-1), g.intExpr(d-1)
		if strings.HasPrefix(b, "-") {
			b = "(" + b + ")"
		}
		g.f("expr-binary")
		s := g.sp()
		return a + s + op + s + b
	case 4: // division family by a non-zero literal
		ops := []string{"/", "%", "<<", ">>"}
		op := ops[g.pick("iop2", len(ops))]
		a := g.intExpr(d - 1)
		if strings.ContainsAny(a, "+-|&^ ") {
			a = "(" + a + ")"
		}
		return a + " " + op + " " + fmt.Sprint(1+g.pick("divisor", 5))
	case 5:
		g.f("expr-paren")
		return "(" + g.intExpr(d-1) + ")"
	case 6:
		g.f("expr-unary-minus")
		a := g.intExpr(d - 1)
		if strings.HasPrefix(a, "-") {
			if g.chance("negneg", 30) {
				g.f("expr-unary-minus-twice")
				return "- " + a
			}
			return "-(" + a + ")"
		}
		if strings.ContainsAny(a, "+-*/%|&^<> ") {
			return "-(" + a + ")"
		}
		return "-" + a
	case 7: // call of a helper
		if c := g.helperCall(d, 1); c != "" {
			return c
		}
		return "len(" + g.strExpr(d-1) + ")"
	case 8: // indexing
		if len(g.slices) > 0 {
			sv := g.slices[g.pick("slvar", len(g.slices))]
			if sv.n > 0 {
				g.f("expr-index")
				return fmt.Sprintf("%s[%d]", sv.name, g.pick("idx", sv.n))
			}
			return "len(" + sv.name + ")"
		}
		if len(g.maps) > 0 {
			g.f("expr-map-index")
			return g.maps[g.pick("mvar", len(g.maps))] + "[\"a\"]"
		}
		return g.intLit()
	case 9: // field
		if len(g.structs) > 0 {
			g.f("expr-selector")
			return g.structs[g.pick("stvar", len(g.structs))] + ".a"
		}
		if len(g.ptrs) > 0 {
			return g.ptrs[g.pick("pvar", len(g.ptrs))] + ".a"
		}
		return g.intLit()
	case 10: // immediately invoked function literal
		g.f("func-literal-invoked")
		p := g.name("q")
		return fmt.Sprintf("func(%s int) int { return %s %s %s }(%s)", p, p, []string{"+", "*", "-"}[g.pick("fop", 3)], g.intLit(), g.intExpr(d-1))
	case 11: // composite literal consumed in place
		switch g.pick("complit", 5) {
		case 0:
			g.f("composite-indexed")
			n := 1 + g.pick("cn", 3)
			return fmt.Sprintf("%s[%d]", g.sliceLit(d-1, n, false), g.pick("ci", n))
		case 1:
			g.f("composite-in-len")
			return "len(" + g.sliceLit(d-1, g.pick("cn2", 4), false) + ")"
		case 2:
			if g.hasT0 {
				g.f("composite-struct-selected-paren")
				return "(" + g.structLit(d-1) + ").a"
			}
			return g.intLit()
		case 3:
			if g.hasT0 && g.hdr == 0 {
				g.f("composite-struct-selected")
				return g.structLit(d-1) + ".a"
			}
			return g.intLit()
		default:
			g.f("composite-map-in-len")
			return "len(" + g.mapLit(d-1) + ")"
		}
	case 12:
		g.f("expr-conversion")
		return "int(" + []string{"3.7", "2.2", "9.99"}[g.pick("fl", 3)] + ")" + g.sp() + "+" + g.sp() + g.intExpr(d-1)
	default:
		return "len(" + g.strExpr(d-1) + ")"
	}
}

var strLits = []string{`"a"`, `"bc"`, `""`, `"hello world"`, `"q\"uote"`, `"tab\there"`, `"nl\nline"`, `"back\\slash"`, `"é ü"`, `"// not a comment"`, `"/* nor this */"`,
	"`raw`", "`raw \\n stays`", `"semi;colon"`, `"brace { } )"`, `"%d"`, `"'single'"`}

func (g *gen) strExpr(d int) string {
	k := 0
	if d > 0 {
		k = g.pick("sexpr", 7)
	} else {
		k = g.pick("sexpr0", 2)
	}
	switch k {
	case 0:
		i := g.pick("slit", len(strLits))
		if strings.HasPrefix(strLits[i], "`") {
			g.f("string-raw")
		} else if strings.Contains(strLits[i], "\\") {
			g.f("string-escapes")
		}
		return strLits[i]
	case 1:
		if len(g.strs) > 0 {
			return g.strs[len(g.strs)-1-g.pick("svar", len(g.strs))]
		}
		return `"s"`
	case 2:
		return g.strExpr(d-1) + g.sp() + "+" + g.sp() + g.strExpr(d-1)
	case 3:
		g.f("call-sprintf")
		return fmt.Sprintf("fmt.Sprintf(\"%%d-%%s\", %s, %s)", g.intExpr(d-1), g.strExpr(d-1))
	case 4:
		g.imports["strings"] = true
		return "strings.ToUpper(" + g.strExpr(d-1) + ")"
	case 5:
		g.imports["strings"] = true
		return fmt.Sprintf("strings.Repeat(%s, %d)", g.strExpr(d-1), g.pick("rep", 3))
	default:
		if len(g.structs) > 0 {
			return g.structs[g.pick("stvar2", len(g.structs))] + ".b"
		}
		return "(" + g.strExpr(d-1) + ")"
	}
}

func (g *gen) boolExpr(d int) string {
	k := 0
	if d > 0 {
		k = g.pick("bexpr", 9)
	} else {
		k = g.pick("bexpr0", 2)
	}
	switch k {
	case 0:
		ops := []string{"<", ">", "==", "!=", "<=", ">="}
		s := g.sp()
		return g.intExpr(d-1) + s + ops[g.pick("cmp", len(ops))] + s + g.intExpr(d-1)
	case 1:
		if len(g.bools) > 0 {
			return g.bools[g.pick("bvar", len(g.bools))]
		}
		return []string{"true", "false"}[g.pick("blit", 2)]
	case 2:
		g.f("expr-logical")
		return g.boolExpr(d-1) + " && " + g.boolExpr(d-1)
	case 3:
		g.f("expr-logical")
		return g.boolExpr(d-1) + " || " + g.boolExpr(d-1)
	case 4:
		g.f("expr-not")
		return "!(" + g.boolExpr(d-1) + ")"
	case 5:
		g.f("expr-paren")
		return "(" + g.boolExpr(d-1) + ")"
	case 6:
		return g.strExpr(d-1) + " == " + g.strExpr(d-1)
	case 7:
		if len(g.bools) > 0 {
			g.f("expr-not")
			return "!" + g.bools[g.pick("bvar2", len(g.bools))]
		}
		return "true"
	default:
		return []string{"true", "false"}[g.pick("blit2", 2)]
	}
}

// sliceLit returns a []int literal with n elements, possibly over several
// lines (multi == true permits line breaks and comments inside).
func (g *gen) sliceLit(d, n int, multi bool) string {
	g.f("composite-slice")
	var el []string
	for i := 0; i < n; i++ {
		el = append(el, g.intExpr(d))
	}
	if g.chance("egoarray", 8) && n > 0 {
		g.f("composite-ego-array")
		return "[" + strings.Join(el, ", ") + "]"
	}
	if multi && n > 0 && g.chance("multiline-lit", 40) {
		g.f("composite-multiline")
		var b strings.Builder
		b.WriteString("[]int{\n")
		for i, e := range el {
			b.WriteString("\t" + e + ",")
			if g.chance("litcomment", 30) {
				g.f("comment-in-composite")
				b.WriteString(" " + g.lineComment())
			}
			b.WriteString("\n")
			if i == 0 && g.chance("litcomment2", 15) {
				g.f("comment-in-composite")
				b.WriteString("\t" + g.lineComment() + "\n")
			}
		}
		b.WriteString("}")
		return b.String()
	}
	s := "[]int{" + strings.Join(el, ","+g.sp()) + "}"
	if n > 0 && g.chance("trailing-comma", 10) {
		s = "[]int{" + strings.Join(el, ", ") + ",}"
	}
	return s
}

func (g *gen) structLit(d int) string {
	g.f("composite-struct")
	switch g.pick("stlit", 4) {
	case 0:
		return fmt.Sprintf("T0{a: %s, b: %s}", g.intExpr(d), g.strExpr(d))
	case 1:
		return fmt.Sprintf("T0{a:%s}", g.intExpr(d))
	case 2:
		return fmt.Sprintf("T0{ b: %s, a: %s }", g.strExpr(d), g.intExpr(d))
	default:
		g.f("composite-struct-multiline")
		c := ""
		if g.chance("stlitc", 30) {
			g.f("comment-in-composite")
			c = " " + g.lineComment()
		}
		return fmt.Sprintf("T0{\n\ta: %s,%s\n\tb: %s,\n}", g.intExpr(d), c, g.strExpr(d))
	}
}

func (g *gen) mapLit(d int) string {
	g.f("composite-map")
	n := g.pick("mapn", 3)
	parts := []string{fmt.Sprintf("\"a\": %s", g.intExpr(d))}
	for i := 0; i < n; i++ {
		parts = append(parts, fmt.Sprintf("\"k%d\":%s%s", i, g.sp(), g.intExpr(d)))
	}
	return "map[string]int{" + strings.Join(parts, ", ") + "}"
}

// helperCall returns a call of a helper with result count want (0, 1 or 2),
// or "".
func (g *gen) helperCall(d, want int) string {
	var cands []helper
	for _, h := range g.helpers {
		if h.result == want && !h.method {
			cands = append(cands, h)
		}
	}
	if len(cands) == 0 {
		return ""
	}
	h := cands[g.pick("helper", len(cands))]
	var args []string
	for i := 0; i < h.nInt; i++ {
		args = append(args, g.intExpr(d-1))
	}
	if h.str {
		args = append(args, g.strExpr(d-1))
	}
	if h.varia {
		g.f("call-variadic")
		if len(g.slices) > 0 && g.chance("spread", 30) {
			g.f("call-spread")
			args = append(args, g.slices[g.pick("spreadv", len(g.slices))].name+"...")
		} else {
			n := g.pick("nvar", 4)
			for i := 0; i < n; i++ {
				args = append(args, g.intExpr(d-1))
			}
		}
	}
	g.f("call-helper")
	if len(args) > 1 && g.chance("multiline-call", 12) {
		g.f("call-multiline-args")
		return h.name + "(" + strings.Join(args, ",\n\t") + ")"
	}
	return h.name + "(" + strings.Join(args, ", ") + ")"
}

// ---------------------------------------------------------------------------
// statements
// ---------------------------------------------------------------------------

func (g *gen) tag() string {
	g.np++
	return fmt.Sprintf("\"p%d\"", g.np)
}

func (g *gen) printStmt(args ...string) string {
	all := append([]string{g.tag()}, args...)
	switch g.pick("printkind", 8) {
	case 6:
		g.f("print-extension")
		return "print " + strings.Join(all, ", ")
	case 7:
		g.f("printf")
		return "fmt.Printf(\"%v" + strings.Repeat(" %v", len(all)-1) + "\\n\", " + strings.Join(all, ", ") + ")"
	default:
		if len(all) > 2 && g.chance("println-multiline", 8) {
			g.f("call-multiline-args")
			return "fmt.Println(" + all[0] + ",\n\t" + strings.Join(all[1:], ", ") + ")"
		}
		return "fmt.Println(" + strings.Join(all, ","+g.sp()) + ")"
	}
}

// indent prefixes every line (and every line inside multi-line strings of
// code) with one tab.
func indent(lines []string) []string {
	out := make([]string, 0, len(lines))
	for _, l := range lines {
		for _, p := range strings.Split(l, "\n") {
			out = append(out, "\t"+p)
		}
	}
	return out
}

// block generates the statements of a block body (not indented), printing the
// variables it declared before it ends.
func (g *gen) block(d int, maxStmts int, what string) []string {
	s := g.enter()
	g.nest++
	defer func() { g.nest-- }()
	var out []string
	n := g.pick("nstmts-"+what, maxStmts+1)
	for i := 0; i < n && g.budget > 0; i++ {
		out = append(out, g.stmt(d)...)
	}
	if dv := g.declared(s); len(dv) > 0 {
		out = append(out, g.printStmt(dv...))
	}
	if g.chance("c-before-close", 15) {
		g.f("comment-before-closing-brace")
		out = append(out, g.lineComment())
	}
	g.leave(s)
	return out
}

// braced renders "head {" body "}" with body lines indented; an empty body is
// written as {} or as an empty pair of lines.
func (g *gen) braced(head string, body []string, tail string) []string {
	open := head + " {"
	if head == "" {
		open = "{"
	}
	if len(body) == 0 {
		switch g.pick("emptyblock", 3) {
		case 0:
			return []string{open + "}" + tail}
		case 1:
			return []string{open, "}" + tail}
		default:
			g.f("comment-only-block")
			return []string{open, "\t" + g.lineComment(), "}" + tail}
		}
	}
	if g.chance("c-after-open", 10) {
		g.f("comment-after-open-brace")
		open += " " + g.lineComment()
	}
	if len(body) == 1 && !strings.Contains(body[0], "\n") && !strings.Contains(body[0], "//") && !strings.Contains(open, "//") && g.chance("oneline-block", 15) {
		g.f("one-line-block")
		return []string{open + " " + body[0] + " }" + tail}
	}
	out := []string{open}
	out = append(out, indent(body)...)
	out = append(out, "}"+tail)
	return out
}

// chain renders "h0 { b0 } h1 { b1 } ..." (if / else if / else, try / catch).
func (g *gen) chain(heads []string, bodies [][]string, tail string) []string {
	allEmpty := true
	for _, b := range bodies {
		if len(b) > 0 {
			allEmpty = false
		}
	}
	if allEmpty && g.chance("chain-oneline", 30) {
		g.f("empty-blocks-one-line")
		return []string{strings.Join(heads, " {} ") + " {}" + tail}
	}
	var out []string
	for i, h := range heads {
		open := h + " {"
		if i > 0 {
			open = "} " + open
		}
		if g.chance("c-after-open", 10) {
			g.f("comment-after-open-brace")
			open += " " + g.lineComment()
		}
		out = append(out, open)
		b := bodies[i]
		if len(b) == 0 && g.chance("comment-only", 30) {
			g.f("comment-only-block")
			b = []string{g.lineComment()}
		}
		out = append(out, indent(b)...)
	}
	return append(out, "}"+tail)
}

func (g *gen) stmt(d int) []string {
	g.budget--
	lines := g.ownLineComments(25)
	if g.chance("c-inline-before", 4) {
		g.f("comment-inline-before-stmt")
		body := g.stmtBody(d)
		body[0] = g.blockComment() + " " + body[0]
		return append(lines, body...)
	}
	body := g.stmtBody(d)
	if g.chance("blank-line", 15) {
		lines = append(lines, "")
	}
	return append(lines, body...)
}

func (g *gen) stmtBody(d int) []string {
	nk := 14
	if d > 0 {
		nk = 42
	}
	k := g.pick("stmt", nk)
	switch k {
	case 0: // print
		return g.trail([]string{g.printStmt(g.intExpr(2))}, 20, "call")
	case 1: // short declaration of an int
		v := g.name("v")
		l := []string{v + g.sp() + ":=" + g.sp() + g.intExpr(2)}
		g.ints = append(g.ints, v)
		g.f("define")
		return g.trail(l, 20, "define")
	case 2: // var declarations
		g.f("var")
		v := g.name("v")
		var l string
		switch g.pick("varkind", 5) {
		case 0:
			l = "var " + v + " int"
		case 1:
			l = "var " + v + " = " + g.intExpr(2)
		case 2:
			l = "var " + v + " int = " + g.intExpr(2)
		case 3:
			w := g.name("v")
			l = fmt.Sprintf("var %s, %s = %s, %s", v, w, g.intExpr(1), g.intExpr(1))
			g.ints = append(g.ints, w)
			g.f("var-multi")
		default:
			w := g.name("s")
			g.f("var-group")
			c := ""
			if g.chance("vargroupc", 40) {
				g.f("comment-in-var-group")
				c = " " + g.lineComment()
			}
			l = fmt.Sprintf("var (\n\t%s int = %s%s\n\t%s string = %s\n)", v, g.intExpr(1), c, w, g.strExpr(1))
			g.strs = append(g.strs, w)
		}
		g.ints = append(g.ints, v)
		return g.trail([]string{l}, 15, "var")
	case 3: // assignment forms
		v, ok := g.assignable()
		if !ok {
			return g.stmtBody(0)
		}
		g.f("assign")
		switch g.pick("asgkind", 7) {
		case 0:
			return g.trail([]string{v + " = " + g.intExpr(2)}, 20, "assign")
		case 1:
			g.f("assign-op")
			op := []string{"+=", "-=", "*="}[g.pick("asgop", 3)]
			return g.trail([]string{v + g.sp() + op + g.sp() + g.intExpr(2)}, 20, "assign")
		case 2:
			g.f("assign-op")
			return []string{v + " /= " + fmt.Sprint(1+g.pick("asgdiv", 4))}
		case 3:
			g.f("incdec")
			return g.trail([]string{v + "++"}, 20, "incdec")
		case 4:
			g.f("incdec")
			return []string{v + "--"}
		case 5:
			if w, ok := g.assignable(); ok && w != v {
				g.f("assign-swap")
				return []string{fmt.Sprintf("%s, %s = %s, %s", v, w, w, v)}
			}
			return []string{v + " = " + v + " + 1"}
		default:
			g.f("semicolon-joined")
			return []string{v + "++; " + v + " = " + v + " * 2"}
		}
	case 4: // string variable
		v := g.name("s")
		l := v + " := " + g.strExpr(2)
		g.strs = append(g.strs, v)
		return g.trail([]string{l}, 20, "define")
	case 5: // bool variable
		v := g.name("b")
		l := v + " := " + g.boolExpr(2)
		g.bools = append(g.bools, v)
		return g.trail([]string{l}, 10, "define")
	case 6: // slice variable
		v := g.name("xs")
		n := 1 + g.pick("sln", 4)
		l := v + " := " + g.sliceLit(1, n, true)
		g.slices = append(g.slices, sliceVar{v, n})
		return g.trail([]string{l}, 15, "composite")
	case 7: // struct value
		if !g.hasT0 {
			return g.stmtBody(0)
		}
		v := g.name("t")
		l := v + " := " + g.structLit(1)
		if g.chance("ptr", 25) {
			g.f("address-of-composite")
			l = v + " := &" + g.structLit(1)
			g.ptrs = append(g.ptrs, v)
		} else {
			g.structs = append(g.structs, v)
		}
		out := g.trail([]string{l}, 15, "composite")
		if g.chance("call-method-now", 35) {
			if strings.HasPrefix(l, v+" := &") {
				g.f("method-call-pointer")
				out = append(out, v+".Bump("+g.intExpr(1)+")", g.printStmt(v+".a"))
			} else {
				g.f("method-call")
				out = append(out, g.printStmt(v+".Get()", v+".Sum("+g.intExpr(1)+")"))
			}
		}
		return out
	case 8: // map
		v := g.name("m")
		l := v + " := " + g.mapLit(1)
		g.maps = append(g.maps, v)
		out := []string{l}
		if g.chance("mapset", 50) {
			g.f("assign-map-element")
			out = append(out, fmt.Sprintf("%s[%s] = %s", v, `"z"`, g.intExpr(1)))
		}
		return out
	case 9: // element / field assignment
		if len(g.slices) > 0 {
			sv := g.slices[g.pick("slv", len(g.slices))]
			if sv.n > 0 {
				g.f("assign-index")
				return []string{fmt.Sprintf("%s[%d] = %s", sv.name, g.pick("ai", sv.n), g.intExpr(2))}
			}
		}
		if len(g.structs) > 0 {
			g.f("assign-field")
			v := g.structs[g.pick("stv", len(g.structs))]
			return []string{v + ".a = " + g.intExpr(2), v + ".a++"}
		}
		return g.stmtBody(0)
	case 10: // const
		g.f("const")
		v := g.name("k")
		g.ints = append(g.ints, v)
		if g.chance("constgroup", 30) {
			g.f("const-group")
			w := g.name("k")
			g.strs = append(g.strs, w)
			c := ""
			if g.chance("constc", 40) {
				g.f("comment-in-const-group")
				c = " " + g.lineComment()
			}
			return []string{fmt.Sprintf("const (\n\t%s = %s%s\n\t%s = %s\n)", v, g.intLit(), c, w, strLits[g.pick("cslit", 4)])}
		}
		return g.trail([]string{"const " + v + " = " + g.intLit()}, 15, "const")
	case 11: // helper call as a statement / multi-value
		if c := g.helperCall(2, 2); c != "" && g.chance("two", 50) {
			a, b := g.name("v"), g.name("s")
			g.ints = append(g.ints, a)
			g.strs = append(g.strs, b)
			g.f("define-multi-value-call")
			return []string{a + ", " + b + " := " + c}
		}
		if c := g.helperCall(2, 0); c != "" {
			return g.trail([]string{c}, 20, "call")
		}
		return g.stmtBody(0)
	case 12: // append
		if len(g.slices) > 0 {
			i := g.pick("apv", len(g.slices))
			g.f("append")
			g.slices[i].n++
			return []string{fmt.Sprintf("%s = append(%s, %s)", g.slices[i].name, g.slices[i].name, g.intExpr(1))}
		}
		return g.stmtBody(0)
	case 13: // method calls
		if len(g.structs) > 0 && g.hasT0 {
			v := g.structs[g.pick("mv", len(g.structs))]
			g.f("method-call")
			return []string{g.printStmt(v+".Get()", v+".Sum("+g.intExpr(1)+")")}
		}
		if len(g.ptrs) > 0 {
			v := g.ptrs[g.pick("mpv", len(g.ptrs))]
			g.f("method-call-pointer")
			return []string{v + ".Bump(" + g.intExpr(1) + ")", g.printStmt(v + ".a")}
		}
		return g.stmtBody(0)

	// ---- composite statements (d > 0)
	case 14, 15:
		return g.ifStmt(d)
	case 16:
		return g.forClauses(d)
	case 17:
		return g.forCond(d)
	case 18:
		return g.forInfinite(d)
	case 19, 20:
		return g.forRange(d)
	case 21, 22:
		return g.switchStmt(d)
	case 23:
		if g.nest > 0 {
			return g.forClauses(d)
		}
		return g.labelled(d)
	case 24: // break / continue
		if g.loops > 0 {
			kw := []string{"break", "continue"}[g.pick("bc", 2)]
			g.f(kw)
			if len(g.labels) > 0 && g.chance("uselabel", 50) {
				g.f(kw + "-label")
				kw += " " + g.labels[g.pick("lbl", len(g.labels))]
			}
			body := []string{kw}
			return g.braced("if "+g.boolExpr(1), body, "")
		}
		return g.ifStmt(d)
	case 25: // defer
		if !g.inFunc {
			return g.ifStmt(d)
		}
		g.f("defer")
		switch g.pick("deferkind", 3) {
		case 0:
			return g.trail([]string{"defer fmt.Println(" + g.tag() + ", " + g.intExpr(1) + ")"}, 15, "defer")
		case 1:
			g.f("defer-func-literal")
			save, lb, bare := g.loops, g.labels, g.bareRet
			g.loops, g.labels, g.bareRet = 0, nil, true
			body := g.block(d-1, 2, "defer")
			g.loops, g.labels, g.bareRet = save, lb, bare
			return g.braced("defer func()", body, "()")
		default:
			if c := g.helperCall(1, 0); c != "" {
				return []string{"defer " + c}
			}
			return []string{"defer fmt.Println(" + g.tag() + ")"}
		}
	case 26: // go with a channel rendezvous
		g.f("go")
		ch := g.name("ch")
		v := g.name("v")
		g.ints = append(g.ints, v)
		arg := g.intExpr(1)
		out := []string{ch + " := make(chan, 1)"}
		if g.chance("gofunc", 60) {
			g.f("go-func-literal")
			p := g.name("q")
			out = append(out, g.braced(fmt.Sprintf("go func(%s int)", p), []string{ch + " <- " + p + " * 2"}, "("+arg+")")...)
		} else if c := g.helperName("send"); c != "" {
			out = append(out, "go "+c+"("+ch+", "+arg+")")
		} else {
			p := g.name("q")
			out = append(out, fmt.Sprintf("go func(%s int) { %s <- %s }(%s)", p, ch, p, arg))
		}
		out = append(out, v+" := <-"+ch)
		g.f("channel")
		return out
	case 27: // return inside a condition (functions only)
		if !g.bareRet || g.loops > 0 {
			return g.ifStmt(d)
		}
		g.f("return-early")
		return g.braced("if "+g.boolExpr(1), []string{g.printStmt(), g.returnStmt()}, "")
	case 28: // closure
		g.f("closure")
		fn := g.name("fn")
		p := g.name("q")
		save := g.loops
		lb := g.labels
		g.loops, g.labels = 0, nil
		s := g.enter()
		g.ints = append(g.ints, p)
		inFunc, bare := g.inFunc, g.bareRet
		g.inFunc, g.bareRet = true, false
		body := g.block(d-1, 2, "closure")
		body = append(body, "return "+p+" + "+g.intExpr(2))
		g.inFunc, g.bareRet = inFunc, bare
		g.leave(s)
		g.loops, g.labels = save, lb
		out := g.braced(fmt.Sprintf("%s := func(%s int) int", fn, p), body, "")
		out = append(out, g.printStmt(fn+"("+g.intExpr(1)+")"))
		return out
	case 29: // function literal as an argument
		if c := g.helperName("apply"); c != "" {
			g.f("func-literal-as-argument")
			p := g.name("q")
			lit := fmt.Sprintf("func(%s int) int { return %s %s %s }", p, p, []string{"+", "*", "-"}[g.pick("fop2", 3)], g.intLit())
			if g.chance("multiline-funclit", 40) {
				g.f("func-literal-multiline-argument")
				c := ""
				if g.chance("funclitc", 40) {
					c = "\n\t" + g.lineComment()
				}
				lit = fmt.Sprintf("func(%s int) int {%s\n\treturn %s + %s\n}", p, c, p, g.intLit())
			}
			return []string{g.printStmt(c + "(" + lit + ", " + g.intExpr(1) + ")")}
		}
		return g.ifStmt(d)
	case 30: // try / catch
		g.f("try")
		s := g.enter()
		body := g.block(d-1, 2, "try")
		if g.chance("throw", 50) {
			g.f("try-error-raised")
			if g.chance("panic", 50) {
				body = append(body, "panic("+g.strExpr(0)+")")
			} else if v, ok := g.intVar(); ok {
				body = append(body, g.printStmt("1 / ("+v+" - "+v+")"))
			}
		}
		g.leave(s)
		head := "catch"
		e := ""
		if g.chance("catchvar", 60) {
			g.f("catch-variable")
			e = g.name("e")
			head = "catch (" + e + ")"
			if g.chance("catchnosp", 30) {
				head = "catch(" + e + ")"
			}
		}
		cb := g.block(d-1, 1, "catch")
		if e != "" {
			cb = append(cb, g.printStmt(e))
		} else {
			cb = append(cb, g.printStmt())
		}
		return g.chain([]string{"try", head}, [][]string{body, cb}, "")
	case 31: // bare block
		g.f("bare-block")
		return g.braced("", g.block(d-1, 3, "bare"), "")
	case 32: // immediately invoked function literal statement
		g.f("func-literal-statement")
		save, lb, inFunc, bare := g.loops, g.labels, g.inFunc, g.bareRet
		g.loops, g.labels, g.inFunc, g.bareRet = 0, nil, true, true
		body := g.block(d-1, 3, "iife")
		g.loops, g.labels, g.inFunc, g.bareRet = save, lb, inFunc, bare
		return g.braced("func()", body, "()")
	case 34: // pointer to an int variable
		if v, ok := g.assignable(); ok {
			g.f("pointer-deref-assign")
			q := g.name("ptr")
			return []string{q + " := &" + v, "*" + q + " = " + g.intExpr(1), g.printStmt("*"+q, v)}
		}
		return g.stmtBody(0)
	case 35: // two-value forms
		g.f("two-value-form")
		a, ok := g.name("v"), g.name("ok")
		g.bools = append(g.bools, ok)
		if len(g.maps) > 0 && g.chance("twomap", 50) {
			g.f("two-value-map-index")
			m := g.maps[g.pick("tvm", len(g.maps))]
			g.ints = append(g.ints, a)
			return []string{fmt.Sprintf("%s, %s := %s[\"a\"]", a, ok, m)}
		}
		g.f("two-value-type-assertion")
		any := g.name("a")
		g.ints = append(g.ints, a)
		return []string{"var " + any + " any = " + g.intExpr(1), fmt.Sprintf("%s, %s := %s.(int)", a, ok, any)}
	case 36: // make / nil slice / nested composites
		switch g.pick("mkkind", 5) {
		case 0:
			g.f("make-slice")
			v := g.name("xs")
			n := 1 + g.pick("mkn", 3)
			g.slices = append(g.slices, sliceVar{v, n})
			return []string{fmt.Sprintf("%s := make([]int, %d)", v, n), fmt.Sprintf("%s[0] = %s", v, g.intExpr(1))}
		case 1:
			g.f("var-nil-slice")
			v := g.name("xs")
			g.slices = append(g.slices, sliceVar{v, 1})
			return []string{"var " + v + " []int", fmt.Sprintf("%s = append(%s, %s)", v, v, g.intExpr(1))}
		case 2:
			g.f("composite-nested-slices")
			v := g.name("nn")
			lit := fmt.Sprintf("[][]int{{%s, %s}, {%s}}", g.intExpr(1), g.intExpr(0), g.intExpr(1))
			if g.chance("nestedmulti", 40) {
				g.f("composite-multiline")
				c := ""
				if g.chance("nestedc", 40) {
					g.f("comment-in-composite")
					c = " " + g.lineComment()
				}
				lit = fmt.Sprintf("[][]int{\n\t{%s, %s},%s\n\t{%s},\n}", g.intExpr(1), g.intExpr(0), c, g.intExpr(1))
			}
			return []string{v + " := " + lit, g.printStmt(v+"[0][1]", "len("+v+"[1])", v)}
		case 3:
			g.f("composite-map-of-slices")
			v := g.name("ms")
			return []string{fmt.Sprintf("%s := map[string][]int{\"a\": {%s, %s}, \"b\": {%s}}", v, g.intExpr(1), g.intExpr(0), g.intExpr(0)), g.printStmt("len("+v+"[\"a\"])", v+"[\"b\"][0]")}
		default:
			if g.hasT0 {
				g.f("composite-slice-of-structs")
				v := g.name("ts")
				return []string{fmt.Sprintf("%s := []T0{{a: %s, b: %s}, {a: %s}}", v, g.intExpr(1), g.strExpr(0), g.intExpr(0)), g.printStmt(v+"[0].a", v+"[1].a", v+"[0].b")}
			}
			g.f("anonymous-struct")
			v := g.name("an")
			return []string{fmt.Sprintf("%s := struct{ x int }{x: %s}", v, g.intExpr(1)), g.printStmt(v + ".x")}
		}
	case 37: // multi-line raw string
		g.f("string-raw-multiline")
		v := g.name("s")
		g.strs = append(g.strs, v)
		return []string{v + " := `first line\nsecond \\n line`"}
	case 38: // function-typed variable
		g.f("func-typed-variable")
		fn, p := g.name("fv"), g.name("q")
		return []string{"var " + fn + " func(int) int", fmt.Sprintf("%s = func(%s int) int { return %s * %s }", fn, p, p, g.intLit()), g.printStmt(fn + "(" + g.intExpr(1) + ")")}
	case 39: // several statements on one line
		g.f("semicolon-joined")
		return []string{g.printStmt(g.intExpr(1)) + "; " + g.printStmt(g.strExpr(1))}
	case 40: // switch on a composite literal
		g.f("switch")
		g.f("switch-tag-composite")
		tag := "[]int{1, 2}[1]"
		if g.hasT0 && g.chance("swstruct", 50) {
			tag = "(T0{a: 2}).a"
		}
		return []string{"switch " + tag + " {", "case 2:", "\t" + g.printStmt(), "default:", "\t" + g.printStmt(), "}"}
	case 41: // helper returning a composite literal
		if c := g.helperName("mk"); c != "" {
			g.f("return-composite")
			return []string{g.printStmt("mk("+g.intExpr(1)+")", "len(mk(1))")}
		}
		return g.ifStmt(d)
	default: // type switch / type assertion
		g.f("type-switch")
		v := g.name("a")
		w := g.name("w")
		val := []string{g.intExpr(1), g.strExpr(1), "2.5"}[g.pick("anyval", 3)]
		out := []string{"var " + v + " any = " + val}
		c1 := append([]string{"case int:"}, indent([]string{g.printStmt(w + " + 1")})...)
		c2 := append([]string{"case string:"}, indent([]string{g.printStmt("len(" + w + ")")})...)
		c3 := append([]string{"default:"}, indent([]string{g.printStmt()})...)
		out = append(out, "switch "+w+" := "+v+".(type) {")
		out = append(out, c1...)
		out = append(out, c2...)
		out = append(out, c3...)
		out = append(out, "}")
		return out
	}
}

func (g *gen) helperName(name string) string {
	for _, h := range g.helpers {
		if h.name == name {
			return name
		}
	}
	return ""
}

func (g *gen) returnStmt() string {
	return "return"
}

func (g *gen) cond(d int) string {
	g.hdr++
	defer func() { g.hdr-- }()
	switch g.pick("condkind", 8) {
	case 5:
		g.f("if-condition-in-parens")
		return "(" + g.boolExpr(d) + ")"
	case 6:
		if g.hasT0 {
			g.f("if-condition-composite-in-parens")
			return "(" + g.structLit(0) + ").a " + []string{"<", ">", "=="}[g.pick("ccmp", 3)] + " " + g.intExpr(1)
		}
		return g.boolExpr(d)
	case 7:
		g.f("if-condition-composite-in-call")
		return "len(" + g.sliceLit(0, g.pick("cln", 4), false) + ") " + []string{"<", ">", "=="}[g.pick("ccmp2", 3)] + " " + g.intLit()
	default:
		return g.boolExpr(d)
	}
}

func (g *gen) ifStmt(d int) []string {
	g.f("if")
	head := "if "
	s := g.enter()
	g.hdr++
	if g.chance("ifinit", 25) {
		g.f("if-init")
		v := g.name("v")
		head += v + " := " + g.intExpr(1) + "; "
		g.ints = append(g.ints, v)
		head += v + " " + []string{"<", ">", "!="}[g.pick("icmp", 3)] + " " + g.intExpr(1)
	} else {
		head += g.cond(2)
	}
	g.hdr--
	heads := []string{head}
	bodies := [][]string{g.block(d-1, 3, "if")}
	n := g.pick("nelif", 3)
	for i := 0; i < n; i++ {
		g.f("else-if")
		bodies = append(bodies, g.block(d-1, 2, "elif"))
		heads = append(heads, "else if "+g.cond(1))
	}
	if g.chance("else", 50) {
		g.f("else")
		bodies = append(bodies, g.block(d-1, 2, "else"))
		heads = append(heads, "else")
	}
	var out []string
	if len(heads) == 1 {
		out = g.braced(head, bodies[0], "")
	} else {
		out = g.chain(heads, bodies, "")
	}
	g.leave(s)
	return g.trail(out, 10, "closing-brace")
}

func (g *gen) loopBody(d int, what string, label string) []string {
	g.loops++
	if label != "" {
		g.labels = append(g.labels, label)
	}
	body := g.block(d-1, 3, what)
	if label != "" && g.chance("use-own-label", 70) {
		kw := []string{"continue", "break"}[g.pick("ownlabelkw", 2)]
		g.f(kw + "-label")
		if g.chance("label-from-inner-loop", 60) {
			// from an inner loop, where the label makes a difference
			g.f(kw + "-label-from-inner-loop")
			j := g.name("j")
			inner := []string{g.printStmt(j)}
			inner = append(inner, g.braced(fmt.Sprintf("if %s == %d", j, g.pick("innerhit", 2)), []string{kw + " " + label}, "")...)
			inner = append(inner, g.printStmt(j+" + 10"))
			body = append(body, g.braced(fmt.Sprintf("for %s := 0; %s < 2; %s++", j, j, j), inner, "")...)
			body = append(body, g.printStmt())
		} else {
			body = append(body, g.braced("if "+g.boolExpr(1), []string{kw + " " + label}, "")...)
		}
	}
	if label != "" {
		g.labels = g.labels[:len(g.labels)-1]
	}
	g.loops--
	return body
}

func (g *gen) forClauses(d int) []string { return g.forClausesL(d, "") }

func (g *gen) forClausesL(d int, label string) []string {
	g.f("for-clauses")
	s := g.enter()
	i := g.name("i")
	n := 1 + g.pick("bound", 4)
	head := fmt.Sprintf("for %s := 0; %s < %d; %s++", i, i, n, i)
	switch g.pick("forkind", 4) {
	case 1:
		head = fmt.Sprintf("for %s := %d; %s > 0; %s--", i, n, i, i)
	case 2:
		head = fmt.Sprintf("for %s := 0; %s < %d; %s = %s + 2", i, i, n*2, i, i)
	case 3:
		g.f("for-clauses-no-spaces")
		head = fmt.Sprintf("for %s:=0;%s<%d;%s++", i, i, n, i)
	}
	g.ints = append(g.ints, i)
	g.ro[i] = true
	body := g.loopBody(d, "for", label)
	body = append([]string{g.printStmt(i)}, body...)
	g.leave(s)
	return g.trail(g.braced(head, body, ""), 10, "closing-brace")
}

func (g *gen) forCond(d int) []string {
	g.f("for-condition")
	v := g.name("n")
	n := 1 + g.pick("bound2", 4)
	out := []string{fmt.Sprintf("%s := %d", v, n)}
	g.ints = append(g.ints, v)
	g.ro[v] = true
	body := []string{v + "--"}
	// the decrement comes first so that continue cannot skip it
	body = append(body, g.loopBody(d, "forcond", "")...)
	return append(out, g.braced("for "+v+" > 0", body, "")...)
}

func (g *gen) forInfinite(d int) []string {
	g.f("for-infinite")
	v := g.name("n")
	out := []string{fmt.Sprintf("%s := 0", v)}
	g.ints = append(g.ints, v)
	g.ro[v] = true
	body := []string{v + "++"}
	body = append(body, g.braced(fmt.Sprintf("if %s > %d", v, g.pick("bound3", 4)), []string{"break"}, "")...)
	body = append(body, g.loopBody(d, "forinf", "")...)
	return append(out, g.braced("for", body, "")...)
}

func (g *gen) forRange(d int) []string { return g.forRangeL(d, "") }

func (g *gen) forRangeL(d int, label string) []string {
	g.f("for-range")
	s := g.enter()
	k, v := g.name("i"), g.name("e")
	g.ro[k], g.ro[v] = true, true
	var head string
	var pre []string
	kind := g.pick("rangekind", 9)
	g.hdr++
	switch kind {
	case 0: // slice variable
		var sv sliceVar
		if len(g.slices) > 0 {
			sv = g.slices[g.pick("rsv", len(g.slices))]
		} else {
			sv = sliceVar{g.name("xs"), 2}
			pre = append(pre, sv.name+" := []int{3, 1}")
			g.slices = append(g.slices, sv)
			s.sl++ // stays visible after the loop; printed by the enclosing block
		}
		g.f("range-slice-variable")
		head = fmt.Sprintf("for %s, %s := range %s", k, v, sv.name)
		g.ints = append(g.ints, k, v)
	case 1: // composite literal in the header
		g.f("range-composite-literal-header")
		head = fmt.Sprintf("for %s, %s := range %s", k, v, g.sliceLit(1, g.pick("rln", 4), false))
		g.ints = append(g.ints, k, v)
	case 2: // blank key
		g.f("range-blank-key")
		lit := g.sliceLit(1, 1+g.pick("rln2", 3), false)
		if g.chance("rangevar", 50) && len(g.slices) > 0 {
			lit = g.slices[g.pick("rsv2", len(g.slices))].name
		} else {
			g.f("range-composite-literal-header")
		}
		head = fmt.Sprintf("for _, %s := range %s", v, lit)
		g.ints = append(g.ints, v)
	case 3: // key only
		g.f("range-key-only")
		if len(g.slices) > 0 {
			head = fmt.Sprintf("for %s := range %s", k, g.slices[g.pick("rsv3", len(g.slices))].name)
		} else {
			g.f("range-composite-literal-header")
			head = fmt.Sprintf("for %s := range %s", k, g.sliceLit(0, 2, false))
		}
		g.ints = append(g.ints, k)
	case 4: // integer range
		g.f("range-integer")
		head = fmt.Sprintf("for %s := range %d", k, 1+g.pick("rint", 4))
		g.ints = append(g.ints, k)
	case 5: // map: order is not specified, so only an order-free sum is observable
		g.f("range-map")
		acc := g.name("acc")
		pre = append(pre, acc+" := 0")
		lit := g.mapLit(0)
		if len(g.maps) > 0 && g.chance("rangemapvar", 50) {
			lit = g.maps[g.pick("rmv", len(g.maps))]
		} else {
			g.f("range-composite-literal-header")
		}
		out := append(pre, g.braced(fmt.Sprintf("for _, %s := range %s", v, lit), []string{acc + " += " + v}, "")...)
		out = append(out, g.printStmt(acc))
		g.leave(s)
		g.hdr--
		return out
	case 6: // string
		g.f("range-string")
		head = fmt.Sprintf("for %s, %s := range %s", k, v, strLits[g.pick("rstr", 4)])
		g.ints = append(g.ints, k, v)
	case 7: // slice of structs literal
		if g.hasT0 {
			g.f("range-composite-literal-header")
			g.f("range-nested-composite-literal-header")
			head = fmt.Sprintf("for _, %s := range []T0{{a: %s, b: \"x\"}, {a: %s}}", v, g.intExpr(0), g.intExpr(0))
			g.structs = append(g.structs, v)
		} else {
			head = fmt.Sprintf("for %s := range 2", k)
			g.ints = append(g.ints, k)
		}
	default: // assignment form with existing variables
		g.f("range-assign-form")
		pre = append(pre, "var "+k+", "+v+" int")
		head = fmt.Sprintf("for %s, %s = range %s", k, v, g.sliceLit(0, 2, false))
		g.f("range-composite-literal-header")
		g.ints = append(g.ints, k, v)
		s.i += 2
	}
	g.hdr--
	body := g.loopBody(d, "range", label)
	var first []string
	for _, n := range g.declared(s) {
		first = append(first, n)
	}
	if kind == 8 {
		first = append(first, k, v)
	}
	body = append([]string{g.printStmt(first...)}, body...)
	g.leave(s)
	return append(pre, g.trail(g.braced(head, body, ""), 10, "closing-brace")...)
}

func (g *gen) labelled(d int) []string {
	g.nl++
	label := fmt.Sprintf("L%d", g.nl)
	g.f("labelled-loop")
	var loop []string
	if g.chance("labelrange", 40) {
		loop = g.forRangeL(d, label)
	} else {
		loop = g.forClausesL(d, label)
	}
	// the label goes directly before the "for" line (declarations that the
	// loop needs come first)
	for i, l := range loop {
		if strings.HasPrefix(l, "for ") {
			lab := label + ":"
			if g.chance("label-same-line", 20) {
				g.f("label-same-line")
				out := append([]string{}, loop[:i]...)
				out = append(out, lab+" "+l)
				return append(out, loop[i+1:]...)
			}
			out := append([]string{}, loop[:i]...)
			out = append(out, lab)
			return append(out, loop[i:]...)
		}
	}
	return loop
}

func (g *gen) switchStmt(d int) []string {
	g.f("switch")
	s := g.enter()
	var head string
	tagged := true
	isStr := false
	g.hdr++
	switch g.pick("swkind", 4) {
	case 0:
		g.f("switch-tagged")
		head = "switch " + g.intExpr(1)
	case 1:
		g.f("switch-tagless")
		tagged = false
		head = "switch"
	case 2:
		g.f("switch-init")
		v := g.name("v")
		head = "switch " + v + " := " + g.intExpr(1) + "; " + v
		g.ints = append(g.ints, v)
	default:
		g.f("switch-string-tag")
		isStr = true
		head = "switch " + g.strExpr(1)
	}
	g.hdr--
	out := []string{head + " {"}
	n := g.pick("ncases", 4)
	withDefault := g.chance("default", 60)
	if n == 0 && !withDefault {
		n = 1
	}
	for i := 0; i < n; i++ {
		var c string
		switch {
		case !tagged:
			c = "case " + g.boolExpr(1)
			if g.chance("casemulti", 20) {
				g.f("case-multiple-values")
				c += ", " + g.boolExpr(1)
			}
		case isStr:
			c = "case " + strLits[g.pick("caselit", 6)]
		default:
			c = "case " + fmt.Sprint(i*3+g.pick("casev", 3))
			if g.chance("casemulti2", 25) {
				g.f("case-multiple-values")
				c += ", " + fmt.Sprint(100+i)
			}
		}
		c += ":"
		if g.chance("c-after-case", 12) {
			g.f("comment-after-case")
			c += " " + g.lineComment()
		}
		if i > 0 && g.chance("c-before-case", 15) {
			g.f("comment-before-case")
			out = append(out, g.lineComment())
		}
		out = append(out, c)
		body := g.block(d-1, 2, "case")
		if len(body) == 0 {
			g.f("case-empty")
		}
		out = append(out, indent(body)...)
	}
	if withDefault {
		g.f("switch-default")
		if n > 0 && g.chance("c-before-default", 15) {
			g.f("comment-before-case")
			out = append(out, g.lineComment())
		}
		out = append(out, "default:")
		out = append(out, indent(append(g.block(d-1, 1, "default"), g.printStmt()))...)
	}
	if g.chance("c-before-switch-close", 10) {
		g.f("comment-before-closing-brace")
		out = append(out, g.lineComment())
	}
	out = append(out, "}")
	g.leave(s)
	return out
}

// ---------------------------------------------------------------------------
// declarations and the whole file
// ---------------------------------------------------------------------------

func (g *gen) typeDecl() []string {
	g.hasT0 = true
	g.f("struct-type")
	var out []string
	out = append(out, g.ownLineComments(40)...)
	// a comment in front of the first field is what proposed/C05-2 is about;
	// it is kept rare so that most programs reach the other relations
	switch g.pick("typelayout", 8) {
	case 0, 1, 2, 3, 4:
		out = append(out, "type T0 struct {", "\ta int", "\tb string", "}")
	case 5:
		g.f("comment-in-struct-type")
		out = append(out, "type T0 struct {", "\ta int "+g.lineComment(), "\tb string "+g.blockComment(), "}")
	case 6:
		g.f("comment-in-struct-type")
		out = append(out, "type T0 struct {", "\t"+g.lineComment(), "\ta int "+g.lineComment(), "\tb string", "}")
	default:
		g.f("comment-in-struct-type")
		out = append(out, "type T0 struct {", "\t"+g.blockComment(), "\ta int", "\tb string "+g.blockComment(), "}")
	}
	return out
}

func (g *gen) methods() []string {
	g.f("method")
	var out []string
	out = append(out, "")
	out = append(out, g.ownLineComments(30)...)
	out = append(out, "func (t T0) Get() int {", "\treturn t.a", "}", "")
	out = append(out, g.trail([]string{"func (t T0) Sum(d int) int { return t.a + d }"}, 20, "func")...)
	out = append(out, "")
	g.f("method-pointer-receiver")
	out = append(out, g.ownLineComments(30)...)
	out = append(out, "func (t *T0) Bump(d int) {", "\tt.a += d", "}")
	return out
}

// funcDecl generates one helper function and registers it.
func (g *gen) funcDecl(i int) []string {
	g.f("func")
	h := helper{name: fmt.Sprintf("f%d", i)}
	h.nInt = g.pick("fnint", 3)
	h.str = g.chance("fstr", 30)
	h.varia = g.chance("fvaria", 25)
	h.result = g.pick("fresult", 3)
	saved := g.saveVars()
	g.resetVars()
	var params []string
	shared := h.nInt == 2 && g.chance("shared-param-type", 40)
	for k := 0; k < h.nInt; k++ {
		p := g.name("a")
		g.ints = append(g.ints, p)
		if shared && k == 0 {
			g.f("params-shared-type")
			params = append(params, p)
		} else {
			params = append(params, p+" int")
		}
	}
	if h.str {
		p := g.name("s")
		g.strs = append(g.strs, p)
		params = append(params, p+" string")
	}
	if h.varia {
		g.f("func-variadic")
		p := g.name("r")
		g.slices = append(g.slices, sliceVar{p, 0})
		params = append(params, p+" ...int")
	}
	res := ""
	switch h.result {
	case 1:
		res = " int"
		if g.chance("namedresult", 25) {
			g.f("func-named-result")
			res = " (res int)"
		}
	case 2:
		g.f("func-multiple-results")
		res = " (int, string)"
		if g.chance("namedresults", 25) {
			g.f("func-named-result")
			res = " (n int, s string)"
		}
	}
	sig := "func " + h.name + "(" + strings.Join(params, ", ") + ")" + res
	if len(params) > 1 && g.chance("multiline-params", 10) {
		g.f("func-multiline-params")
		sig = "func " + h.name + "(" + params[0] + ",\n\t" + strings.Join(params[1:], ", ") + ")" + res
	}
	g.inFunc, g.bareRet = true, h.result == 0
	g.loops, g.labels = 0, nil
	s := scope{}
	var body []string
	n := g.pick("nfstmts", 4)
	for k := 0; k < n && g.budget > 0; k++ {
		body = append(body, g.stmt(2)...)
	}
	if dv := g.declared(s); len(dv) > 0 {
		body = append(body, g.printStmt(dv...))
	}
	switch {
	case h.result == 1 && strings.Contains(res, "res int"):
		body = append(body, "res = "+g.intExpr(2), "return")
	case h.result == 2 && strings.Contains(res, "n int"):
		body = append(body, "n, s = "+g.intExpr(2)+", "+g.strExpr(1), "return")
	case h.result == 1:
		body = append(body, "return "+g.intExpr(2))
	case h.result == 2:
		body = append(body, "return "+g.intExpr(2)+", "+g.strExpr(1))
	default:
		if g.chance("barereturn", 20) {
			body = append(body, "return")
		}
	}
	g.inFunc, g.bareRet = false, false
	g.restoreVars(saved)
	out := g.ownLineComments(35)
	fn := g.braced(sig, body, "")
	if g.chance("c-after-func", 10) {
		g.f("comment-trailing-closing-brace")
		fn[len(fn)-1] += " " + g.lineComment()
	}
	out = append(out, fn...)
	g.helpers = append(g.helpers, h)
	return out
}

type vars struct {
	ints, strs, bools []string
	slices            []sliceVar
	maps, structs     []string
	ptrs              []string
}

func (g *gen) saveVars() vars {
	return vars{g.ints, g.strs, g.bools, g.slices, g.maps, g.structs, g.ptrs}
}
func (g *gen) resetVars() {
	g.ints, g.strs, g.bools, g.slices, g.maps, g.structs, g.ptrs = nil, nil, nil, nil, nil, nil, nil
}
func (g *gen) restoreVars(v vars) {
	g.ints, g.strs, g.bools, g.slices, g.maps, g.structs, g.ptrs = v.ints, v.strs, v.bools, v.slices, v.maps, v.structs, v.ptrs
}

func (g *gen) fixedHelpers() []string {
	var out []string
	if g.chance("apply-helper", 60) {
		out = append(out, "", "func apply(fn func(int) int, v int) int {", "\treturn fn(v)", "}")
		g.helpers = append(g.helpers, helper{name: "apply", result: -1})
		g.f("func-typed-parameter")
	}
	if g.chance("mk-helper", 40) {
		g.f("return-composite")
		out = append(out, "", "func mk(n int) []int {", "\treturn []int{n, n + 1}", "}")
		g.helpers = append(g.helpers, helper{name: "mk", result: -1})
	}
	if g.chance("send-helper", 40) {
		out = append(out, "", "func send(c chan, v int) {", "\tc <- v + 1", "}")
		g.helpers = append(g.helpers, helper{name: "send", result: -1})
	}
	return out
}

// render joins lines applying the layout of this file: indentation unit and
// optional trailing white space.
func (g *gen) render(lines []string) string {
	unit := []string{"\t", "    ", "  ", "\t"}[g.pick("indent-unit", 4)]
	var b strings.Builder
	for _, l := range lines {
		for _, p := range strings.Split(l, "\n") {
			n := 0
			for strings.HasPrefix(p[n:], "\t") {
				n++
			}
			b.WriteString(strings.Repeat(unit, n) + p[n:] + "\n")
		}
	}
	return b.String()
}

func genCase(t *rapid.T) Case {
	g := &gen{t: t, feat: map[string]bool{}, imports: map[string]bool{}, ro: map[string]bool{}}
	g.budget = 4 + g.pick("budget", 30)
	fragment := g.chance("fragment", 25)
	g.fragment = fragment
	var decls []string

	if g.chance("type", 70) {
		decls = append(decls, g.typeDecl()...)
		decls = append(decls, g.methods()...)
	}
	// package-level constants and variables
	var globalsInt, globalsStr []string
	if g.chance("globals", 50) {
		decls = append(decls, "")
		k := g.name("K")
		globalsInt = append(globalsInt, k)
		if g.chance("global-const-group", 40) {
			g.f("const-group")
			k2 := g.name("K")
			globalsStr = append(globalsStr, k2)
			c := ""
			if g.chance("gconstc", 40) {
				g.f("comment-in-const-group")
				c = " " + g.lineComment()
			}
			decls = append(decls, "const (", "\t"+k+" = "+g.intLit()+c, "\t"+k2+" = \"kk\"", ")")
		} else {
			g.f("const")
			decls = append(decls, g.trail([]string{"const " + k + " = " + g.intLit()}, 25, "const")...)
		}
		gv := g.name("G")
		globalsInt = append(globalsInt, gv)
		g.f("var-package-level")
		if g.chance("global-var-group", 40) {
			g.f("var-group")
			gs := g.name("G")
			globalsStr = append(globalsStr, gs)
			decls = append(decls, "var (", "\t"+gv+" int = "+g.intLit(), "\t"+gs+" = \"gs\"", ")")
		} else {
			decls = append(decls, g.trail([]string{"var " + gv + " = " + g.intLit()}, 25, "var")...)
		}
	}
	decls = append(decls, g.fixedHelpers()...)
	nf := g.pick("nfuncs", 4)
	for i := 0; i < nf; i++ {
		decls = append(decls, "")
		g.resetVars()
		g.ints = append(g.ints, globalsInt...)
		g.strs = append(g.strs, globalsStr...)
		decls = append(decls, g.funcDecl(i)...)
	}

	// main body / fragment statements
	g.resetVars()
	g.ints = append(g.ints, globalsInt...)
	g.strs = append(g.strs, globalsStr...)
	g.loops, g.labels = 0, nil
	g.inFunc, g.bareRet = !fragment, !fragment
	s := g.enter()
	var body []string
	n := 1 + g.pick("nmain", 8)
	for i := 0; i < n && g.budget > 0; i++ {
		body = append(body, g.stmt(3)...)
	}
	if dv := g.declared(s); len(dv) > 0 {
		body = append(body, g.printStmt(dv...))
	}
	if len(globalsInt) > 0 {
		body = append(body, g.printStmt(append(append([]string{}, globalsInt...), globalsStr...)...))
	}

	var lines []string
	if g.chance("file-header-comment", 30) {
		g.f("comment-file-header")
		lines = append(lines, g.ownLineComments(100)...)
	}
	kind := "program"
	if fragment {
		kind = "fragment"
		g.f("fragment")
		lines = append(lines, decls...)
		lines = append(lines, "")
		lines = append(lines, body...)
	} else {
		lines = append(lines, "package main", "")
		imps := []string{"fmt"}
		for k := range g.imports {
			imps = append(imps, k)
		}
		sort.Strings(imps)
		switch {
		case len(imps) == 1 && g.chance("import-single", 70):
			lines = append(lines, g.trail([]string{"import \"fmt\""}, 15, "import")...)
		case g.chance("import-separate", 30):
			for _, i := range imps {
				lines = append(lines, "import \""+i+"\"")
			}
		default:
			g.f("import-group")
			lines = append(lines, "import (")
			for k, i := range imps {
				l := "\t\"" + i + "\""
				if k == 0 && g.chance("importc", 20) {
					g.f("comment-in-import-group")
					l += " " + g.lineComment()
				}
				lines = append(lines, l)
			}
			lines = append(lines, ")")
		}
		lines = append(lines, "")
		lines = append(lines, decls...)
		lines = append(lines, "")
		lines = append(lines, g.ownLineComments(30)...)
		mainFn := g.braced("func main()", body, "")
		lines = append(lines, mainFn...)
	}
	if g.chance("file-footer-comment", 15) {
		g.f("comment-file-footer")
		lines = append(lines, g.lineComment())
	}
	var feats []string
	for f := range g.feat {
		feats = append(feats, f)
	}
	sort.Strings(feats)
	return Case{Kind: kind, Src: g.render(lines), Feat: feats}
}
