package c05

import (
	"fmt"
	"os"
	"path/filepath"
	"sort"
	"strings"
	"testing"

	"github.com/tucats/ego/internal/cli/ui"
	"github.com/tucats/ego/internal/cli/settings"
	"github.com/tucats/ego/internal/defs"
	"github.com/tucats/ego/internal/errors"
	"github.com/tucats/ego/internal/language/compiler"
	"github.com/tucats/ego/internal/language/symbols"
	"github.com/tucats/ego/internal/language/tokenizer"
	"github.com/tucats/ego/verif/egorun"
)

func compileX(src string, mode string) (msg string) {
	egorun.Init()
	cfg := egorun.Config{Types: "dynamic", Extensions: true}
	egorun.Apply(cfg)
	defer func() {
		if p := recover(); p != nil {
			msg = fmt.Sprint("PANIC ", p)
		}
	}()
	ui.Active(ui.TraceLogger, false)
	st := egorun.NewSymbols(cfg)
	var comp *compiler.Compiler
	text := src
	switch mode {
	case "run":
		comp = compiler.New("run").SetNormalization(settings.GetBool(defs.CaseNormalizedSetting)).SetExitEnabled(false).SetRoot(&symbols.RootSymbolTable).SetInteractive(false)
		comp.Fragment(true)
	case "test":
		comp = compiler.New("t.ego").SetTestMode(true)
		comp.SetInteractive(true)
	case "service":
		comp = compiler.New("service x").SetExtensionsEnabled(true).SetRoot(st)
		text += "\n@handler handler"
		comp.UsageOptional("req")
	}
	_ = comp.AutoImport(true, st)
	if mode == "test" {
		for _, p := range compiler.GetAutoImportedPackages() {
			comp.DefineGlobalSymbol(p)
		}
	}
	t := tokenizer.New(text, true)
	_, err := comp.Compile("x", t)
	if !errors.Nil(err) {
		return err.Error()
	}
	return ""
}

func TestExplore(t *testing.T) {
	var files []string
	for _, d := range []string{"tests", "lib", "examples"} {
		filepath.Walk(filepath.Join("/repo", d), func(p string, info os.FileInfo, err error) error {
			if err == nil && !info.IsDir() && strings.HasSuffix(p, ".ego") {
				files = append(files, p)
			}
			return nil
		})
	}
	sort.Strings(files)
	for _, f := range files {
		b, _ := os.ReadFile(f)
		r := compileX(string(b), "run")
		ts := compileX(string(b), "test")
		sv := compileX(string(b), "service")
		if r != "" {
			fmt.Printf("%s\n   run: %.100s\n   test: %.100s\n   svc: %.100s\n", f, r, ts, sv)
		}
	}
}
