package c05

import (
	"fmt"
	"os"
	"path/filepath"
	"pgregory.net/rapid"
	"regexp"
	"sort"
	"strings"
	"testing"
	"time"
)

// TestProbe runs every /tmp/c05scratch/p/*.ego: original, formatted.
func TestProbe(t *testing.T) {
	files, _ := filepath.Glob(os.Getenv("C05_PROBE"))
	sort.Strings(files)
	for _, f := range files {
		b, _ := os.ReadFile(f)
		src := string(b)
		kind, mode := "program", "run"
		if strings.Contains(filepath.Base(f), "frag") {
			kind, mode = "fragment", "test"
		}
		r0 := execEgo(src, mode, true, 20*time.Second)
		fmt.Printf("=== %s\n--- original: %s\n", f, outcomeOf(r0))
		f1, err := fmtSrc(src, kind)
		if err != nil {
			fmt.Println("--- FORMAT ERROR:", err)
			if o := oracle(Case{Kind: kind, Src: src}); o.Fail != nil {
				fmt.Println("--- ORACLE FAIL sig:", o.Fail.Sig)
			}
			continue
		}
		if os.Getenv("C05_SHOW") != "" {
			fmt.Println("--- formatted text:\n" + f1)
		}
		r1 := execEgo(f1, mode, true, 20*time.Second)
		if outcomeOf(r0) != outcomeOf(r1) {
			fmt.Printf("--- formatted DIFFERS: %s\n", outcomeOf(r1))
			if m := regexp.MustCompile(`line (\d+)`).FindStringSubmatch(r1.CompileErr); m != nil {
				var l int
				fmt.Sscan(m[1], &l)
				fl := strings.Split(f1, "\n")
				for i := l - 4; i < l+2; i++ {
					if i >= 0 && i < len(fl) {
						fmt.Printf("   f%4d| %s\n", i+1, fl[i])
					}
				}
				cons, sh, _ := describeDiff(src, f1)
				fmt.Println("   first token diff:", cons, sh)
			}
		} else {
			fmt.Println("--- formatted: same")
		}
		f2, err := fmtSrc(f1, kind)
		if err != nil || f2 != f1 {
			fmt.Println("--- NOT IDEMPOTENT", err, "\n"+diffLines(f1, f2))
		}
		if m := missingComments(commentsOf(src), commentsOf(f1)); len(m) > 0 {
			fmt.Println("--- COMMENTS LOST", m)
		}
		o := oracle(Case{Kind: kind, Src: src})
		if o.Fail != nil {
			fmt.Println("--- ORACLE FAIL sig:", o.Fail.Sig)
		} else {
			fmt.Println("--- oracle: held", o.Skip, o.Inconclusive)
		}
	}
}

func TestSample(t *testing.T) {
	n := 300
	fmt.Sscan(os.Getenv("C05_N"), &n)
	hist := map[string]int{}
	examples := map[string]string{}
	i := 0
	start := time.Now()
	rapid.Check(t, func(rt *rapid.T) {
		c := genCase(rt)
		i++
		if os.Getenv("C05_DUMP") != "" && i <= 3 {
			fmt.Println("-----", c.Kind, "\n"+c.Src)
		}
		o := oracle(c)
		key := "held"
		switch {
		case o.Skip != "":
			key = "SKIP " + o.Skip
			r := execEgo(c.Src, map[string]string{"program": "run", "fragment": "test"}[c.Kind], false, 0)
			key += " :: " + normMsg(r.CompileErr)
		case o.Fail != nil:
			key = "FAIL " + o.Fail.Sig
		case o.Inconclusive != "":
			key = "INCONCLUSIVE " + o.Inconclusive
		}
		hist[key]++
		if _, ok := examples[key]; !ok || len(c.Src) < len(examples[key]) {
			examples[key] = c.Src
			if o.Fail != nil {
				examples[key] += "\n>>> " + clipS(o.Fail.Observed, 1500)
			}
		}
	})
	fmt.Println("elapsed", time.Since(start), "cases", i)
	var keys []string
	for k := range hist {
		keys = append(keys, k)
	}
	sort.Strings(keys)
	for _, k := range keys {
		fmt.Printf("%5d %s\n", hist[k], k)
	}
	if d := os.Getenv("C05_EX"); d != "" {
		_ = os.MkdirAll(d, 0o755)
		n := 0
		for _, k := range keys {
			if k != "held" {
				n++
				src := examples[k]
				if i := strings.Index(src, "\n>>> "); i >= 0 {
					src = src[:i+1]
				}
				name := fmt.Sprintf("%s/e%02d.ego", d, n)
				if strings.Contains(k, "fragment") || !strings.Contains(src, "package main") {
					name = fmt.Sprintf("%s/e%02d-frag.ego", d, n)
				}
				_ = os.WriteFile(name, []byte(src), 0o644)
				fmt.Printf("   %s: %s\n", name, k)
			}
		}
	}
}

// minimise removes lines (then chunks) while pred stays true.
func minimise(src string, pred func(string) bool) string {
	lines := strings.Split(src, "\n")
	for chunk := len(lines) / 2; chunk >= 1; chunk /= 2 {
		for i := 0; i+chunk <= len(lines); {
			cand := append(append([]string{}, lines[:i]...), lines[i+chunk:]...)
			if pred(strings.Join(cand, "\n")) {
				lines = cand
			} else {
				i += chunk
			}
		}
	}
	return strings.Join(lines, "\n")
}

func TestMinSkip(t *testing.T) {
	hist := map[string][]string{}
	re := regexp.MustCompile(`line (\d+)`)
	n := 0
	rapid.Check(t, func(rt *rapid.T) {
		c := genCase(rt)
		n++
		mode := map[string]string{"program": "run", "fragment": "test"}[c.Kind]
		r := execEgo(c.Src, mode, false, 0)
		if r.CompileErr == "" {
			return
		}
		key := normMsg(r.CompileErr)
		ctx := ""
		if m := re.FindStringSubmatch(r.CompileErr); m != nil {
			var l int
			fmt.Sscan(m[1], &l)
			lines := strings.Split(c.Src, "\n")
			for i := l - 3; i <= l; i++ {
				if i >= 0 && i < len(lines) {
					ctx += fmt.Sprintf("   %4d| %s\n", i+1, lines[i])
				}
			}
		}
		if ctx == "" {
			ctx = c.Src
		}
		hist[key] = append(hist[key], ctx)
	})
	tot := 0
	for k, v := range hist {
		tot += len(v)
		fmt.Printf("######## %d x %s\n", len(v), k)
		for i, x := range v {
			if i < 1 {
				fmt.Println(x)
			}
		}
	}
	fmt.Println("skips", tot, "of", n)
}

func TestLeak(t *testing.T) {
	found := 0
	rapid.Check(t, func(rt *rapid.T) {
		c := genCase(rt)
		if c.Kind != "program" || found > 0 {
			return
		}
		restore, read := captureStdout()
		r := execEgo(c.Src, "run", true, 0)
		restore()
		if s := read(); s != "" {
			found++
			fmt.Printf("LEAK %q\nstdout captured by ctx: %q\n%s\n", s, r.Stdout, c.Src)
		}
	})
}

func TestLocate(t *testing.T) {
	files, _ := filepath.Glob(os.Getenv("C05_PROBE"))
	sort.Strings(files)
	for _, f := range files {
		b, _ := os.ReadFile(f)
		src := string(b)
		raw := rawTokens(src)
		from, to := locateParseFailure(src, raw)
		fmt.Println("===", f, from, to)
		lines := strings.Split(src, "\n")
		for i := from; i <= to && i <= from+6 && i > 0; i++ {
			fmt.Printf("  %4d| %s\n", i, lines[i-1])
		}
		if from > 0 {
			fmt.Println("  class:", classifyLines(raw, from, to, "x"))
		}
	}
}

func TestToks(t *testing.T) {
	b, _ := os.ReadFile(os.Getenv("C05_PROBE"))
	for _, k := range rawTokens(string(b)) {
		fmt.Printf("%d:%q ", k.line, k.s)
	}
	fmt.Println()
}
