// Package c05 decides property C05: "ego fmt keeps programs and comments
// intact".
//
// Statement (properties.jsonl): formatting an Ego source file with `ego fmt`
// succeeds on every file the compiler accepts, the formatted file compiles and
// behaves the same as the original (same output and outcome, ignoring source
// line numbers in messages), formatting is idempotent and every comment of the
// original appears in the output.
//
// Preconditions taken from real callers / the code (nothing stronger than the
// statement is asserted):
//
//   - Entry points. `ego fmt FILE` without flags calls parse.ParseAuto +
//     format.File (internal/commands/fmt.go: program first, fragment as
//     fallback); `--fragment` calls parse.ParseStatements. Full programs and
//     corpus files go through the first path, statement fragments through the
//     second. format.Source(src, bare) is the same pipeline.
//   - "The compiler accepts" is decided with the compiler configuration of the
//     command that consumes that kind of file: `ego run FILE` (compiler "run",
//     auto-import, @entrypoint main) for programs, library packages, services
//     and examples; `ego test` (test mode, interactive) for tests/*.ego and for
//     statement fragments (fragments are "the form accepted by the REPL and by
//     ego test's @test blocks", parse/parser.go). Sources the compiler rejects
//     are skipped, never judged.
//   - "Comment" is what ego's tokenizer reports as a comment
//     (tokenizer.Comments); the tokenizer is shared by compiler and formatter
//     and is part of the trusted base here. Comment texts are compared with
//     white space normalised (the formatter documents that it re-indents the
//     interior of block comments).
//   - Behaviour is compared on deterministic programs only: the original is
//     run twice and a case whose two runs differ is skipped.
//   - Messages are compared after "line N[:M]" positions are replaced, as the
//     statement says.
//   - Corpus files that use @test are compared through the result lines of the
//     `ego test` CLI (status per test, error text, exit code; elapsed times
//     removed), because that is the only command that runs them. Corpus files
//     without @test (lib/packages, lib/services, examples) are not executed
//     (services need a server, examples block on input or run for minutes):
//     for them "behaves the same" is decided only when the token streams of
//     original and output are identical up to statement separators (then the
//     compiler sees the same program); otherwise the case is recorded as
//     inconclusive, never as a violation.
package c05

import (
	"bytes"
	"context"
	"crypto/sha256"
	"encoding/hex"
	"encoding/json"
	"fmt"
	"os"
	"os/exec"
	"os/signal"
	"path/filepath"
	"regexp"
	"runtime/debug"
	"sort"
	"strings"
	"sync"
	"sync/atomic"
	"syscall"
	"testing"
	"time"

	"github.com/tucats/ego/internal/cli/settings"
	"github.com/tucats/ego/internal/cli/ui"
	"github.com/tucats/ego/internal/defs"
	"github.com/tucats/ego/internal/errors"
	"github.com/tucats/ego/internal/language/bytecode"
	"github.com/tucats/ego/internal/language/compiler"
	"github.com/tucats/ego/internal/language/parse"
	"github.com/tucats/ego/internal/language/parse/format"
	"github.com/tucats/ego/internal/language/symbols"
	"github.com/tucats/ego/internal/language/tokenizer"
	"github.com/tucats/ego/verif/egorun"
	"github.com/tucats/ego/verif/vkit"
	"pgregory.net/rapid"
)

// Case is one source text and how it is to be treated.
type Case struct {
	// Kind: "program" (full program with main, run like `ego run`),
	// "fragment" (statement sequence, run like an `ego test` body),
	// "corpus-test" (a repository file that uses @test),
	// "corpus-file" (any other repository .ego file).
	Kind string `json:"kind"`
	Name string `json:"name,omitempty"`
	Src  string `json:"src"`
	// Feat: constructs the generator put into Src (label histogram).
	Feat []string `json:"feat,omitempty"`
}

// ---------------------------------------------------------------------------
// running Ego source in-process
// ---------------------------------------------------------------------------

var sigOnce sync.Once

// trapInterrupt makes SIGINT harmless for the test process: the watchdog
// below interrupts a runaway Ego program by sending SIGINT to the process
// (bytecode.RunFromAddress stops its context on os.Interrupt); without a
// permanent handler a SIGINT that arrives when no context is running would
// kill the process.
func trapInterrupt() {
	sigOnce.Do(func() {
		ch := make(chan os.Signal, 8)
		signal.Notify(ch, os.Interrupt)
		go func() {
			for range ch {
			}
		}()
	})
}

type runResult struct {
	egorun.Result
	TimedOut bool // did not finish within the limit (interrupted)
	Hung     bool // did not react to the interrupt; goroutine abandoned
	Elapsed  time.Duration
}

// execEgo compiles (and, when run is set, executes) src.
//
//	mode "run":  what `ego run FILE` does (egorun.Run with entry point main)
//	mode "test": what `ego test FILE` does for the compilation and execution
//	             of one file (internal/commands/test.go)
//
// limit bounds compilation plus execution. When it expires the running
// contexts are interrupted (SIGINT, which bytecode.RunFromAddress traps) and
// TimedOut is set; if the work still does not return (ego's compiler can loop
// on malformed text) the goroutine is abandoned and Hung is set.
func execEgo(src, mode string, run bool, limit time.Duration) runResult {
	trapInterrupt()
	egorun.Init()
	if limit <= 0 {
		limit = runLimitMin
	}
	if hungCount() >= maxHung {
		return runResult{Hung: true}
	}
	start := time.Now()
	// Part of a program's output does not go through the context's buffer
	// (deferred function literals, goroutines, test mode's flushes write to the
	// process's standard output), so that is captured as well. The relative
	// order of the two streams is not preserved; each is compared as a whole.
	restore, read := func() {}, func() string { return "" }
	if run {
		restore, read = captureStdout()
	}
	defer restore()
	ch := make(chan runResult, 1)
	go func() { ch <- execInner(src, mode, run) }()
	timer := time.NewTimer(limit)
	defer timer.Stop()
	timedOut := false
	for tries := 0; ; tries++ {
		select {
		case r := <-ch:
			restore()
			if direct := read(); direct != "" {
				r.Stdout = r.Stdout + "\n[written to the process's standard output]\n" + direct
			}
			r.TimedOut = timedOut
			r.Elapsed = time.Since(start)
			return r
		case <-timer.C:
			timedOut = true
			if tries >= 25 {
				hungMu.Lock()
				hung++
				hungMu.Unlock()
				return runResult{TimedOut: true, Hung: true, Elapsed: time.Since(start)}
			}
			_ = syscall.Kill(os.Getpid(), syscall.SIGINT)
			timer.Reset(200 * time.Millisecond)
		}
	}
}

// maxHung bounds how many abandoned (spinning) goroutines one process may
// accumulate; after that every case is reported inconclusive.
const maxHung = 3

var (
	hungMu sync.Mutex
	hung   int
)

func hungCount() int {
	hungMu.Lock()
	defer hungMu.Unlock()
	return hung
}

func execInner(src, mode string, run bool) (res runResult) {
	cfg := egorun.Config{Types: "dynamic", Optimize: 0, Extensions: true}
	egorun.Apply(cfg)
	defer func() {
		if p := recover(); p != nil {
			res.GoPanic = fmt.Sprint(p)
			res.Stack = string(debug.Stack())
		}
	}()
	ui.Active(ui.TraceLogger, false)
	st := egorun.NewSymbols(cfg)
	text := src
	var comp *compiler.Compiler
	switch mode {
	case "test":
		st.SetAlways(defs.ModeVariable, "test")
		symbols.RootSymbolTable.SetAlways("_testcount", 0)
		symbols.RootSymbolTable.SetAlways("_testfailcount", 0)
		comp = compiler.New("c05.ego").SetTestMode(true)
		_ = comp.AutoImport(true, st)
		for _, p := range compiler.GetAutoImportedPackages() {
			comp.DefineGlobalSymbol(p)
		}
		comp.SetInteractive(true)
	default:
		text = text + "\n@entrypoint main"
		comp = compiler.New("run").
			SetNormalization(settings.GetBool(defs.CaseNormalizedSetting)).
			SetExitEnabled(false).
			SetRoot(&symbols.RootSymbolTable).
			SetInteractive(false)
		_ = comp.AutoImport(true, st)
		comp.Fragment(true)
	}
	t := tokenizer.New(text, true)
	b, err := comp.Compile("main 'verif.ego'", t)
	if !errors.Nil(err) {
		res.CompileErr = err.Error()
		return res
	}
	if b == nil || !run {
		return res
	}
	t.Close()
	ctx := bytecode.NewContext(st, b).SetTokenizer(t).SetFullSymbolScope(false)
	ctx.EnableConsoleOutput(false)
	err = ctx.Run()
	res.Stdout = ctx.GetOutput()
	if errors.Equals(err, errors.ErrStop) {
		err = nil
	}
	if err != nil {
		if e, ok := err.(*errors.Error); ok && e.Is(errors.ErrExit) {
			res.Exit = true
		} else {
			res.RunErr = err.Error()
		}
	}
	return res
}

var stdoutMu sync.Mutex

// captureStdout redirects os.Stdout to a pipe until restore is called; read
// returns what was written.
func captureStdout() (restore func(), read func() string) {
	stdoutMu.Lock()
	old := os.Stdout
	r, w, err := os.Pipe()
	if err != nil {
		stdoutMu.Unlock()
		return func() {}, func() string { return "" }
	}
	os.Stdout = w
	var buf bytes.Buffer
	done := make(chan struct{})
	go func() {
		_, _ = buf.ReadFrom(r)
		close(done)
	}()
	restored := false
	restore = func() {
		if restored {
			return
		}
		restored = true
		os.Stdout = old
		_ = w.Close()
		<-done
		_ = r.Close()
		stdoutMu.Unlock()
	}
	read = func() string { return buf.String() }
	return restore, read
}

var reLine = regexp.MustCompile(`\bline \d+(:\d+)?`)
var reAddr = regexp.MustCompile(`:\d+\(line N\)`)
var reAt = regexp.MustCompile(`\bat [A-Za-z_][A-Za-z_0-9.]*\(line N\)`)

// normMsg removes source positions from a message.
func normMsg(s string) string {
	s = reLine.ReplaceAllString(s, "line N")
	// "at defer main:20(line N)": the bytecode address of a deferred call
	s = reAddr.ReplaceAllString(s, ":N(line N)")
	// call-frame lines of a panic report: "  at: main 'verif.ego'  40  (file verif.ego)"
	s = reFrame.ReplaceAllString(s, "  at: FRAME")
	return s
}

// outcomeOf renders the observable outcome of a run with positions removed.
func outcomeOf(r runResult) string {
	var b strings.Builder
	b.WriteString("stdout:\n" + normMsg(r.Stdout))
	if r.CompileErr != "" {
		b.WriteString("\ncompile error: " + normMsg(r.CompileErr))
	}
	if r.RunErr != "" {
		b.WriteString("\nrun error: " + normMsg(r.RunErr))
	}
	if r.GoPanic != "" {
		b.WriteString("\ngo panic: " + normMsg(r.GoPanic))
	}
	if r.Exit {
		b.WriteString("\nexit")
	}
	return b.String()
}

// ---------------------------------------------------------------------------
// formatting
// ---------------------------------------------------------------------------

// fmtSrc formats src the way `ego fmt` does for this kind of case. A Go panic
// in the parser or printer is returned as an error with the panic site.
func fmtSrc(src, kind string) (out string, err error) {
	defer func() {
		if p := recover(); p != nil {
			err = fmt.Errorf("go panic: %v at %s", p, firstEgoFrame(string(debug.Stack())))
		}
	}()
	if kind == "fragment" {
		return format.Source(src, true)
	}
	file, perr := parse.ParseAuto(src)
	if perr != nil {
		return "", perr
	}
	return format.File(file)
}

func firstEgoFrame(stack string) string {
	seen := false
	for _, l := range strings.Split(stack, "\n") {
		if strings.HasPrefix(l, "panic(") {
			seen = true
			continue
		}
		if seen && strings.HasPrefix(l, "github.com/tucats/ego/internal/") {
			if i := strings.LastIndex(l, "("); i > 0 {
				l = l[:i]
			}
			return strings.TrimPrefix(l, "github.com/tucats/ego/internal/")
		}
	}
	return "unknown"
}

// ---------------------------------------------------------------------------
// tokens, comments, constructs
// ---------------------------------------------------------------------------

type tok struct {
	s    string // spelling
	cls  tokenizer.TokenClass
	line int
	raw  int // index in the raw token list
}

func rawTokens(src string) []tok {
	t := tokenizer.New(src, true)
	out := make([]tok, 0, len(t.Tokens))
	for i, k := range t.Tokens {
		l, _ := k.Location()
		out = append(out, tok{s: k.Spelling(), cls: k.Class(), line: l, raw: i})
	}
	return out
}

func isSpecial(t tok, s string) bool { return t.cls == tokenizer.SpecialTokenClass && t.s == s }

// normTokens removes what cannot change the meaning of a program: a statement
// separator that follows "{" or another separator or precedes "}" or the end
// of the text, the split of "{}" into two tokens, and a trailing comma before
// a closing bracket. Everything else is kept.
func normTokens(raw []tok) []tok {
	var out []tok
	n := len(raw)
	for n > 0 && (raw[n-1].cls == tokenizer.EndOfTokensClass || isSpecial(raw[n-1], ";")) {
		n--
	}
	for i := 0; i < n; i++ {
		t := raw[i]
		if t.cls == tokenizer.EndOfTokensClass {
			continue
		}
		if isSpecial(t, ";") {
			if len(out) == 0 || isSpecial(out[len(out)-1], ";") || isSpecial(out[len(out)-1], "{") {
				continue
			}
			// look ahead past further separators
			j := i + 1
			for j < n && isSpecial(raw[j], ";") {
				j++
			}
			if j >= n || isSpecial(raw[j], "}") {
				continue
			}
		}
		if isSpecial(t, "{}") {
			out = append(out, tok{s: "{", cls: t.cls, line: t.line, raw: t.raw}, tok{s: "}", cls: t.cls, line: t.line, raw: t.raw})
			continue
		}
		if (isSpecial(t, "}") || isSpecial(t, ")") || isSpecial(t, "]")) && len(out) > 0 && isSpecial(out[len(out)-1], ",") {
			out = out[:len(out)-1]
		}
		out = append(out, t)
	}
	return out
}

// firstDiff returns the index of the first differing token of two normalised
// streams, or -1 when they are equal.
func firstDiff(a, b []tok) int {
	n := len(a)
	if len(b) < n {
		n = len(b)
	}
	for i := 0; i < n; i++ {
		if a[i].s != b[i].s || a[i].cls != b[i].cls {
			return i
		}
	}
	if len(a) != len(b) {
		return n
	}
	return -1
}

func commentsOf(src string) []string {
	t := tokenizer.New(src, true)
	var out []string
	for _, c := range t.Comments {
		out = append(out, strings.Join(strings.Fields(c.Text), " "))
	}
	return out
}

type rawComment struct {
	text  string
	line  int
	block bool
}

func rawCommentsOf(src string) []rawComment {
	t := tokenizer.New(src, true)
	var out []rawComment
	for _, c := range t.Comments {
		out = append(out, rawComment{text: c.Text, line: c.Line, block: c.Block})
	}
	return out
}

var typeWords = map[string]bool{"int": true, "string": true, "bool": true, "float64": true, "float32": true, "byte": true,
	"int8": true, "int16": true, "int32": true, "int64": true, "uint": true, "uint8": true, "uint16": true, "uint32": true, "uint64": true,
	"any": true, "error": true, "interface{}": true, "chan": true}

// braceIsComposite decides (for naming a construct only, never for a verdict)
// whether the "{" at raw[i] opens a composite literal rather than a block.
// inHeader: the brace is at bracket depth 0 of an if/for/switch header.
func braceIsComposite(raw []tok, i int, inHeader bool) bool {
	if i == 0 {
		return false
	}
	p := raw[i-1]
	if p.cls == tokenizer.SpecialTokenClass {
		switch p.s {
		case ":", ",", "{", "(", "[", "=", ":=", "==", "!=", "&", "...":
			return true
		case "]":
			return true
		case ")", "}", ";", "{}", "++", "--":
			return false
		}
		return false
	}
	if p.cls == tokenizer.ReservedTokenClass || p.cls == tokenizer.TypeTokenClass || p.cls == tokenizer.IdentifierTokenClass {
		switch p.s {
		case "else", "try", "catch", "for", "switch", "struct", "interface", "defer", "go":
			return false
		case "return", "range":
			return true
		}
		// type-like word: composite when it is an element type ("[]int{",
		// "map[k]v{") or, outside a control header, any name.
		if i >= 2 && isSpecial(raw[i-2], "]") {
			return true
		}
		if i >= 2 && isSpecial(raw[i-2], ".") {
			return !inHeader
		}
		if inHeader {
			return false
		}
		// "func f() int {" / "func(a int) string {": a result type
		for j := i - 1; j >= 0 && j > i-12; j-- {
			if isSpecial(raw[j], ";") || isSpecial(raw[j], "{") || isSpecial(raw[j], "}") {
				break
			}
			if raw[j].s == "func" && raw[j].cls != tokenizer.StringTokenClass {
				return false
			}
		}
		return p.cls == tokenizer.IdentifierTokenClass || p.cls == tokenizer.TypeTokenClass
	}
	return false
}

// contextAt names the construct around raw[i]: the statement kind it belongs
// to and the brackets between the start of that statement and the token.
// It is a naming aid for failure signatures.
func contextAt(raw []tok, i int) string {
	if i >= len(raw) {
		i = len(raw) - 1
	}
	if i < 0 {
		return "empty"
	}
	// walk backwards to the start of the statement
	depth := 0
	var enclosing []string
	start := 0
	semis := 0
	firstSemi := -1
	j := i - 1
scan:
	for ; j >= 0; j-- {
		t := raw[j]
		if t.cls != tokenizer.SpecialTokenClass {
			if depth == 0 && t.cls == tokenizer.ReservedTokenClass && semis > 0 && (t.s == "for" || t.s == "if" || t.s == "switch") {
				start = j
				firstSemi = -1
				break scan
			}
			continue
		}
		switch t.s {
		case ":":
			// "case x, y:" / "default:" / "Label:" end a clause head; what
			// follows is a statement of its own
			if depth == 0 && len(enclosing) == 0 {
				for k := j - 1; k >= 0 && k > j-16; k-- {
					u := raw[k]
					if isSpecial(u, ";") || isSpecial(u, "{") || isSpecial(u, "}") || isSpecial(u, "{}") {
						if k == j-2 && raw[j-1].cls == tokenizer.IdentifierTokenClass {
							start = j + 1
							firstSemi = -1
							break scan
						}
						break
					}
					if u.cls == tokenizer.ReservedTokenClass && (u.s == "case" || u.s == "default") {
						start = j + 1
						firstSemi = -1
						break scan
					}
				}
			}
		case ")", "]", "}":
			depth++
		case "{}":
		case "(", "[", "{":
			if depth > 0 {
				depth--
				continue
			}
			switch t.s {
			case "(":
				if j > 0 && (raw[j-1].cls == tokenizer.IdentifierTokenClass || raw[j-1].cls == tokenizer.TypeTokenClass || isSpecial(raw[j-1], ")") || isSpecial(raw[j-1], "]") || isSpecial(raw[j-1], "}")) {
					if j > 1 && raw[j-2].s == "func" || raw[j-1].s == "func" {
						enclosing = append(enclosing, "signature")
					} else {
						enclosing = append(enclosing, "call-args")
					}
				} else if j > 0 && (raw[j-1].s == "func") {
					enclosing = append(enclosing, "signature")
				} else if j > 0 && (raw[j-1].s == "import" || raw[j-1].s == "var" || raw[j-1].s == "const") {
					enclosing = append(enclosing, raw[j-1].s+"-group")
					start = j + 1
					break scan
				} else {
					enclosing = append(enclosing, "paren")
				}
			case "[":
				enclosing = append(enclosing, "bracket")
			case "{":
				if semis > 0 {
					// a "{" before a ";" we passed: that ";" ended the
					// previous statement of this block
					start = firstSemi + 1
					firstSemi = -1
					break scan
				}
				if braceIsComposite(raw, j, headerBrace(raw, j)) {
					enclosing = append(enclosing, "composite-literal")
				} else if j > 0 && (raw[j-1].s == "struct" || raw[j-1].s == "interface") {
					enclosing = append(enclosing, raw[j-1].s+"-type-body")
				} else {
					start = j + 1
					break scan
				}
			}
		case ";":
			if depth == 0 {
				semis++
				if firstSemi < 0 {
					firstSemi = j
				}
				if semis > 2 {
					start = firstSemi + 1
					firstSemi = -1
					break scan
				}
			}
		}
	}
	if j < 0 && firstSemi >= 0 {
		start = firstSemi + 1
	} else if firstSemi >= 0 && start <= firstSemi && !(raw[start].s == "for" || raw[start].s == "if" || raw[start].s == "switch") {
		start = firstSemi + 1
	}
	for start < len(raw) && isSpecial(raw[start], ";") {
		start++
	}
	if start > i {
		start = i
	}
	head := stmtKind(raw, start, i)
	// reverse enclosing (outermost first)
	for a, b := 0, len(enclosing)-1; a < b; a, b = a+1, b-1 {
		enclosing[a], enclosing[b] = enclosing[b], enclosing[a]
	}
	if len(enclosing) > 3 {
		enclosing = enclosing[len(enclosing)-3:]
	}
	if len(enclosing) == 0 {
		return head
	}
	return head + ">" + strings.Join(enclosing, ">")
}

// headerBrace reports whether the "{" at raw[j] sits at bracket depth 0 of an
// if/for/switch header (scanning back to the statement start).
func headerBrace(raw []tok, j int) bool {
	depth := 0
	for k := j - 1; k >= 0; k-- {
		t := raw[k]
		if t.cls == tokenizer.SpecialTokenClass {
			switch t.s {
			case ")", "]", "}":
				depth++
			case "(", "[", "{":
				if depth == 0 {
					return false
				}
				depth--
			}
			continue
		}
		if depth == 0 && t.cls == tokenizer.ReservedTokenClass && (t.s == "for" || t.s == "if" || t.s == "switch") {
			return true
		}
		if depth == 0 && t.cls == tokenizer.ReservedTokenClass && (t.s == "func" || t.s == "return" || t.s == "var" || t.s == "type") {
			return false
		}
	}
	return false
}

// stmtKind names the statement that starts at raw[start]; upto is the token of
// interest (used to tell a loop header from what follows).
func stmtKind(raw []tok, start, upto int) string {
	if start >= len(raw) {
		return "end"
	}
	h := raw[start]
	if h.cls == tokenizer.SpecialTokenClass && h.s == "@" {
		if start+1 < len(raw) {
			return "directive-" + raw[start+1].s
		}
		return "directive"
	}
	if h.cls == tokenizer.ReservedTokenClass || h.cls == tokenizer.TypeTokenClass || h.cls == tokenizer.IdentifierTokenClass {
		switch h.s {
		case "for":
			depth := 0
			for k := start + 1; k < len(raw); k++ {
				t := raw[k]
				if t.cls == tokenizer.SpecialTokenClass {
					switch t.s {
					case "(", "[":
						depth++
					case ")", "]":
						depth--
					}
				}
				if depth == 0 && t.s == "range" && t.cls != tokenizer.StringTokenClass {
					return "for-range-header"
				}
				if depth == 0 && (isSpecial(t, ";")) {
					return "for-clauses-header"
				}
				if depth == 0 && isSpecial(t, "{") && !braceIsComposite(raw, k, true) {
					break
				}
			}
			return "for-header"
		case "if":
			return "if-header"
		case "switch":
			return "switch-header"
		case "case", "default":
			return "case-clause"
		case "return", "defer", "go", "var", "const", "type", "import", "package", "break", "continue", "try", "throw", "panic", "print", "call", "exit", "fallthrough":
			return h.s
		case "func":
			if start+1 < len(raw) && isSpecial(raw[start+1], "(") {
				// method or function literal statement
				return "func"
			}
			return "func"
		case "else":
			return "else"
		}
	}
	if h.cls == tokenizer.IdentifierTokenClass && start+1 < len(raw) && isSpecial(raw[start+1], ":") {
		return "label"
	}
	// simple statement: look for an assignment operator at depth 0
	depth := 0
	for k := start; k < len(raw); k++ {
		t := raw[k]
		if t.cls != tokenizer.SpecialTokenClass {
			continue
		}
		switch t.s {
		case "(", "[", "{":
			depth++
		case ")", "]", "}":
			depth--
			if depth < 0 {
				return "expr-stmt"
			}
		case ";":
			if depth == 0 {
				return "expr-stmt"
			}
		case ":=":
			if depth == 0 {
				return "define"
			}
		case "=", "+=", "-=", "*=", "/=":
			if depth == 0 {
				return "assign"
			}
		case "++", "--":
			if depth == 0 {
				return "incdec"
			}
		case "<-":
			if depth == 0 && k > start {
				return "send"
			}
		}
	}
	return "expr-stmt"
}

// tokShape abstracts a token for a signature: names and literals by class,
// everything else by spelling.
func tokShape(t tok) string {
	switch t.cls {
	case tokenizer.IdentifierTokenClass:
		return "IDENT"
	case tokenizer.StringTokenClass:
		return "STRING"
	case tokenizer.IntegerTokenClass, tokenizer.FloatTokenClass, tokenizer.ValueTokenClass, tokenizer.ComplexTokenClass:
		return "NUMBER"
	case tokenizer.BooleanTokenClass:
		return "BOOL"
	case tokenizer.EndOfTokensClass:
		return "EOF"
	}
	return t.s
}

// describeDiff names where two sources differ as token streams: the construct
// in the first source and the two token shapes. Differences that consist of a
// statement separator present on one side only are passed over in favour of
// the first difference of another kind (a moved comment changes where the
// tokenizer inserts separators, which is rarely what breaks a program); when
// there is no other difference the first separator difference is named.
// equal is true only when the normalised streams are identical.
func describeDiff(a, b string) (construct, shapes string, equal bool) {
	ra, rb := rawTokens(a), rawTokens(b)
	na, nb := normTokens(ra), normTokens(rb)
	if firstDiff(na, nb) < 0 {
		return "", "", true
	}
	sepI, sepJ := -1, -1
	i, j := 0, 0
	for i < len(na) && j < len(nb) {
		if na[i].s == nb[j].s && na[i].cls == nb[j].cls {
			i++
			j++
			continue
		}
		// a separator between "}" and "{" splits a statement in two (a
		// literal in a header cut off from the body): that one matters
		if isSpecial(na[i], ";") && !(i > 0 && i+1 < len(na) && isSpecial(na[i-1], "}") && isSpecial(na[i+1], "{")) {
			if sepI < 0 {
				sepI, sepJ = i, j
			}
			i++
			continue
		}
		if isSpecial(nb[j], ";") && !(j > 0 && j+1 < len(nb) && isSpecial(nb[j-1], "}") && isSpecial(nb[j+1], "{")) {
			if sepI < 0 {
				sepI, sepJ = i, j
			}
			j++
			continue
		}
		break
	}
	for i < len(na) && isSpecial(na[i], ";") {
		i++
	}
	for j < len(nb) && isSpecial(nb[j], ";") {
		j++
	}
	if i >= len(na) && j >= len(nb) && sepI >= 0 {
		i, j = sepI, sepJ
	}
	sa, sb := "EOF", "EOF"
	rawIdx := len(ra) - 1
	if i < len(na) {
		sa = tokShape(na[i])
		rawIdx = na[i].raw
	}
	if j < len(nb) {
		sb = tokShape(nb[j])
	}
	return contextAt(ra, rawIdx), sa + "->" + sb, false
}

// scanFeatures lists constructs present in a source (for the label histogram
// of corpus cases and for the non-triviality rule).
func scanFeatures(raw []tok) (feats []string, composite bool) {
	set := map[string]bool{}
	for i, t := range raw {
		if t.cls == tokenizer.StringTokenClass {
			continue
		}
		switch t.s {
		case "for":
			if t.cls != tokenizer.ReservedTokenClass {
				continue
			}
			composite = true
			k := stmtKind(raw, i, i)
			set[strings.TrimSuffix(k, "-header")] = true
		case "if":
			composite = true
			set["if"] = true
		case "switch":
			composite = true
			set["switch"] = true
		case "try":
			composite = true
			set["try"] = true
		case "func":
			if i+1 < len(raw) && isSpecial(raw[i+1], "(") && (i == 0 || !(isSpecial(raw[i-1], ";") || isSpecial(raw[i-1], "}")) || true) {
				// literal or method; literal when not at statement start
				if i > 0 && !isSpecial(raw[i-1], ";") && !isSpecial(raw[i-1], "}") {
					composite = true
					set["func-literal"] = true
				}
			}
		case "defer", "go", "struct", "interface", "const", "var", "type", "import", "map", "chan", "fallthrough", "range", "else", "return", "break", "continue":
			set[t.s] = true
		case "@":
			if t.cls == tokenizer.SpecialTokenClass && i+1 < len(raw) {
				set["@"+raw[i+1].s] = true
			}
		}
	}
	for k := range set {
		feats = append(feats, k)
	}
	sort.Strings(feats)
	return feats, composite
}

// ---------------------------------------------------------------------------
// CLI
// ---------------------------------------------------------------------------

func egoBin() string {
	if b := os.Getenv("VERIF_BIN"); b != "" {
		return filepath.Join(b, "ego")
	}
	return filepath.Join(vkit.Root(), ".bin", "ego")
}

var scratchOnce sync.Once
var scratchDir string

func scratch() string {
	scratchOnce.Do(func() {
		base := os.Getenv("VERIF_RUN_DIR")
		if base == "" {
			base, _ = os.MkdirTemp("", "c05")
		}
		scratchDir = filepath.Join(base, fmt.Sprintf("c05-%d", os.Getpid()))
		_ = os.MkdirAll(filepath.Join(scratchDir, "home"), 0o755)
	})
	return scratchDir
}

type cliResult struct {
	Stdout, Stderr string
	Exit           int
	TimedOut       bool
	Err            string
}

// cli runs the ego binary with HOME and EGO_PATH in the scratch directory.
func cli(dir string, limit time.Duration, stdin string, args ...string) cliResult {
	ctx, cancel := context.WithTimeout(context.Background(), limit)
	defer cancel()
	cmd := exec.CommandContext(ctx, egoBin(), args...)
	cmd.Dir = dir
	// a test file may start child processes that keep the pipes open: kill
	// the whole group and do not wait for the pipes for ever
	cmd.SysProcAttr = &syscall.SysProcAttr{Setpgid: true}
	cmd.Cancel = func() error {
		if cmd.Process != nil {
			_ = syscall.Kill(-cmd.Process.Pid, syscall.SIGKILL)
		}
		return nil
	}
	cmd.WaitDelay = 3 * time.Second
	home := filepath.Join(scratch(), "home")
	cmd.Env = append(os.Environ(), "HOME="+home, "EGO_PATH="+home)
	var so, se bytes.Buffer
	cmd.Stdout, cmd.Stderr = &so, &se
	if stdin != "" {
		cmd.Stdin = strings.NewReader(stdin)
	}
	err := cmd.Run()
	r := cliResult{Stdout: so.String(), Stderr: se.String()}
	if ctx.Err() != nil {
		r.TimedOut = true
	}
	if err != nil {
		if ee, ok := err.(*exec.ExitError); ok {
			r.Exit = ee.ExitCode()
		} else {
			r.Err = err.Error()
		}
	}
	return r
}

func haveCLI() bool {
	if os.Getenv("C05_NOCLI") != "" {
		return false
	}
	_, err := os.Stat(egoBin())
	return err == nil
}

var dirSeq struct {
	sync.Mutex
	n int
}

func newDir() string {
	dirSeq.Lock()
	dirSeq.n++
	n := dirSeq.n
	dirSeq.Unlock()
	d := filepath.Join(scratch(), fmt.Sprintf("w%d", n))
	_ = os.MkdirAll(d, 0o755)
	return d
}

var reElapsed = regexp.MustCompile(`\)\s+[0-9.]+(ns|µs|ms|s|m[0-9.]+s)\s*$`)
var reCompleted = regexp.MustCompile(` in [0-9.µa-z]+$`)

// testOutcome reduces the output of `ego test FILE` to what the statement
// compares: the result line of every test (name, PASS/FAIL) without the elapsed
// time, the error lines without positions, the exit code.
func testOutcome(r cliResult) string {
	var b strings.Builder
	for _, l := range strings.Split(r.Stdout, "\n") {
		l = strings.TrimRight(l, " \t\r")
		if strings.HasPrefix(l, "TEST:") {
			l = reElapsed.ReplaceAllString(l, ")")
			l = reCompleted.ReplaceAllString(l, "")
		}
		b.WriteString(normMsg(l) + "\n")
	}
	b.WriteString("stderr:\n")
	for _, l := range strings.Split(r.Stderr, "\n") {
		b.WriteString(normMsg(strings.TrimRight(l, " \t\r")) + "\n")
	}
	fmt.Fprintf(&b, "exit=%d", r.Exit)
	return b.String()
}

type testMemo struct {
	sync.Mutex
	m map[string]string // hash of source -> outcome ("" + timeout flag)
}

var memo = testMemo{m: map[string]string{}}

func hashOf(s string) string {
	h := sha256.Sum256([]byte(s))
	return hex.EncodeToString(h[:8])
}

const cliTestLimit = 120 * time.Second

// cliTest runs `ego test` on one source (file name base) and returns the
// reduced outcome; "TIMEOUT" when the run did not finish.
func cliTest(src, base string, useMemo bool) string {
	k := hashOf(base + "\x00" + src)
	if useMemo {
		memo.Lock()
		v, ok := memo.m[k]
		memo.Unlock()
		if ok {
			return v
		}
	}
	d := newDir()
	defer os.RemoveAll(d)
	p := filepath.Join(d, base)
	_ = os.WriteFile(p, []byte(src), 0o644)
	t0 := time.Now()
	r := cli(d, cliTestLimit, "", "test", p)
	if !inPrefetch.Load() { // prefetch accounts for its own wall time
		corpusCLI.Lock()
		corpusCLI.spent += time.Since(t0)
		corpusCLI.Unlock()
	}
	v := testOutcome(r)
	if r.TimedOut {
		v = "TIMEOUT"
	}
	if r.Err != "" {
		v = "CLI-ERROR " + r.Err
	}
	memo.Lock()
	memo.m[k] = v
	memo.Unlock()
	return v
}

// The number of corpus files that are run through `ego test`, and the time
// spent on it, are bounded: on the unchanged tree about a dozen files need it
// (0.3 s each); a tree on which most files change would otherwise spend the
// whole budget here. A file beyond the bound is inconclusive, never a
// violation.
const (
	corpusCLIMaxFiles = 40
	corpusCLIMaxTime  = 300 * time.Second
)

var inPrefetch atomic.Bool

var corpusCLI struct {
	sync.Mutex
	files map[string]bool
	spent time.Duration
}

func corpusCLIAllowed(src string) bool {
	corpusCLI.Lock()
	defer corpusCLI.Unlock()
	if corpusCLI.files == nil {
		corpusCLI.files = map[string]bool{}
	}
	k := hashOf(src)
	if corpusCLI.files[k] {
		return true
	}
	if len(corpusCLI.files) >= corpusCLIMaxFiles || corpusCLI.spent > corpusCLIMaxTime {
		return false
	}
	corpusCLI.files[k] = true
	return true
}

// prefetch warms the memo for the corpus test files in parallel (pure
// optimisation: cliTest computes the same thing on a miss).
func prefetch(cases []Case) {
	if !haveCLI() {
		return
	}
	type job struct{ src, base string }
	var jobs []job
	for _, c := range cases {
		if c.Kind != "corpus-test" {
			continue
		}
		out, err := fmtSrc(c.Src, c.Kind)
		if err != nil {
			continue
		}
		// only the files whose token stream changes are run at all
		if _, _, same := describeDiff(c.Src, out); same {
			continue
		}
		if !corpusCLIAllowed(c.Src) {
			continue
		}
		jobs = append(jobs, job{c.Src, filepath.Base(c.Name)}, job{out, filepath.Base(c.Name)})
	}
	t0 := time.Now()
	inPrefetch.Store(true)
	defer func() {
		inPrefetch.Store(false)
		corpusCLI.Lock()
		corpusCLI.spent += time.Since(t0)
		corpusCLI.Unlock()
	}()
	ch := make(chan job)
	var wg sync.WaitGroup
	for w := 0; w < 8; w++ {
		wg.Add(1)
		go func() {
			defer wg.Done()
			for j := range ch {
				cliTest(j.src, j.base, true)
			}
		}()
	}
	for _, j := range jobs {
		ch <- j
	}
	close(ch)
	wg.Wait()
}

// cliConfirm reproduces a failure with the ego binary and returns a note. ok
// is false when the CLI contradicts the in-process observation.
func cliConfirm(c Case, relation string) (note string, ok bool) {
	if !haveCLI() {
		return "cli: binary not available, not confirmed", true
	}
	d := newDir()
	defer os.RemoveAll(d)
	name := "case.ego"
	p := filepath.Join(d, name)
	_ = os.WriteFile(p, []byte(c.Src), 0o644)
	args := []string{"fmt"}
	if c.Kind == "fragment" {
		args = append(args, "--fragment")
	}
	r1 := cli(d, 45*time.Second, "", append(args, p)...)
	if r1.TimedOut || r1.Err != "" {
		return "cli: could not run ego fmt (" + r1.Err + ")", true
	}
	if relation == "format-error" {
		if r1.Exit != 0 {
			return "cli: `ego fmt` also fails: " + clipS(strings.TrimSpace(r1.Stderr+r1.Stdout), 200), true
		}
		return "cli: `ego fmt` succeeded (NOT reproduced)", false
	}
	if r1.Exit != 0 {
		return "cli: `ego fmt` failed: " + clipS(strings.TrimSpace(r1.Stderr+r1.Stdout), 200), false
	}
	out1 := r1.Stdout
	p2 := filepath.Join(d, "formatted.ego")
	_ = os.WriteFile(p2, []byte(out1), 0o644)
	switch relation {
	case "idempotence":
		r2 := cli(d, 60*time.Second, "", append(args, p2)...)
		if r2.Exit != 0 {
			return "cli: second `ego fmt` fails: " + clipS(strings.TrimSpace(r2.Stderr), 200), true
		}
		if r2.Stdout != out1 {
			return "cli: `ego fmt` of its own output differs (confirmed)", true
		}
		return "cli: second `ego fmt` gives identical text (NOT reproduced)", false
	case "comment-lost":
		if missing := missingComments(commentsOf(c.Src), commentsOf(out1)); len(missing) > 0 {
			return fmt.Sprintf("cli: `ego fmt` output lacks %d comment(s) (confirmed)", len(missing)), true
		}
		return "cli: all comments present in `ego fmt` output (NOT reproduced)", false
	case "not-compiling", "behaviour":
		var a, b string
		switch c.Kind {
		case "program":
			ra := cli(d, 60*time.Second, "", "run", p)
			rb := cli(d, 60*time.Second, "", "run", p2)
			if ra.TimedOut || rb.TimedOut {
				return "cli: run timed out", true
			}
			a = normMsg(stripFrames(ra.Stdout+"\n--\n"+ra.Stderr, name)) + fmt.Sprint(ra.Exit)
			b = normMsg(stripFrames(rb.Stdout+"\n--\n"+rb.Stderr, "formatted.ego")) + fmt.Sprint(rb.Exit)
		case "fragment":
			a = cliTest("@test \"c05 fragment\"\n"+c.Src, "frag.ego", false)
			b = cliTest("@test \"c05 fragment\"\n"+out1, "frag.ego", false)
		default:
			return "cli: formatted with `ego fmt`", true
		}
		if a != b {
			return "cli: `ego run`/`ego test` of original and of `ego fmt` output differ (confirmed)", true
		}
		return "cli: original and `ego fmt` output behave the same (NOT reproduced)", false
	}
	return "", true
}

var reFrame = regexp.MustCompile(`(?m)^\s+at: .*$`)

func stripFrames(s, name string) string {
	s = reFrame.ReplaceAllString(s, "  at: FRAME")
	return strings.ReplaceAll(s, name, "FILE")
}

func clipS(s string, n int) string {
	if len(s) > n {
		return s[:n] + "…"
	}
	return s
}

// ---------------------------------------------------------------------------
// oracle
// ---------------------------------------------------------------------------

func missingComments(orig, out []string) []string {
	have := map[string]int{}
	for _, c := range out {
		have[c]++
	}
	var missing []string
	for _, c := range orig {
		if have[c] > 0 {
			have[c]--
		} else {
			missing = append(missing, c)
		}
	}
	return missing
}

var confirm struct {
	sync.Mutex
	n     map[string]int
	spent time.Duration
}

const cliBudget = 90 * time.Second

// finding is one violated relation of one case.
type finding struct {
	relation string // format-error | not-compiling | behaviour | idempotence | comment-lost
	where    string // canonical construct (see canonical)
	observed string
	expected string
}

func (f finding) sig() string { return f.relation + " " + f.where }

// canonical reduces a located difference to the name of the construct region
// that the root cause lives in. ctx is contextAt's description, shapes the two
// differing token shapes ("a->b"), detail an error kind.
func canonical(ctx, shapes, detail string) string {
	return strings.TrimSpace(canonical1(ctx, shapes, detail))
}

func canonical1(ctx, shapes, detail string) string {
	if shapes == "-->--" {
		return "unary-minus-twice"
	}
	header := strings.Contains(ctx, "-header") || strings.HasPrefix(ctx, "label")
	switch {
	case header && (strings.Contains(ctx, "composite-literal") || strings.HasPrefix(shapes, "{->")):
		// "for _, v := range []int{1, 2} {", "switch []int{1}[0] {", ...
		return "composite-literal-in-control-header"
	case strings.Contains(ctx, "struct-type-body") || strings.Contains(ctx, "interface-type-body"):
		return "struct-type-body " + detailOrShapes(shapes, detail)
	case strings.HasSuffix(ctx, "composite-literal"):
		return "composite-literal-body " + detailOrShapes(shapes, detail)
	case strings.HasSuffix(ctx, "-group"):
		return ctx[strings.LastIndex(ctx, ">")+1:] + " " + detailOrShapes(shapes, detail)
	}
	return strings.TrimSpace(ctx + " " + detailOrShapes(shapes, detail))
}

// detailOrShapes keeps of a token difference "a->b" only the token of the
// original ("at a"); the error kind of a parse error is not part of a
// signature (one misparse surfaces as several kinds of error).
func detailOrShapes(shapes, detail string) string {
	if detail != "" {
		return ""
	}
	if i := strings.Index(shapes, "->"); i > 0 {
		return "at " + shapes[:i]
	}
	return shapes
}

var knownOnce sync.Once
var knownSigs map[string]bool

// known returns the signatures listed for C05 in the known-findings file vkit
// uses (VERIF_KNOWN or /verif/known_findings.json). The oracle needs them only
// to choose which of several violated relations of one case to report: one that
// is not listed yet, so that the search continues behind recorded findings.
func known() map[string]bool {
	knownOnce.Do(func() {
		knownSigs = map[string]bool{}
		p := os.Getenv("VERIF_KNOWN")
		if p == "" {
			p = filepath.Join(vkit.Root(), "known_findings.json")
		}
		b, err := os.ReadFile(p)
		if err != nil {
			return
		}
		var kf struct {
			Findings []struct {
				Property string `json:"property"`
				Sig      string `json:"sig"`
			} `json:"findings"`
		}
		if json.Unmarshal(b, &kf) == nil {
			for _, k := range kf.Findings {
				if k.Property == "C05" {
					knownSigs[k.Sig] = true
				}
			}
		}
	})
	return knownSigs
}

// finish turns the violated relations of a case into the outcome: the first
// one whose signature is not a recorded finding (else the first), confirmed
// with the ego binary the first two times its signature is seen.
func finish(c Case, out *vkit.Outcome, fs []finding) {
	if len(fs) == 0 {
		return
	}
	for _, f := range fs {
		out.Labels = append(out.Labels, "violates:"+f.relation)
	}
	pick := fs[0]
	for _, f := range fs {
		if !known()[f.sig()] {
			pick = f
			break
		}
	}
	sig := pick.sig()
	note := ""
	confirm.Lock()
	if confirm.n == nil {
		confirm.n = map[string]int{}
	}
	confirm.n[sig]++
	// the binary is asked once per signature, and only while the time spent
	// asking it stays small (a loaded machine must not turn the double check
	// into the bulk of the run)
	first := confirm.n[sig] <= 1 && confirm.spent < cliBudget
	confirm.Unlock()
	if first && !(pick.relation == "behaviour" && strings.HasPrefix(c.Kind, "corpus")) {
		t0 := time.Now()
		n, ok := cliConfirm(c, pick.relation)
		confirm.Lock()
		confirm.spent += time.Since(t0)
		confirm.Unlock()
		note = "\n" + n
		if !ok {
			// the CLI disagrees with the in-process observation: that is a
			// harness problem, not a property violation
			out.Inconclusive = "cli-disagrees " + sig
			out.Labels = append(out.Labels, "cli-disagrees")
			return
		}
	}
	out.Fail = &vkit.Failure{Sig: sig, Observed: pick.observed + note, Expected: pick.expected}
}

// A composite literal prints as "[]int{...}"; "[]int {" (with a blank) at the
// end of a for/if/switch line is a literal type followed by a block: the sign
// of a header whose literal was cut off from the body (proposed/C05-1).
var reCutOffHeader = regexp.MustCompile(`(?m)^\s*(\w+:\s*)?(for|if|switch|\})[^\n]*(\][\w.]+|\bstruct) \{\}?\s*(//[^\n]*|/\*[^\n]*)?$`)

func hasCutOffHeader(formatted string) bool {
	for _, m := range reCutOffHeader.FindAllString(formatted, -1) {
		if !strings.Contains(m, "func") {
			return true
		}
	}
	return false
}

var reMinusMinus = regexp.MustCompile(`-\s+-`)

// attribute replaces an unspecific construct name by the name of a defect
// whose unmistakable trace is in the formatted text (the first token
// difference is not always the one that matters).
func attribute(where, src, formatted, compileErr string) string {
	switch {
	case strings.HasPrefix(where, "composite-literal-in-control-header"), where == "unary-minus-twice",
		strings.HasPrefix(where, "struct-type-body"), strings.HasPrefix(where, "composite-literal-body"):
		return where
	case strings.Contains(compileErr, `Special "--"`) && reMinusMinus.MatchString(src):
		return "unary-minus-twice"
	case hasCutOffHeader(formatted) && !hasCutOffHeader(src):
		return "composite-literal-in-control-header"
	}
	return where
}

var reUnterminated = regexp.MustCompile("(?m)//[^\n]*[;:,.{`]\\s*\n(\\s*\n)*\\s*\\{")

// hasEmptyStmt reports whether the "{}" token occurs where a statement starts.
func hasEmptyStmt(raw []tok) bool {
	for i, t := range raw {
		if !isSpecial(t, "{}") {
			continue
		}
		if i == 0 || raw[i-1].line < t.line || isSpecial(raw[i-1], ";") || isSpecial(raw[i-1], "{") || isSpecial(raw[i-1], "}") || isSpecial(raw[i-1], ":") {
			return true
		}
	}
	return false
}

// whereCompileError improves the construct name of a "does not compile"
// failure: the first token difference may be a harmless one in front of the
// real one, so the statement the compiler complains about in the formatted
// text is looked at as well; when it is a control-flow header with a literal in
// it (the way a cut-off header looks), that is the name.
func whereCompileError(where, formatted, compileErr string) string {
	m := reLineNo.FindStringSubmatch(compileErr)
	if m == nil {
		return where
	}
	var l int
	fmt.Sscan(m[1], &l)
	raw := rawTokens(formatted)
	for _, line := range []int{l, l - 1, l - 2, l - 3, l - 4} {
		if line < 1 {
			break
		}
		if c := classifyLines(raw, line, line, ""); c == "composite-literal-in-control-header" {
			return c
		}
	}
	return where
}

var reBlankWithSpaces = regexp.MustCompile(`(?m)^[ \t]+$`)

var reLineNo = regexp.MustCompile(`line (\d+)`)

const runLimitMin = 20 * time.Second

var rePos = regexp.MustCompile(`line (\d+):(\d+)`)

func oracle(c Case) vkit.Outcome {
	var out vkit.Outcome
	out.Key = c.Kind + ":" + hashOf(c.Src)
	raw := rawTokens(c.Src)
	feats, composite := scanFeatures(raw)
	if len(c.Feat) > 0 {
		feats = c.Feat
	}
	comments := commentsOf(c.Src)
	out.NonTrivial = len(comments) >= 1 && composite
	out.Labels = append(out.Labels, "kind="+c.Kind)
	for _, f := range feats {
		out.Labels = append(out.Labels, "has:"+f)
	}
	if hungCount() >= maxHung {
		out.Inconclusive = "too many abandoned executions in this process"
		return out
	}

	// (0) the compiler accepts the original; its behaviour
	var r0 runResult
	mode := "run"
	switch c.Kind {
	case "program":
		r0 = execEgo(c.Src, "run", true, runLimitMin)
	case "fragment":
		mode = "test"
		r0 = execEgo(c.Src, "test", true, runLimitMin)
	case "corpus-test":
		mode = "test"
		r0 = execEgo(c.Src, "test", false, 0)
	case "corpus-file":
		r0 = execEgo(c.Src, "run", false, 0)
	default:
		out.Skip = "unknown kind"
		return out
	}
	if r0.CompileErr != "" || (r0.GoPanic != "" && strings.HasPrefix(c.Kind, "corpus")) {
		out.Skip = "compiler rejects original (" + c.Kind + ")"
		return out
	}
	if r0.TimedOut || r0.Hung {
		out.Skip = "original does not terminate"
		return out
	}
	if c.Kind == "program" || c.Kind == "fragment" {
		r0b := execEgo(c.Src, mode, true, runLimitMin)
		if outcomeOf(r0) != outcomeOf(r0b) {
			out.Skip = "original is not deterministic"
			return out
		}
		if r0.RunErr != "" || r0.GoPanic != "" {
			out.Labels = append(out.Labels, "original ends in error")
		} else {
			out.Labels = append(out.Labels, "original runs clean")
		}
	}

	var fs []finding
	add := func(relation, where, observed, expected string) {
		fs = append(fs, finding{relation, where, observed, expected})
	}

	// (1) formatting succeeds
	f1, err := fmtSrc(c.Src, c.Kind)
	if err != nil {
		ctx := "unlocated"
		msg := err.Error()
		if m := rePos.FindStringSubmatch(msg); m != nil {
			var l, col int
			fmt.Sscan(m[1], &l)
			fmt.Sscan(m[2], &col)
			ctx = contextAt(raw, tokenAt(c.Src, raw, l, col))
		}
		// "at line N:M, missing term: ;" -> "missing term at ;"
		what := strings.TrimPrefix(reLine.ReplaceAllString(msg, "line N"), "at line N, ")
		if i := strings.Index(what, ": "); i > 0 {
			tokText := strings.TrimSpace(what[i+2:])
			what = what[:i]
			if tokText == ";" {
				what += " at separator"
			}
		}
		if strings.HasPrefix(msg, "go panic") {
			what = "go panic " + msg[strings.LastIndex(msg, " at ")+1:]
		}
		where := canonical(ctx, "", what)
		if from, to := locateParseFailure(c.Src, raw); from > 0 {
			where = classifyLines(raw, from, to, what)
			if where == "expr-stmt" || where == "unlocated" {
				// a line inside a bracketed construct: name the construct
				for i, t := range raw {
					if t.line >= from && !isSpecial(t, ";") {
						if c2 := contextAt(raw, i); strings.Contains(c2, "composite-literal") {
							where = canonical(c2, "", what)
						}
						break
					}
				}
			}
		}
		switch where {
		case "composite-literal-in-control-header", "struct-type-body":
		default:
			if reUnterminated.MatchString(c.Src) {
				// "x := y // note:" + "{": the comment keeps the tokenizer from
				// ending the statement, and "y {" reads as a literal
				where = "block-after-comment-ending-in-continuation-character"
			}
		}
		add("format-error", where, "format error: "+msg, "formatting succeeds on a source the compiler accepts")
		finish(c, &out, fs)
		return out
	}

	ctx, shapes, sameToks := describeDiff(c.Src, f1)
	if sameToks {
		out.Labels = append(out.Labels, "tokens unchanged")
	} else {
		out.Labels = append(out.Labels, "tokens changed")
	}
	where := canonical(ctx, shapes, "")

	// (2) the result compiles, (3) behaves the same
	switch c.Kind {
	case "program", "fragment":
		limit := runLimitMin
		if l := r0.Elapsed * 2000; l > limit {
			limit = l
		}
		r1 := execEgo(f1, mode, true, limit)
		switch {
		case r1.Hung:
			add("not-compiling", where+" (does not return)", fmt.Sprintf("original compiled and ran in %v; formatted source did not return after %v and ignores interrupts\nformatted:\n%s", r0.Elapsed, limit, f1), "the formatted file compiles and behaves the same")
		case r1.CompileErr != "":
			add("not-compiling", attribute(whereCompileError(where, f1, r1.CompileErr), c.Src, f1, r1.CompileErr), "formatted source does not compile: "+r1.CompileErr+"\nformatted:\n"+f1, "the formatted file compiles")
		case r1.TimedOut:
			add("behaviour", where+" (nontermination)", fmt.Sprintf("original finished in %v, formatted source still running after %v\nformatted:\n%s", r0.Elapsed, limit, f1), "same output and outcome")
		default:
			if a, b := outcomeOf(r0), outcomeOf(r1); a != b {
				add("behaviour", attribute(where, c.Src, f1, ""), "original:\n"+clipS(a, 600)+"\nformatted run:\n"+clipS(b, 600)+"\nformatted source:\n"+f1, "same output and outcome")
			}
		}
	case "corpus-test":
		r1 := execEgo(f1, "test", false, 0)
		if r1.CompileErr != "" || r1.GoPanic != "" || r1.Hung {
			add("not-compiling", whereCompileError(where, f1, r1.CompileErr), "formatted source does not compile: "+r1.CompileErr+r1.GoPanic, "the formatted file compiles")
		} else if sameToks {
			out.Labels = append(out.Labels, "corpus: same program (tokens identical)")
		} else if !haveCLI() {
			out.Inconclusive = "corpus-test: ego binary not available"
		} else if !corpusCLIAllowed(c.Src) {
			out.Inconclusive = "corpus-test: not run (more than the allowed number of files or seconds of `ego test` runs)"
		} else {
			base := filepath.Base(c.Name)
			a, b := cliTest(c.Src, base, true), cliTest(f1, base, true)
			// a test that depends on time, network or scheduling may differ
			// between two runs of the same file: only a difference that shows
			// again, in the same way, in two further pairs of runs counts
			unstable := false
			for i := 0; a != b && i < 2 && !unstable; i++ {
				var a2, b2 string
				var wg sync.WaitGroup
				wg.Add(2)
				go func() { defer wg.Done(); a2 = cliTest(c.Src, base, false) }()
				go func() { defer wg.Done(); b2 = cliTest(f1, base, false) }()
				wg.Wait()
				if a2 == b2 || a2 != a || b2 != b {
					unstable = true
				}
			}
			switch {
			case unstable:
				out.Inconclusive = "corpus-test: results of `ego test` vary between runs of the same file"
			case a == "TIMEOUT" || b == "TIMEOUT" || strings.HasPrefix(a, "CLI-ERROR") || strings.HasPrefix(b, "CLI-ERROR"):
				out.Inconclusive = "corpus-test: cli run did not finish"
			case a != b:
				add("behaviour", attribute(where, c.Src, f1, ""), "`ego test` of original and of formatted file differ:\n"+clipS(diffLines(a, b), 1200), "same result lines from `ego test`")
			default:
				out.Labels = append(out.Labels, "corpus: compared with ego test")
			}
		}
	case "corpus-file":
		r1 := execEgo(f1, "run", false, 0)
		if r1.CompileErr != "" || r1.GoPanic != "" || r1.Hung {
			add("not-compiling", whereCompileError(where, f1, r1.CompileErr), "formatted source does not compile: "+r1.CompileErr+r1.GoPanic, "the formatted file compiles")
		} else if sameToks {
			out.Labels = append(out.Labels, "corpus: same program (tokens identical)")
		} else {
			out.Inconclusive = "corpus-file: tokens differ and file is not executed (" + where + ")"
		}
	}

	// (4) idempotence
	f2, err := fmtSrc(f1, c.Kind)
	if len(fs) > 0 && fs[len(fs)-1].relation == "not-compiling" {
		// the output is not valid source (already recorded); how it formats a
		// second time says nothing new
	} else if err != nil {
		add("idempotence", "reformat-error "+where, "formatting the formatted text fails: "+err.Error()+"\nformatted:\n"+f1, "fmt(fmt(x)) == fmt(x)")
	} else if f2 != f1 {
		what := describeTextDiff(f1, f2)
		if what != "comment-indentation" && what != "trailing-comment-moves" && hasCutOffHeader(f1) && !hasCutOffHeader(c.Src) {
			what = "tokens composite-literal-in-control-header"
		} else if what != "comment-indentation" && what != "trailing-comment-moves" && hasEmptyStmt(raw) {
			// an empty statement prints as nothing on a line of its own (an
			// empty line at the top level, a comment attached to nothing, ...)
			what = "whitespace-only-line"
		}
		add("idempotence", what, "fmt(fmt(x)) != fmt(x):\n"+clipS(diffLines(f1, f2), 1200), "fmt(fmt(x)) == fmt(x)")
	}

	// (5) comments
	if missing := missingComments(comments, commentsOf(f1)); len(missing) > 0 {
		add("comment-lost", describeLostComment(c.Src, raw, missing[0]), fmt.Sprintf("%d comment(s) missing from the output, first: %q\nformatted:\n%s", len(missing), missing[0], f1), "every comment of the original appears in the output")
	}
	finish(c, &out, fs)
	return out
}

var reStringLit = regexp.MustCompile("\"(\\\\.|[^\"\\\\])*\"|`[^`]*`")
var reInlineComment = regexp.MustCompile(`/\*.*?\*/|//.*$`)
var reLabelLine = regexp.MustCompile(`^[A-Za-z_][A-Za-z_0-9]*:$`)

// locateParseFailure narrows a format (parse) error down to the smallest
// statement (a bracket-balanced group of lines) that the formatter's parser
// rejects on its own, descending through function bodies and the blocks of
// control-flow statements; parser errors are often reported far behind the
// construct that derailed the parse. It returns the first and last line
// (1-based) of that statement, or 0, 0. Only the formatter's parser is
// consulted; this is a naming aid for signatures.
func locateParseFailure(src string, raw []tok) (int, int) {
	lines := strings.Split(src, "\n")
	// multi-line comments are taken out: their inner lines are not statements
	for _, rc := range rawCommentsOf(src) {
		if n := strings.Count(rc.text, "\n"); n > 0 && rc.block {
			for l := rc.line; l <= rc.line+n && l <= len(lines); l++ {
				if l == rc.line {
					if i := strings.Index(lines[l-1], "/*"); i >= 0 {
						lines[l-1] = lines[l-1][:i]
					}
				} else if l == rc.line+n {
					if i := strings.Index(lines[l-1], "*/"); i >= 0 {
						lines[l-1] = lines[l-1][i+2:]
					}
				} else {
					lines[l-1] = ""
				}
			}
		}
	}
	delta := make([]int, len(lines)+2)
	lastOpen := make([]int, len(lines)+2) // raw index of the last "{" on the line, or -1
	for i := range lastOpen {
		lastOpen[i] = -1
	}
	crushed := map[int][]int{}
	for i, t := range raw {
		if t.line < 1 || t.line > len(lines) || t.cls != tokenizer.SpecialTokenClass {
			continue
		}
		switch t.s {
		case "{":
			delta[t.line]++
			lastOpen[t.line] = i
		case "{}":
			crushed[t.line] = append(crushed[t.line], i)
		case "(", "[":
			delta[t.line]++
		case "}", ")", "]":
			delta[t.line]--
		}
	}
	// "{" and "}" on different lines are one "{}" token too; it carries the
	// line of one of the two. Those are the "{}" tokens of a line beyond the
	// number of "{}" the line shows.
	code := func(l int) string {
		return strings.TrimSpace(reInlineComment.ReplaceAllString(reStringLit.ReplaceAllString(lines[l-1], `""`), ""))
	}
	for l, idx := range crushed {
		extra := len(idx) - strings.Count(code(l), "{}")
		for n := 0; n < extra; n++ {
			if strings.HasPrefix(code(l), "}") && n == 0 {
				for m := l - 1; m >= 1; m-- {
					if strings.HasSuffix(code(m), "{") {
						delta[m]++
						delta[l]--
						lastOpen[m] = idx[0]
						break
					}
				}
			} else {
				for m := l + 1; m <= len(lines); m++ {
					if strings.HasPrefix(code(m), "}") {
						delta[l]++
						delta[m]--
						lastOpen[l] = idx[len(idx)-1]
						break
					}
				}
			}
		}
	}
	fails := func(sel []int) bool {
		var b strings.Builder
		for _, l := range sel {
			b.WriteString(lines[l-1] + "\n")
		}
		_, err := fmtSrc(b.String(), "fragment")
		return err != nil
	}
	span := func(from, to int) []int {
		var sel []int
		for l := from; l <= to; l++ {
			sel = append(sel, l)
		}
		return sel
	}
	isSeparator := func(l int) bool {
		t := code(l)
		return strings.HasPrefix(t, "case ") || strings.HasPrefix(t, "default:") || strings.HasPrefix(t, "} else") || strings.HasPrefix(t, "} catch")
	}
	lo, hi := 1, len(lines)
	if !fails(span(lo, hi)) {
		return 0, 0
	}
	for guard := 0; guard < 16; guard++ {
		// the statements of the region lo..hi: balanced groups of lines, not
		// counting the lines that only separate the blocks of one statement
		type group struct{ from, to int }
		var groups []group
		d, start := 0, -1
		for l := lo; l <= hi; l++ {
			if d == 0 && isSeparator(l) && guard > 0 {
				start = -1
				continue
			}
			if start < 0 {
				start = l
			}
			d += delta[l]
			if d <= 0 {
				if t := strings.TrimSpace(reInlineComment.ReplaceAllString(lines[l-1], "")); start == l && reLabelLine.MatchString(t) {
					continue // a label: part of the loop that follows
				}
				groups = append(groups, group{start, l})
				start, d = -1, 0
			}
		}
		if start > 0 {
			groups = append(groups, group{start, hi})
		}
		var culprit *group
		for i := range groups {
			g := groups[i]
			if g.from == lo && g.to == hi && guard == 0 {
				continue
			}
			if strings.TrimSpace(strings.Join(lines[g.from-1:g.to], "")) == "" {
				continue
			}
			if fails(span(g.from, g.to)) {
				culprit = &groups[i]
				break
			}
		}
		if culprit == nil {
			if guard == 0 {
				// the whole file fails but no top-level group does
				return lo, hi
			}
			return lo - 1, hi + 1 // the statement whose inside we were looking at
		}
		lo, hi = culprit.from, culprit.to
		// descend only into a statement block: first line ends in a "{" that
		// opens a block, last line closes it
		if hi-lo < 2 || lastOpen[lo] < 0 || braceIsComposite(raw, lastOpen[lo], false) && !strings.HasPrefix(code(lo), "func") {
			return lo, hi
		}
		first := code(lo)
		if !strings.HasSuffix(first, "{") {
			return lo, hi
		}
		if strings.HasPrefix(first, "type ") || strings.HasPrefix(first, "const") || strings.HasPrefix(first, "var") || strings.HasPrefix(first, "import") {
			return lo, hi
		}
		// does the statement fail because of its inside?
		var inner []int
		for l := lo + 1; l < hi; l++ {
			if !isSeparator(l) {
				inner = append(inner, l)
			}
		}
		if len(inner) == 0 || !fails(inner) {
			return lo, hi
		}
		lo, hi = lo+1, hi-1
	}
	return lo, hi
}

// headerHasComposite reports whether a composite literal occurs in the
// control-flow header that starts at raw[first] (before the "{" of its body).
func headerHasComposite(raw []tok, first, last int) bool {
	depth := 0
	for k := first + 1; k <= last && k < len(raw); k++ {
		t := raw[k]
		if t.cls != tokenizer.SpecialTokenClass {
			continue
		}
		switch t.s {
		case "(", "[":
			depth++
		case ")", "]":
			depth--
		case "{}":
			if braceIsComposite(raw, k, depth == 0) {
				return true
			}
			if depth == 0 {
				return false
			}
		case "{":
			if braceIsComposite(raw, k, depth == 0) {
				return true
			}
			if isFuncLiteralBody(raw, k) {
				// skip the body of a function literal in the header
				d := 0
				for ; k <= last && k < len(raw); k++ {
					if isSpecial(raw[k], "{") {
						d++
					} else if isSpecial(raw[k], "}") {
						d--
						if d == 0 {
							break
						}
					}
				}
				continue
			}
			if depth == 0 {
				return false
			}
		}
	}
	return false
}

// isFuncLiteralBody: the "{" at raw[k] opens the body of "func(...) T {".
func isFuncLiteralBody(raw []tok, k int) bool {
	for j := k - 1; j >= 0 && j > k-24; j-- {
		if isSpecial(raw[j], ";") || isSpecial(raw[j], "{") || isSpecial(raw[j], "}") {
			return false
		}
		if raw[j].s == "func" && raw[j].cls != tokenizer.StringTokenClass {
			return j+1 < len(raw) && isSpecial(raw[j+1], "(")
		}
	}
	return false
}

// classifyLines names the construct of a group of lines that fails to parse.
func classifyLines(raw []tok, from, to int, detail string) string {
	first, last := -1, -1
	for i, t := range raw {
		if t.line >= from && t.line <= to && t.cls != tokenizer.EndOfTokensClass {
			if first < 0 {
				first = i
			}
			last = i
		}
	}
	if first < 0 {
		return "unlocated"
	}
	for first < last && isSpecial(raw[first], ";") {
		first++
	}
	// a label in front of a loop
	if raw[first].cls == tokenizer.IdentifierTokenClass && first+1 <= last && isSpecial(raw[first+1], ":") {
		first += 2
		for first < last && isSpecial(raw[first], ";") {
			first++
		}
	}
	kind := stmtKind(raw, first, first)
	if kind == "if-header" {
		// an if / else-if chain: the header of any of its links may be the one
		for k := first + 1; k+1 <= last; k++ {
			if raw[k].s == "else" && raw[k].cls == tokenizer.ReservedTokenClass && raw[k+1].s == "if" {
				if headerHasComposite(raw, k+1, last) {
					return "composite-literal-in-control-header"
				}
			}
		}
	}
	if strings.HasSuffix(kind, "-header") {
		if headerHasComposite(raw, first, last) {
			return "composite-literal-in-control-header"
		}
		for k := first + 1; k <= last; k++ {
			if raw[k].cls == tokenizer.ReservedTokenClass && (raw[k].s == "for" || raw[k].s == "if" || raw[k].s == "switch") && headerHasComposite(raw, k, last) {
				return "composite-literal-in-control-header"
			}
		}
		for k := first; k <= last; k++ {
			if isSpecial(raw[k], "{") && braceIsComposite(raw, k, false) && k+1 <= last && raw[k+1].line > raw[k].line {
				return "composite-literal-body"
			}
		}
		return kind
	}
	if kind == "type" {
		for k := first; k <= last; k++ {
			if raw[k].s == "struct" || raw[k].s == "interface" {
				return "struct-type-body"
			}
		}
	}
	// a composite literal that spans lines
	for k := first; k <= last; k++ {
		if isSpecial(raw[k], "{") && braceIsComposite(raw, k, false) && k+1 <= last && raw[k+1].line > raw[k].line {
			return "composite-literal-body"
		}
	}
	// the statement could not be narrowed further: name it after a construct
	// inside it that is known to derail the parser, if there is one
	for k := first + 1; k <= last; k++ {
		if raw[k].cls == tokenizer.ReservedTokenClass && (raw[k].s == "for" || raw[k].s == "if" || raw[k].s == "switch") && headerHasComposite(raw, k, last) {
			return "composite-literal-in-control-header"
		}
	}
	return kind
}

// tokenAt finds the raw token at or after (line, col).
func tokenAt(src string, raw []tok, line, col int) int {
	t := tokenizer.New(src, true)
	for i, k := range t.Tokens {
		l, c := k.Location()
		if l > line || (l == line && c >= col) {
			return i
		}
	}
	return len(raw) - 1
}

// diffLines shows the first differing lines of two texts.
func diffLines(a, b string) string {
	la, lb := strings.Split(a, "\n"), strings.Split(b, "\n")
	var sb strings.Builder
	n := 0
	for i := 0; i < len(la) || i < len(lb); i++ {
		var x, y string
		if i < len(la) {
			x = la[i]
		}
		if i < len(lb) {
			y = lb[i]
		}
		if x != y {
			fmt.Fprintf(&sb, "line %d:\n  - %q\n  + %q\n", i+1, x, y)
			n++
			if n >= 6 {
				break
			}
		}
	}
	return sb.String()
}

// describeTextDiff names how fmt(fmt(x)) differs from fmt(x).
func describeTextDiff(f1, f2 string) string {
	ctx, shapes, same := describeDiff(f1, f2)
	c1, c2 := commentsOf(f1), commentsOf(f2)
	if strings.Join(c1, "\x00") != strings.Join(c2, "\x00") {
		return "comment text changes"
	}
	la, lb := strings.Split(f1, "\n"), strings.Split(f2, "\n")
	i := 0
	for i < len(la) && i < len(lb) && la[i] == lb[i] {
		i++
	}
	x, y := "", ""
	if i < len(la) {
		x = la[i]
	}
	if i < len(lb) {
		y = lb[i]
	}
	tx, ty := strings.TrimSpace(x), strings.TrimSpace(y)
	// a line of white space only in the first output (an empty statement gets
	// a line of its own) that is gone or moved in the second
	if reBlankWithSpaces.MatchString(f1) && strings.Join(strings.Fields(f1), " ") != strings.Join(strings.Fields(f2), " ") || tx == "" && x != "" {
		return "whitespace-only-line"
	}
	// the printer writes a trailing comment after two blanks
	codeOf := func(l string) string {
		k1, k2 := strings.LastIndex(l, "  //"), strings.LastIndex(l, "  /*")
		if k1 < k2 {
			k1 = k2
		}
		if k1 >= 0 {
			l = l[:k1]
		}
		return strings.TrimSpace(l)
	}
	switch {
	case tx == ty && tx != "":
		// same text, other indentation
		before := strings.Join(la[:i], "\n")
		if strings.HasPrefix(tx, "*") || strings.HasPrefix(tx, "/*") || strings.HasPrefix(tx, "//") || strings.Count(before, "/*") > strings.Count(before, "*/") {
			return "comment-indentation"
		}
		return "indentation"
	case codeOf(tx) != tx && codeOf(tx) != "" && codeOf(tx) == ty:
		// "code  // comment" becomes "code" and the comment moves
		return "trailing-comment-moves"
	case codeOf(ty) != ty && codeOf(ty) != "" && codeOf(ty) == tx:
		return "trailing-comment-moves"
	case tx == "" || ty == "":
		return "blank-lines"
	}
	if !same {
		return "tokens " + canonical(ctx, shapes, "")
	}
	return "layout"
}

func lineShape(l string) string {
	switch {
	case l == "":
		return "blank-line"
	case strings.HasPrefix(l, "//"):
		return "line-comment"
	case strings.HasPrefix(l, "/*"):
		return "block-comment-start"
	case strings.HasPrefix(l, "*"):
		return "block-comment-star-line"
	case strings.Contains(l, "//") || strings.Contains(l, "/*"):
		return "code-with-comment"
	}
	f := strings.Fields(l)
	if len(f) > 0 {
		switch f[0] {
		case "for", "if", "switch", "case", "default:", "func", "return", "var", "const", "type", "}", "{", "import", "package", "defer", "go", "try", "break", "continue":
			return "code:" + f[0]
		}
	}
	return "code"
}

// describeLostComment names a lost comment by its kind and the construct it
// sits in.
func describeLostComment(src string, raw []tok, text string) string {
	for _, rc := range rawCommentsOf(src) {
		if strings.Join(strings.Fields(rc.text), " ") != text {
			continue
		}
		kind := "line-comment"
		if rc.block {
			kind = "block-comment"
			if strings.Contains(rc.text, "\n") {
				kind = "multiline-block-comment"
			}
		}
		// the first token after the comment's line start
		idx := len(raw) - 1
		for i, t := range raw {
			if t.line >= rc.line && t.cls != tokenizer.EndOfTokensClass && !isSpecial(t, ";") {
				idx = i
				break
			}
		}
		return kind + " in " + contextAt(raw, idx)
	}
	return "unlocated"
}

// ---------------------------------------------------------------------------
// corpus
// ---------------------------------------------------------------------------

func repoRoot() string {
	if r := os.Getenv("VERIF_REPO"); r != "" {
		return r
	}
	return "/repo"
}

func corpus() []Case {
	root := repoRoot()
	var files []string
	for _, d := range []string{"tests", "lib", "examples"} {
		_ = filepath.Walk(filepath.Join(root, d), func(p string, info os.FileInfo, err error) error {
			if err == nil && !info.IsDir() && strings.HasSuffix(p, ".ego") {
				files = append(files, p)
			}
			return nil
		})
	}
	sort.Strings(files)
	var cases []Case
	for _, f := range files {
		b, err := os.ReadFile(f)
		if err != nil {
			continue
		}
		rel, _ := filepath.Rel(root, f)
		kind := "corpus-file"
		t := tokenizer.New(string(b), true)
		for i := 0; i+1 < len(t.Tokens); i++ {
			if t.Tokens[i].Is(tokenizer.DirectiveToken) && t.Tokens[i+1].Is(tokenizer.TestToken) {
				kind = "corpus-test"
				break
			}
		}
		cases = append(cases, Case{Kind: kind, Name: rel, Src: string(b)})
	}
	return cases
}

func TestC05(t *testing.T) {
	trapInterrupt()
	vkit.Run(t, vkit.Spec[Case]{
		ID:    "C05",
		Level: "exploration",
		Rule: "corpus: every .ego file under tests/, lib/, examples/ (sorted); generated: Ego programs (package main, imports, types, methods, funcs with params/results/variadics, all statement kinds, composite literals in ordinary and unusual positions, closures, try/catch) and statement fragments, with //, trailing and /* */ comments injected at statement boundaries, before else/case/closing braces and inside declarations, in randomised layout. " +
			"Only sources the compiler accepts count. Non-trivial: >= 1 comment and >= 1 composite statement (if/for/switch/try/function literal); distinct by source hash.",
		Assumptions: []string{
			"`ego fmt FILE` = parse.ParseAuto + format.File; `ego fmt --fragment` = format.Source(src, true)",
			"a comment is what ego's tokenizer records in Tokenizer.Comments; texts compared with white space normalised",
			"behaviour compared in-process (egorun-style `ego run` / `ego test` compilation, dynamic typing, optimizer 0) on programs whose two runs of the original agree; positions `line N[:M]` removed from messages",
			"corpus @test files: compared through `ego test` result lines; other corpus files are not executed: same token stream => same behaviour, else inconclusive",
			"failures are re-checked with the ego binary (`ego fmt`, `ego run`, `ego test`); a failure the binary does not reproduce is recorded as inconclusive",
		},
		Gen:    genCase,
		Oracle: oracle,
		Fixed: func() []Case {
			cs := corpus()
			prefetch(cs)
			return cs
		},
		Quick:     700,
		Thorough:  12000,
		MaxRounds: 6,
	})
}

var _ = rapid.Check
