package c14

import (
	"fmt"
	"os"
	"testing"
	"time"
)

func TestTiming(t *testing.T) {
	if os.Getenv("C14_EXPLORE") == "" {
		t.Skip()
	}
	fx, err := getFix()
	if err != nil {
		t.Fatal(err)
	}
	c := fixedCases()[1]
	d := fx.dsns[c.RowIDs]
	for round := 0; round < 2; round++ {
		t0 := time.Now()
		if err := d.reset(c.Rows); err != nil {
			t.Fatal(err)
		}
		fmt.Println("reset", time.Since(t0))
		t0 = time.Now()
		before, _ := d.dumpAll()
		fmt.Println("dump", time.Since(t0))
		for i := range c.Ops {
			t0 = time.Now()
			res, after := runOp(fx, d, &c.Ops[i], before)
			fmt.Println("op", c.Ops[i].Kind, time.Since(t0), res.fail)
			before = after
		}
	}
}
