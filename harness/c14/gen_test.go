package c14

import (
	"encoding/json"
	"fmt"
	"strings"

	"pgregory.net/rapid"
)

// ---------------------------------------------------------------------------
// value pools. Index 0 of every pool is the most ordinary element so that
// shrinking moves towards ordinary requests.
// ---------------------------------------------------------------------------

var simpleStrings = []string{"tom", "mary", "abe", "zed", "Tom", "a b", "x-1", "v1.2"}

// hostileStrings are legitimate *values* (of a string column, of a filter
// literal) that look like SQL. Each can be spelled as a filter literal with at
// least one of the two documented quote characters.
var hostileStrings = []string{
	"o'neil", "x'", "'", "''", `"`, `x"y`, "a;b", "a--b", "--", ")", "(",
	"' ) OR 1=1 --", "' OR '1'='1", `" OR "1"="1`, "' --", "x' --", "'/*", "*/ OR 1=1 --",
	"1 UNION SELECT token FROM secrets",
	"' ) OR EXISTS (SELECT 1 FROM secrets) --",
	"' ) OR (SELECT count(*) FROM other) > 0 --",
	"' ) UNION SELECT id,token,token,token FROM secrets --",
	"' ) UNION SELECT id,token,token,token,token FROM secrets --",
	"' ) UNION SELECT id,token FROM secrets --",
	"'; DROP TABLE other; --", "');DELETE FROM secrets;--",
	"＇", "ʼ", "％", "%", "_", "NULL", "", " lead", "trail ", "é", "😀", "/*", "tom' --", "tom'--",
}

// edgeQuote: values whose first or last character is a single quote (the
// position SQLEscape does not look at).
var edgeQuote = []string{"x'", "'", "tom'", "' ) OR 1=1 --", "' ) OR EXISTS (SELECT 1 FROM secrets) --", "' ) UNION SELECT id,token,token,token FROM secrets --", "' ) UNION SELECT id,token,token,token,token FROM secrets --", "' OR qty >= 0 --", "' ) OR qty >= 0 --"}

// jsonOnlyStrings cannot be spelled as a documented filter literal but are
// legitimate JSON string values.
var jsonOnlyStrings = []string{`' OR "a"="a`, `"';--`, `a\b`, "line\nbreak", "tab\there", "nul\x00byte", "{{x}}", `\'; DROP TABLE secrets; --`}

var tagPool = []string{"red", "blue", "green", "x'", "a;b"}

// pickString draws a string value. Hostile values (SQL-looking text, quotes at
// the edges) are legitimate documented values, but they are only drawn where
// the slot is the request's attack slot, so that a failure's signature names
// one parameter.
func pickString(t *rapid.T, label string, hostile bool) string {
	if !hostile {
		return rapid.SampledFrom(simpleStrings).Draw(t, label)
	}
	switch rapid.IntRange(0, 9).Draw(t, label+"_cls") {
	case 0, 1, 2, 3, 4:
		return rapid.SampledFrom(simpleStrings).Draw(t, label)
	case 5, 6, 7, 8:
		return rapid.SampledFrom(hostileStrings).Draw(t, label)
	default:
		return rapid.SampledFrom(edgeQuote).Draw(t, label)
	}
}

// lit spells a string as a documented filter literal, "" if it has none.
func lit(t *rapid.T, s string) string {
	hasD, hasS := strings.Contains(s, `"`), strings.Contains(s, "'")
	switch {
	case hasD && hasS:
		return ""
	case hasD:
		return "'" + s + "'"
	case hasS:
		return `"` + s + `"`
	}
	if rapid.Bool().Draw(t, "squote") {
		return "'" + s + "'"
	}
	return `"` + s + `"`
}

// ---------------------------------------------------------------------------
// filters
// ---------------------------------------------------------------------------

func genCmp(t *rapid.T, def *tableDef, hostile bool) string {
	for {
		col := rapid.SampledFrom(def.Cols).Draw(t, "fcol")
		op := rapid.SampledFrom([]string{"EQ", "GE", "LT", "LE", "GT"}).Draw(t, "fop")
		if def.Type[col] == 'i' {
			return fmt.Sprintf("%s(%s,%d)", op, col, rapid.IntRange(-1, 8).Draw(t, "fint"))
		}
		var s string
		if hostile {
			if rapid.Bool().Draw(t, "edge") {
				s = rapid.SampledFrom(edgeQuote).Draw(t, "fstr")
			} else {
				s = rapid.SampledFrom(hostileStrings).Draw(t, "fstr")
			}
		} else {
			s = pickString(t, "fstr", false)
		}
		if l := lit(t, s); l != "" {
			return fmt.Sprintf("%s(%s,%s)", op, col, l)
		}
	}
}

func genFilterDoc(t *rapid.T, def *tableDef, depth int) string {
	k := rapid.IntRange(0, 9).Draw(t, "fshape")
	if depth >= 2 && k >= 6 {
		k = 0
	}
	switch k {
	case 6:
		return "NOT(" + genFilterDoc(t, def, depth+1) + ")"
	case 7, 8:
		op := rapid.SampledFrom([]string{"AND", "OR"}).Draw(t, "fbool")
		n := rapid.IntRange(2, 3).Draw(t, "fn")
		parts := make([]string, n)
		for i := range parts {
			parts[i] = genFilterDoc(t, def, depth+1)
		}
		return op + "(" + strings.Join(parts, ",") + ")"
	case 9:
		op := rapid.SampledFrom([]string{"HAS", "HASALL"}).Draw(t, "fhas")
		var scol []string
		for _, c := range def.Cols {
			if def.Type[c] == 's' {
				scol = append(scol, c)
			}
		}
		n := rapid.IntRange(1, 2).Draw(t, "fhn")
		parts := []string{rapid.SampledFrom(scol).Draw(t, "fhcol")}
		for i := 0; i < n; i++ {
			parts = append(parts, "'"+rapid.SampledFrom([]string{"o", "a", "m", "x", "to"}).Draw(t, "fhs")+"'")
		}
		return op + "(" + strings.Join(parts, ",") + ")"
	}
	return genCmp(t, def, false)
}

// rawFilters have no documented meaning at all and no lenient reading: the
// only acceptable outcomes are a rejection or "nothing selected/changed".
var rawFilters = []string{
	"1", "1=1", "id=1 OR 1=1", "' OR ''='", "--", ";", ")", "true", "name", "id", "*",
	"1) OR (1=1", "EQ", "EQ(", "EQ()", "()", "EQ(id)", "EQ(id,1", "EQ id,1)",
	"EQ(id,1,2)", "AND(EQ(id,1))", "NOT(EQ(id,1),EQ(id,2))", "LENGTH(name)", "RANDOM()", "load_extension('x')",
	"UNION(SELECT)", "EXISTS(SELECT 1 FROM secrets)", "IN(id,1,2)", "LIKE(name,'%')", "EQ(id,(SELECT 1))",
	"EQ(nosuch,1)", "EQ(token,'x')", "EQ(secrets.token,'x')",
	"EQ(name,'o'neil')", "EQ(name,\"x\"y\")", "EQ(name,'x)",
	"EQ(qty,1 OR 1=1)", "OR(EQ(id,1),1=1)", "AND(EQ(id,1),name)", "NOT(1)", "NOT(id)",
}

// rawFiltersReadOnly are only used in reads: they have plausible harmless
// readings the documentation does not spell out (column-to-column comparison,
// type coercion, other number spellings), so a write that applies one of
// them is not evidence of anything.
var rawFiltersReadOnly = []string{
	"EQ(id,id)", "EQ(name,name)", "EQ(name,tom)", "EQ(id,'1')", "EQ(name,1)", "EQ(id,1e3)", "EQ(id,0x10)", "EQ(id,--1)", "EQ(id,+1)",
	"EQ(\"id\",1)", "EQ(id,1);", "EQ(id,1)--", "EQ(id, 1 )", "EQ(name,\"a\\\"b\")", "EQ(name,\"\u0000\")", "EQ(name,`tom`)", "EQ(id,.nil)", "EQ(name,.nil)",
}

var trailingJunk = []string{" OR 1=1", " --", " ; DROP TABLE secrets", " )", " UNION SELECT * FROM secrets", " garbage", " 1", " OR EQ(qty,0)"}

// genFilterAdv returns an adversarial filter text. forWrite restricts it to
// families whose acceptable outcomes are clear for a request that changes rows
// (see the soundness note in model_test.go / the package comment).
func genFilterAdv(t *rapid.T, def *tableDef, forWrite bool) string {
	fam := rapid.IntRange(0, 6).Draw(t, "ffam")
	switch fam {
	case 0, 1: // comma list of clauses with hostile string values
		n := rapid.IntRange(2, 3).Draw(t, "fcn")
		parts := make([]string, n)
		for i := range parts {
			parts[i] = genCmp(t, def, true)
		}
		return strings.Join(parts, ",")
	case 2: // text after a complete clause
		return genFilterDoc(t, def, 1) + rapid.SampledFrom(trailingJunk).Draw(t, "fjunk")
	case 3: // operator letter case
		f := genFilterDoc(t, def, 1)
		for _, op := range []string{"EQ", "LT", "LE", "GT", "GE", "AND", "OR", "NOT", "HASALL", "HAS"} {
			f = strings.ReplaceAll(f, op+"(", strings.ToLower(op)+"(")
		}
		return f
	case 4: // one clause with a hostile value
		return genCmp(t, def, true)
	case 5:
		return rapid.SampledFrom(rawFilters).Draw(t, "fraw")
	default:
		if forWrite {
			return rapid.SampledFrom(rawFilters).Draw(t, "fraw")
		}
		return rapid.SampledFrom(rawFiltersReadOnly).Draw(t, "frawro")
	}
}

// policy of one parameter slot: documented spellings only, adversarial for
// sure, or either. Most requests attack through at most one slot, so that a
// failure's signature names the parameter that matters.
type policy int

const (
	polDoc policy = iota
	polAdv
	polFree
)

// mode draws 0 (absent), 1 (documented) or 2 (adversarial) for a slot.
func (p policy) mode(t *rapid.T, label string, absentW, docW, advW int) int {
	switch p {
	case polAdv:
		return 2
	case polDoc:
		advW = 0
	}
	n := rapid.IntRange(0, absentW+docW+advW-1).Draw(t, label+"_mode")
	switch {
	case n < absentW:
		return 0
	case n < absentW+docW:
		return 1
	}
	return 2
}

// genFilter: nil (absent), documented, or adversarial.
func genFilter(t *rapid.T, def *tableDef, forWrite bool, pol policy) *string {
	switch pol.mode(t, "filter", 2, 5, 3) {
	case 0:
		return nil
	case 1:
		s := genFilterDoc(t, def, 0)
		return &s
	default:
		s := genFilterAdv(t, def, forWrite)
		return &s
	}
}

// ---------------------------------------------------------------------------
// other URL parameters
// ---------------------------------------------------------------------------

var advSort = []string{
	"id; DELETE FROM secrets --", "id; DROP TABLE other --", "(SELECT token FROM secrets)", "id DESC", "id--", "~~id", "1", "random()",
	"id,", ",id", "\"id\"", "id COLLATE NOCASE", "CASE WHEN (SELECT count(*) FROM secrets)>0 THEN id ELSE name END", "~(SELECT 1)",
	"id LIMIT 1 --", "nosuch", "ID", "rowid", "id; UPDATE other SET name='x' --", "id;", "id UNION SELECT * FROM secrets", "~id,~name", "name,(SELECT name FROM other)",
	"id\x00; DROP TABLE secrets", "id /*", "' OR 1=1 --", "id, (SELECT 1 FROM pragma_table_info('secrets'))",
}

var advColumns = []string{
	"*", "count(*)", "COUNT(*)", "count(*) FROM secrets --", "count(*),(SELECT token FROM secrets)", "count(id)", "count(*) as n", "id as x", "id,", "\"id\"",
	"id\" FROM secrets --", "name, id", "nosuch", "token", "secrets.token", "rowid", "id;", "id--", "(SELECT token FROM secrets)", "id,(SELECT name FROM other)",
	"count(*) FROM other; DELETE FROM other --", "count(1) FROM sqlite_master --", "Count(*)", "max(id)", "id, count(*) FROM secrets --",
}

// Values built around the forms the server passes through unquoted (the count
// aggregates in a column list, the ~ prefix in a sort list): injected SQL before
// the form, after it, and on both sides. A recogniser that anchors only one end
// of such a form lets the rest of the element through.
func init() {
	aggregates := []string{"count(*)", "count(id)", "count(*) as n", "COUNT(*)", "count(name) as c"}
	before := []string{
		"token FROM secrets UNION SELECT", "token FROM secrets UNION ALL SELECT", "name FROM other UNION SELECT",
		"1 FROM secrets; DELETE FROM other; SELECT", "(SELECT token FROM secrets) ||", "x\" FROM secrets UNION SELECT", "token FROM secrets WHERE 1 >",
	}
	after := []string{"FROM secrets --", "FROM other; DELETE FROM other --", "|| (SELECT token FROM secrets)", "UNION SELECT token FROM secrets --"}
	for _, a := range aggregates {
		for _, b := range before {
			advColumns = append(advColumns, b+" "+a)
		}
		for _, f := range after {
			advColumns = append(advColumns, a+" "+f)
		}
		advColumns = append(advColumns, before[0]+" "+a+" "+after[0])
	}
	for _, name := range []string{"id", "name"} {
		for _, b := range []string{"(SELECT token FROM secrets),", "1; DELETE FROM secrets; SELECT", "(SELECT count(*) FROM other) +"} {
			advSort = append(advSort, b+" "+name, "~"+b+" "+name)
		}
		for _, f := range []string{"; DELETE FROM secrets --", "+ (SELECT count(*) FROM secrets)", "DESC, (SELECT token FROM secrets)", "COLLATE NOCASE; DROP TABLE other --"} {
			advSort = append(advSort, name+" "+f, "~"+name+" "+f)
		}
	}
}

var advPaging = []string{"-1", "0", "99999999999999999999", "1e3", "0x10", "1;", "1 OFFSET 1", "", " 5", "٣", "+5", "1--", "1; DROP TABLE other", "5 UNION SELECT * FROM secrets", "-0", "007", "2147483648"}

var advTables = []string{
	"secrets", "other", "main.secrets", "sqlite_master", "items,secrets", "items\" --", "items WHERE 1=1 --", "\"items\"", "ITEMS", "items;", "items--",
	"sqlite_schema", "pragma_table_info('secrets')", "items AS x, secrets", "secrets --", "main.items", "temp.items", "items\"; DROP TABLE other; --",
	"items NATURAL JOIN secrets", "items UNION SELECT * FROM secrets", "(SELECT * FROM secrets)", "[secrets]", "`other`", "nosuch", "ｉtems", "items\x00secrets",
	"items SET qty=0 --", "items AS x", "items INDEXED BY nosuch", "main.\"secrets\"", "a.b.c", ".", "items.", "items secrets",
}

var advUpsert = []string{"id) OR (1=1", "id,nosuch", "name' --", "count(*)", "1", "id--", "id;", "ID", "\"id\"", "id,(SELECT token FROM secrets)"}

func genNames(t *rapid.T, def *tableDef, adv []string, tilde bool, label string, pol policy) []string {
	switch pol.mode(t, label, 5, 3, 2) {
	case 0:
		return nil
	case 1:
		n := rapid.IntRange(1, 2).Draw(t, label+"_n")
		var names []string
		for i := 0; i < n; i++ {
			c := rapid.SampledFrom(def.Cols).Draw(t, label+"_col")
			if tilde && rapid.Bool().Draw(t, label+"_desc") {
				c = "~" + c
			}
			names = append(names, c)
		}
		if rapid.Bool().Draw(t, label+"_joined") {
			return []string{strings.Join(names, ",")}
		}
		return names
	}
	return []string{rapid.SampledFrom(adv).Draw(t, label+"_adv")}
}

func genPaging(t *rapid.T, label string, min int, pol policy) *string {
	switch pol.mode(t, label, 6, 3, 1) {
	case 0:
		return nil
	case 1:
		s := fmt.Sprint(rapid.IntRange(min, 5).Draw(t, label))
		return &s
	}
	s := rapid.SampledFrom(advPaging).Draw(t, label+"_adv")
	return &s
}

func genTable(t *rapid.T, pol policy) string {
	switch pol.mode(t, "table", 9, 1, 2) {
	case 0:
		return "items"
	case 1:
		return rapid.SampledFrom([]string{"other", "secrets"}).Draw(t, "table_other")
	}
	return rapid.SampledFrom(advTables).Draw(t, "table_adv")
}

// defFor: the definition generators use for column names. An adversarial
// table name still gets requests written for the table the attacker is
// after.
func defFor(table string) *tableDef {
	if n, _ := resolveTable(table); tableDefs[n] != nil {
		return tableDefs[n]
	}
	return tableDefs["items"]
}

// ---------------------------------------------------------------------------
// JSON bodies
// ---------------------------------------------------------------------------

func jstr(s string) string {
	b, _ := json.Marshal(s)
	return string(b)
}

var advKeys = []string{`name"`, `name") VALUES (1); --`, `qty=qty+1, name`, `*`, `NAME`, `nosuch`, `rowid`, `token`, `items.name`, `"name"`, `name--`, ``, `{{x}}`, `name" = (SELECT token FROM secrets) --`, `name"; DROP TABLE other; --`, `qty" = 0 WHERE 1=1 --`}

var wrongForString = []string{`5`, `1.5`, `true`, `null`, `[1]`, `{"a":1}`, `-0`, `1e400`}
var wrongForInt = []string{`"12"`, `"abc"`, `"1; DROP TABLE secrets"`, `1.5`, `1e3`, `99999999999999999999`, `true`, `null`, `[]`, `{}`, `"1 OR 1=1"`, `-0.0`, `"(SELECT 1)"`, `""`}

type kv struct{ K, V string } // K raw key, V JSON text

func renderObject(row []kv) string {
	parts := make([]string, len(row))
	for i, m := range row {
		parts[i] = jstr(m.K) + ":" + m.V
	}
	return "{" + strings.Join(parts, ",") + "}"
}

// genRowObject returns the members of a row object in order.
func genRowObject(t *rapid.T, def *tableDef, forUpdate bool, adv bool) []kv {
	var members []kv
	for _, c := range def.Cols {
		if forUpdate {
			if c == "id" || rapid.IntRange(0, 2).Draw(t, "upd_has_"+c) != 0 {
				continue
			}
		} else if rapid.IntRange(0, 9).Draw(t, "ins_has_"+c) == 9 {
			continue
		}
		var v string
		wrong := adv && rapid.IntRange(0, 3).Draw(t, "wrong_"+c) == 0
		switch {
		case def.Type[c] == 'i' && wrong:
			v = rapid.SampledFrom(wrongForInt).Draw(t, "wv_"+c)
		case def.Type[c] == 'i':
			v = fmt.Sprint(rapid.IntRange(0, 9).Draw(t, "iv_"+c))
		case wrong:
			v = rapid.SampledFrom(wrongForString).Draw(t, "wv_"+c)
		case adv && rapid.IntRange(0, 3).Draw(t, "jsononly_"+c) == 0:
			v = jstr(rapid.SampledFrom(jsonOnlyStrings).Draw(t, "jv_"+c))
		default:
			v = jstr(pickString(t, "sv_"+c, adv))
		}
		members = append(members, kv{c, v})
	}
	if forUpdate && len(members) == 0 {
		members = append(members, kv{"qty", fmt.Sprint(rapid.IntRange(0, 9).Draw(t, "upd_qty"))})
	}
	if adv && rapid.IntRange(0, 2).Draw(t, "advkey") == 0 {
		k := rapid.SampledFrom(advKeys).Draw(t, "advkey_name")
		members = append(members, kv{k, jstr(pickString(t, "advkey_val", true))})
	}
	return members
}

var malformedBodies = []string{`[1,2]`, `"str"`, `5`, `null`, `{"rows":5}`, `{"rows":[1]}`, `{`, ``, `{"id":1}{"id":2}`, `{"rows":[]}`, `[]`, `{"rows":[[1,"a"]]}`, `{"id":1,"id":2}`, "{\"name\":\"a\x00b\"}"}

func objectToAbstract(rows [][]kv) string {
	// all rows share the keys of row 0
	var cols, out []string
	for _, m := range rows[0] {
		cols = append(cols, `{"name":`+jstr(m.K)+`}`)
	}
	for _, r := range rows {
		var vals []string
		for _, m := range r {
			vals = append(vals, m.V)
		}
		out = append(out, "["+strings.Join(vals, ",")+"]")
	}
	return `{"columns":[` + strings.Join(cols, ",") + `],"rows":[` + strings.Join(out, ",") + `]}`
}

func genBody(t *rapid.T, def *tableDef, forUpdate, abstract, rowids bool, pol policy) string {
	adv := pol.mode(t, "body", 0, 6, 4) == 2
	if adv && rapid.IntRange(0, 3).Draw(t, "body_malformed") == 0 {
		return rapid.SampledFrom(malformedBodies).Draw(t, "body_bad")
	}
	row := genRowObject(t, def, forUpdate, adv)
	if forUpdate && rowids && rapid.IntRange(0, 5).Draw(t, "with_rowid") == 0 {
		v := `"@@ROWID@@"`
		if adv && rapid.Bool().Draw(t, "adv_rowid") {
			v = rapid.SampledFrom([]string{`"' OR 1=1 --"`, `"x"`, `5`, `""`, `null`, `"seed-items-0' OR '1'='1"`}).Draw(t, "adv_rowid_v")
		}
		row = append(row, kv{"_row_id_", v})
	}
	shape := rapid.IntRange(0, 5).Draw(t, "body_shape")
	if abstract {
		if shape >= 4 && !forUpdate {
			return renderObject(row)
		}
		return objectToAbstract([][]kv{row})
	}
	switch {
	case shape <= 3:
		return renderObject(row)
	case shape == 4:
		row2 := genRowObject(t, def, forUpdate, false)
		return `{"rows":[` + renderObject(row) + `,` + renderObject(row2) + `],"count":2}`
	}
	if forUpdate {
		return `{"rows":[` + renderObject(row) + `]}`
	}
	return `[` + renderObject(row) + `]`
}

// ---------------------------------------------------------------------------
// requests
// ---------------------------------------------------------------------------

// slots draws the policy of each of n parameter slots: 40% no adversarial
// slot, 50% exactly one, 10% every slot free.
func slots(t *rapid.T, n int) []policy {
	out := make([]policy, n)
	switch a := rapid.IntRange(0, 19).Draw(t, "attack"); {
	case a <= 7:
	case a <= 18:
		out[rapid.IntRange(0, n-1).Draw(t, "attack_slot")] = polAdv
	default:
		for i := range out {
			out[i] = polFree
		}
	}
	return out
}

func genOp(t *rapid.T, rowids bool) Op {
	k := rapid.IntRange(0, 19).Draw(t, "kind")
	op := Op{}
	switch {
	case k <= 6:
		op.Kind = "read"
	case k <= 9:
		op.Kind = "delete"
	case k <= 13:
		op.Kind = "update"
	case k <= 16:
		op.Kind = "insert"
	default:
		return genTx(t, rowids)
	}
	if op.Kind != "delete" {
		op.Abstract = rapid.IntRange(0, 3).Draw(t, "abstract") == 0
	}
	switch op.Kind {
	case "read":
		sl := slots(t, 6)
		op.Table = genTable(t, sl[0])
		def := defFor(op.Table)
		op.Filter = genFilter(t, def, false, sl[1])
		op.Columns = genNames(t, def, advColumns, false, "columns", sl[2])
		op.Sort = genNames(t, def, advSort, true, "sort", sl[3])
		op.Limit = genPaging(t, "limit", 1, sl[4])
		op.Start = genPaging(t, "start", 0, sl[5])
	case "delete":
		sl := slots(t, 2)
		op.Table = genTable(t, sl[0])
		op.Filter = genFilter(t, defFor(op.Table), true, sl[1])
	case "update":
		sl := slots(t, 4)
		op.Table = genTable(t, sl[0])
		def := defFor(op.Table)
		op.Filter = genFilter(t, def, true, sl[1])
		op.Body = genBody(t, def, true, op.Abstract, rowids, sl[2])
		op.RowRef = rapid.IntRange(0, 6).Draw(t, "rowref")
		if c := genNames(t, def, append([]string{"name,qty,nosuch", "name, qty", "name;", "*", "\"name\"", "qty,nosuch"}, advColumns...), false, "ucolumns", sl[3]); c != nil {
			op.Columns = []string{strings.Join(c, ",")}
		}
	case "insert":
		sl := slots(t, 3)
		op.Table = genTable(t, sl[0])
		def := defFor(op.Table)
		op.Body = genBody(t, def, false, op.Abstract, rowids, sl[1])
		switch sl[2].mode(t, "upsert", 6, 3, 1) {
		case 0:
		case 1:
			s := rapid.SampledFrom([]string{"id", "id,name", "name", ""}).Draw(t, "upsert_doc")
			op.Upsert = &s
		default:
			s := rapid.SampledFrom(advUpsert).Draw(t, "upsert_adv")
			op.Upsert = &s
		}
	}
	return op
}

var symbolValuesAdv = []string{`"{{other}}"`, `1.5`, `null`, `[1]`, `{"a":1}`, `true`, `"a}}b{{c"`}

func genTx(t *rapid.T, rowids bool) Op {
	op := Op{Kind: "tx"}
	n := rapid.IntRange(1, 4).Draw(t, "ntasks")
	// at most one task is attacked (through one slot), unless free-for-all
	attack := rapid.IntRange(0, 19).Draw(t, "tx_attack")
	attackTask := -1
	if attack >= 8 && attack <= 18 {
		attackTask = rapid.IntRange(0, n-1).Draw(t, "tx_attack_task")
	}
	var symStr, symInt []string
	for i := 0; i < n; i++ {
		// slots of a task: 0 table, 1 filters, 2 columns, 3 data / symbol values
		sl := make([]policy, 4)
		switch {
		case attack == 19:
			for j := range sl {
				sl[j] = polFree
			}
		case i == attackTask:
			sl[rapid.IntRange(0, 3).Draw(t, "tx_attack_slot")] = polAdv
		}
		k := rapid.IntRange(0, 11).Draw(t, "task_kind")
		task := Task{}
		if k <= 1 {
			task.Op = "symbols"
			var members []kv
			m := rapid.IntRange(1, 2).Draw(t, "nsyms")
			for j := 0; j < m; j++ {
				name := fmt.Sprintf("s%d", len(symStr)+len(symInt))
				switch {
				case sl[3].mode(t, "sym", 0, 9, 1) == 2:
					members = append(members, kv{name, rapid.SampledFrom(symbolValuesAdv).Draw(t, "sym_adv")})
					symStr = append(symStr, name)
				case rapid.Bool().Draw(t, "sym_str"):
					members = append(members, kv{name, jstr(pickString(t, "sym_s", sl[3] != polDoc))})
					symStr = append(symStr, name)
				default:
					members = append(members, kv{name, fmt.Sprint(rapid.IntRange(0, 8).Draw(t, "sym_i"))})
					symInt = append(symInt, name)
				}
			}
			task.Data = renderObject(members)
			op.Tasks = append(op.Tasks, task)
			continue
		}
		task.Table = genTable(t, sl[0])
		def := defFor(task.Table)
		genFilters := func(forWrite bool) []string {
			cnt := rapid.IntRange(0, 3).Draw(t, "nfilters")
			if sl[1] == polAdv && cnt == 0 {
				cnt = 2
			}
			var fs []string
			for j := 0; j < cnt; j++ {
				md := sl[1].mode(t, "tf", 0, 6, 4)
				switch {
				case md == 1 && len(symStr)+len(symInt) > 0 && rapid.IntRange(0, 2).Draw(t, "tf_chain") == 0:
					// documented chaining: a symbol inside a filter
					if len(symInt) > 0 && (len(symStr) == 0 || rapid.Bool().Draw(t, "tf_symint")) {
						fs = append(fs, fmt.Sprintf("EQ(%s,{{%s}})", rapid.SampledFrom([]string{"id", "qty"}).Draw(t, "tf_icol"), rapid.SampledFrom(symInt).Draw(t, "tf_isym")))
					} else {
						q := rapid.SampledFrom([]string{"'", `"`}).Draw(t, "tf_q")
						fs = append(fs, fmt.Sprintf("EQ(name,%s{{%s}}%s)", q, rapid.SampledFrom(symStr).Draw(t, "tf_ssym"), q))
					}
				case md == 1:
					fs = append(fs, genFilterDoc(t, def, 1))
				case rapid.Bool().Draw(t, "tf_hostile"):
					// each element a documented clause with a hostile value: the
					// "two individually harmless filters" of the property text
					fs = append(fs, genCmp(t, def, true))
				default:
					fs = append(fs, genFilterAdv(t, def, forWrite))
				}
			}
			return fs
		}
		data := func(forUpdate bool) string {
			adv := sl[3].mode(t, "tdata", 0, 7, 3) == 2
			if adv && rapid.IntRange(0, 4).Draw(t, "tdata_malformed") == 0 {
				return rapid.SampledFrom([]string{`5`, `[1]`, `null`, `"x"`}).Draw(t, "tdata_bad")
			}
			row := genRowObject(t, def, forUpdate, adv)
			if len(symStr) > 0 && rapid.IntRange(0, 2).Draw(t, "tdata_sym") == 0 {
				for j, m := range row {
					if m.K == "name" || m.K == "tag" || m.K == "token" {
						row[j].V = jstr("{{" + rapid.SampledFrom(symStr).Draw(t, "tdata_symname") + "}}")
						break
					}
				}
			}
			return renderObject(row)
		}
		cols := func(adv []string) []string {
			c := genNames(t, def, adv, false, "tcolumns", sl[2])
			if len(c) == 1 && strings.Contains(c[0], ",") && rapid.IntRange(0, 3).Draw(t, "tcol_split") > 0 {
				return strings.Split(c[0], ",")
			}
			return c
		}
		switch {
		case k <= 3:
			task.Op = "insert"
			task.Data = data(false)
		case k <= 6:
			task.Op = "update"
			task.Filters = genFilters(true)
			task.Data = data(true)
			task.Columns = cols(advColumns)
		case k <= 8:
			task.Op = "delete"
			task.Filters = genFilters(true)
		case k == 9:
			task.Op = "select"
			if sl[1] == polDoc && rapid.IntRange(0, 2).Draw(t, "sel_byid") > 0 {
				task.Filters = []string{fmt.Sprintf("EQ(id,%d)", rapid.IntRange(1, 6).Draw(t, "sel_id"))}
			} else {
				task.Filters = genFilters(false)
			}
			task.Columns = cols(advColumns)
			for _, c := range def.Cols {
				if def.Type[c] == 'i' {
					symInt = append(symInt, c)
				} else {
					symStr = append(symStr, c)
				}
			}
		default:
			task.Op = "readrows"
			task.Filters = genFilters(false)
			task.Columns = cols(advColumns)
		}
		task.EmptyError = rapid.IntRange(0, 7).Draw(t, "emptyError") == 0
		op.Tasks = append(op.Tasks, task)
	}
	return op
}

func genCase(t *rapid.T) Case {
	c := Case{RowIDs: rapid.Bool().Draw(t, "rowids")}
	n := rapid.IntRange(2, 7).Draw(t, "nrows")
	for i := 0; i < n; i++ {
		c.Rows = append(c.Rows, SeedRow{
			ID:   int64(i + 1),
			Name: pickString(t, "seed_name", true),
			Qty:  int64(rapid.IntRange(0, 4).Draw(t, "seed_qty")),
			Tag:  rapid.SampledFrom(tagPool).Draw(t, "seed_tag"),
		})
	}
	nops := rapid.IntRange(1, 4).Draw(t, "nops")
	for i := 0; i < nops; i++ {
		c.Ops = append(c.Ops, genOp(t, c.RowIDs))
	}
	return c
}

// ---------------------------------------------------------------------------
// fixed cases: the examples of docs/API.md, transposed to the fixture's
// tables. They must hold (they also calibrate the whitelist of layer (i)).
// ---------------------------------------------------------------------------

func sp(s string) *string { return &s }

func fixedCases() []Case {
	rows := []SeedRow{{1, "tom", 1, "red"}, {2, "mary", 2, "blue"}, {3, "o'neil", 3, "red"}, {4, "abe", 0, "green"}}
	var out []Case
	for _, rid := range []bool{false, true} {
		out = append(out,
			Case{RowIDs: rid, Rows: rows, Ops: []Op{
				{Kind: "read", Table: "items"},
				{Kind: "read", Table: "items", Filter: sp(`EQ(name,"tom")`)},
				{Kind: "read", Table: "items", Filter: sp(`AND(GE(id,2),NOT(EQ(tag,'red')))`), Columns: []string{"id,name"}, Sort: []string{"~id"}},
				{Kind: "read", Table: "items", Sort: []string{"id"}, Limit: sp("2"), Start: sp("2")},
			}},
			Case{RowIDs: rid, Rows: rows, Ops: []Op{
				{Kind: "insert", Table: "items", Body: `{"id":5,"name":"susan","qty":7,"tag":"red"}`},
				{Kind: "insert", Table: "items", Body: `{"rows":[{"id":6,"name":"timmy","qty":1,"tag":"x"},{"id":7,"name":"mike","qty":2,"tag":"y"}],"count":2}`},
				{Kind: "update", Table: "items", Filter: sp(`EQ(id,1)`), Body: `{"name":"bob"}`},
				{Kind: "delete", Table: "items", Filter: sp(`EQ(name,"mary")`)},
				{Kind: "read", Table: "items", Abstract: true},
			}},
			Case{RowIDs: rid, Rows: rows, Ops: []Op{
				{Kind: "tx", Tasks: []Task{
					{Op: "insert", Table: "items", Data: `{"id":8,"name":"elmer","qty":1,"tag":"tester"}`},
					{Op: "insert", Table: "items", Data: `{"id":9,"name":"daffy","qty":2,"tag":"tester"}`},
					{Op: "update", Table: "items", Filters: []string{"EQ(tag,'tester')"}, Columns: []string{"qty"}, EmptyError: true, Data: `{"qty":66}`},
				}},
				{Kind: "tx", Tasks: []Task{
					{Op: "select", Table: "items", Columns: []string{"name"}, Filters: []string{"EQ(id,1)"}},
					{Op: "symbols", Data: `{"who":"mary"}`},
					{Op: "update", Table: "items", Filters: []string{"EQ(name,'{{who}}')"}, Data: `{"tag":"{{name}}"}`},
					{Op: "readrows", Table: "items", Filters: []string{"GE(id,1)"}},
				}},
				{Kind: "delete", Table: "items"},
			}},
		)
	}
	// Every adversarial column and sort value once on each read path (plain,
	// abstract, transaction select and readrows), so that the quick tier does
	// not depend on the random part drawing a particular value on a particular
	// path. Four requests per case keep the number of cases small.
	var sweep []Op
	for _, c := range advColumns {
		sweep = append(sweep,
			Op{Kind: "read", Table: "items", Abstract: true, Columns: []string{c}},
			Op{Kind: "read", Table: "items", Columns: []string{c}},
			Op{Kind: "tx", Tasks: []Task{{Op: "select", Table: "items", Columns: []string{c}}}},
			Op{Kind: "tx", Tasks: []Task{{Op: "readrows", Table: "items", Columns: []string{c}}}},
		)
	}
	for _, c := range advSort {
		sweep = append(sweep,
			Op{Kind: "read", Table: "items", Abstract: true, Sort: []string{c}},
			Op{Kind: "read", Table: "items", Sort: []string{c}},
		)
	}
	for i := 0; i < len(sweep); i += 4 {
		j := i + 4
		if j > len(sweep) {
			j = len(sweep)
		}
		out = append(out, Case{RowIDs: (i/4)%2 == 1, Rows: rows, Ops: sweep[i:j]})
	}
	return out
}
