package c14

import (
	"encoding/json"
	"sort"
	"strconv"
	"strings"

	"github.com/tucats/ego/verif/srvfix"
	"github.com/tucats/ego/verif/vkit"
)

// txModel is the oracle's reading of a @transaction task list, computed from
// the case and the state before the request.
//
// Documented meaning used (docs/API.md "@transaction", "Data Chaining"):
// tasks run in order; insert adds the data row; update sets the data values
// (restricted to `columns` when given) in the rows matching all `filters`;
// delete removes the rows matching all `filters`; readrows returns the rows
// matching `filters` (projected to `columns`) as the result; select reads a
// single row and stores its column values in the substitution dictionary;
// symbols stores its data in the dictionary; {{name}} in a table name, filter,
// column, data key or (as the whole value) data value is replaced by the
// dictionary value. All-or-nothing is C17's property; here a rejected
// transaction must simply leave everything unchanged.
type txModel struct {
	addressed map[string]bool
	kinds     []string
	params    int
	// hasReading: every task has a documented (or lenient) reading.
	hasReading bool
	// unknown: the reading depends on cells of undocumented storage class or
	// on which of several rows a select returns.
	unknown bool
	// expectReject: the documented outcome is a rejection (emptyError).
	expectReject bool
	documented   bool
	expected     dbState
	// result of the last readrows task
	hasFinal            bool
	finalMust, finalMay []Row
	finalCols           []string
	// finalLost: the last readrows task has parameters without a reading
	finalLost bool
	// wrote: a modelled task changed rows before the end of the list
	wrote bool
	// noop: writing tasks without a reading, expected to change nothing
	noop int
}

func (m *txModel) add(k string) {
	for _, x := range m.kinds {
		if x == k {
			return
		}
	}
	m.kinds = append(m.kinds, k)
}

func cellText(c Cell) (string, bool) {
	switch c.K {
	case 'i':
		return strconv.FormatInt(c.I, 10), true
	case 's':
		return c.S, true
	}
	return "", false
}

func modelTx(op *Op, before dbState, rowids bool) *txModel {
	m := &txModel{addressed: map[string]bool{}, hasReading: true, documented: true, expected: dbState{}}
	for t, rows := range before {
		m.expected[t] = cloneRows(rows)
	}
	dictText := map[string]string{} // symbols with a documented textual form
	dictVal := map[string]any{}     // every symbol, as the JSON value it holds
	// poisoned: the dictionary holds something whose substitution into a text
	// is not documented (a value with braces, a non-string non-integer value,
	// the columns of a select the model could not follow): any later text that
	// contains a reference has no reading.
	poisoned := false
	for ti, t := range op.Tasks {
		m.params++
		if len(t.Filters) > 0 || len(t.Columns) > 0 || t.Data != "" {
			m.params++
		}
		readOnly := t.Op == "readrows" || t.Op == "select"
		bad, unknownRef := false, false
		mark := func(kind string) {
			bad = true
			m.documented = false
			if kind != "" {
				m.add(kind)
			}
		}
		subst := func(s string) string {
			if !strings.Contains(s, "{{") {
				return s
			}
			if poisoned {
				// what the server substitutes here is not documented: the
				// model cannot follow this task
				unknownRef = true
				m.add("symbols:adv")
				m.documented = false
				return s
			}
			if len(dictVal) == 0 {
				return s // no dictionary yet: the text is used as it is
			}
			keys := make([]string, 0, len(dictText))
			for k := range dictText {
				keys = append(keys, k)
			}
			sort.Strings(keys)
			for _, k := range keys {
				s = strings.ReplaceAll(s, "{{"+k+"}}", dictText[k])
			}
			if strings.Contains(s, "{{") && strings.Contains(s, "}}") {
				mark("symbols:unresolved") // the server rejects the task
			}
			return s
		}
		table := subst(t.Table)
		var filters, columns []string
		for _, f := range t.Filters {
			filters = append(filters, subst(f))
		}
		for _, c := range t.Columns {
			columns = append(columns, subst(c))
		}
		tname, plain := "", false
		var def *tableDef
		if t.Op != "symbols" {
			tname, plain = resolveTable(table)
			def = tableDefs[tname]
			if tname != "" {
				m.addressed[tname] = true
			}
			if tname == "" {
				m.add("table:adv")
				m.documented = false
			} else if !plain {
				m.add("table:lenient")
				m.documented = false
			} else if tname != "items" {
				m.add("table:other")
			}
			if def == nil {
				// no table (or sqlite_master): no row reading
				mark("")
			}
		}
		// data object
		var data map[string]any
		if t.Data != "" {
			v, ok := decodeJSON(t.Data)
			mm, isObj := v.(map[string]any)
			if !ok || !isObj {
				mark("body:malformed")
			} else {
				data = map[string]any{}
				for k, x := range mm {
					nk := subst(k)
					if s, isStr := x.(string); isStr && (len(dictVal) > 0 || poisoned) && strings.HasPrefix(s, "{{") && strings.HasSuffix(s, "}}") {
						// the whole value is a reference: it is replaced by the
						// symbol's value, whatever its type
						name := strings.TrimSuffix(strings.TrimPrefix(s, "{{"), "}}")
						if val, found := dictVal[name]; found && !poisoned {
							x = val
						} else if poisoned {
							// the dictionary holds values the model could not
							// follow (e.g. a select that matched several rows)
							unknownRef = true
							m.add("symbols:adv")
							m.documented = false
						} else {
							mark("symbols:unresolved")
						}
					}
					if _, dup := data[nk]; dup {
						mark("body:malformed")
					}
					data[nk] = x
				}
			}
		}
		// parameters are classified against the table the task is written for
		// even when the table name itself addresses nothing
		cdef := def
		if cdef == nil {
			cdef = defFor(table)
		}
		var pf *parsedFilter
		if len(filters) > 0 {
			pf = parseFilters(filters, cdef)
			if pf == nil {
				if edgeQuoteIn(filters) {
					mark("filter:edge-quote")
				} else {
					mark("filter:unparsed")
				}
			} else {
				filterKind(pf, true, filters, m.add)
				if !pf.strict {
					m.documented = false
				}
			}
		}
		var colNames []string
		if len(columns) > 0 {
			var colsDoc bool
			colNames, colsDoc = namesDocumented(cdef, columns, false, rowids)
			for _, c := range columns {
				if strings.Contains(c, ",") {
					colsDoc = false // the array has one name per element
				}
			}
			if !colsDoc {
				mark("columns:adv")
			}
		}
		var pb *parsedBody
		if data != nil && (t.Op == "insert" || t.Op == "update") {
			pb = &parsedBody{}
			br, ok := parseRowObject(cdef, data, pb)
			if !ok {
				mark("body:adv-key")
				pb = nil
			} else {
				pb.rows = []bodyRow{br}
				if pb.advKey {
					m.add("body:adv-key")
					m.documented = false
				}
				if pb.advVal {
					m.add("body:adv-value")
					m.documented = false
				}
			}
		}
		// shape of the task
		switch t.Op {
		case "symbols":
			if t.Table != "" || len(t.Filters) > 0 || len(t.Columns) > 0 || data == nil {
				mark("task:adv")
			}
		case "insert":
			if len(filters) > 0 || len(columns) > 0 || pb == nil {
				mark("task:adv")
			}
		case "update":
			if pb == nil {
				mark("task:adv")
			}
		case "delete":
			if len(columns) > 0 {
				mark("task:adv")
			}
		case "select", "readrows":
		default:
			mark("task:adv")
		}
		if bad || unknownRef {
			switch {
			case t.Op == "readrows":
				// its result is not modelled; the state model is unaffected
				m.hasFinal, m.finalLost = false, true
			case t.Op == "select":
				poisoned = true
			case t.Op == "symbols":
				poisoned = true
			case unknownRef:
				m.unknown = true
			default:
				// A writing task without a reading must not change anything
				// (it may also make the server reject the whole list): it is
				// a no-op in the expected state.
				m.noop++
			}
			continue
		}
		if !m.hasReading || m.unknown || m.expectReject {
			continue // keep classifying, stop modelling
		}
		_ = readOnly
		rows := m.expected[tname]
		switch t.Op {
		case "symbols":
			for k, x := range data {
				delete(dictText, k)
				dictVal[k] = x
				switch v := x.(type) {
				case string:
					if strings.Contains(v, "{{") || strings.Contains(v, "}}") || strings.Contains(k, "{") || strings.Contains(k, "}") {
						poisoned = true
						m.add("symbols:adv")
						continue
					}
					dictText[k] = v
				case json.Number:
					if c, ok := cellFor('i', v); ok {
						dictText[k] = strconv.FormatInt(c.I, 10)
					} else {
						poisoned = true
						m.add("symbols:adv")
					}
				default:
					poisoned = true
					m.add("symbols:adv")
				}
			}
		case "insert":
			m.expected[tname] = append(rows, newRowFor(def, pb.rows[0]))
			m.wrote = true
		case "update":
			var only map[string]bool
			if len(columns) > 0 {
				only = map[string]bool{}
				for _, c := range colNames {
					only[c] = true
				}
			}
			yes, unknown := partition(pf, rows)
			if len(unknown) > 0 {
				m.unknown = true
				continue
			}
			if len(yes) == 0 && t.EmptyError {
				m.expectReject = true
				continue
			}
			for _, i := range yes {
				for c, v := range pb.rows[0].cells {
					if only == nil || only[c] {
						rows[i][c] = v
					}
				}
			}
			m.wrote = true
		case "delete":
			yes, unknown := partition(pf, rows)
			if len(unknown) > 0 {
				m.unknown = true
				continue
			}
			if len(yes) == 0 && t.EmptyError {
				m.expectReject = true
				continue
			}
			gone := map[int]bool{}
			for _, i := range yes {
				gone[i] = true
			}
			var keep []Row
			for i, r := range rows {
				if !gone[i] {
					keep = append(keep, r)
				}
			}
			m.expected[tname] = keep
			m.wrote = true
		case "select":
			yes, unknown := partition(pf, rows)
			if len(unknown) > 0 || len(yes) > 1 {
				// which row a multi-row select stores is not documented
				poisoned = true
				continue
			}
			if len(yes) == 0 {
				if t.EmptyError {
					m.expectReject = true
				}
				continue
			}
			r := rows[yes[0]]
			names := def.Cols
			if len(colNames) > 0 {
				names = colNames
			} else if rowids {
				names = append(append([]string{}, def.Cols...), rowIDName)
			}
			for _, c := range names {
				cell, ok := r[c]
				if !ok {
					// a row inserted earlier in this task list: its server-assigned
					// row id is not known to the model
					if c == rowIDName {
						delete(dictText, c)
						dictVal[c] = "?"
						poisoned = poisoned || ti < len(op.Tasks)-1 && refersTo(op.Tasks[ti+1:], rowIDName)
					}
					continue
				}
				txt, ok := cellText(cell)
				if !ok || strings.Contains(txt, "{{") || strings.Contains(txt, "}}") {
					poisoned = true
					continue
				}
				dictText[c] = txt
				if cell.K == 'i' {
					dictVal[c] = json.Number(txt)
				} else {
					dictVal[c] = txt
				}
			}
		case "readrows":
			yes, unknown := partition(pf, rows)
			if len(yes)+len(unknown) == 0 && t.EmptyError {
				m.expectReject = true
				continue
			}
			m.hasFinal, m.finalLost = true, false
			m.finalMust = cloneRows(pick(rows, yes))
			m.finalMay = cloneRows(pick(rows, append(append([]int{}, yes...), unknown...)))
			m.finalCols = def.Cols
			if len(colNames) > 0 {
				m.finalCols = nil
				for _, c := range colNames {
					if c != rowIDName {
						m.finalCols = append(m.finalCols, c)
					}
				}
			}
		}
	}
	return m
}

// refersTo: some text of the tasks contains {{name}}.
func refersTo(tasks []Task, name string) bool {
	ref := "{{" + name + "}}"
	for _, t := range tasks {
		if strings.Contains(t.Table, ref) || strings.Contains(t.Data, ref) {
			return true
		}
		for _, f := range t.Filters {
			if strings.Contains(f, ref) {
				return true
			}
		}
		for _, c := range t.Columns {
			if strings.Contains(c, ref) {
				return true
			}
		}
	}
	return false
}

func judgeTx(res *opResult, op *Op, m *txModel, before, after dbState, resp *srvfix.Response, rejected bool, kinds []string, describe func() string) {
	changed := ""
	for _, t := range tableOrder {
		if exactDump(before[t]) != exactDump(after[t]) {
			changed = t
			break
		}
	}
	res.label("tx reading=%v unknown=%v expect-reject=%v rejected=%v changed=%v", m.hasReading, m.unknown, m.expectReject, rejected, changed != "")
	if rejected {
		if changed != "" {
			res.fail = &vkit.Failure{Sig: "state | error-but-changed", Observed: describe() + "\n    " + changed + " now: " + renderRows(after[changed], tableDefs[changed].Cols), Expected: "a rejected transaction leaves every table unchanged"}
		}
		return
	}
	if m.unknown {
		res.inconclusive = "unknown-cells"
		return
	}
	if !m.hasReading || m.expectReject {
		if changed != "" {
			res.fail = &vkit.Failure{Sig: "state | changed-without-reading", Observed: describe() + "\n    " + changed + " before: " + renderRows(before[changed], tableDefs[changed].Cols) + "\n    " + changed + " now:    " + renderRows(after[changed], tableDefs[changed].Cols), Expected: "(no reading: only 'unchanged' or a rejection is acceptable)"}
		}
		// rows of a 2xx answer must still come from an addressed table (only
		// decidable when the task list cannot have changed rows in between)
		if rows, ok := responseRows(resp.Body, false); ok && changed == "" && !hasWriteTask(op) {
			for _, r := range rows {
				if !rowFromAddressed(r, m.addressed, after) {
					res.fail = &vkit.Failure{Sig: "rows | row-not-in-table", Observed: describe(), Expected: "each returned row is a row of an addressed table"}
					return
				}
			}
		}
		return
	}
	for _, t := range tableOrder {
		def := tableDefs[t]
		if sameMultiset(m.expected[t], after[t], def.Cols) {
			continue
		}
		if exactDump(before[t]) == exactDump(after[t]) && !m.documented {
			continue // adversarial task list accepted but not applied: tolerated
		}
		sig := "state | changed-without-reading"
		if exactDump(before[t]) == exactDump(after[t]) {
			sig = "state | 2xx-but-not-applied"
		}
		res.fail = &vkit.Failure{Sig: sig, Observed: describe() + "\n    " + t + " before: " + renderRows(before[t], def.Cols) + "\n    " + t + " now:    " + renderRows(after[t], def.Cols), Expected: t + " = " + renderRows(m.expected[t], def.Cols)}
		return
	}
	if m.hasFinal {
		rows, ok := responseRows(resp.Body, false)
		if !ok {
			res.fail = &vkit.Failure{Sig: "rows | unparseable-2xx-body", Observed: describe(), Expected: "a rowset (the task list ends in readrows)"}
			return
		}
		if !respWithin(rows, m.finalMay, m.finalCols) {
			res.fail = &vkit.Failure{Sig: "rows | rows!=model", Observed: describe(), Expected: "rows ⊆ " + renderRows(m.finalMay, m.finalCols)}
			return
		}
		if !covers(m.finalMust, rows, m.finalCols) {
			res.fail = &vkit.Failure{Sig: "rows | rows!=model", Observed: describe(), Expected: "rows ⊇ " + renderRows(m.finalMust, m.finalCols)}
			return
		}
	}
}

func hasWriteTask(op *Op) bool {
	for _, t := range op.Tasks {
		if t.Op != "readrows" && t.Op != "select" && t.Op != "symbols" {
			return true
		}
	}
	return false
}

func rowFromAddressed(r Row, addressed map[string]bool, st dbState) bool {
	any := false
	for t := range addressed {
		def := tableDefs[t]
		if def == nil {
			return true // sqlite_master: not modelled
		}
		var known []string
		for _, c := range def.Cols {
			if _, ok := r[c]; ok {
				known = append(known, c)
			}
		}
		if len(known) == 0 {
			continue
		}
		any = true
		if respWithin([]Row{r}, st[t], known) {
			return true
		}
	}
	return !any // only foreign column names: the trace layer judges those
}
