package c14

import (
	"encoding/json"
	"sort"
	"strconv"
	"strings"

	"github.com/tucats/ego/verif/srvfix"
	"github.com/tucats/ego/verif/vkit"
)

// txModel is the oracle's reading of a @transaction task list, computed from
// the case and the state before the request.
//
// Documented meaning used (docs/API.md "@transaction", "Data Chaining"):
// tasks run in order; insert adds the data row; update sets the data values
// (restricted to `columns` when given) in the rows matching all `filters`;
// delete removes the rows matching all `filters`; readrows returns the rows
// matching `filters` (projected to `columns`) as the result; select reads a
// single row and stores its column values in the substitution dictionary;
// symbols stores its data in the dictionary; {{name}} in a table name, filter,
// column, data key or (as the whole value) data value is replaced by the
// dictionary value. All-or-nothing is C17's property; here a rejected
// transaction must simply leave everything unchanged.
type txModel struct {
	addressed map[string]bool
	kinds     []string
	params    int
	// hasReading: every task has a documented (or lenient) reading.
	hasReading bool
	// unknown: the reading depends on cells of undocumented storage class or
	// on which of several rows a select returns.
	unknown bool
	// expectReject: the documented outcome is a rejection (emptyError).
	expectReject bool
	documented   bool
	expected     dbState
	// result of the last readrows task
	hasFinal          bool
	finalMust, finalMay []Row
	finalCols         []string
}

func (m *txModel) add(k string) {
	for _, x := range m.kinds {
		if x == k {
			return
		}
	}
	m.kinds = append(m.kinds, k)
}

func cellText(c Cell) (string, bool) {
	switch c.K {
	case 'i':
		return strconv.FormatInt(c.I, 10), true
	case 's':
		return c.S, true
	}
	return "", false
}

func modelTx(op *Op, before dbState, rowids bool) *txModel {
	m := &txModel{addressed: map[string]bool{}, hasReading: true, documented: true, expected: dbState{}}
	for t, rows := range before {
		m.expected[t] = cloneRows(rows)
	}
	dictText := map[string]string{}
	dictVal := map[string]any{}
	noReading := func(kind string) {
		m.hasReading = false
		m.documented = false
		if kind != "" {
			m.add(kind)
		}
	}
	// poisoned: a symbols task stored a value the documentation gives no
	// textual form for (non-string, non-integer, or text containing braces);
	// it only matters for later texts that contain a reference at all.
	poisoned := false
	// weird: symbols holding a JSON value that is neither a string nor a small
	// integer; as a whole data value they are passed on as they are, inside a
	// text they have no documented spelling.
	weird := map[string]bool{}
	subst := func(s string) (string, bool) {
		if poisoned && strings.Contains(s, "{{") {
			m.add("symbols:adv")
			return s, false
		}
		for k := range weird {
			if strings.Contains(s, "{{"+k+"}}") {
				m.add("symbols:adv")
				return s, false
			}
		}
		if len(dictText) == 0 {
			return s, true
		}
		keys := make([]string, 0, len(dictText))
		for k := range dictText {
			keys = append(keys, k)
		}
		sort.Strings(keys)
		for _, k := range keys {
			s = strings.ReplaceAll(s, "{{"+k+"}}", dictText[k])
		}
		if strings.Contains(s, "{{") && strings.Contains(s, "}}") {
			return s, false // unresolved reference: the server rejects the task
		}
		return s, true
	}
	for _, t := range op.Tasks {
		m.params++
		table, ok := subst(t.Table)
		if !ok {
			noReading("symbols:unresolved")
		}
		var filters, columns []string
		for _, f := range t.Filters {
			s, ok := subst(f)
			if !ok {
				noReading("symbols:unresolved")
			}
			filters = append(filters, s)
		}
		for _, c := range t.Columns {
			s, ok := subst(c)
			if !ok {
				noReading("symbols:unresolved")
			}
			columns = append(columns, s)
		}
		if len(t.Filters) > 0 || len(t.Columns) > 0 || t.Data != "" {
			m.params++
		}
		tname, plain := "", false
		var def *tableDef
		if t.Op != "symbols" {
			tname, plain = resolveTable(table)
			def = tableDefs[tname]
			if tname != "" {
				m.addressed[tname] = true
			}
			if !plain {
				m.add("table:adv")
				m.documented = false
			} else if tname != "items" {
				m.add("table:other")
			}
			if def == nil {
				// no table (or sqlite_master): no row reading; the request may
				// only be rejected or change nothing
				noReading("")
			}
		}
		// data object
		var data map[string]any
		dataOK := true
		if t.Data != "" {
			v, ok := decodeJSON(t.Data)
			if mm, isObj := v.(map[string]any); ok && isObj {
				data = map[string]any{}
				for k, x := range mm {
					nk, ok := subst(k)
					if !ok {
						noReading("symbols:unresolved")
					}
					if s, isStr := x.(string); isStr && poisoned && strings.Contains(s, "{{") {
						noReading("symbols:adv")
					} else if isStr && len(dictVal) > 0 && strings.HasPrefix(s, "{{") && strings.HasSuffix(s, "}}") {
						name := strings.TrimSuffix(strings.TrimPrefix(s, "{{"), "}}")
						if val, found := dictVal[name]; found {
							x = val
						} else {
							noReading("symbols:unresolved")
						}
					}
					if _, dup := data[nk]; dup {
						dataOK = false
					}
					data[nk] = x
				}
			} else {
				dataOK = false
			}
			if !dataOK {
				noReading("body:malformed")
			}
		}
		// parameters are classified against the table the task is written for
		// even when the table name itself addresses nothing
		cdef := def
		if cdef == nil {
			cdef = defFor(table)
		}
		var pf *parsedFilter
		if len(filters) > 0 {
			pf = parseFilters(filters, cdef)
			if pf == nil {
				noReading("filter:unparsed")
			} else {
				filterKind(pf, true, m.add)
				if !pf.strict {
					m.documented = false
				}
			}
		}
		var colNames []string
		colsDoc := true
		if len(columns) > 0 {
			colNames, colsDoc = namesDocumented(cdef, columns, false, rowids)
			for _, c := range columns {
				if strings.Contains(c, ",") {
					colsDoc = false // the array has one name per element
				}
			}
			if !colsDoc {
				noReading("columns:adv")
			}
		}
		var pb *parsedBody
		if data != nil && (t.Op == "insert" || t.Op == "update") {
			def := cdef
			pb = &parsedBody{}
			br, ok := parseRowObject(def, data, pb)
			if !ok {
				noReading("body:adv-key")
				pb = nil
			} else {
				pb.rows = []bodyRow{br}
				if pb.advKey {
					m.add("body:adv-key")
					m.documented = false
				}
				if pb.advVal {
					m.add("body:adv-value")
					m.documented = false
				}
			}
		}
		if !m.hasReading || m.unknown || m.expectReject {
			continue // keep classifying, stop modelling
		}
		rows := m.expected[tname]
		switch t.Op {
		case "symbols":
			if t.Table != "" || len(t.Filters) > 0 || len(t.Columns) > 0 || data == nil {
				noReading("task:adv")
				continue
			}
			for k, x := range data {
				switch v := x.(type) {
				case string:
					if strings.Contains(v, "{{") || strings.Contains(v, "}}") || strings.Contains(k, "{") || strings.Contains(k, "}") {
						poisoned = true
						continue
					}
					dictText[k], dictVal[k] = v, v
					delete(weird, k)
				case json.Number:
					if c, ok := cellFor('i', v); ok {
						dictText[k], dictVal[k] = strconv.FormatInt(c.I, 10), v
						delete(weird, k)
					} else {
						weird[k], dictVal[k] = true, v
						delete(dictText, k)
					}
				default:
					weird[k], dictVal[k] = true, x
					delete(dictText, k)
				}
			}
		case "insert":
			if len(filters) > 0 || len(columns) > 0 || pb == nil {
				noReading("task:adv")
				continue
			}
			m.expected[tname] = append(rows, newRowFor(def, pb.rows[0]))
		case "update":
			if pb == nil || (len(filters) > 0 && pf == nil) {
				noReading("task:adv")
				continue
			}
			var only map[string]bool
			if len(columns) > 0 {
				only = map[string]bool{}
				for _, c := range colNames {
					only[c] = true
				}
			}
			yes, unknown := partition(pf, rows)
			if len(unknown) > 0 {
				m.unknown = true
				continue
			}
			if len(yes) == 0 && t.EmptyError {
				m.expectReject = true
				continue
			}
			for _, i := range yes {
				for c, v := range pb.rows[0].cells {
					if only == nil || only[c] {
						rows[i][c] = v
					}
				}
			}
		case "delete":
			if len(columns) > 0 || (len(filters) > 0 && pf == nil) {
				noReading("task:adv")
				continue
			}
			yes, unknown := partition(pf, rows)
			if len(unknown) > 0 {
				m.unknown = true
				continue
			}
			if len(yes) == 0 && t.EmptyError {
				m.expectReject = true
				continue
			}
			gone := map[int]bool{}
			for _, i := range yes {
				gone[i] = true
			}
			var keep []Row
			for i, r := range rows {
				if !gone[i] {
					keep = append(keep, r)
				}
			}
			m.expected[tname] = keep
		case "select":
			if len(filters) > 0 && pf == nil {
				noReading("task:adv")
				continue
			}
			yes, unknown := partition(pf, rows)
			if len(unknown) > 0 || len(yes) > 1 {
				m.unknown = true // which row a multi-row select stores is not documented
				continue
			}
			if len(yes) == 0 {
				if t.EmptyError {
					m.expectReject = true
				}
				continue
			}
			r := rows[yes[0]]
			names := def.Cols
			if len(colNames) > 0 {
				names = colNames
			} else if rowids {
				names = append(append([]string{}, def.Cols...), rowIDName)
			}
			for _, c := range names {
				cell, ok := r[c]
				if !ok {
					continue
				}
				txt, ok := cellText(cell)
				if !ok || strings.Contains(txt, "{{") || strings.Contains(txt, "}}") {
					m.unknown = true
					continue
				}
				dictText[c] = txt
				if cell.K == 'i' {
					dictVal[c] = json.Number(txt)
				} else {
					dictVal[c] = txt
				}
			}
		case "readrows":
			if len(filters) > 0 && pf == nil {
				noReading("task:adv")
				continue
			}
			yes, unknown := partition(pf, rows)
			if len(yes)+len(unknown) == 0 && t.EmptyError {
				m.expectReject = true
				continue
			}
			m.hasFinal = true
			m.finalMust = cloneRows(pick(rows, yes))
			m.finalMay = cloneRows(pick(rows, append(append([]int{}, yes...), unknown...)))
			m.finalCols = def.Cols
			if len(colNames) > 0 {
				m.finalCols = nil
				for _, c := range colNames {
					if c != rowIDName {
						m.finalCols = append(m.finalCols, c)
					}
				}
			}
		default:
			noReading("task:adv")
		}
	}
	return m
}

func judgeTx(res *opResult, op *Op, m *txModel, before, after dbState, resp *srvfix.Response, rejected bool, kinds []string, describe func() string) {
	changed := ""
	for _, t := range tableOrder {
		if exactDump(before[t]) != exactDump(after[t]) {
			changed = t
			break
		}
	}
	res.label("tx reading=%v unknown=%v expect-reject=%v rejected=%v changed=%v", m.hasReading, m.unknown, m.expectReject, rejected, changed != "")
	if rejected {
		if changed != "" {
			res.fail = &vkit.Failure{Sig: "state | error-but-changed", Observed: describe() + "\n    " + changed + " now: " + renderRows(after[changed], tableDefs[changed].Cols), Expected: "a rejected transaction leaves every table unchanged"}
		}
		return
	}
	if m.unknown {
		res.inconclusive = "unknown-cells"
		return
	}
	if !m.hasReading || m.expectReject {
		if changed != "" {
			res.fail = &vkit.Failure{Sig: "state | changed-without-reading", Observed: describe() + "\n    " + changed + " before: " + renderRows(before[changed], tableDefs[changed].Cols) + "\n    " + changed + " now:    " + renderRows(after[changed], tableDefs[changed].Cols), Expected: "(no reading: only 'unchanged' or a rejection is acceptable)"}
		}
		// rows of a 2xx answer must still come from an addressed table
		if rows, ok := responseRows(resp.Body, false); ok {
			for _, r := range rows {
				if !rowFromAddressed(r, m.addressed, after) {
					res.fail = &vkit.Failure{Sig: "rows | row-not-in-table", Observed: describe(), Expected: "each returned row is a row of an addressed table"}
					return
				}
			}
		}
		return
	}
	for _, t := range tableOrder {
		def := tableDefs[t]
		if sameMultiset(m.expected[t], after[t], def.Cols) {
			continue
		}
		if exactDump(before[t]) == exactDump(after[t]) && !m.documented {
			continue // adversarial task list accepted but not applied: tolerated
		}
		sig := "state | changed-without-reading"
		if exactDump(before[t]) == exactDump(after[t]) {
			sig = "state | 2xx-but-not-applied"
		}
		res.fail = &vkit.Failure{Sig: sig, Observed: describe() + "\n    " + t + " before: " + renderRows(before[t], def.Cols) + "\n    " + t + " now:    " + renderRows(after[t], def.Cols), Expected: t + " = " + renderRows(m.expected[t], def.Cols)}
		return
	}
	if m.hasFinal {
		rows, ok := responseRows(resp.Body, false)
		if !ok {
			res.fail = &vkit.Failure{Sig: "rows | unparseable-2xx-body", Observed: describe(), Expected: "a rowset (the task list ends in readrows)"}
			return
		}
		if !respWithin(rows, m.finalMay, m.finalCols) {
			res.fail = &vkit.Failure{Sig: "rows | rows!=model", Observed: describe(), Expected: "rows ⊆ " + renderRows(m.finalMay, m.finalCols)}
			return
		}
		if !subMultiset(m.finalMust, rows, m.finalCols) {
			res.fail = &vkit.Failure{Sig: "rows | rows!=model", Observed: describe(), Expected: "rows ⊇ " + renderRows(m.finalMust, m.finalCols)}
			return
		}
	}
}

func rowFromAddressed(r Row, addressed map[string]bool, st dbState) bool {
	any := false
	for t := range addressed {
		def := tableDefs[t]
		if def == nil {
			return true // sqlite_master: not modelled
		}
		var known []string
		for _, c := range def.Cols {
			if _, ok := r[c]; ok {
				known = append(known, c)
			}
		}
		if len(known) == 0 {
			continue
		}
		any = true
		if respWithin([]Row{r}, st[t], known) {
			return true
		}
	}
	return !any // only foreign column names: the trace layer judges those
}
