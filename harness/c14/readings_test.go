package c14

import (
	"encoding/json"
	"fmt"
	"strings"
	"unicode/utf8"
)

// ---------------------------------------------------------------------------
// request bodies
// ---------------------------------------------------------------------------

// bodyRow is one row object of a payload read against a table.
type bodyRow struct {
	cells map[string]Cell // column -> expected cell (exact, or '*' where the docs give no conversion)
	// rowID: value of the _row_id_ key when it is a JSON string.
	rowID    *string
	hasRowID bool
}

type parsedBody struct {
	rows []bodyRow
	// documented: a documented payload shape with exact column names and
	// values of the column's JSON type.
	documented bool
	// advKey / advVal / shape: why it is not documented.
	advKey, advVal, advShape bool
}

func decodeJSON(text string) (any, bool) {
	if !json.Valid([]byte(text)) { // also rejects trailing text, as json.Unmarshal does
		return nil, false
	}
	d := json.NewDecoder(strings.NewReader(text))
	d.UseNumber()
	var v any
	if err := d.Decode(&v); err != nil {
		return nil, false
	}
	return v, true
}

func resolveColumn(def *tableDef, key string) (col string, exact bool, ok bool) {
	if _, ok := def.Type[key]; ok {
		return key, true, true
	}
	if isASCII(key) {
		for _, c := range def.Cols {
			if strings.EqualFold(c, key) {
				return c, false, true
			}
		}
	}
	return "", false, false
}

// cellFor: the cell a JSON value must become in a column of type ty, or '*'
// when the documentation does not say (wrong JSON type, null, a number that is
// not a plain small integer, a string with NUL or an unpaired surrogate).
func cellFor(ty byte, v any) (Cell, bool) {
	switch x := v.(type) {
	case string:
		if ty == 's' && utf8.ValidString(x) && !strings.ContainsRune(x, 0) && !strings.ContainsRune(x, utf8.RuneError) {
			return cs(x), true
		}
	case json.Number:
		if ty == 'i' {
			s := x.String()
			if len(s) <= 10 && !strings.ContainsAny(s, ".eE+") && (len(s) == 1 || !strings.HasPrefix(strings.TrimPrefix(s, "-"), "0")) {
				if n, err := x.Int64(); err == nil {
					return ci(n), true
				}
			}
		}
	}
	return cany, false
}

func parseRowObject(def *tableDef, m map[string]any, pb *parsedBody) (bodyRow, bool) {
	br := bodyRow{cells: map[string]Cell{}}
	for k, v := range m {
		if k == rowIDName {
			br.hasRowID = true
			if s, ok := v.(string); ok {
				br.rowID = &s
			} else {
				pb.advVal = true
			}
			continue
		}
		col, exact, ok := resolveColumn(def, k)
		if !ok {
			pb.advKey = true
			return br, false
		}
		if !exact {
			pb.advKey = true
		}
		if _, dup := br.cells[col]; dup {
			// the same column under two spellings: either value may win
			pb.advKey = true
			br.cells[col] = cany
			continue
		}
		c, doc := cellFor(def.Type[col], v)
		if !doc {
			pb.advVal = true
		}
		br.cells[col] = c
	}
	return br, true
}

// parseBody reads a row payload: a row object, {"rows":[objects]}, an array
// of objects (accepted by the handler; lenient), or the abstract form
// {"columns":[{"name":..}],"rows":[[..]]}. nil = the body has no reading as
// rows of this table.
func parseBody(def *tableDef, text string, abstract bool) *parsedBody {
	v, ok := decodeJSON(text)
	if !ok {
		return nil
	}
	pb := &parsedBody{}
	addObj := func(x any) bool {
		m, ok := x.(map[string]any)
		if !ok {
			return false
		}
		br, ok := parseRowObject(def, m, pb)
		if !ok {
			return false
		}
		pb.rows = append(pb.rows, br)
		return true
	}
	switch x := v.(type) {
	case []any:
		if abstract || len(x) == 0 {
			return nil
		}
		pb.advShape = true
		for _, e := range x {
			if !addObj(e) {
				return nil
			}
		}
	case map[string]any:
		rowsV, hasRows := x["rows"]
		colsV, hasCols := x["columns"]
		rowsA, rowsIsArr := rowsV.([]any)
		switch {
		case abstract && hasRows && hasCols && rowsIsArr && len(rowsA) > 0:
			colsA, ok := colsV.([]any)
			if !ok {
				return nil
			}
			var names []string
			for _, c := range colsA {
				cm, ok := c.(map[string]any)
				if !ok {
					return nil
				}
				n, ok := cm["name"].(string)
				if !ok {
					return nil
				}
				names = append(names, n)
			}
			for _, r := range rowsA {
				ra, ok := r.([]any)
				if !ok || len(ra) != len(names) {
					return nil
				}
				m := map[string]any{}
				for i, n := range names {
					if _, dup := m[n]; dup {
						return nil
					}
					m[n] = ra[i]
				}
				if !addObj(m) {
					return nil
				}
			}
		case !abstract && hasRows && rowsIsArr && len(rowsA) > 0:
			for k := range x {
				if k != "rows" && k != "count" {
					pb.advShape = true
				}
			}
			for _, e := range rowsA {
				if !addObj(e) {
					return nil
				}
			}
		case hasRows || hasCols:
			// "rows"/"columns" are payload keywords, not columns of our tables
			return nil
		default:
			if !addObj(x) {
				return nil
			}
		}
	default:
		return nil
	}
	if len(pb.rows) == 0 {
		return nil
	}
	pb.documented = !pb.advKey && !pb.advVal && !pb.advShape
	return pb
}

// ---------------------------------------------------------------------------
// readings of write requests
// ---------------------------------------------------------------------------

// reading is one acceptable next state of one table.
type reading struct {
	rows []Row
	what string
}

func cloneRows(rows []Row) []Row {
	out := make([]Row, len(rows))
	for i, r := range rows {
		out[i] = r.clone()
	}
	return out
}

// chooseUnknown enumerates which of the rows with unknown filter verdict are
// taken as selected (at most 3 unknown rows, else nil,false).
func chooseUnknown(unknown []int) ([][]int, bool) {
	if len(unknown) > 3 {
		return nil, false
	}
	var out [][]int
	for mask := 0; mask < 1<<len(unknown); mask++ {
		var sel []int
		for i, u := range unknown {
			if mask&(1<<i) != 0 {
				sel = append(sel, u)
			}
		}
		out = append(out, sel)
	}
	return out, true
}

func newRowFor(def *tableDef, br bodyRow) Row {
	r := Row{}
	for _, c := range def.Cols {
		if v, ok := br.cells[c]; ok {
			r[c] = v
		} else {
			// a column the payload does not mention is stored as NULL (the
			// handler's "assumed null"); rejecting the row is equally fine
			r[c] = cnull
		}
	}
	return r
}

// insertReadings: rows of the payload appended (documented meaning of PUT
// rows). With upsert keys: "If a row with the same key already exists it is
// updated; otherwise a new row is inserted".
func insertReadings(def *tableDef, before []Row, pb *parsedBody, upsert []string, upsertGiven bool) ([]reading, bool) {
	plain := cloneRows(before)
	for _, br := range pb.rows {
		plain = append(plain, newRowFor(def, br))
	}
	out := []reading{{rows: plain, what: "insert"}}
	if !upsertGiven {
		return out, true
	}
	cur := cloneRows(before)
	for _, br := range pb.rows {
		matched := false
		usable := len(upsert) > 0
		for _, k := range upsert {
			if k == rowIDName {
				if br.rowID == nil {
					usable = false
				}
				continue
			}
			c, ok := br.cells[k]
			if !ok || c.K == '*' {
				usable = false
			}
		}
		if usable {
			for _, r := range cur {
				same := true
				for _, k := range upsert {
					if k == rowIDName {
						if r[rowIDName].K != 's' || r[rowIDName].S != *br.rowID {
							same = false
						}
						continue
					}
					if r[k].K == 'n' || r[k].K == 'f' || r[k].K == 'b' {
						return nil, false // key comparison against an undocumented storage class
					}
					if !br.cells[k].matches(r[k]) {
						same = false
					}
				}
				if same {
					matched = true
					for c, v := range br.cells {
						r[c] = v
					}
				}
			}
		}
		if !matched {
			cur = append(cur, newRowFor(def, br))
		}
	}
	out = append(out, reading{rows: cur, what: "upsert"})
	return out, true
}

// updateReadings: "Only the values specified in the request body are
// updated"; "If a _row_id_ field is present in the row payload, only that
// specific row is updated. Otherwise, all rows matching the filter are
// updated"; columns = "Only update these columns from the payload".
func updateReadings(def *tableDef, before []Row, pb *parsedBody, pf *parsedFilter, only map[string]bool) ([]reading, bool) {
	states := [][]Row{cloneRows(before)}
	for _, br := range pb.rows {
		var next [][]Row
		for _, st := range states {
			yes, unknown := partition(pf, st)
			choices, ok := chooseUnknown(unknown)
			if !ok {
				return nil, false
			}
			for _, extra := range choices {
				ns := cloneRows(st)
				for _, i := range append(append([]int{}, yes...), extra...) {
					if br.hasRowID {
						if br.rowID == nil {
							return nil, false
						}
						if *br.rowID != "" && (ns[i][rowIDName].K != 's' || ns[i][rowIDName].S != *br.rowID) {
							continue
						}
					}
					for c, v := range br.cells {
						if only != nil && !only[c] {
							continue
						}
						ns[i][c] = v
					}
				}
				next = append(next, ns)
			}
		}
		if len(next) > 16 {
			return nil, false
		}
		states = next
	}
	var out []reading
	for _, st := range states {
		out = append(out, reading{rows: st, what: "update"})
	}
	return out, true
}

// deleteReadings: "Only delete rows matching the filter"; "By default all
// rows are deleted".
func deleteReadings(before []Row, pf *parsedFilter) ([]reading, bool) {
	yes, unknown := partition(pf, before)
	choices, ok := chooseUnknown(unknown)
	if !ok {
		return nil, false
	}
	var out []reading
	for _, extra := range choices {
		gone := map[int]bool{}
		for _, i := range yes {
			gone[i] = true
		}
		for _, i := range extra {
			gone[i] = true
		}
		var rows []Row
		for i, r := range before {
			if !gone[i] {
				rows = append(rows, r.clone())
			}
		}
		out = append(out, reading{rows: rows, what: "delete"})
	}
	return out, true
}

// namesDocumented: every element of a comma separated list (one or several
// URL parameter values) is exactly a column name (or _row_id_ where the table
// has one). strip: a leading "~" per name is allowed (sort).
func namesDocumented(def *tableDef, values []string, allowTilde, rowids bool) ([]string, bool) {
	var out []string
	for _, v := range values {
		for _, n := range strings.Split(v, ",") {
			if allowTilde {
				n = strings.TrimPrefix(n, "~")
			}
			if _, ok := def.Type[n]; !ok && !(rowids && n == rowIDName) {
				return nil, false
			}
			out = append(out, n)
		}
	}
	return out, true
}

func describeReadings(rs []reading, cols []string) string {
	var parts []string
	for _, r := range rs {
		parts = append(parts, fmt.Sprintf("%s:%s", r.what, renderRows(r.rows, cols)))
	}
	if len(parts) == 0 {
		return "(no reading: only 'unchanged' is acceptable)"
	}
	return strings.Join(parts, " | ")
}
