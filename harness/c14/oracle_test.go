package c14

import (
	"encoding/json"
	"fmt"
	"regexp"
	"sort"
	"strconv"
	"strings"

	"github.com/tucats/ego/verif/sqlitex"
	"github.com/tucats/ego/verif/srvfix"
	"github.com/tucats/ego/verif/vkit"
)

// verdict of one request
type opResult struct {
	labels       []string
	fail         *vkit.Failure
	inconclusive string
	traced       int
	params       int // generated parameters present in the request
}

func (r *opResult) label(format string, a ...any) {
	r.labels = append(r.labels, fmt.Sprintf(format, a...))
}

func oracle(c Case) vkit.Outcome {
	var out vkit.Outcome
	fx, err := getFix()
	if err != nil {
		panic("harness: fixture: " + err.Error())
	}
	d := fx.dsns[c.RowIDs]
	if err := d.reset(c.Rows); err != nil {
		panic("harness: reset: " + err.Error())
	}
	before, err := d.dumpAll()
	if err != nil {
		panic("harness: " + err.Error())
	}
	takeTrace()
	traced, params := 0, 0
	for i := range c.Ops {
		op := &c.Ops[i]
		res, after := runOp(fx, d, op, before)
		out.Labels = append(out.Labels, res.labels...)
		traced += res.traced
		params += res.params
		if res.inconclusive != "" && out.Inconclusive == "" {
			out.Inconclusive = res.inconclusive
		}
		if res.fail != nil {
			res.fail.Observed = fmt.Sprintf("request %d of %d: %s", i+1, len(c.Ops), res.fail.Observed)
			out.Fail = res.fail
			break
		}
		before = after
	}
	out.NonTrivial = traced >= 1 && params >= 1
	out.Labels = append(out.Labels, fmt.Sprintf("requests=%d", len(c.Ops)))
	return out
}

func opName(op *Op) string {
	// the abstract form matters for reads (its own handler, no column
	// validation); abstract writes share the builders of the plain ones
	if op.Abstract && op.Kind == "read" {
		return "abstract-read"
	}
	return op.Kind
}

// kindOrder: when a request has several undocumented parameters, the
// signature names the first of them in this order (requests normally attack
// through one parameter; the rare free-for-all request must not multiply
// signatures).
var kindOrder = []string{"table:adv", "sort:adv", "columns:adv", "upsert:adv", "paging:adv", "filter:unparsed", "filter:edge-quote", "filter:lenient", "filter:hostile-value",
	"body:malformed", "body:adv-key", "body:adv-value", "body:adv-shape", "task:adv", "table:lenient", "symbols:unresolved", "symbols:adv"}

// kindOrderRows is the order used for failures of the state and rows layers,
// where no statement text narrows the choice: what selects or changes rows is
// first of all the filter and the payload.
var kindOrderRows = []string{"filter:unparsed", "filter:edge-quote", "filter:lenient", "body:malformed", "body:adv-key", "body:adv-value", "body:adv-shape", "columns:adv", "upsert:adv",
	"table:adv", "task:adv", "filter:hostile-value", "sort:adv", "paging:adv", "table:lenient", "symbols:unresolved", "symbols:adv"}

func sigKindsRows(kinds []string) string {
	for _, want := range kindOrderRows {
		for _, k := range kinds {
			if k == want {
				return k
			}
		}
	}
	return sigKinds(kinds)
}

// sigKinds renders the parameter kind of a signature; addressing one of the
// other tables by its plain name is a documented request and is left out.
func sigKinds(kinds []string) string {
	for _, want := range kindOrder {
		for _, k := range kinds {
			if k == want {
				return k
			}
		}
	}
	for _, k := range kinds {
		if k != "table:other" {
			return k
		}
	}
	return "documented"
}

func failure(op *Op, kinds []string, layer, what, observed, expected string) *vkit.Failure {
	k := sigKinds(kinds)
	return &vkit.Failure{
		Sig:      fmt.Sprintf("%s | %s | %s | %s", opName(op), k, layer, what),
		Observed: observed,
		Expected: expected,
	}
}

var quotedRE = regexp.MustCompile(`"([^"]*)"|'([^']*)'`)

// paramTexts lists, per parameter kind, the request texts that would show up
// verbatim in a statement if the parameter were copied into it.
func paramTexts(op *Op) map[string][]string {
	m := map[string][]string{}
	add := func(k string, ss ...string) {
		for _, s := range ss {
			s = strings.TrimPrefix(s, "~")
			if len(s) >= 2 {
				m[k] = append(m[k], s)
			}
		}
	}
	filter := func(f string) {
		add("filter", f)
		for _, q := range quotedRE.FindAllStringSubmatch(f, -1) {
			add("filter", q[1], q[2])
		}
	}
	keys := func(body string) {
		if v, ok := decodeJSON(body); ok {
			var walk func(x any, depth int)
			walk = func(x any, depth int) {
				switch y := x.(type) {
				case map[string]any:
					for k, e := range y {
						add("body", k)
						if depth < 3 {
							walk(e, depth+1)
						}
					}
				case []any:
					for _, e := range y {
						if depth < 3 {
							walk(e, depth+1)
						}
					}
				case string:
					add("body", y)
					add("symbols", y)
				}
			}
			walk(v, 0)
		}
	}
	add("table", op.Table)
	if op.Filter != nil {
		filter(*op.Filter)
	}
	add("columns", op.Columns...)
	add("sort", op.Sort...)
	if op.Limit != nil {
		add("paging", *op.Limit)
	}
	if op.Start != nil {
		add("paging", *op.Start)
	}
	if op.Upsert != nil {
		add("upsert", *op.Upsert)
	}
	keys(op.Body)
	for _, t := range op.Tasks {
		add("table", t.Table)
		for _, f := range t.Filters {
			filter(f)
		}
		add("columns", t.Columns...)
		keys(t.Data)
	}
	return m
}

// culprits narrows the request's undocumented parameter kinds to those whose
// text occurs in the offending statement (all of them if none does).
func culprits(kinds []string, texts map[string][]string, sql string) []string {
	var out []string
	for _, k := range kinds {
		base := k
		if i := strings.IndexByte(k, ':'); i >= 0 {
			base = k[:i]
		}
		for _, t := range texts[base] {
			// an occurrence as a properly quoted identifier or literal is how
			// a careful builder writes the parameter; only other occurrences
			// point at it
			rest := strings.ReplaceAll(sql, `"`+strings.ReplaceAll(t, `"`, `""`)+`"`, "")
			if base == "filter" || base == "body" || base == "symbols" {
				rest = strings.ReplaceAll(rest, "'"+strings.ReplaceAll(t, "'", "''")+"'", "")
			}
			if strings.Contains(rest, t) {
				out = append(out, k)
				break
			}
		}
	}
	if len(out) == 0 {
		return kinds
	}
	// Parameters that a vulnerable builder copies verbatim (sort, columns,
	// table, paging, upsert) take precedence over filter kinds: a filter
	// literal legitimately appears in the statement text.
	var verbatim []string
	for _, k := range out {
		if !strings.HasPrefix(k, "filter:") && !strings.HasPrefix(k, "body:") && !strings.HasPrefix(k, "symbols:") {
			verbatim = append(verbatim, k)
		}
	}
	if len(verbatim) > 0 {
		return verbatim
	}
	return out
}

// runOp sends one request and judges it against the state before it.
func runOp(fx *fix, d *dsnFix, op *Op, before dbState) (*opResult, dbState) {
	res := &opResult{}
	// --- what does the request address, and which of its parameters are not
	// documented spellings (decided before the request is sent, from the case alone)
	addressed := map[string]bool{}
	var txm *txModel
	var pp *opParse
	var kinds []string
	body := op.Body
	if op.Kind == "tx" {
		txm = modelTx(op, before, d.rowids)
		for t := range txm.addressed {
			addressed[t] = true
		}
		kinds = txm.kinds
		body = op.txBody(func(s string) string { return s })
		res.params += txm.params
	} else {
		tname, _ := resolveTable(op.Table)
		if strings.Contains(body, "@@ROWID@@") {
			id := "no-such-row-id"
			if rows := before[tname]; len(rows) > 0 {
				r := rows[((op.RowRef%len(rows))+len(rows))%len(rows)]
				if c, ok := r[rowIDName]; ok && c.K == 's' {
					id = c.S
				}
			}
			body = strings.ReplaceAll(body, "@@ROWID@@", id)
		}
		pp = classify(op, body, d.rowids)
		kinds = pp.kinds
		if pp.tname != "" {
			addressed[pp.tname] = true
		}
		if op.Table != "items" {
			res.params++
		}
		for _, p := range []bool{op.Filter != nil, op.Columns != nil, op.Sort != nil, op.Limit != nil, op.Start != nil, op.Upsert != nil, op.Body != ""} {
			if p {
				res.params++
			}
		}
	}

	texts := paramTexts(op)

	// --- send
	rq := op.request(d.name, body)
	rq.Header = fx.hdr
	takeTrace()
	resp := fx.f.Do(rq)
	trace := takeTrace()
	res.traced = len(trace)
	rejected := resp.Status >= 400 || resp.Status < 0 || resp.Panic != nil
	status := fmt.Sprint(resp.Status)
	if resp.Panic != nil {
		status = "panic"
		res.label("%s handler-panic %s", opName(op), tablesFrame(resp.Stack))
	}
	describe := func() string {
		var b strings.Builder
		fmt.Fprintf(&b, "%s %s", rq.Method, rq.Path)
		if rq.Body != "" {
			fmt.Fprintf(&b, " body=%s", clip(rq.Body, 600))
		}
		fmt.Fprintf(&b, " -> %s %s", status, clip(string(resp.Body), 500))
		for _, s := range trace {
			fmt.Fprintf(&b, "\n    SQL[%s,%d params] %s", s.Kind, s.Params, clip(s.SQL, 400))
		}
		return b.String()
	}

	after, err := d.dumpAll()
	if err != nil {
		// a table is gone or unreadable: the schema comparison below reports it
		after = dbState{}
	}
	schemaNow, serr := d.schemaDump()

	// --- layer (i): the statements the server handed to the database
	unprepared, upsertProbe := 0, false
	for _, st := range trace {
		stmts := sqlitex.Statements(st.SQL)
		if len(stmts) == 0 {
			continue
		}
		if len(stmts) > 1 {
			res.fail = failure(op, culprits(kinds, texts, st.SQL), "trace", "multi-statement", describe(), "every text handed to the database is a single statement")
			return res, after
		}
		verb := sqlitex.Verb(stmts[0])
		if verb != "SELECT" && verb != "INSERT" && verb != "UPDATE" && verb != "DELETE" {
			res.fail = failure(op, culprits(kinds, texts, st.SQL), "trace", "verb="+verb, describe(), "row requests execute only SELECT/INSERT/UPDATE/DELETE")
			return res, after
		}
		acc, err := d.explain.Explain(st.SQL, st.Params)
		if err != nil {
			unprepared++
			if strings.HasPrefix(st.SQL, "SELECT count(*) as count FROM") {
				upsertProbe = true
			}
			continue
		}
		// Whitelist, from what benign requests execute (see TestBenignTrace):
		// the addressed table itself and sqlite_master (root page 1, which
		// SQLite opens on its own for schema probes). The handlers keep no
		// bookkeeping tables in the DSN's database.
		var foreign []string
		for _, t := range acc.Touched() {
			if t != "sqlite_master" && !addressed[t] {
				foreign = append(foreign, t)
			}
		}
		what := ""
		switch {
		case len(foreign) > 0:
			what = "opens-other-table"
		case len(acc.Virtual) > 0:
			what = "virtual-table"
		case acc.SchemaChange:
			what = "schema-change"
		case len(acc.UnknownRoots) > 0:
			what = "unknown-root-page"
		case op.Kind == "read" && len(acc.Writes) > 0:
			what = "write-in-read"
		}
		if what != "" {
			if verb == "SELECT" && strings.HasSuffix(strings.TrimSpace(st.SQL), "WHERE 1=0") {
				what += " (metadata probe)"
			}
			res.fail = failure(op, culprits(kinds, texts, st.SQL), "trace", what, describe()+fmt.Sprintf("\n    offending: %s\n    EXPLAIN: reads=%v writes=%v virtual=%v schema=%v addressed=%v foreign=%v", clip(st.SQL, 300), acc.Reads, acc.Writes, acc.Virtual, acc.SchemaChange, keysOf(addressed), foreign),
				"statements open only the addressed table (and sqlite_master)")
			return res, after
		}
	}
	if unprepared > 0 {
		res.label("%s unpreparable-statement rejected=%v", op.Kind, rejected)
		if !rejected {
			what := "unpreparable-but-2xx"
			if upsertProbe {
				what += " (upsert probe)"
			}
			k := kinds
			if upsertProbe {
				k = []string{"upsert"}
			}
			res.fail = failure(op, k, "trace", what, describe(), "a statement the database refuses is answered with an error status")
			return res, after
		}
	}

	// --- layer (ii-a): schema and unaddressed tables byte-identical
	if serr != nil || schemaNow != d.schema {
		res.fail = failure(op, kinds, "state", "schema-changed", describe()+"\n    schema now:\n"+schemaNow, "schema unchanged:\n"+d.schema)
		return res, after
	}
	for _, t := range tableOrder {
		if addressed[t] {
			continue
		}
		if exactDump(before[t]) != exactDump(after[t]) {
			res.fail = failure(op, kinds, "state", "canary-changed:"+t, describe()+"\n    "+t+" now: "+exactDump(after[t]), t+" unchanged: "+exactDump(before[t]))
			return res, after
		}
	}
	// --- canary markers in the response
	for _, m := range []struct{ marker, table string }{{markerSecrets, "secrets"}, {markerOther, "other"}} {
		if !addressed[m.table] && strings.Contains(string(resp.Body), m.marker) {
			res.fail = failure(op, kinds, "rows", "canary-marker:"+m.table, describe(), "no value of table "+m.table+" in the response")
			return res, after
		}
	}

	// --- layers (ii-b) and (iii) per kind of request
	switch op.Kind {
	case "read":
		judgeRead(res, op, pp, before, resp, rejected, describe)
	case "insert", "update", "delete":
		judgeWrite(res, op, pp, before, after, rejected, describe)
	case "tx":
		judgeTx(res, op, txm, before, after, resp, rejected, kinds, describe)
	}
	if res.fail != nil {
		res.fail.Sig = failureSig(op, kinds, res.fail.Sig)
	}
	cls := "2xx"
	if rejected {
		cls = "rejected"
	}
	ks := sigKinds(kinds)
	res.label("%s abstract=%v %s", op.Kind, op.Abstract, cls)
	res.label("params %s %s", ks, cls)
	return res, after
}

// judge* functions put "layer | what" into Failure.Sig; failureSig completes it.
func failureSig(op *Op, kinds []string, layerWhat string) string {
	if strings.Count(layerWhat, " | ") >= 3 {
		return layerWhat
	}
	return fmt.Sprintf("%s | %s | %s", opName(op), sigKindsRows(kinds), layerWhat)
}

// tablesFrame names the first frame of the table handlers in a panic stack
// (the router re-panics, so the top frames are its own).
func tablesFrame(stack string) string {
	for _, l := range strings.Split(stack, "\n") {
		l = strings.TrimSpace(l)
		if i := strings.Index(l, "/internal/server/tables/"); i >= 0 && strings.Contains(l, ".go:") {
			l = l[i+len("/internal/server/"):]
			if j := strings.IndexByte(l, ' '); j > 0 {
				l = l[:j]
			}
			return l
		}
	}
	return srvfix.PanicSite(stack)
}

func keysOf(m map[string]bool) []string {
	var out []string
	for k := range m {
		out = append(out, k)
	}
	sort.Strings(out)
	return out
}

func clip(s string, n int) string {
	if len(s) > n {
		return s[:n] + "…"
	}
	return s
}

// ---------------------------------------------------------------------------
// responses
// ---------------------------------------------------------------------------

func jsonCell(v any) Cell {
	switch x := v.(type) {
	case nil:
		return cnull
	case string:
		return cs(x)
	case bool:
		if x {
			return ci(1)
		}
		return ci(0)
	case json.Number:
		if n, err := strconv.ParseInt(x.String(), 10, 64); err == nil {
			return ci(n)
		}
		f, _ := x.Float64()
		return Cell{K: 'f', F: f}
	}
	b, _ := json.Marshal(v)
	return Cell{K: 'b', S: string(b)}
}

// responseRows decodes a rowset (plain or abstract) into rows.
func responseRows(body []byte, abstract bool) ([]Row, bool) {
	v, ok := decodeJSON(string(body))
	if !ok {
		return nil, false
	}
	m, ok := v.(map[string]any)
	if !ok {
		return nil, false
	}
	rowsA, ok := m["rows"].([]any)
	if !ok {
		if m["rows"] == nil {
			return nil, true
		}
		return nil, false
	}
	var out []Row
	if abstract {
		colsA, _ := m["columns"].([]any)
		var names []string
		for _, c := range colsA {
			cm, _ := c.(map[string]any)
			n, _ := cm["name"].(string)
			names = append(names, n)
		}
		for _, r := range rowsA {
			ra, ok := r.([]any)
			if !ok || len(ra) != len(names) {
				return nil, false
			}
			row := Row{}
			for i, n := range names {
				row[n] = jsonCell(ra[i])
			}
			out = append(out, row)
		}
		return out, true
	}
	for _, r := range rowsA {
		rm, ok := r.(map[string]any)
		if !ok {
			return nil, false
		}
		row := Row{}
		for k, x := range rm {
			row[k] = jsonCell(x)
		}
		out = append(out, row)
	}
	return out, true
}

// respWithin: every response row has all of cols and equals a distinct row of
// table on them.
func respWithin(resp, table []Row, cols []string) bool {
	used := make([]bool, len(table))
	var rec func(i int) bool
	rec = func(i int) bool {
		if i == len(resp) {
			return true
		}
		for j, t := range table {
			if used[j] {
				continue
			}
			ok := true
			for _, c := range cols {
				a, has := resp[i][c]
				// a stored cell of another storage class (a REAL or BLOB left
				// in the column by an earlier undocumented value) has no
				// documented rendering: any value is accepted for it
				if !has || !(t[c].matches(a) || t[c].K == 'f' || t[c].K == 'b') {
					ok = false
					break
				}
			}
			if ok {
				used[j] = true
				if rec(i + 1) {
					return true
				}
				used[j] = false
			}
		}
		return false
	}
	return rec(0)
}

// covers: every row of must has a distinct partner in resp (same rule for
// cells of an undocumented storage class as respWithin).
func covers(must, resp []Row, cols []string) bool {
	used := make([]bool, len(resp))
	var rec func(i int) bool
	rec = func(i int) bool {
		if i == len(must) {
			return true
		}
		for j, a := range resp {
			if used[j] {
				continue
			}
			ok := true
			for _, c := range cols {
				v, has := a[c]
				if !has || !(must[i][c].matches(v) || must[i][c].K == 'f' || must[i][c].K == 'b') {
					ok = false
					break
				}
			}
			if ok {
				used[j] = true
				if rec(i + 1) {
					return true
				}
				used[j] = false
			}
		}
		return false
	}
	return rec(0)
}

func pick(rows []Row, idx []int) []Row {
	out := make([]Row, 0, len(idx))
	for _, i := range idx {
		out = append(out, rows[i])
	}
	return out
}

func parsePaging(s *string, min, max int) (int, bool, bool) {
	if s == nil {
		return 0, false, true
	}
	t := *s
	if t == "" || len(t) > 6 || (len(t) > 1 && t[0] == '0') {
		return 0, true, false
	}
	for i := 0; i < len(t); i++ {
		if t[i] < '0' || t[i] > '9' {
			return 0, true, false
		}
	}
	n, _ := strconv.Atoi(t)
	if n < min || n > max {
		return 0, true, false
	}
	return n, true, true
}

// opParse is the oracle's reading of a row request's parameters.
type opParse struct {
	def   *tableDef
	tname string
	plain bool
	body  string
	// filter
	pf *parsedFilter
	// row payload
	pb *parsedBody
	// columns / sort / paging / upsert
	colNames, sortNames, upKeys []string
	colsDoc, sortDoc, upDoc     bool
	limit, start                int
	limitGiven, startGiven      bool
	limitDoc, startDoc          bool
	rowids                      bool
	kinds                       []string
}

func (p *opParse) add(k string) {
	for _, x := range p.kinds {
		if x == k {
			return
		}
	}
	p.kinds = append(p.kinds, k)
}

// documented: every parameter is a documented spelling (addressing one of the
// other tables by its plain name is documented too).
func (p *opParse) documented() bool {
	for _, k := range p.kinds {
		if k != "table:other" && k != "filter:hostile-value" && k != "filter:edge-quote" {
			return false
		}
		if k == "filter:edge-quote" && (p.pf == nil || !p.pf.strict) {
			return false
		}
	}
	return true
}

func ndefFor(table string) *tableDef { return defFor(table) }

// edgeQuoteIn: some quoted literal of the filter texts begins or ends with a
// quote character (checked lexically, for texts that have no reading as a
// whole).
func edgeQuoteIn(texts []string) bool {
	for _, f := range texts {
		for _, q := range quotedRE.FindAllStringSubmatch(f, -1) {
			for _, body := range q[1:] {
				if body != "" && (body[0] == '\'' || body[0] == '"' || body[len(body)-1] == '\'' || body[len(body)-1] == '"') {
					return true
				}
			}
		}
	}
	return false
}

func filterKind(pf *parsedFilter, given bool, texts []string, add func(string)) {
	switch {
	case !given:
	case pf == nil && edgeQuoteIn(texts):
		add("filter:edge-quote")
	case pf == nil:
		add("filter:unparsed")
	case pf.edgeQuote:
		add("filter:edge-quote")
	case !pf.strict:
		add("filter:lenient")
	case pf.edgeQuote:
		add("filter:edge-quote")
	case pf.hostile:
		add("filter:hostile-value")
	}
}

// classify reads the parameters of a non-transaction request.
func classify(op *Op, body string, rowids bool) *opParse {
	p := &opParse{body: body, rowids: rowids, colsDoc: true, sortDoc: true, upDoc: true, limitDoc: true, startDoc: true}
	p.tname, p.plain = resolveTable(op.Table)
	p.def = tableDefs[p.tname]
	switch {
	case p.tname == "":
		p.add("table:adv")
	case !p.plain:
		// another spelling of an existing table (quotes, main., letter case)
		p.add("table:lenient")
	case p.tname != "items":
		p.add("table:other")
	}
	def := p.def
	if op.Kind != "insert" {
		if op.Filter != nil {
			p.pf = parseFilters([]string{*op.Filter}, ndefFor(op.Table))
		}
		var texts []string
		if op.Filter != nil {
			texts = []string{*op.Filter}
		}
		filterKind(p.pf, op.Filter != nil, texts, p.add)
		if def == nil {
			p.pf = nil
		}
	}
	// names are classified against the table the request is written for even
	// when the table name itself addresses nothing
	ndef := defFor(op.Table)
	if op.Columns != nil {
		p.colNames, p.colsDoc = namesDocumented(ndef, op.Columns, false, rowids)
		if op.Kind == "update" && len(op.Columns) != 1 {
			p.colsDoc = false // declared as a single-valued parameter for PATCH
		}
		if !p.colsDoc {
			p.add("columns:adv")
		}
	}
	if op.Sort != nil {
		p.sortNames, p.sortDoc = namesDocumented(ndef, op.Sort, true, rowids)
		if !p.sortDoc {
			p.add("sort:adv")
		}
	}
	p.limit, p.limitGiven, p.limitDoc = parsePaging(op.Limit, 1, 1000)
	p.start, p.startGiven, p.startDoc = parsePaging(op.Start, 0, 100000)
	if !p.limitDoc || !p.startDoc {
		p.add("paging:adv")
	}
	if op.Upsert != nil {
		if *op.Upsert == "" {
			p.upKeys, p.upDoc = []string{rowIDName}, rowids
		} else {
			p.upKeys, p.upDoc = namesDocumented(ndef, []string{*op.Upsert}, false, rowids)
		}
		if !p.upDoc {
			p.add("upsert:adv")
		}
	}
	if op.Kind == "insert" || op.Kind == "update" {
		p.pb = parseBody(ndef, body, op.Abstract)
		switch {
		case p.pb == nil:
			p.add("body:malformed")
		case !p.pb.documented:
			if p.pb.advKey {
				p.add("body:adv-key")
			}
			if p.pb.advVal {
				p.add("body:adv-value")
			}
			if p.pb.advShape {
				p.add("body:adv-shape")
			}
		}
	}
	return p
}

// ---------------------------------------------------------------------------
// reads
// ---------------------------------------------------------------------------

func judgeRead(res *opResult, op *Op, p *opParse, before dbState, resp *srvfix.Response, rejected bool, describe func() string) {
	def, tname, pf := p.def, p.tname, p.pf
	if rejected {
		if pf != nil && pf.node.usesHas() {
			res.label("read rejected: HAS/HASALL filter")
		}
		return
	}
	rows, ok := responseRows(resp.Body, op.Abstract)
	if !ok {
		res.fail = &vkit.Failure{Sig: "rows | unparseable-2xx-body", Observed: describe(), Expected: "a rowset"}
		return
	}
	if def == nil {
		if tname == "" && len(rows) > 0 {
			res.fail = &vkit.Failure{Sig: "rows | rows-from-unaddressed-table", Observed: describe(), Expected: "the table name addresses no table: an error, or no rows"}
		}
		res.label("read of %q 2xx rows=%d", tname, len(rows))
		return
	}
	table := before[tname]
	filterModelled := op.Filter == nil || pf != nil
	if filterModelled && p.colsDoc {
		proj := def.Cols
		if len(p.colNames) > 0 {
			proj = nil
			for _, c := range p.colNames {
				if c != rowIDName {
					proj = append(proj, c)
				}
			}
		}
		yes, unknown := partition(pf, table)
		must := pick(table, yes)
		may := pick(table, append(append([]int{}, yes...), unknown...))
		paged := p.limitGiven || p.startGiven
		res.label("read modelled filter=%v sort=%v paged=%v hit=%v", op.Filter != nil, op.Sort != nil, paged, hitClass(len(yes), len(table)))
		if !respWithin(rows, may, proj) {
			res.fail = &vkit.Failure{Sig: "rows | rows!=model", Observed: describe(), Expected: "rows ⊆ " + renderRows(may, proj)}
			return
		}
		limit, start := p.limit, p.start
		if !p.sortDoc {
			// an undocumented sort text that the server accepted may carry its
			// own LIMIT or expression; the trace layer judged what it touched
		} else if !paged {
			if !covers(must, rows, proj) {
				res.fail = &vkit.Failure{Sig: "rows | rows!=model", Observed: describe(), Expected: "rows ⊇ " + renderRows(must, proj)}
				return
			}
		} else if p.limitDoc && p.startDoc {
			if !p.limitGiven {
				limit = 1000
			}
			off := 0
			if p.startGiven && start > 0 {
				off = start - 1 // "First row of the result set (1-based)"
			}
			page := func(n int) int {
				n -= off
				if n < 0 {
					n = 0
				}
				if n > limit {
					n = limit
				}
				return n
			}
			lo, hi := page(len(must)), page(len(may))
			if len(rows) < lo || len(rows) > hi {
				res.fail = &vkit.Failure{Sig: "rows | rows!=model", Observed: describe(), Expected: fmt.Sprintf("%d..%d rows (limit=%d start=%d over %d matching rows)", lo, hi, limit, start, len(must))}
				return
			}
			// exact page when the order is fully determined: one documented
			// sort column whose values are distinct integers or strings
			if p.sortDoc && len(p.sortNames) == 1 && len(unknown) == 0 && p.sortNames[0] != rowIDName {
				if want, ok := sortedBy(must, p.sortNames[0], strings.HasPrefix(op.Sort[0], "~")); ok {
					if off > len(want) {
						off = len(want)
					}
					want = want[off:]
					if len(want) > limit {
						want = want[:limit]
					}
					for i := range want {
						if i >= len(rows) || !respWithin(rows[i:i+1], want[i:i+1], proj) {
							res.fail = &vkit.Failure{Sig: "rows | rows!=model", Observed: describe(), Expected: "page " + fmt.Sprint(renderSeq(want, proj))}
							return
						}
					}
				}
			}
		}
		if p.sortDoc && len(p.sortNames) == 1 && p.sortNames[0] != rowIDName && (len(p.colNames) == 0 || contains(p.colNames, p.sortNames[0])) {
			desc := strings.HasPrefix(op.Sort[0], "~")
			for i := 1; i < len(rows); i++ {
				c := compareCells(rows[i-1][p.sortNames[0]], rows[i][p.sortNames[0]])
				if c == 2 {
					break
				}
				if (!desc && c > 0) || (desc && c < 0) {
					res.fail = &vkit.Failure{Sig: "rows | order", Observed: describe(), Expected: fmt.Sprintf("sorted by %s desc=%v", p.sortNames[0], desc)}
					return
				}
			}
		}
		return
	}
	// no model: every row is a row of the addressed table (on the columns of
	// it that the response carries)
	foreignCols := false
	for _, r := range rows {
		var known []string
		for _, c := range def.Cols {
			if _, ok := r[c]; ok {
				known = append(known, c)
			}
		}
		if len(known) == 0 {
			foreignCols = true
			continue
		}
		if !respWithin([]Row{r}, table, known) {
			res.fail = &vkit.Failure{Sig: "rows | row-not-in-table", Observed: describe(), Expected: "each row ∈ " + renderRows(table, def.Cols)}
			return
		}
	}
	res.label("read unmodelled 2xx rows=%v foreign-columns=%v", len(rows) > 0, foreignCols)
}

func hitClass(n, of int) string {
	switch {
	case of == 0:
		return "empty-table"
	case n == 0:
		return "none"
	case n == of:
		return "all"
	}
	return "some"
}

func contains(xs []string, s string) bool {
	for _, x := range xs {
		if x == s {
			return true
		}
	}
	return false
}

// compareCells: -1/0/1, or 2 when the pair has no documented order.
func compareCells(a, b Cell) int {
	switch {
	case a.K == 'i' && b.K == 'i':
		switch {
		case a.I < b.I:
			return -1
		case a.I > b.I:
			return 1
		}
		return 0
	case a.K == 's' && b.K == 's':
		return strings.Compare(a.S, b.S)
	}
	return 2
}

func sortedBy(rows []Row, col string, desc bool) ([]Row, bool) {
	out := append([]Row{}, rows...)
	for i := range out {
		for j := i + 1; j < len(out); j++ {
			c := compareCells(out[i][col], out[j][col])
			if c == 2 || c == 0 {
				return nil, false
			}
		}
	}
	sort.SliceStable(out, func(i, j int) bool {
		c := compareCells(out[i][col], out[j][col])
		if desc {
			return c > 0
		}
		return c < 0
	})
	return out, true
}

func renderSeq(rows []Row, cols []string) []string {
	var out []string
	for _, r := range rows {
		out = append(out, r.render(cols))
	}
	return out
}

// ---------------------------------------------------------------------------
// writes
// ---------------------------------------------------------------------------

func judgeWrite(res *opResult, op *Op, p *opParse, before, after dbState, rejected bool, describe func() string) {
	def, tname, pf, pb := p.def, p.tname, p.pf, p.pb
	if def == nil {
		// nothing addressed (or sqlite_master): the unaddressed-table and
		// schema comparisons already demanded that nothing changed
		res.label("%s on %q rejected=%v", op.Kind, tname, rejected)
		return
	}
	t0, t1 := before[tname], after[tname]
	var readings []reading
	computable := true
	filterOK := op.Filter == nil || pf != nil
	switch op.Kind {
	case "insert":
		if pb != nil {
			readings, computable = insertReadings(def, t0, pb, p.upKeys, op.Upsert != nil && p.upDoc)
		}
	case "update":
		var only map[string]bool
		if op.Columns != nil && p.colsDoc {
			only = map[string]bool{}
			for _, n := range p.colNames {
				only[n] = true
			}
		}
		if pb != nil && filterOK && p.colsDoc {
			readings, computable = updateReadings(def, t0, pb, pf, only)
		}
		if pb != nil && filterOK && computable && op.Columns != nil && !p.colsDoc {
			// lenient: surrounding double quotes are stripped from the list and
			// from its names (parsing.StripQuotes is applied by the handler)
			var stripped []string
			for _, v := range op.Columns {
				var ns []string
				for _, n := range strings.Split(strings.Trim(v, `"`), ",") {
					ns = append(ns, strings.Trim(n, `"`))
				}
				stripped = append(stripped, strings.Join(ns, ","))
			}
			if names, ok := namesDocumented(def, stripped, false, p.rowids); ok {
				set := map[string]bool{}
				for _, n := range names {
					set[n] = true
				}
				more, ok := updateReadings(def, t0, pb, pf, set)
				readings, computable = append(readings, more...), computable && ok
			}
		}
		if pb != nil && filterOK && computable && op.Columns != nil {
			// lenient: a handler that ignores the columns parameter (the
			// abstract update path does) still updates exactly the filtered
			// rows with exactly the payload values
			more, ok := updateReadings(def, t0, pb, pf, nil)
			readings, computable = append(readings, more...), ok
		}
	case "delete":
		if filterOK {
			readings, computable = deleteReadings(t0, pf)
		}
	}
	if !computable {
		res.inconclusive = "unknown-cells"
		if rejected && exactDump(t0) != exactDump(t1) {
			res.fail = &vkit.Failure{Sig: "state | error-but-changed", Observed: describe(), Expected: "rejected request leaves the table unchanged"}
		}
		return
	}
	documented := p.documented()
	unchanged := exactDump(t0) == exactDump(t1)
	res.label("%s readings=%d documented=%v rejected=%v changed=%v", op.Kind, len(readings), documented, rejected, !unchanged)
	matches := func() bool {
		for _, r := range readings {
			if sameMultiset(r.rows, t1, def.Cols) {
				return true
			}
		}
		return false
	}
	switch {
	case unchanged && rejected:
	case unchanged:
		if documented && len(readings) > 0 && !matches() {
			res.fail = &vkit.Failure{Sig: "state | 2xx-but-not-applied", Observed: describe() + "\n    table now: " + renderRows(t1, def.Cols), Expected: describeReadings(readings, def.Cols)}
		}
	case rejected:
		res.fail = &vkit.Failure{Sig: "state | error-but-changed", Observed: describe() + "\n    table now: " + renderRows(t1, def.Cols), Expected: "rejected request leaves the table unchanged: " + renderRows(t0, def.Cols)}
	default:
		if !matches() {
			res.fail = &vkit.Failure{Sig: "state | changed-without-reading", Observed: describe() + "\n    table before: " + renderRows(t0, def.Cols) + "\n    table now:    " + renderRows(t1, def.Cols), Expected: describeReadings(readings, def.Cols)}
		}
	}
}
