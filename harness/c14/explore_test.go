package c14

import (
	"fmt"
	"net/url"
	"os"
	"path/filepath"
	"testing"

	"github.com/tucats/ego/internal/server/tables/database"
	"github.com/tucats/ego/verif/srvfix"
)

func TestExplore(t *testing.T) {
	if os.Getenv("C14_EXPLORE") == "" {
		t.Skip()
	}
	f, err := srvfix.Start(srvfix.Options{})
	if err != nil {
		t.Fatal(err)
	}
	tok, err := f.AdminToken()
	if err != nil {
		t.Fatal(err)
	}
	file := filepath.Join(f.Dir, "data.db")
	if err := f.CreateSQLiteDSN(tok, "d1", file, false); err != nil {
		t.Fatal(err)
	}
	database.VerifSetSQLTrace(func(kind, q string, p []any) { fmt.Printf("   SQL[%s] %s %v\n", kind, q, p) })
	h := srvfix.Bearer(tok)
	h["Content-Type"] = "application/json"
	do := func(m, p, b string) {
		r := f.Do(srvfix.Request{Method: m, Path: p, Header: h, Body: b})
		fmt.Printf("%s %s %s\n -> %d %s panic=%v\n", m, p, b, r.Status, r.Body, r.Panic)
	}

	q := func(kv ...string) string {
		v := url.Values{}
		for i := 0; i < len(kv); i += 2 {
			v.Add(kv[i], kv[i+1])
		}
		return "?" + v.Encode()
	}
	{
		b := `{"name":"d2","provider":"sqlite","database":"` + filepath.Join(f.Dir, "d2.db") + `","restricted":false,"rowid":true}`
		do("POST", "/dsns/", b)
	}
	do("PUT", "/dsns/d2/tables/t1", `[{"name":"id","type":"int"},{"name":"name","type":"string"}]`)
	do("PUT", "/dsns/d2/tables/secrets", `[{"name":"id","type":"int"},{"name":"token","type":"string"}]`)
	do("PUT", "/dsns/d2/tables/t1/rows", `{"id":1,"name":"tom"}`)
	do("PUT", "/dsns/d2/tables/t1/rows", `{"id":2,"name":"x'"}`)
	do("PUT", "/dsns/d2/tables/secrets/rows", `{"id":1,"token":"CANARY"}`)
	do("PUT", "/dsns/d2/tables/t1/rows?abstract=true", `{"columns":[{"name":"id","type":"int"},{"name":"name","type":"string"}],"rows":[[5,"five"]]}`)
	do("PUT", "/dsns/d1/tables/t1", `[{"name":"id","type":"int"},{"name":"name","type":"string"}]`)
	do("PUT", "/dsns/d1/tables/secrets", `[{"name":"id","type":"int"},{"name":"token","type":"string"}]`)
	do("PUT", "/dsns/d1/tables/secrets/rows", `{"id":1,"token":"CANARY"}`)
	do("PUT", "/dsns/d1/tables/t1/rows?abstract=true", `{"columns":[{"name":"id","type":"int"},{"name":"name","type":"string"}],"rows":[[5,"five"]]}`)
	do("PUT", "/dsns/d1/tables/t1/rows?abstract=true", `{"id":6,"name":"six"}`)
	do("PATCH", "/dsns/d1/tables/t1/rows?abstract=true&filter=EQ(id,6)", `{"columns":[{"name":"name","type":"string"}],"rows":[["SIX"]]}`)
	do("GET", "/dsns/d2/tables/t1/rows", ``)
	do("GET", "/dsns/d2/tables/t1/rows"+q("filter", `EQ(name,"x'")`), ``)
	do("GET", "/dsns/d2/tables/t1/rows"+q("filter", `EQ(name,'x"')`), ``)
	do("GET", "/dsns/d2/tables/t1/rows"+q("filter", `EQ(name,"a\\b")`), ``)
	do("GET", "/dsns/d2/tables/t1/rows"+q("filter", `EQ(name,"a b;c")`), ``)
	do("GET", "/dsns/d2/tables/t1/rows"+q("filter", `EQ(name,"a -- b")`), ``)
	do("GET", "/dsns/d2/tables/t1/rows"+q("filter", `EQ(name,"ʼx＇")`), ``)
	do("GET", "/dsns/d2/tables/t1/rows"+q("filter", `eq(id, -1)`), ``)
	do("GET", "/dsns/d2/tables/t1/rows"+q("filter", `EQ(id,1) OR 1=1`), ``)
	do("GET", "/dsns/d2/tables/t1/rows"+q("filter", `EQ(id,1 OR 1=1)`), ``)
	do("GET", "/dsns/d2/tables/t1/rows"+q("filter", `EQ(id,id)`), ``)
	do("GET", "/dsns/d2/tables/t1/rows"+q("filter", `EQ(name,"x'"),EQ(name,"' ) UNION SELECT id,token,token FROM secrets --")`), ``)
	do("GET", "/dsns/d2/tables/t1/rows"+q("sort", `id; DELETE FROM secrets --`), ``)
	do("GET", "/dsns/d2/tables/secrets/rows", ``)
	do("GET", "/dsns/d2/tables/"+url.PathEscape("t1,secrets")+"/rows", ``)
	do("GET", "/dsns/d2/tables/"+url.PathEscape("secrets --")+"/rows", ``)
	do("DELETE", "/dsns/d2/tables/t1/rows"+q("filter", `EQ(name,"x'"),EQ(name,"' ) OR 1=1 --")`), ``)
	do("GET", "/dsns/d2/tables/t1/rows", ``)
	do("PUT", "/dsns/d2/tables/t1/rows?upsert=id", `{"id":1,"name":"tom2"}`)
	do("PUT", "/dsns/d2/tables/t1/rows?upsert=id", `{"id":1,"name":"tom3"}`)
	do("GET", "/dsns/d2/tables/t1/rows", ``)
	do("POST", "/dsns/d2/tables/@transaction", `[{"operation":"symbols","data":{"who":"x' OR '1'='1"}},{"operation":"readrows","table":"t1","filters":["EQ(name,'{{who}}')"]}]`)
	do("POST", "/dsns/d2/tables/@transaction", `[{"operation":"readrows","table":"t1","columns":["count(*) FROM secrets --"]}]`)
	do("POST", "/dsns/d2/tables/@transaction", `[{"operation":"update","table":"t1 AS x","filters":["EQ(id,1)"],"data":{"name":"q"}}]`)
	n, _ := os.ReadDir("/proc/self/fd")
	fmt.Println("fds", len(n))
}

// TestBenignTrace prints (with -v) the statements that the documented
// examples execute; this is what the whitelist of layer (i) was taken from.
func TestBenignTrace(t *testing.T) {
	if os.Getenv("C14_EXPLORE") == "" {
		t.Skip()
	}
	for i, c := range fixedCases() {
		out := oracle(c)
		t.Logf("fixed %d: fail=%v inconclusive=%q labels=%v", i, out.Fail, out.Inconclusive, out.Labels)
		if out.Fail != nil {
			t.Logf("   %s\n   observed: %s\n   expected: %s", out.Fail.Sig, out.Fail.Observed, out.Fail.Expected)
		}
	}
}
