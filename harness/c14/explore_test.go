package c14

import (
	"os"
	"testing"
)

// TestBenignTrace prints (C14_EXPLORE=1 go test -v -run TestBenignTrace) the
// verdicts and labels of the documented examples; with describe() output it
// is how the whitelist of layer (i) was calibrated: benign requests execute
// the metadata probe `SELECT * FROM <table> WHERE 1=0` (when the schema cache
// is cold), the statement itself, and for upsert `SELECT count(*) as count
// FROM <table> WHERE …`; nothing else, and no bookkeeping table in the DSN's
// database.
func TestBenignTrace(t *testing.T) {
	if os.Getenv("C14_EXPLORE") == "" {
		t.Skip()
	}
	for i, c := range fixedCases() {
		out := oracle(c)
		t.Logf("fixed %d: fail=%v inconclusive=%q labels=%v", i, out.Fail, out.Inconclusive, out.Labels)
		if out.Fail != nil {
			t.Logf("   %s\n   observed: %s\n   expected: %s", out.Fail.Sig, out.Fail.Observed, out.Fail.Expected)
		}
	}
}
