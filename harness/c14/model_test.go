package c14

import (
	"fmt"
	"math"
	"sort"
	"strconv"
	"strings"
	"unicode/utf8"
)

// ---------------------------------------------------------------------------
// cells, rows, tables
// ---------------------------------------------------------------------------

// Cell is one stored value as the harness sees it through its own connection
// (K: 'i' integer, 's' text, 'f' real, 'n' NULL, 'b' blob) or, in an expected
// state only, '*' = any value.
type Cell struct {
	K byte
	I int64
	F float64
	S string
}

func ci(v int64) Cell  { return Cell{K: 'i', I: v} }
func cs(v string) Cell { return Cell{K: 's', S: v} }

var (
	cnull = Cell{K: 'n'}
	cany  = Cell{K: '*'}
)

func (c Cell) String() string {
	switch c.K {
	case 'i':
		return strconv.FormatInt(c.I, 10)
	case 's':
		return strconv.Quote(c.S)
	case 'f':
		return "f" + strconv.FormatFloat(c.F, 'g', -1, 64)
	case 'n':
		return "NULL"
	case 'b':
		return "blob" + strconv.Quote(c.S)
	}
	return "*"
}

func (c Cell) matches(actual Cell) bool {
	if c.K == '*' {
		return true
	}
	if c.K != actual.K {
		return false
	}
	switch c.K {
	case 'i':
		return c.I == actual.I
	case 's', 'b':
		return c.S == actual.S
	case 'f':
		return math.Float64bits(c.F) == math.Float64bits(actual.F)
	}
	return true
}

const rowIDName = "_row_id_"

// Row maps column name to cell; the key "_row_id_" (when present) is carried
// along but ignored by every comparison except the canary dump.
type Row map[string]Cell

func (r Row) clone() Row {
	n := make(Row, len(r))
	for k, v := range r {
		n[k] = v
	}
	return n
}

func (r Row) render(cols []string) string {
	var b strings.Builder
	b.WriteByte('{')
	for i, c := range cols {
		if i > 0 {
			b.WriteByte(' ')
		}
		v, ok := r[c]
		if !ok {
			b.WriteString(c + "=<absent>")
			continue
		}
		b.WriteString(c + "=" + v.String())
	}
	b.WriteByte('}')
	return b.String()
}

func renderRows(rows []Row, cols []string) string {
	parts := make([]string, len(rows))
	for i, r := range rows {
		parts[i] = r.render(cols)
	}
	sort.Strings(parts)
	return "[" + strings.Join(parts, " ") + "]"
}

// rowMatches: every column in cols of expected matches actual.
func rowMatches(expected, actual Row, cols []string) bool {
	for _, c := range cols {
		e, ok := expected[c]
		if !ok {
			continue
		}
		a, ok := actual[c]
		if !ok || !e.matches(a) {
			return false
		}
	}
	return true
}

func hasAny(r Row, cols []string) bool {
	for _, c := range cols {
		if r[c].K == '*' {
			return true
		}
	}
	return false
}

// sameMultiset reports whether actual equals expected as a multiset of rows
// over cols, where '*' cells in expected match anything. Rows without
// wildcards are matched first (equality is an equivalence, so any equal
// partner is as good as another), the few wildcard rows by backtracking.
func sameMultiset(expected, actual []Row, cols []string) bool {
	if len(expected) != len(actual) {
		return false
	}
	used := make([]bool, len(actual))
	var wild []Row
	for _, e := range expected {
		if hasAny(e, cols) {
			wild = append(wild, e)
			continue
		}
		found := false
		for j, a := range actual {
			if !used[j] && rowMatches(e, a, cols) {
				used[j], found = true, true
				break
			}
		}
		if !found {
			return false
		}
	}
	var rec func(i int) bool
	rec = func(i int) bool {
		if i == len(wild) {
			return true
		}
		for j, a := range actual {
			if !used[j] && rowMatches(wild[i], a, cols) {
				used[j] = true
				if rec(i + 1) {
					return true
				}
				used[j] = false
			}
		}
		return false
	}
	return rec(0)
}

// ---------------------------------------------------------------------------
// schema known to the model
// ---------------------------------------------------------------------------

// column types: 'i' int, 's' string
type tableDef struct {
	Name string
	Cols []string
	Type map[string]byte
}

var tableDefs = map[string]*tableDef{
	"items":   {Name: "items", Cols: []string{"id", "name", "qty", "tag"}, Type: map[string]byte{"id": 'i', "name": 's', "qty": 'i', "tag": 's'}},
	"secrets": {Name: "secrets", Cols: []string{"id", "token"}, Type: map[string]byte{"id": 'i', "token": 's'}},
	"other":   {Name: "other", Cols: []string{"id", "name"}, Type: map[string]byte{"id": 'i', "name": 's'}},
}

var tableOrder = []string{"items", "other", "secrets"}

// resolveTable maps a table-name parameter to the table it addresses under a
// well-formed reading: optional surrounding double quotes (StripQuotes is
// documented behaviour of FullName), an optional "main." schema qualifier
// (FullName: "if the table name already contains a '.' it is treated as
// schema-qualified"), alternative SQLite identifier quoting, and ASCII case
// folding (SQLite table names are case-insensitive). plain is true when the
// name is spelled exactly as the table is. "" = addresses no table that exists.
func resolveTable(name string) (table string, plain bool) {
	n := name
	unq := func(s string) string {
		if len(s) >= 2 {
			if s[0] == '"' && s[len(s)-1] == '"' || s[0] == '`' && s[len(s)-1] == '`' || s[0] == '[' && s[len(s)-1] == ']' {
				return s[1 : len(s)-1]
			}
		}
		return s
	}
	n = unq(n)
	if i := strings.IndexByte(n, '.'); i >= 0 && strings.EqualFold(unq(n[:i]), "main") {
		n = unq(n[i+1:])
	}
	l := strings.ToLower(n)
	if l != n && !isASCII(n) {
		return "", false
	}
	switch l {
	case "items", "secrets", "other":
		return l, name == l
	case "sqlite_master", "sqlite_schema":
		return "sqlite_master", false
	}
	return "", false
}

func isASCII(s string) bool {
	for i := 0; i < len(s); i++ {
		if s[i] >= 0x80 {
			return false
		}
	}
	return true
}

// ---------------------------------------------------------------------------
// documented filter grammar (docs/API.md#readrows)
// ---------------------------------------------------------------------------

type fnode struct {
	op   string // EQ LT LE GT GE AND OR NOT HAS HASALL
	col  string
	kind byte // literal kind for comparisons: 'i', 'f', 's'
	i    int64
	f    float64
	s    string
	strs []string
	kids []*fnode
}

// parsedFilter is the reading the oracle gives a filter string.
type parsedFilter struct {
	node *fnode
	// strict: only documented spellings were used (upper-case operators, one
	// clause, nothing after it). Otherwise the reading is a lenient one:
	// operator letter case folded, top-level comma list read as AND (as the
	// transaction documentation says for filter arrays), text after the last
	// complete clause ignored.
	strict bool
	// hostile: some string literal contains a character outside [A-Za-z0-9 _.-]
	hostile bool
	// edgeQuote: some string literal begins or ends with a quote character
	// (of the kind that is not its delimiter)
	edgeQuote bool
}

type fparser struct {
	s       string
	p       int
	def     *tableDef
	strict  bool
	hostile bool
	edge    bool
}

func (p *fparser) ws() {
	for p.p < len(p.s) && p.s[p.p] == ' ' {
		p.p++
	}
}

func (p *fparser) ident() string {
	st := p.p
	for p.p < len(p.s) {
		c := p.s[p.p]
		if c >= 'A' && c <= 'Z' || c >= 'a' && c <= 'z' || c == '_' || (p.p > st && c >= '0' && c <= '9') {
			p.p++
			continue
		}
		break
	}
	return p.s[st:p.p]
}

func (p *fparser) eat(c byte) bool {
	p.ws()
	if p.p < len(p.s) && p.s[p.p] == c {
		p.p++
		return true
	}
	return false
}

// strLit parses "..." or '...': the content may not contain the delimiter, a
// backslash, a control character or a brace pair (none of which the
// documentation gives a spelling for) and must be valid UTF-8.
func (p *fparser) strLit() (string, bool) {
	p.ws()
	if p.p >= len(p.s) {
		return "", false
	}
	q := p.s[p.p]
	if q != '"' && q != '\'' {
		return "", false
	}
	end := strings.IndexByte(p.s[p.p+1:], q)
	if end < 0 {
		return "", false
	}
	body := p.s[p.p+1 : p.p+1+end]
	if !simpleString(body) {
		return "", false
	}
	p.p += end + 2
	if body != "" && (body[0] == '\'' || body[0] == '"' || body[len(body)-1] == '\'' || body[len(body)-1] == '"') {
		p.edge = true
	}
	for _, r := range body {
		if !(r >= 'A' && r <= 'Z' || r >= 'a' && r <= 'z' || r >= '0' && r <= '9' || r == ' ' || r == '_' || r == '.' || r == '-') || strings.Contains(body, "--") {
			p.hostile = true
		}
	}
	return body, true
}

func simpleString(s string) bool {
	if !utf8.ValidString(s) || strings.Contains(s, "{{") || strings.Contains(s, "}}") {
		return false
	}
	for _, r := range s {
		if r < 0x20 || r == 0x7f || r == '\\' || r == utf8.RuneError {
			return false
		}
	}
	return true
}

func (p *fparser) number() (kind byte, i int64, f float64, ok bool) {
	p.ws()
	st := p.p
	if p.p < len(p.s) && p.s[p.p] == '-' {
		p.p++
	}
	ds := p.p
	for p.p < len(p.s) && p.s[p.p] >= '0' && p.s[p.p] <= '9' {
		p.p++
	}
	nd := p.p - ds
	if nd == 0 || nd > 9 || (nd > 1 && p.s[ds] == '0') {
		p.p = st
		return 0, 0, 0, false
	}
	if p.p+1 < len(p.s) && p.s[p.p] == '.' && p.s[p.p+1] >= '0' && p.s[p.p+1] <= '9' {
		p.p++
		fs := p.p
		for p.p < len(p.s) && p.s[p.p] >= '0' && p.s[p.p] <= '9' {
			p.p++
		}
		if p.p-fs > 6 {
			p.p = st
			return 0, 0, 0, false
		}
		v, err := strconv.ParseFloat(p.s[st:p.p], 64)
		if err != nil {
			p.p = st
			return 0, 0, 0, false
		}
		return 'f', 0, v, true
	}
	v, err := strconv.ParseInt(p.s[st:p.p], 10, 64)
	if err != nil {
		p.p = st
		return 0, 0, 0, false
	}
	return 'i', v, 0, true
}

func (p *fparser) clause(depth int) *fnode {
	if depth > 6 {
		return nil
	}
	p.ws()
	name := p.ident()
	if name == "" {
		return nil
	}
	op := strings.ToUpper(name)
	if op != name {
		p.strict = false
	}
	if !p.eat('(') {
		return nil
	}
	n := &fnode{op: op}
	switch op {
	case "EQ", "LT", "LE", "GT", "GE":
		p.ws()
		n.col = p.ident()
		ty, ok := p.def.Type[n.col]
		if !ok || !p.eat(',') {
			return nil
		}
		if ty == 's' {
			s, ok := p.strLit()
			if !ok {
				return nil
			}
			n.kind, n.s = 's', s
		} else {
			k, i, f, ok := p.number()
			if !ok {
				return nil
			}
			n.kind, n.i, n.f = k, i, f
		}
	case "HAS", "HASALL":
		p.ws()
		n.col = p.ident()
		if p.def.Type[n.col] != 's' {
			return nil
		}
		for p.eat(',') {
			s, ok := p.strLit()
			if !ok {
				return nil
			}
			n.strs = append(n.strs, s)
		}
		if len(n.strs) == 0 {
			return nil
		}
	case "NOT":
		k := p.clause(depth + 1)
		if k == nil {
			return nil
		}
		n.kids = []*fnode{k}
	case "AND", "OR":
		for {
			k := p.clause(depth + 1)
			if k == nil {
				return nil
			}
			n.kids = append(n.kids, k)
			if !p.eat(',') {
				break
			}
		}
		if len(n.kids) < 2 {
			return nil
		}
	default:
		return nil
	}
	if !p.eat(')') {
		return nil
	}
	return n
}

// parseFilters gives the reading of a list of filter strings (one URL
// parameter, or the filters array of a transaction task, "ANDed together")
// against a table. nil = no well-formed reading exists.
func parseFilters(filters []string, def *tableDef) *parsedFilter {
	out := &parsedFilter{strict: true}
	var all []*fnode
	for _, text := range filters {
		p := &fparser{s: text, def: def, strict: true}
		var nodes []*fnode
		for {
			n := p.clause(0)
			if n == nil {
				return nil
			}
			nodes = append(nodes, n)
			save := p.p
			if p.eat(',') {
				continue
			}
			p.p = save
			break
		}
		if len(nodes) > 1 {
			p.strict = false
		}
		if rest := p.s[p.p:]; rest != "" {
			// the documented grammar ends here; a reader that stops at the end
			// of the last complete clause is the only well-formed reading of
			// what follows, and only if what follows cannot be taken for a
			// continuation of the list
			t := strings.TrimLeft(rest, " ")
			if t != "" && t[0] == ',' {
				return nil
			}
			p.strict = false
		}
		if !p.strict {
			out.strict = false
		}
		if p.hostile {
			out.hostile = true
		}
		if p.edge {
			out.edgeQuote = true
		}
		all = append(all, nodes...)
	}
	switch len(all) {
	case 0:
		return nil
	case 1:
		out.node = all[0]
	default:
		out.node = &fnode{op: "AND", kids: all}
	}
	return out
}

func isWordByte(c byte) bool {
	return c >= 'A' && c <= 'Z' || c >= 'a' && c <= 'z' || c >= '0' && c <= '9' || c == '_'
}

// three-valued evaluation: 1 true, 0 false, -1 unknown (the cell is NULL or of
// a storage class the documentation says nothing about for this comparison)
func (n *fnode) eval(r Row) int {
	switch n.op {
	case "EQ", "LT", "LE", "GT", "GE":
		c := r[n.col]
		var cmp int
		switch {
		case n.kind == 's' && c.K == 's':
			cmp = strings.Compare(c.S, n.s)
		case n.kind == 'i' && c.K == 'i':
			switch {
			case c.I < n.i:
				cmp = -1
			case c.I > n.i:
				cmp = 1
			}
		case n.kind == 'f' && c.K == 'i':
			switch {
			case float64(c.I) < n.f:
				cmp = -1
			case float64(c.I) > n.f:
				cmp = 1
			}
		default:
			return -1
		}
		ok := false
		switch n.op {
		case "EQ":
			ok = cmp == 0
		case "LT":
			ok = cmp < 0
		case "LE":
			ok = cmp <= 0
		case "GT":
			ok = cmp > 0
		case "GE":
			ok = cmp >= 0
		}
		if ok {
			return 1
		}
		return 0
	case "HAS", "HASALL":
		c := r[n.col]
		if c.K != 's' {
			return -1
		}
		cnt := 0
		for _, s := range n.strs {
			if strings.Contains(c.S, s) {
				cnt++
			}
		}
		if n.op == "HAS" && cnt > 0 || n.op == "HASALL" && cnt == len(n.strs) {
			return 1
		}
		return 0
	case "NOT":
		v := n.kids[0].eval(r)
		if v < 0 {
			return -1
		}
		return 1 - v
	case "AND":
		res := 1
		for _, k := range n.kids {
			switch k.eval(r) {
			case 0:
				return 0
			case -1:
				res = -1
			}
		}
		return res
	case "OR":
		res := 0
		for _, k := range n.kids {
			switch k.eval(r) {
			case 1:
				return 1
			case -1:
				res = -1
			}
		}
		return res
	}
	return -1
}

func (n *fnode) usesHas() bool {
	if n.op == "HAS" || n.op == "HASALL" {
		return true
	}
	for _, k := range n.kids {
		if k.usesHas() {
			return true
		}
	}
	return false
}

// partition splits row indexes by the filter's verdict; a nil filter selects
// every row.
func partition(pf *parsedFilter, rows []Row) (yes, unknown []int) {
	for i, r := range rows {
		v := 1
		if pf != nil {
			v = pf.node.eval(r)
		}
		switch v {
		case 1:
			yes = append(yes, i)
		case -1:
			unknown = append(unknown, i)
		}
	}
	return
}

func fmtIdx(xs []int) string { return fmt.Sprint(xs) }
