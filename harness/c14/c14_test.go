// Package c14 decides property C14 "Table REST requests cannot inject SQL".
//
// Preconditions taken from real callers / the documentation (docs/API.md,
// "Data Sources and Tables"):
//   - requests are sent by the server administrator to an unrestricted SQLite
//     DSN (no permission layer in the way; C43 covers grants);
//   - tables are created through PUT /dsns/{dsn}/tables/{table} with the array
//     of column objects the handler accepts (the CLI sends the same);
//   - row payloads use the documented shapes (one row object, a "rows" array,
//     or the abstract columns/rows form); _row_id_ is server-assigned and only
//     ever sent back as a value the server handed out;
//   - the `filter` URL parameter is sent once (the router rejects repeats);
//     several clauses reach the server through the comma list of one parameter
//     or the `filters` array of a transaction task;
//   - transaction tasks are insert/update/delete/select/readrows/symbols (the
//     `sql` and `drop` tasks execute caller SQL / DDL by design).
//
// What "documented meaning" the oracle uses is spelled out in model_test.go
// (filter grammar, three-valued evaluation) and in readings_test.go.
package c14

import (
	"bytes"
	"database/sql"
	"encoding/json"
	"fmt"
	"net/url"
	"path/filepath"
	"sort"
	"strings"
	"sync"
	"testing"

	"github.com/tucats/ego/internal/server/tables/database"
	"github.com/tucats/ego/verif/sqlitex"
	"github.com/tucats/ego/verif/srvfix"
	"github.com/tucats/ego/verif/vkit"
)

// ---------------------------------------------------------------------------
// case data
// ---------------------------------------------------------------------------

// SeedRow is one initial row of the addressed table "items".
type SeedRow struct {
	ID   int64  `json:"id"`
	Name string `json:"name"`
	Qty  int64  `json:"qty"`
	Tag  string `json:"tag"`
}

// Task is one @transaction task. Data is the raw JSON text of the data object
// ("" = absent).
type Task struct {
	Op         string   `json:"operation"`
	Table      string   `json:"table,omitempty"`
	Filters    []string `json:"filters,omitempty"`
	Columns    []string `json:"columns,omitempty"`
	Data       string   `json:"data,omitempty"`
	EmptyError bool     `json:"emptyError,omitempty"`
}

// Op is one request. Pointer/slice fields that are nil are not sent.
type Op struct {
	Kind     string   `json:"kind"` // read insert update delete tx
	Abstract bool     `json:"abstract,omitempty"`
	Table    string   `json:"table,omitempty"`
	Filter   *string  `json:"filter,omitempty"`
	Columns  []string `json:"columns,omitempty"` // one URL parameter per element
	Sort     []string `json:"sort,omitempty"`
	Limit    *string  `json:"limit,omitempty"`
	Start    *string  `json:"start,omitempty"`
	Upsert   *string  `json:"upsert,omitempty"`
	// Body is the raw request body. The token @@ROWID@@ is replaced by the
	// _row_id_ the server assigned to the RowRef-th row of the addressed table.
	Body   string `json:"body,omitempty"`
	RowRef int    `json:"rowref,omitempty"`
	Tasks  []Task `json:"tasks,omitempty"`
}

// Case: which DSN (with or without server-assigned row ids), the initial rows
// of "items", and the requests to send in order.
type Case struct {
	RowIDs bool      `json:"rowids"`
	Rows   []SeedRow `json:"rows"`
	Ops    []Op      `json:"ops"`
}

// ---------------------------------------------------------------------------
// fixture
// ---------------------------------------------------------------------------

const (
	markerSecrets = "CNRY5ECR3T"
	markerOther   = "CNRY0TH3R"
)

type dsnFix struct {
	name    string
	rowids  bool
	file    string
	conn    *sql.DB // the harness's own connection to the live file
	ddl     []string
	schema  string // rendered sqlite_master the live file must keep
	explain *sqlitex.Explainer
}

type fix struct {
	f    *srvfix.Fixture
	hdr  map[string]string
	dsns map[bool]*dsnFix
}

type tracedStmt struct {
	Kind   string
	SQL    string
	Params int
}

var (
	fixOnce  sync.Once
	theFix   *fix
	fixErr   error
	traceMu  sync.Mutex
	traceBuf []tracedStmt
)

func takeTrace() []tracedStmt {
	traceMu.Lock()
	defer traceMu.Unlock()
	t := traceBuf
	traceBuf = nil
	return t
}

func getFix() (*fix, error) {
	fixOnce.Do(func() { theFix, fixErr = startFix() })
	return theFix, fixErr
}

func startFix() (*fix, error) {
	f, err := srvfix.Start(srvfix.Options{})
	if err != nil {
		return nil, err
	}
	tok, err := f.AdminToken()
	if err != nil {
		return nil, err
	}
	fx := &fix{f: f, dsns: map[bool]*dsnFix{}}
	fx.hdr = srvfix.Bearer(tok)
	fx.hdr["Content-Type"] = "application/json"
	// hook H5: every statement the table handlers hand to Exec/Query
	database.VerifSetSQLTrace(func(kind, text string, params []any) {
		traceMu.Lock()
		traceBuf = append(traceBuf, tracedStmt{Kind: kind, SQL: text, Params: len(params)})
		traceMu.Unlock()
	})
	for _, rowids := range []bool{false, true} {
		d := &dsnFix{rowids: rowids, name: "c14p"}
		if rowids {
			d.name = "c14r"
		}
		d.file = filepath.Join(f.Dir, d.name+".db")
		body, _ := json.Marshal(map[string]any{"name": d.name, "provider": "sqlite", "database": d.file, "restricted": false, "rowid": rowids})
		if r := f.Do(srvfix.Request{Method: "POST", Path: "/dsns/", Header: fx.hdr, Body: string(body)}); r.Status != 200 && r.Status != 201 {
			return nil, fmt.Errorf("create dsn %s: %d %s", d.name, r.Status, r.Body)
		}
		// Tables are created through the REST API so that the column types are
		// the ones the server gives the documented type names. (docs/API.md
		// shows the payload as {"columns":[...]}; the handler only accepts the
		// bare array, which is also what `ego table create` sends.)
		for _, tn := range tableOrder {
			def := tableDefs[tn]
			var cols []map[string]string
			for _, c := range def.Cols {
				ty := "string"
				if def.Type[c] == 'i' {
					ty = "int"
				}
				cols = append(cols, map[string]string{"name": c, "type": ty})
			}
			b, _ := json.Marshal(cols)
			if r := f.Do(srvfix.Request{Method: "PUT", Path: "/dsns/" + d.name + "/tables/" + tn, Header: fx.hdr, Body: string(b)}); r.Status != 201 {
				return nil, fmt.Errorf("create table %s.%s: %d %s", d.name, tn, r.Status, r.Body)
			}
		}
		d.conn, err = sql.Open("sqlite", d.file)
		if err != nil {
			return nil, err
		}
		d.conn.SetMaxOpenConns(1)
		if _, err := d.conn.Exec("PRAGMA busy_timeout=10000"); err != nil {
			return nil, err
		}
		rows, err := d.conn.Query(`SELECT sql FROM sqlite_master WHERE sql IS NOT NULL ORDER BY rowid`)
		if err != nil {
			return nil, err
		}
		for rows.Next() {
			var s string
			if err := rows.Scan(&s); err != nil {
				return nil, err
			}
			d.ddl = append(d.ddl, s)
		}
		rows.Close()
		if d.schema, err = d.schemaDump(); err != nil {
			return nil, err
		}
		scratch := filepath.Join(f.Dir, d.name+"-scratch.db")
		if err := sqlitex.CopyTo(d.conn, scratch); err != nil {
			return nil, fmt.Errorf("scratch copy: %w", err)
		}
		if d.explain, err = sqlitex.OpenExplainer(scratch); err != nil {
			return nil, err
		}
		fx.dsns[rowids] = d
	}
	takeTrace()
	return fx, nil
}

func (d *dsnFix) schemaDump() (string, error) {
	rows, err := d.conn.Query(`SELECT type, name, tbl_name, coalesce(sql,'') FROM sqlite_master ORDER BY type, name`)
	if err != nil {
		return "", err
	}
	defer rows.Close()
	var b strings.Builder
	for rows.Next() {
		var a, n, t, s string
		if err := rows.Scan(&a, &n, &t, &s); err != nil {
			return "", err
		}
		fmt.Fprintf(&b, "%s|%s|%s|%s\n", a, n, t, s)
	}
	return b.String(), rows.Err()
}

// reset brings the live database to the case's initial state through the
// harness's own connection: schema as created through the REST API (rebuilt
// from the recorded DDL if an earlier case damaged it), fixed canary rows,
// the case's rows in "items".
func (d *dsnFix) reset(seed []SeedRow) error {
	cur, err := d.schemaDump()
	if err != nil {
		return err
	}
	if cur != d.schema {
		rows, err := d.conn.Query(`SELECT type, name FROM sqlite_master WHERE name NOT LIKE 'sqlite_%'`)
		if err != nil {
			return err
		}
		var drops []string
		for rows.Next() {
			var ty, n string
			if err := rows.Scan(&ty, &n); err != nil {
				return err
			}
			drops = append(drops, "DROP "+strings.ToUpper(ty)+` IF EXISTS "`+strings.ReplaceAll(n, `"`, `""`)+`"`)
		}
		rows.Close()
		for _, s := range drops {
			_, _ = d.conn.Exec(s)
		}
		for _, s := range d.ddl {
			if _, err := d.conn.Exec(s); err != nil {
				return fmt.Errorf("rebuild %q: %w", s, err)
			}
		}
		if cur, err = d.schemaDump(); err != nil || cur != d.schema {
			return fmt.Errorf("cannot restore schema: %v\n%s", err, cur)
		}
	}
	tx, err := d.conn.Begin()
	if err != nil {
		return err
	}
	defer tx.Rollback()
	ins := func(table string, cols []string, vals ...any) error {
		q := `INSERT INTO "` + table + `"("` + strings.Join(cols, `","`) + `") VALUES (?` + strings.Repeat(",?", len(cols)-1) + `)`
		_, err := tx.Exec(q, vals...)
		return err
	}
	for _, t := range tableOrder {
		if _, err := tx.Exec(`DELETE FROM "` + t + `"`); err != nil {
			return err
		}
	}
	rid := func(cols []string, vals []any, id string) ([]string, []any) {
		if d.rowids {
			return append(cols, rowIDName), append(vals, id)
		}
		return cols, vals
	}
	for i := 1; i <= 3; i++ {
		c, v := rid([]string{"id", "token"}, []any{int64(100 + i), fmt.Sprintf("%s-%d", markerSecrets, i)}, fmt.Sprintf("seed-secrets-%d", i))
		if err := ins("secrets", c, v...); err != nil {
			return err
		}
		c, v = rid([]string{"id", "name"}, []any{int64(200 + i), fmt.Sprintf("%s-%d", markerOther, i)}, fmt.Sprintf("seed-other-%d", i))
		if err := ins("other", c, v...); err != nil {
			return err
		}
	}
	for i, r := range seed {
		c, v := rid([]string{"id", "name", "qty", "tag"}, []any{r.ID, r.Name, r.Qty, r.Tag}, fmt.Sprintf("seed-items-%d", i))
		if err := ins("items", c, v...); err != nil {
			return err
		}
	}
	return tx.Commit()
}

// dump reads one table through the harness connection.
func (d *dsnFix) dump(table string) ([]Row, error) {
	rows, err := d.conn.Query(`SELECT * FROM "` + table + `" ORDER BY rowid`)
	if err != nil {
		return nil, err
	}
	defer rows.Close()
	cols, _ := rows.Columns()
	var out []Row
	for rows.Next() {
		vals := make([]any, len(cols))
		ptrs := make([]any, len(cols))
		for i := range vals {
			ptrs[i] = &vals[i]
		}
		if err := rows.Scan(ptrs...); err != nil {
			return nil, err
		}
		r := Row{}
		for i, c := range cols {
			switch v := vals[i].(type) {
			case nil:
				r[c] = cnull
			case int64:
				r[c] = ci(v)
			case float64:
				r[c] = Cell{K: 'f', F: v}
			case string:
				r[c] = cs(v)
			case []byte:
				r[c] = Cell{K: 'b', S: string(v)}
			case bool:
				if v {
					r[c] = ci(1)
				} else {
					r[c] = ci(0)
				}
			default:
				r[c] = Cell{K: 'b', S: fmt.Sprint(v)}
			}
		}
		out = append(out, r)
	}
	return out, rows.Err()
}

type dbState map[string][]Row

func (d *dsnFix) dumpAll() (dbState, error) {
	st := dbState{}
	for _, t := range tableOrder {
		r, err := d.dump(t)
		if err != nil {
			return nil, fmt.Errorf("dump %s: %w", t, err)
		}
		st[t] = r
	}
	return st, nil
}

// exactDump renders a table including _row_id_, in storage order: the
// "byte-identical" form used for tables a request does not address.
func exactDump(rows []Row) string {
	var b strings.Builder
	for _, r := range rows {
		keys := make([]string, 0, len(r))
		for k := range r {
			keys = append(keys, k)
		}
		sort.Strings(keys)
		b.WriteString(r.render(keys))
		b.WriteByte('\n')
	}
	return b.String()
}

// ---------------------------------------------------------------------------
// building and sending a request
// ---------------------------------------------------------------------------

func (o *Op) method() string {
	switch o.Kind {
	case "read":
		return "GET"
	case "insert":
		return "PUT"
	case "update":
		return "PATCH"
	case "delete":
		return "DELETE"
	}
	return "POST"
}

// request renders the op; body placeholders are already substituted.
func (o *Op) request(dsn string, body string) srvfix.Request {
	if o.Kind == "tx" {
		return srvfix.Request{Method: "POST", Path: "/dsns/" + dsn + "/tables/@transaction", Body: body}
	}
	var q []string
	add := func(k, v string) { q = append(q, k+"="+url.QueryEscape(v)) }
	if o.Filter != nil {
		add("filter", *o.Filter)
	}
	for _, c := range o.Columns {
		add("columns", c)
	}
	for _, s := range o.Sort {
		add("sort", s)
	}
	if o.Limit != nil {
		add("limit", *o.Limit)
	}
	if o.Start != nil {
		add("start", *o.Start)
	}
	if o.Upsert != nil {
		if *o.Upsert == "" {
			q = append(q, "upsert")
		} else {
			add("upsert", *o.Upsert)
		}
	}
	if o.Abstract {
		add("abstract", "true")
	}
	p := "/dsns/" + dsn + "/tables/" + url.PathEscape(o.Table) + "/rows"
	if len(q) > 0 {
		p += "?" + strings.Join(q, "&")
	}
	return srvfix.Request{Method: o.method(), Path: p, Body: body}
}

func (o *Op) txBody(sub func(string) string) string {
	var b bytes.Buffer
	b.WriteByte('[')
	for i, t := range o.Tasks {
		if i > 0 {
			b.WriteByte(',')
		}
		m := map[string]any{"operation": t.Op}
		if t.Table != "" {
			m["table"] = t.Table
		}
		if t.Filters != nil {
			m["filters"] = t.Filters
		}
		if t.Columns != nil {
			m["columns"] = t.Columns
		}
		if t.EmptyError {
			m["emptyError"] = true
		}
		if t.Data != "" {
			m["data"] = json.RawMessage(sub(t.Data))
		}
		j, err := json.Marshal(m)
		if err != nil {
			// data is not valid JSON: splice it in textually so that the server
			// sees exactly the malformed text
			delete(m, "data")
			j, _ = json.Marshal(m)
			j = append(j[:len(j)-1], []byte(`,"data":`+sub(t.Data)+`}`)...)
		}
		b.Write(j)
	}
	b.WriteByte(']')
	return b.String()
}

// ---------------------------------------------------------------------------
// test entry
// ---------------------------------------------------------------------------

func TestC14(t *testing.T) {
	if _, err := getFix(); err != nil {
		t.Fatalf("fixture: %v", err)
	}
	vkit.Run(t, vkit.Spec[Case]{
		ID:    "C14",
		Level: "exploration",
		Rule: "case = SQLite DSN (with/without server row ids) + 2-7 initial rows of table items (canary tables secrets, other alongside) + 1-4 requests: " +
			"row read / abstract read / insert / abstract insert / update / abstract update / delete / @transaction (insert, update, delete, select, readrows, symbols), each parameter " +
			"(filter, columns, sort, limit, start, upsert, table name, JSON body keys and values, task filters/columns/data/table, {{symbol}} values) drawn either from the documented " +
			"grammar or from an adversarial pool. Oracle: (i) every traced statement is one statement, SELECT/INSERT/UPDATE/DELETE, and per EXPLAIN on a read-only scratch copy opens only " +
			"the addressed table (+sqlite_master), no virtual table, no schema change, no write in a read request; unpreparable only with an error response; (ii) unaddressed tables and the " +
			"schema byte-identical, addressed table = a documented reading applied to the previous state (or unchanged); (iii) rows returned = model evaluation for parsed filters, else a " +
			"subset of the table, never a canary marker. Non-trivial: >=1 statement traced and >=1 generated parameter present; distinct by case.",
		Assumptions: []string{
			"tables touched are judged by SQLite EXPLAIN (OpenRead/OpenWrite/Clear/Destroy root pages mapped through sqlite_master); PostgreSQL code paths are not executed",
			"documented filter grammar = API.md readrows table: EQ LT LE GT GE AND OR NOT HAS HASALL, column names, integer / 123.45 / quoted-string values; a string value has no spelling if it contains its own delimiter, a backslash or a control character",
			"lenient readings accepted so that harmless tolerance is not reported: operator letter case, comma list of clauses = AND, text after the last complete clause ignored, JSON key letter case, array of row objects as insert payload",
			"comparison semantics for modelled filters: integers numerically, strings bytewise (SQLite BINARY collation); NULL / wrongly typed cells make a row's membership unknown and both outcomes are accepted",
			"a request that is rejected (status >= 400 or handler panic) with the database unchanged always satisfies the property",
		},
		Gen:      genCase,
		Oracle:   oracle,
		Fixed:    fixedCases,
		Quick:    220,
		Thorough: 2600,
	})
}
