// Package c10 decides property C10 "try/catch and defer run exactly when
// documented": generated programs nesting try/catch, throw and runtime
// errors, defer (call, closure, closure with recover), panic, return at
// several points, loops with break/continue inside and around try, and calls
// to depth 5 are run by Ego and by a reference interpreter of the documented
// rules (proggen.EHProgram.Interp); the sequence of marker lines and the way
// the program ends must agree. See harness/proggen/ehgen.go for the shapes
// that are deliberately not generated because the references do not pin them
// down.
package c10

import (
	"fmt"
	"strings"
	"testing"

	"github.com/tucats/ego/verif/egorun"
	"github.com/tucats/ego/verif/proggen"
	"github.com/tucats/ego/verif/vkit"
	"pgregory.net/rapid"
)

// Case is an EH program, a type mode and an optimizer level.
type Case struct {
	Program proggen.EHProgram `json:"program"`
	Mode    string            `json:"mode"`
	Opt     int               `json:"opt"`
}

func markers(stdout string) []string {
	var out []string
	for _, l := range strings.Split(stdout, "\n") {
		if l == "END" || (strings.HasPrefix(l, "M") && len(l) > 1 && strings.Trim(l[1:], "0123456789") == "") {
			out = append(out, l)
		}
	}
	return out
}

func oracle(c Case) vkit.Outcome {
	var out vkit.Outcome
	want := c.Program.Interp()
	src := c.Program.Render()
	depth, crossFn, deferPanic, kinds := c.Program.Stats()
	out.NonTrivial = depth >= 2 && (crossFn || deferPanic)
	out.Labels = []string{"status=" + want.Status, fmt.Sprintf("depth=%d", depth), "mode=" + c.Mode}
	for k := range kinds {
		out.Labels = append(out.Labels, "has "+k)
	}
	if crossFn {
		out.Labels = append(out.Labels, "call-under-try")
	}
	if deferPanic {
		out.Labels = append(out.Labels, "defer-with-panic")
	}
	res := egorun.Run(src, egorun.Config{Types: c.Mode, Optimize: c.Opt, Extensions: true, EntryPoint: "main"})
	desc := fmt.Sprintf("mode=%s opt=%d\n--- program ---\n%s", c.Mode, c.Opt, src)
	if res.Runaway {
		out.Inconclusive = "the run did not end within the harness bound"
		return out
	}
	if res.GoPanic != "" {
		out.Fail = &vkit.Failure{Sig: "go-panic", Observed: res.GoPanic + "\n" + res.Stack + "\n" + desc, Expected: "no Go panic"}
		return out
	}
	if res.CompileErr != "" {
		out.Fail = &vkit.Failure{Sig: "compile-error: " + egorun.StripPositions(res.CompileErr), Observed: res.CompileErr + "\n" + desc, Expected: "the program compiles"}
		return out
	}
	got := markers(res.Stdout)
	gs, ws := strings.Join(got, " "), strings.Join(want.Trace, " ")
	if gs != ws {
		// classify: which construct does the first divergence sit at
		i := 0
		for i < len(got) && i < len(want.Trace) && got[i] == want.Trace[i] {
			i++
		}
		g, w := "<end>", "<end>"
		if i < len(got) {
			g = got[i]
		}
		if i < len(want.Trace) {
			w = want.Trace[i]
		}
		out.Fail = &vkit.Failure{
			Sig:      "trace-diff want=" + kindOf(c.Program, w) + " got=" + kindOf(c.Program, g) + " status=" + want.Status,
			Observed: fmt.Sprintf("markers %s (run error %q)\n%s", gs, res.RunErr, desc),
			Expected: fmt.Sprintf("markers %s, ending %s", ws, want.Status),
		}
		return out
	}
	failed := res.RunErr != ""
	if (want.Status == "ok") == failed {
		out.Fail = &vkit.Failure{
			Sig:      fmt.Sprintf("status-diff want=%s ego-error=%v", want.Status, failed),
			Observed: fmt.Sprintf("markers agree, but Ego ended with error %q\n%s", res.RunErr, desc),
			Expected: "ending " + want.Status,
		}
	}
	return out
}

// kindOf names the kind of statement that prints marker m (mark, defer, …).
func kindOf(p proggen.EHProgram, m string) string {
	if m == "END" || m == "<end>" {
		return m
	}
	var n int
	fmt.Sscanf(m, "M%d", &n)
	var find func(nodes []proggen.EHNode, ctx string) string
	find = func(nodes []proggen.EHNode, ctx string) string {
		for i, x := range nodes {
			if x.N == n && (x.Kind == "mark" || strings.HasPrefix(x.Kind, "defer")) {
				k := x.Kind
				if k == "mark" && ctx == "catch" && i == 0 {
					k = "catch-entry"
				}
				return k + "@" + ctx
			}
			if r := find(x.Body, x.Kind); r != "" {
				return r
			}
			if r := find(x.Catch, "catch"); r != "" {
				return r
			}
		}
		return ""
	}
	for _, f := range p.Funcs {
		if r := find(f, "func"); r != "" {
			return r
		}
	}
	return "?"
}

func gen(t *rapid.T) Case {
	return Case{
		Program: proggen.EHGen(t),
		Mode:    rapid.SampledFrom([]string{"dynamic", "dynamic", "relaxed", "strict"}).Draw(t, "mode"),
		Opt:     rapid.IntRange(0, 3).Draw(t, "opt"),
	}
}

func TestC10(t *testing.T) {
	vkit.Run(t, vkit.Spec[Case]{
		ID:    "C10",
		Level: "exploration",
		Rule: "programs of 1-5 functions from proggen.EHGen (marker prints, try/catch nested to depth 3, throw / division by zero / index errors, defer call / closure / closure with recover, panic, return, loops with break/continue, calls under and outside try) run by Ego in a drawn type mode and optimizer level and by a reference interpreter of the documented rules; " +
			"oracle: same marker sequence and same kind of ending (completes / stops with an error). Non-trivial: nesting depth >= 2 and (a call under an active try, or defer together with panic); distinct by program x mode x level.",
		Assumptions: []string{
			"shapes the references leave open are not generated: errors escaping functions with pending defers, panic under an active try, errors inside deferred functions, defer inside loops or try blocks",
		},
		Gen:      gen,
		Oracle:   oracle,
		Quick:    1500,
		Thorough: 40000,
	})
}
