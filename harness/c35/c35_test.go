// Package c35 decides C35 "langlint formatting never changes the message
// table" with the real tools as the oracle: $VERIF_BIN/lang compiles message
// files into the Go map the runtime uses, $VERIF_BIN/langlint formats copies, and
// lang compiles the results again.
//
// A case is a small batch of message files. Each file of a batch is one
// pseudo-language (messages_l00.txt -> language "l00": tools/lang takes the
// language code from the file name), so that one lang invocation and one
// langlint invocation serve the whole batch; every file is judged on its own.
//
// Preconditions taken from the statement and from real callers
// (internal/i18n/languages/*.txt, tools/lang/compile.go):
//   - A "message file" is a file the localization compiler accepts. A generated
//     file that tools/lang rejects (it panics on a line without '=' and on a
//     '[' line that does not end in ']') has no table; such a file is skipped
//     and the generator keeps it rare.
//   - The table is the compiler's: key = section prefix + "." + the key with
//     surrounding white space removed (compile.go trims the key so that the '='
//     signs can be aligned, and messages_en.txt does align them, e.g.
//     "stats.gc.count      =..."), value = text after the first '=' of the
//     trimmed line, last definition wins.
//   - Files are valid UTF-8 text (the shipped files are), section names never
//     contain '=' (no shipped file does; an indented "[a=b]" line is a section
//     header for the compiler and an entry for langlint, which is outside the
//     domain the statement lists).
//   - "langlint failed" = it printed "<file>: error: ..." or died; then the file
//     must be byte-identical. Warnings (exit status 1) are not a failure.
//   - "a duplicate key whose winner could be affected" = the compiler reports
//     the key as defined more than once in the original file and the
//     definitions do not all carry the same value. Required only when langlint
//     succeeded (a failed run touches nothing and prints no warnings).
//     "Reported" = langlint printed a "duplicate key" warning that names one of
//     the spellings of that key (section + "." + key, surrounding spaces
//     ignored).
package c35

import (
	"bytes"
	"encoding/json"
	"errors"
	"fmt"
	"go/ast"
	"go/parser"
	"go/token"
	"os"
	"os/exec"
	"path/filepath"
	"sort"
	"strconv"
	"strings"
	"sync"
	"sync/atomic"
	"testing"
	"unicode/utf8"

	"github.com/tucats/ego/verif/vkit"
	"pgregory.net/rapid"
)

// Case is a batch of message files (contents).
type Case struct {
	Files []string `json:"files"`
}

var (
	binDir  string
	scratch string
	caseSeq atomic.Int64

	// sigs listed as known findings (VERIF_KNOWN / known_findings.json): when
	// several files of a batch fail, a failure that is not known is reported
	// in preference to a known one, so a known defect cannot mask a new one.
	knownSigs = map[string]bool{}

	statMu sync.Mutex
	stats  = map[string]int{}
)

func stat(k string, n int) { statMu.Lock(); stats[k] += n; statMu.Unlock() }

func fileName(i int) string { return fmt.Sprintf("messages_l%02d.txt", i) }
func langCode(i int) string { return fmt.Sprintf("l%02d", i) }

// ---------------------------------------------------------------- generator

var keyAtoms = []string{"a", "b", "k", "key", "msg", "count", "x", "é", "キー", "z9"}

func genBaseKey(t *rapid.T) string {
	n := rapid.IntRange(1, 3).Draw(t, "key_parts")
	parts := make([]string, n)
	for i := range parts {
		parts[i] = rapid.SampledFrom(keyAtoms).Draw(t, "key_atom")
	}
	return strings.Join(parts, ".")
}

// decorate adds the white space around a key that the compiler ignores.
// spaced is the per-file probability (percent) that a key is decorated.
func decorate(t *rapid.T, key string, spaced int) string {
	if rapid.IntRange(0, 99).Draw(t, "key_spaced") < 100-spaced {
		return key
	}
	r := rapid.IntRange(0, 41).Draw(t, "key_space")
	switch {
	case r < 20:
		return key + strings.Repeat(" ", rapid.IntRange(1, 3).Draw(t, "pad"))
	case r < 28:
		return strings.Repeat(" ", rapid.IntRange(1, 2).Draw(t, "pad")) + key
	case r < 32:
		return " " + key + " "
	case r < 35:
		return key + "\t"
	case r < 37:
		return key + "\u00a0" // NBSP
	case r < 39:
		return key + "\u3000" // ideographic space
	case r < 40:
		return "\t" + key
	default:
		return key + " \t "
	}
}

var valueAtoms = []string{"text", "Hello", "value", " ", "  ", "=", " = ", "{{name}}", "{{count|%5d}}", "{", "}", "'{'", "'}'",
	"a=b", "é", "日本語", "#", "[x]", "\t", "%d", ":", "\"", "\\", "'", ",", "1", "2", "3"}

func genValue(t *rapid.T) string {
	n := rapid.IntRange(0, 4).Draw(t, "value_parts")
	var sb strings.Builder
	for i := 0; i < n; i++ {
		sb.WriteString(rapid.SampledFrom(valueAtoms).Draw(t, "value_atom"))
	}
	return sb.String()
}

var sectionNames = []string{"s", "t", "s.t", "", "a b", "msg", "é", "s]", " s "}

func genLine(t *rapid.T, pool []string, spaced, odd int) string {
	r := rapid.IntRange(0, 99).Draw(t, "line_kind")
	switch {
	case r < 60-odd: // entry from the file's key pool
		return decorate(t, rapid.SampledFrom(pool).Draw(t, "key"), spaced) + "=" + genValue(t)
	case r < 70-odd: // blank
		return rapid.SampledFrom([]string{"", "", " ", "\t", "  \t"}).Draw(t, "blank")
	case r < 82-odd: // comment
		return rapid.SampledFrom([]string{"# comment", "#", "#k=v", "## x ##", "#[s]", "# a=1  ", "#\t"}).Draw(t, "comment")
	case r < 100-odd: // section header
		h := "[" + rapid.SampledFrom(sectionNames).Draw(t, "section") + "]"
		switch d := rapid.IntRange(0, 199).Draw(t, "header_space"); {
		// (rapid favours the low end of a range: rare variants sit at the high end)
		case d == 199:
			return h + " " // langlint rejects, compiler accepts
		case d == 198:
			return " " + h // langlint rejects (no '='), compiler accepts
		case d == 197:
			return "\t" + h + "\t"
		}
		return h
	default: // odd lines
		return rapid.SampledFrom([]string{
			"=v",      // empty key: langlint error, compiler accepts
			" =v",     // blank key
			"k==v",    // value starts with '='
			"k=[s]",   // value looks like a header
			"k=#c",    // value looks like a comment
			" #k=v",   // not a comment for either tool
			" k = v ", // spaces everywhere
			"k=v]",
			"a.b.c=1",
			"k=\"q\"",
			"novalue",   // rejected by both
			"[s",        // rejected by both
			" # indent", // rejected by both (no '=')
		}).Draw(t, "odd")
	}
}

func genFile(t *rapid.T) string {
	eol := rapid.SampledFrom([]string{"lf", "lf", "lf", "crlf", "crlf", "mixed"}).Draw(t, "eol")
	finalNL := rapid.IntRange(0, 3).Draw(t, "final_newline") != 0
	// per-file style: how often keys carry white space, how often odd lines appear
	spaced := rapid.SampledFrom([]int{0, 0, 0, 5, 10, 25, 60}).Draw(t, "spaced_pct")
	odd := rapid.SampledFrom([]int{0, 0, 0, 2, 5}).Draw(t, "odd_pct")
	npool := rapid.IntRange(1, 12).Draw(t, "pool")
	pool := make([]string, npool)
	for i := range pool {
		pool[i] = genBaseKey(t)
	}
	n := 25 - rapid.IntRange(1, 24).Draw(t, "lines") // favours long files
	if rapid.IntRange(0, 39).Draw(t, "empty_file") == 39 {
		n = 0
	}
	var sb strings.Builder
	for i := 0; i < n; i++ {
		sb.WriteString(genLine(t, pool, spaced, odd))
		if i == n-1 && !finalNL {
			break
		}
		switch eol {
		case "lf":
			sb.WriteString("\n")
		case "crlf":
			sb.WriteString("\r\n")
		default:
			sb.WriteString(rapid.SampledFrom([]string{"\n", "\r\n", "\n", "\r\r\n"}).Draw(t, "eol_line"))
		}
	}
	return sb.String()
}

func genCase(t *rapid.T) Case {
	n := rapid.IntRange(1, 12).Draw(t, "files")
	c := Case{Files: make([]string, n)}
	for i := range c.Files {
		c.Files[i] = genFile(t)
	}
	return c
}

// ------------------------------------------------- model of compile.go's parse

// def is one definition line as the compiler reads it.
type def struct {
	Line   int
	Prefix string // section prefix in force
	Key    string // trimmed key (without prefix)
	RawKey string // the key as langlint reads it (text before '=', only trailing \r removed from the line)
	Value  string
}

type model struct {
	rejected bool
	defs     map[string][]def // by compiled key
	table    map[string]string
	headers  int
	comments int
	// a line that is a section header for the compiler but not for langlint
	indentedHeader bool
}

func fullKey(prefix, key string) string {
	if prefix != "" {
		return prefix + "." + key
	}
	return key
}

// modelCompile mirrors tools/lang/compile.go compileFile line by line. It is
// used to classify files, to keep files the compiler rejects out of a batch,
// and to know every definition of a key (the compiler's output only shows the
// winner); the oracle checks for every file that its table and its duplicate
// set equal what the real compiler produced.
func modelCompile(b []byte) model {
	m := model{defs: map[string][]def{}, table: map[string]string{}}
	prefix := ""
	for i, raw := range strings.Split(string(b), "\n") {
		if strings.HasPrefix(raw, "#") {
			m.comments++
			continue
		}
		line := strings.TrimSpace(raw)
		if line == "" {
			continue
		}
		if strings.HasPrefix(line, "[") {
			if !strings.HasSuffix(line, "]") {
				m.rejected = true
				return m
			}
			prefix = line[1 : len(line)-1]
			m.headers++
			if !strings.HasPrefix(raw, "[") {
				m.indentedHeader = true
			}
			continue
		}
		idx := strings.Index(line, "=")
		if idx < 0 {
			m.rejected = true
			return m
		}
		key := strings.TrimSpace(line[:idx])
		lintLine := strings.TrimRight(raw, "\r")
		rawKey := lintLine
		if j := strings.Index(lintLine, "="); j >= 0 {
			rawKey = lintLine[:j]
		}
		d := def{Line: i + 1, Prefix: prefix, Key: key, RawKey: rawKey, Value: line[idx+1:]}
		fk := fullKey(prefix, key)
		m.defs[fk] = append(m.defs[fk], d)
		m.table[fk] = d.Value
	}
	return m
}

func (m model) dupKeys() []string {
	var ks []string
	for k, ds := range m.defs {
		if len(ds) > 1 {
			ks = append(ks, k)
		}
	}
	sort.Strings(ks)
	return ks
}

func distinctValues(ds []def) int {
	seen := map[string]bool{}
	for _, d := range ds {
		seen[d.Value] = true
	}
	return len(seen)
}

func spellingsDiffer(ds []def) bool {
	for _, d := range ds[1:] {
		if d.RawKey != ds[0].RawKey {
			return true
		}
	}
	return false
}

// ------------------------------------------------------------ the real tools

// compiled is what tools/lang said about one file (one pseudo-language).
type compiled struct {
	ok     bool // the invocation that contained this file succeeded
	table  map[string]string
	dups   []string // keys reported as "Duplicate message"
	output string
	// hasMessage: the generated map has an entry for this language; reported:
	// lang printed a missing-keys block for it.
	hasMessage, reported bool
}

// compileSet runs tools/lang once on a fresh directory dir/sub that holds
// files[i] as messages_l<i>.txt and reads the generated Go source. ok=false
// means lang exited non-zero (it panics on a malformed line).
//
// Reading the per-language table exactly: the writer prints every key of the
// union and omits a language's message when it equals the English one; there is
// no "en" file, so exactly the empty messages are omitted. The "Info: N key(s)
// missing from '<lang>' localization" report that lang prints lists the keys a
// language does not define at all, which separates "defined as empty" from
// "not defined".
func compileSet(dir, sub string, files map[int][]byte) (ok bool, res map[int]*compiled, output string, err error) {
	d := filepath.Join(dir, sub)
	_ = os.RemoveAll(d)
	_ = os.Remove(filepath.Join(dir, sub+".go"))
	if err := os.MkdirAll(d, 0o755); err != nil {
		return false, nil, "", err
	}
	byLang := map[string]int{}
	for i, b := range files {
		if err := os.WriteFile(filepath.Join(d, fileName(i)), b, 0o644); err != nil {
			return false, nil, "", err
		}
		byLang[langCode(i)] = i
	}
	stat("lang_invocations", 1)
	cmd := exec.Command(filepath.Join(binDir, "lang"), "-c", "-p", sub, "-s", sub+".go")
	cmd.Dir = dir
	out, err := cmd.CombinedOutput()
	output = string(out)
	if err != nil {
		var ee *exec.ExitError
		if errors.As(err, &ee) {
			return false, nil, output, nil
		}
		return false, nil, output, err
	}
	src, err := os.ReadFile(filepath.Join(dir, sub+".go"))
	if err != nil {
		return false, nil, output, fmt.Errorf("lang exited 0 without writing its output: %v; output: %s", err, clip(output))
	}
	union, err := parseTable(src)
	if err != nil {
		return false, nil, output, err
	}
	res = map[int]*compiled{}
	for i := range files {
		res[i] = &compiled{ok: true, table: map[string]string{}, output: output}
	}
	// duplicates and missing keys from lang's report
	missing := map[int]map[string]bool{}
	seenDup := map[int]map[string]bool{}
	for i := range files {
		missing[i] = map[string]bool{}
		seenDup[i] = map[string]bool{}
	}
	lines := strings.Split(output, "\n")
	const mid = ": Duplicate message for key '"
	for n := 0; n < len(lines); n++ {
		line := lines[n]
		if strings.HasPrefix(line, "Info: ") && strings.HasSuffix(line, "' localization:") {
			var cnt int
			rest := strings.TrimPrefix(line, "Info: ")
			j := strings.Index(rest, " ")
			if j <= 0 {
				return false, nil, output, fmt.Errorf("cannot read %q", line)
			}
			cnt, err = strconv.Atoi(rest[:j])
			if err != nil || !strings.HasPrefix(rest[j:], " key(s) missing from '") {
				return false, nil, output, fmt.Errorf("cannot read %q", line)
			}
			lang := strings.TrimSuffix(strings.TrimPrefix(rest[j:], " key(s) missing from '"), "' localization:")
			idx, known := byLang[lang]
			if !known || n+cnt >= len(lines) {
				return false, nil, output, fmt.Errorf("cannot read %q", line)
			}
			res[idx].reported = true
			for k := 1; k <= cnt; k++ {
				kl := lines[n+k]
				if !strings.HasPrefix(kl, "  ") {
					return false, nil, output, fmt.Errorf("missing-key line %q after %q", kl, line)
				}
				missing[idx][kl[2:]] = true
			}
			n += cnt
			continue
		}
		// <sub>/messages_lNN.txt:<n>: Duplicate message for key '<key>' in language 'lNN'
		for i := range files {
			head := sub + "/" + fileName(i) + ":"
			tail := "' in language '" + langCode(i) + "'"
			if !strings.HasPrefix(line, head) || !strings.HasSuffix(line, tail) {
				continue
			}
			rest := line[len(head):]
			j := 0
			for j < len(rest) && rest[j] >= '0' && rest[j] <= '9' {
				j++
			}
			if j == 0 || !strings.HasPrefix(rest[j:], mid) || len(rest)-len(tail) < j+len(mid) {
				continue
			}
			key := rest[j+len(mid) : len(rest)-len(tail)]
			if !seenDup[i][key] {
				seenDup[i][key] = true
				res[i].dups = append(res[i].dups, key)
			}
		}
	}
	for key, inner := range union {
		for lang := range inner {
			idx, known := byLang[lang]
			if !known {
				return false, nil, output, fmt.Errorf("unexpected language %q in generated map", lang)
			}
			res[idx].hasMessage = true
		}
		for i := range files {
			if msg, has := inner[langCode(i)]; has {
				res[i].table[key] = msg
			} else if !missing[i][key] {
				res[i].table[key] = ""
			}
		}
	}
	for i := range files {
		sort.Strings(res[i].dups)
	}
	return true, res, output, nil
}

// compileEach compiles the files in one invocation; when that fails (one of
// them is rejected), each file is compiled on its own so that the rejection is
// attributed to the right file.
func compileEach(dir, sub string, files map[int][]byte) (map[int]*compiled, error) {
	if len(files) == 0 {
		return map[int]*compiled{}, nil
	}
	ok, res, output, err := compileSet(dir, sub, files)
	if err != nil {
		return nil, err
	}
	if ok {
		// A language with no entry in the map and no missing-keys block either
		// defines every key of the union with an empty message or defines no key
		// at all (lang only reports languages that have a key). Compiled alone,
		// the printed key set is exactly the file's.
		if len(files) > 1 {
			for i, c := range res {
				if !c.hasMessage && !c.reported {
					ok1, one, out1, err := compileSet(dir, sub+"-one", map[int][]byte{i: files[i]})
					if err != nil {
						return nil, err
					}
					if !ok1 {
						return nil, fmt.Errorf("lang accepts %s in a batch and rejects it alone: %s", fileName(i), clip(out1))
					}
					one[i].dups = c.dups
					res[i] = one[i]
				}
			}
		}
		return res, nil
	}
	res = map[int]*compiled{}
	if len(files) == 1 {
		for i := range files {
			res[i] = &compiled{output: output}
		}
		return res, nil
	}
	for i, b := range files {
		ok, one, output, err := compileSet(dir, sub, map[int][]byte{i: b})
		if err != nil {
			return nil, err
		}
		if ok {
			res[i] = one[i]
		} else {
			res[i] = &compiled{output: output}
		}
	}
	return res, nil
}

// parseTable reads `var messages = map[string]map[string]string{...}`.
func parseTable(src []byte) (map[string]map[string]string, error) {
	f, err := parser.ParseFile(token.NewFileSet(), "messages.go", src, 0)
	if err != nil {
		return nil, fmt.Errorf("generated source does not parse: %v", err)
	}
	unq := func(e ast.Expr) (string, error) {
		bl, ok := e.(*ast.BasicLit)
		if !ok || bl.Kind != token.STRING {
			return "", fmt.Errorf("not a string literal")
		}
		return strconv.Unquote(bl.Value)
	}
	for _, decl := range f.Decls {
		gd, ok := decl.(*ast.GenDecl)
		if !ok || gd.Tok != token.VAR {
			continue
		}
		for _, sp := range gd.Specs {
			vs := sp.(*ast.ValueSpec)
			if len(vs.Names) != 1 || vs.Names[0].Name != "messages" || len(vs.Values) != 1 {
				continue
			}
			lit, ok := vs.Values[0].(*ast.CompositeLit)
			if !ok {
				return nil, fmt.Errorf("messages is not a composite literal")
			}
			tab := map[string]map[string]string{}
			for _, el := range lit.Elts {
				kv, ok := el.(*ast.KeyValueExpr)
				if !ok {
					return nil, fmt.Errorf("unexpected element")
				}
				key, err := unq(kv.Key)
				if err != nil {
					return nil, err
				}
				if _, dup := tab[key]; dup {
					return nil, fmt.Errorf("key %q twice in generated map", key)
				}
				inner, ok := kv.Value.(*ast.CompositeLit)
				if !ok {
					return nil, fmt.Errorf("inner value is not a composite literal")
				}
				tab[key] = map[string]string{}
				for _, iel := range inner.Elts {
					ikv, ok := iel.(*ast.KeyValueExpr)
					if !ok {
						return nil, fmt.Errorf("unexpected inner element")
					}
					lang, err := unq(ikv.Key)
					if err != nil {
						return nil, err
					}
					msg, err := unq(ikv.Value)
					if err != nil {
						return nil, err
					}
					tab[key][lang] = msg
				}
			}
			return tab, nil
		}
	}
	return nil, fmt.Errorf("no messages variable in generated source")
}

// linted is what langlint said about one file.
type linted struct {
	failed    bool // an "error:" line, or the process died
	dupWarned []string
	warnings  int
	output    string // this file's lines
}

// lintSet runs langlint once on the given files of dir (in index order). died
// is true when the process was killed or panicked (exit status other than 0/1).
func lintSet(dir string, idx []int) (res map[int]*linted, died bool, err error) {
	args := make([]string, len(idx))
	for n, i := range idx {
		args[n] = fileName(i)
	}
	stat("langlint_invocations", 1)
	cmd := exec.Command(filepath.Join(binDir, "langlint"), args...)
	cmd.Dir = dir
	out, err := cmd.CombinedOutput()
	if err != nil {
		var ee *exec.ExitError
		if !errors.As(err, &ee) {
			return nil, false, err
		}
		if ee.ExitCode() != 1 {
			died = true
		}
	}
	res = map[int]*linted{}
	for _, i := range idx {
		res[i] = &linted{}
	}
	for _, line := range strings.Split(string(out), "\n") {
		for _, i := range idx {
			p := fileName(i) + ": "
			if !strings.HasPrefix(line, p) {
				continue
			}
			l := res[i]
			l.output += line + "\n"
			rest := line[len(p):]
			switch {
			case strings.HasPrefix(rest, "error: "):
				l.failed = true
			case strings.HasPrefix(rest, "warning: "):
				l.warnings++
				w := strings.TrimPrefix(rest, "warning: ")
				if strings.HasPrefix(w, "duplicate key ") {
					if s, err := strconv.QuotedPrefix(strings.TrimPrefix(w, "duplicate key ")); err == nil {
						if k, err := strconv.Unquote(s); err == nil {
							l.dupWarned = append(l.dupWarned, k)
						}
					}
				}
			}
		}
	}
	if died {
		for _, i := range idx {
			res[i].output += "[langlint died: " + clip(string(out)) + "]"
		}
	}
	return res, died, nil
}

// lintEach formats the files in one invocation; if the process dies, the
// directory is restored from `restore` and each file is formatted on its own,
// so that the death is attributed to the right file.
func lintEach(dir string, idx []int, restore map[int][]byte) (map[int]*linted, error) {
	if len(idx) == 0 {
		return map[int]*linted{}, nil
	}
	res, died, err := lintSet(dir, idx)
	if err != nil {
		return nil, err
	}
	if !died {
		return res, nil
	}
	if len(idx) == 1 {
		res[idx[0]].failed = true
		return res, nil
	}
	// clean the directory (a dead run may have left temp files), restore, redo
	ents, _ := os.ReadDir(dir)
	for _, e := range ents {
		_ = os.Remove(filepath.Join(dir, e.Name()))
	}
	for _, i := range idx {
		if err := os.WriteFile(filepath.Join(dir, fileName(i)), restore[i], 0o644); err != nil {
			return nil, err
		}
	}
	res = map[int]*linted{}
	for _, i := range idx {
		one, died, err := lintSet(dir, []int{i})
		if err != nil {
			return nil, err
		}
		res[i] = one[i]
		if died {
			res[i].failed = true
		}
	}
	return res, nil
}

// warnedFor: does some duplicate warning name a spelling of this key?
func warnedFor(warned []string, ds []def) bool {
	for _, w := range warned {
		for _, d := range ds {
			if d.Prefix == "" {
				if strings.TrimSpace(w) == d.Key {
					return true
				}
				continue
			}
			if strings.HasPrefix(w, d.Prefix+".") && strings.TrimSpace(w[len(d.Prefix)+1:]) == d.Key {
				return true
			}
		}
	}
	return false
}

func tablesEqual(a, b map[string]string) (bool, string) {
	keys := map[string]bool{}
	for k := range a {
		keys[k] = true
	}
	for k := range b {
		keys[k] = true
	}
	ks := make([]string, 0, len(keys))
	for k := range keys {
		ks = append(ks, k)
	}
	sort.Strings(ks)
	for _, k := range ks {
		va, oka := a[k]
		vb, okb := b[k]
		if !oka || !okb || va != vb {
			return false, k
		}
	}
	return true, ""
}

func show(m map[string]string, k string) string {
	v, ok := m[k]
	if !ok {
		return "(absent)"
	}
	return strconv.Quote(v)
}

func clip(s string) string {
	if len(s) > 600 {
		return s[:600] + "…"
	}
	return s
}

// --------------------------------------------------------------------- oracle

// verdict is the judgement of one file of a batch.
type verdict struct {
	skip, inconclusive string
	fail               *vkit.Failure
	nontrivial         bool
	labels             []string
}

func (v *verdict) lab(s string) { v.labels = append(v.labels, s) }

func classify(v *verdict, content string, m model, c0 *compiled) {
	hasDup := len(c0.dups) > 0
	dupDistinct, dupSpelling := false, false
	for _, k := range c0.dups {
		if distinctValues(m.defs[k]) > 1 {
			dupDistinct = true
			if spellingsDiffer(m.defs[k]) {
				dupSpelling = true
			}
		}
	}
	valueEq, valueEmpty := false, false
	for _, ds := range m.defs {
		for _, d := range ds {
			if strings.Contains(d.Value, "=") {
				valueEq = true
			}
			if d.Value == "" {
				valueEmpty = true
			}
		}
	}
	v.nontrivial = hasDup || valueEq
	if hasDup {
		v.lab("dup")
	}
	if dupDistinct {
		v.lab("dup values differ")
	}
	if dupSpelling {
		v.lab("dup values differ, spellings differ in white space")
	}
	if valueEq {
		v.lab("value contains '='")
	}
	if valueEmpty {
		v.lab("empty value")
	}
	if strings.Contains(content, "\r\n") {
		v.lab("crlf")
	}
	if len(content) > 0 && !strings.HasSuffix(content, "\n") {
		v.lab("no final newline")
	}
	if m.headers > 0 {
		v.lab("has sections")
	}
	if m.comments > 0 {
		v.lab("has comments")
	}
	if strings.ContainsAny(content, "{}") {
		v.lab("braces")
	}
	for _, r := range content {
		if r >= 0x80 {
			v.lab("non-ASCII")
			break
		}
	}
	for _, ds := range m.defs {
		sp := false
		for _, d := range ds {
			if d.RawKey != d.Key {
				sp = true
			}
		}
		if sp {
			v.lab("key with surrounding white space")
			break
		}
	}
	switch n := len(m.table); {
	case n == 0:
		v.lab("keys=0")
	case n <= 3:
		v.lab("keys=1-3")
	case n <= 20:
		v.lab("keys=4-20")
	default:
		v.lab("keys>20")
	}
}

// judge runs the real tools over the batch and judges every file.
func judge(files []string) ([]verdict, error) {
	vs := make([]verdict, len(files))
	dir := filepath.Join(scratch, fmt.Sprintf("case-%d", caseSeq.Add(1)))
	if err := os.MkdirAll(dir, 0o755); err != nil {
		return nil, err
	}
	defer os.RemoveAll(dir)

	models := make([]model, len(files))
	accepted := map[int][]byte{}
	for i, f := range files {
		if !utf8.ValidString(f) {
			vs[i].skip = "not valid UTF-8"
			continue
		}
		models[i] = modelCompile([]byte(f))
		if models[i].rejected {
			// confirm with the real compiler, alone
			ok, _, _, err := compileSet(dir, "r", map[int][]byte{i: []byte(f)})
			if err != nil {
				return nil, err
			}
			if ok {
				vs[i].inconclusive = "model rejects a file the compiler accepts"
			} else {
				vs[i].skip = "original rejected by the compiler"
			}
			continue
		}
		accepted[i] = []byte(f)
	}

	// 1. the compiler's tables of the originals
	c0, err := compileEach(dir, "o", accepted)
	if err != nil {
		return nil, err
	}
	var idx []int
	for i := range accepted {
		m := models[i]
		switch {
		case !c0[i].ok:
			vs[i].inconclusive = "model accepts a file the compiler rejects"
		default:
			if eq, k := tablesEqual(m.table, c0[i].table); !eq {
				vs[i].inconclusive = "model table differs from the compiler's"
				vs[i].lab("harness: model mismatch at key " + strconv.Quote(k))
			} else if strings.Join(m.dupKeys(), "\x00") != strings.Join(c0[i].dups, "\x00") {
				vs[i].inconclusive = "model duplicate set differs from the compiler's"
			}
		}
		if vs[i].inconclusive != "" {
			continue
		}
		classify(&vs[i], files[i], m, c0[i])
		idx = append(idx, i)
	}
	sort.Ints(idx)

	// 2. format copies
	fdir := filepath.Join(dir, "f")
	if err := os.MkdirAll(fdir, 0o755); err != nil {
		return nil, err
	}
	for _, i := range idx {
		if err := os.WriteFile(filepath.Join(fdir, fileName(i)), accepted[i], 0o644); err != nil {
			return nil, err
		}
	}
	l1, err := lintEach(fdir, idx, accepted)
	if err != nil {
		return nil, err
	}
	after := map[int][]byte{}
	changed := map[int][]byte{}
	var live []int // files that langlint formatted successfully
	for _, i := range idx {
		v := &vs[i]
		b, rerr := os.ReadFile(filepath.Join(fdir, fileName(i)))
		if l1[i].failed {
			v.lab("langlint failed")
			if rerr != nil || !bytes.Equal(b, accepted[i]) {
				obs := "file missing: " + fmt.Sprint(rerr)
				if rerr == nil {
					obs = "file now " + strconv.Quote(clip(string(b)))
				}
				v.fail = &vkit.Failure{Sig: "langlint failed but the file changed",
					Observed: "langlint: " + clip(l1[i].output) + "; " + obs, Expected: "byte-identical file after a failed run"}
			}
			continue
		}
		if rerr != nil {
			v.fail = &vkit.Failure{Sig: "langlint succeeded but the file is gone", Observed: rerr.Error(), Expected: "formatted file at the path"}
			continue
		}
		after[i] = b
		live = append(live, i)
		if !bytes.Equal(b, accepted[i]) {
			changed[i] = b
			v.lab("reformatted")
		} else {
			v.lab("unchanged")
		}
		if l1[i].warnings > 0 {
			v.lab("langlint warned")
		}
	}

	// 3. same table
	c1, err := compileEach(dir, "n", changed)
	if err != nil {
		return nil, err
	}
	for i := range changed {
		v, m := &vs[i], models[i]
		if !c1[i].ok {
			v.fail = &vkit.Failure{Sig: "formatted file rejected by the compiler",
				Observed: "lang on the formatted file: " + clip(c1[i].output) + "\nformatted: " + strconv.Quote(clip(string(changed[i]))),
				Expected: "the table of the original"}
			continue
		}
		if eq, k := tablesEqual(c0[i].table, c1[i].table); !eq {
			cause := "other"
			ds := m.defs[k]
			// "flipped": the key now has the message of another of its definitions
			flipped := false
			if now, has := c1[i].table[k]; has {
				for _, d := range ds {
					if d.Value == now {
						flipped = true
					}
				}
			}
			switch {
			case !flipped && m.indentedHeader:
				cause = "indented section header"
			case !flipped:
			case len(ds) > 1 && spellingsDiffer(ds):
				cause = "winner of a duplicate flipped, spellings differ only in surrounding white space"
			case len(ds) > 1:
				cause = "winner of a duplicate flipped, identical spellings"
			case m.indentedHeader:
				cause = "indented section header"
			}
			warned := "no duplicate warning for it"
			if warnedFor(l1[i].dupWarned, ds) {
				warned = "duplicate warning printed"
			}
			v.fail = &vkit.Failure{Sig: "table changed: " + cause,
				Observed: fmt.Sprintf("original %q; key %q: %s before, %s after formatting (%s); formatted file: %q; langlint said: %q",
					clip(files[i]), k, show(c0[i].table, k), show(c1[i].table, k), warned, clip(string(changed[i])), clip(l1[i].output)),
				Expected: "identical key-to-message table"}
		}
	}

	// 4. formatting again changes nothing
	var again []int
	for _, i := range live {
		if vs[i].fail == nil {
			again = append(again, i)
		}
	}
	l2, err := lintEach(fdir, again, after)
	if err != nil {
		return nil, err
	}
	for _, i := range again {
		v := &vs[i]
		b, rerr := os.ReadFile(filepath.Join(fdir, fileName(i)))
		if rerr != nil || !bytes.Equal(b, after[i]) || l2[i].failed {
			v.fail = &vkit.Failure{Sig: "second format is not a no-op",
				Observed: fmt.Sprintf("original %q; after 1st: %q; after 2nd: %q (err %v); langlint said: %q", clip(files[i]), clip(string(after[i])), clip(string(b)), rerr, clip(l2[i].output)),
				Expected: "second run leaves the file as the first run wrote it"}
			continue
		}
		// 5. duplicates whose winner matters are reported
		m := models[i]
		for _, k := range c0[i].dups {
			ds := m.defs[k]
			if distinctValues(ds) < 2 || warnedFor(l1[i].dupWarned, ds) {
				continue
			}
			cause := "identical spellings"
			if spellingsDiffer(ds) {
				cause = "spellings differ only in surrounding white space"
			}
			var lines []string
			for _, d := range ds {
				lines = append(lines, fmt.Sprintf("line %d %q=%q", d.Line, d.RawKey, d.Value))
			}
			v.fail = &vkit.Failure{Sig: "duplicate not reported: " + cause,
				Observed: fmt.Sprintf("original %q; the compiler reports key %q as duplicate (%s); langlint printed: %q", clip(files[i]), k, strings.Join(lines, ", "), clip(l1[i].output)),
				Expected: "a langlint 'duplicate key' warning for that key"}
			break
		}
	}
	return vs, nil
}

func oracle(c Case) vkit.Outcome {
	var out vkit.Outcome
	if len(c.Files) == 0 {
		out.Skip = "empty batch"
		return out
	}
	vs, err := judge(c.Files)
	if err != nil {
		// the tools could not be run or their output could not be read: never a verdict
		out.Inconclusive = "harness: cannot run the tools"
		fmt.Printf("C35 harness problem (inconclusive case): %v\n", err)
		return out
	}
	judged := 0
	var fails []*vkit.Failure
	for _, v := range vs {
		switch {
		case v.skip != "":
			stat("files_skipped", 1)
			out.Labels = append(out.Labels, "file skipped: "+v.skip)
			continue
		case v.inconclusive != "":
			stat("files_inconclusive", 1)
			out.Labels = append(out.Labels, "file inconclusive: "+v.inconclusive)
			out.Labels = append(out.Labels, v.labels...)
			out.Inconclusive = v.inconclusive
			continue
		}
		judged++
		stat("files_judged", 1)
		if v.nontrivial {
			out.NonTrivial = true
			stat("files_nontrivial", 1)
		}
		out.Labels = append(out.Labels, v.labels...)
		if v.fail != nil {
			fails = append(fails, v.fail)
		}
	}
	if judged == 0 && out.Inconclusive == "" {
		out.Skip = "no file of the batch is accepted by the compiler"
		return out
	}
	for _, f := range fails {
		if !knownSigs[f.Sig] {
			out.Fail = f
			return out
		}
	}
	if len(fails) > 0 {
		out.Fail = fails[0]
	}
	return out
}

// ---------------------------------------------------------------- fixed cases

func fixed() []Case {
	one := []string{
		"",
		"\n\n",
		"b=2\na=1\n",
		"# c\n[s]\nb=2\n\n\na=1\n# d\nz=3\nc=x=y\n",
		"[s]\r\nk=1\r\nk=2\r\n",                 // identical spelling: warned, stable
		"[s]\nk =1\nk=2\n",                      // aligned '=' as in messages_en.txt
		"k=1\n k=2",                             // leading space, no final newline
		"[a]\nb.c=1\n[a.b]\nc=2\n",              // same compiled key from two sections
		"=v\nb=1\na=2\n",                        // langlint error (empty key), compiler accepts
		"[s] \nb=1\na=2\n",                      // langlint error (header), compiler accepts
		"k={{a}} = '{' {\n j= x \n",             // braces, '=', spaces
		"キー\u3000=値\nキー=他\n",                    // ideographic space before '='
		"[s]\nb=1\n# split\na=2\nb=3\n[t]\n",    // comment splits the sort block
		"b=\na=\n",                              // empty values
		"[s]\nk=1\n[t]\nj=2\n[s]\nk=\nk =3\n",   // section reopened
		"x=1\r\r\ny=2\r\n\r\n[s]\r\n\r\na=\r\n", // CR runs
	}
	var cs []Case
	for _, f := range one {
		cs = append(cs, Case{Files: []string{f}})
	}
	cs = append(cs, Case{Files: one}) // and all of them as one batch
	// the shipped message files (what real callers feed both tools)
	repo := os.Getenv("VERIF_REPO")
	if repo == "" {
		repo = "/repo"
	}
	paths, _ := filepath.Glob(filepath.Join(repo, "internal/i18n/languages/messages_*.txt"))
	sort.Strings(paths)
	for _, p := range paths {
		if b, err := os.ReadFile(p); err == nil && utf8.Valid(b) {
			cs = append(cs, Case{Files: []string{string(b)}})
		}
	}
	return cs
}

func loadKnownSigs() {
	p := os.Getenv("VERIF_KNOWN")
	if p == "" {
		p = filepath.Join(vkit.Root(), "known_findings.json")
	}
	b, err := os.ReadFile(p)
	if err != nil {
		return
	}
	var kf struct {
		Findings []struct {
			Property string `json:"property"`
			Sig      string `json:"sig"`
		} `json:"findings"`
	}
	if json.Unmarshal(b, &kf) == nil {
		for _, f := range kf.Findings {
			if f.Property == "C35" {
				knownSigs[f.Sig] = true
			}
		}
	}
}

func TestC35(t *testing.T) {
	binDir = os.Getenv("VERIF_BIN")
	if binDir == "" {
		binDir = filepath.Join(vkit.Root(), ".bin")
	}
	for _, b := range []string{"lang", "langlint"} {
		if _, err := os.Stat(filepath.Join(binDir, b)); err != nil {
			fmt.Printf("HARNESS-ERROR property=C35 missing tool binary %s (run tools/prep.sh lang langlint): %v\n", b, err)
			t.Fatalf("missing %s", b)
		}
	}
	base := os.Getenv("VERIF_RUN_DIR")
	if base == "" {
		base = t.TempDir()
	}
	var err error
	scratch, err = os.MkdirTemp(base, fmt.Sprintf("c35-%d-", vkit.ShardIndex()))
	if err != nil {
		fmt.Printf("HARNESS-ERROR property=C35 scratch directory: %v\n", err)
		t.Fatal(err)
	}
	defer os.RemoveAll(scratch)
	loadKnownSigs()

	vkit.Run(t, vkit.Spec[Case]{
		ID:    "C35",
		Level: "exploration",
		Rule: "a case is a batch of 1-12 generated message files (one pseudo-language each, so one invocation of each tool serves the batch; every file is judged separately). " +
			"A file has 0-24 lines over a pool of 1-12 keys (duplicates are frequent): entries whose key may carry surrounding white space " +
			"(spaces, tabs, NBSP, U+3000; per-file rate 0-60%), values built from text, '=', braces, quotes, unicode, empty; section headers, comments, blank lines, " +
			"lines only one of the tools rejects; LF, CRLF and mixed line ends, with or without final newline; plus hand-written files and the shipped message files. " +
			"Oracle: tools/lang compiles the originals and the langlint-formatted copies; the generated Go maps are parsed and compared per language. " +
			"Non-trivial: the batch has a file in which the compiler reports a duplicate key or a value contains '='. Distinct by batch content; per-file counts are in files_*.",
		Assumptions: []string{
			"a message file is one tools/lang accepts; files it rejects are skipped",
			"the table is the compiler's: keys trimmed of surrounding white space, last definition wins",
			"valid UTF-8 only; section names do not contain '='",
			"a duplicate must be reported when the compiler sees more than one definition and their values differ, and langlint did not fail",
			"a harness model of compile.go's line parser supplies the list of definitions per key and keeps rejected files out of a batch; it is checked against the real compiler's table and duplicate report for every file (mismatch = inconclusive)",
		},
		Gen:      genCase,
		Oracle:   oracle,
		Fixed:    fixed,
		Quick:    60,
		Thorough: 400,
		Extra: func() map[string]any {
			statMu.Lock()
			defer statMu.Unlock()
			m := map[string]any{}
			for k, v := range stats {
				m[k] = v
			}
			return m
		},
	})
}
