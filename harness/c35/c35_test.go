// Package c35 decides C35 "langlint formatting never changes the message
// table" with the real tools as the oracle: $VERIF_BIN/lang compiles a message
// file into the Go map the runtime uses, $VERIF_BIN/langlint formats a copy, and
// lang compiles the result again.
//
// Preconditions taken from the statement and from real callers
// (internal/i18n/languages/*.txt, tools/lang/compile.go):
//   - A "message file" is a file the localization compiler accepts. A generated
//     file that tools/lang rejects (it panics on a line without '=' and on a
//     '[' line that does not end in ']') has no table; such a case is skipped
//     and the generator keeps it rare.
//   - The table is the compiler's: key = section prefix + "." + the key with
//     surrounding white space removed (compile.go trims the key so that the '='
//     signs can be aligned, and messages_en.txt does align them, e.g.
//     "stats.gc.count      =..."), value = text after the first '=' of the
//     trimmed line, last definition wins.
//   - Files are valid UTF-8 text (the shipped files are), section names never
//     contain '=' (no shipped file does; an indented "[a=b]" line is a section
//     header for the compiler and an entry for langlint, which is outside the
//     domain the statement lists).
//   - "langlint failed" = it printed "<file>: error: ..." or died; then the file
//     must be byte-identical. Warnings (exit status 1) are not a failure.
//   - "a duplicate key whose winner could be affected" = the compiler reports
//     the key as defined more than once in the original file and the
//     definitions do not all carry the same value. Required only when langlint
//     succeeded (a failed run touches nothing and prints no warnings).
//     "Reported" = langlint printed a "duplicate key" warning that names one of
//     the spellings of that key (section + "." + key, surrounding spaces
//     ignored).
package c35

import (
	"bytes"
	"errors"
	"fmt"
	"go/ast"
	"go/parser"
	"go/token"
	"os"
	"os/exec"
	"path/filepath"
	"sort"
	"strconv"
	"strings"
	"sync/atomic"
	"testing"
	"unicode/utf8"

	"github.com/tucats/ego/verif/vkit"
	"pgregory.net/rapid"
)

// Case is one message file.
type Case struct {
	Content string `json:"content"`
}

const (
	fileName = "messages_xx.txt" // tools/lang derives the language code "xx" from the name
	langCode = "xx"
)

var (
	binDir  string
	scratch string
	caseSeq atomic.Int64
)

// ---------------------------------------------------------------- generator

var keyAtoms = []string{"a", "b", "k", "key", "msg", "count", "x", "é", "キー", "z9"}

func genBaseKey(t *rapid.T) string {
	n := rapid.IntRange(1, 3).Draw(t, "key_parts")
	parts := make([]string, n)
	for i := range parts {
		parts[i] = rapid.SampledFrom(keyAtoms).Draw(t, "key_atom")
	}
	return strings.Join(parts, ".")
}

// decorate adds the white space around a key that the compiler ignores.
func decorate(t *rapid.T, key string) string {
	r := rapid.IntRange(0, 99).Draw(t, "key_space")
	switch {
	case r < 58:
		return key
	case r < 78:
		return key + strings.Repeat(" ", rapid.IntRange(1, 3).Draw(t, "pad"))
	case r < 86:
		return strings.Repeat(" ", rapid.IntRange(1, 2).Draw(t, "pad")) + key
	case r < 90:
		return " " + key + " "
	case r < 93:
		return key + "\t"
	case r < 95:
		return key + "\u00a0" // NBSP
	case r < 97:
		return key + "\u3000" // ideographic space
	case r < 98:
		return "\t" + key
	default:
		return key + " \t "
	}
}

var valueAtoms = []string{"text", "Hello", "value", " ", "  ", "=", " = ", "{{name}}", "{{count|%5d}}", "{", "}", "'{'", "'}'",
	"a=b", "é", "日本語", "#", "[x]", "\t", "%d", ":", "\"", "\\", "'", ",", "1", "2", "3"}

func genValue(t *rapid.T) string {
	n := rapid.IntRange(0, 4).Draw(t, "value_parts")
	var sb strings.Builder
	for i := 0; i < n; i++ {
		sb.WriteString(rapid.SampledFrom(valueAtoms).Draw(t, "value_atom"))
	}
	return sb.String()
}

var sectionNames = []string{"s", "t", "s.t", "", "a b", "msg", "é", "s]", " s "}

func genLine(t *rapid.T, pool []string) string {
	r := rapid.IntRange(0, 99).Draw(t, "line_kind")
	switch {
	case r < 58: // entry from the file's small key pool (duplicates are frequent)
		return decorate(t, rapid.SampledFrom(pool).Draw(t, "key")) + "=" + genValue(t)
	case r < 68: // blank
		return rapid.SampledFrom([]string{"", "", " ", "\t", "  \t"}).Draw(t, "blank")
	case r < 79: // comment
		return rapid.SampledFrom([]string{"# comment", "#", "#k=v", "## x ##", "#[s]", "# a=1  ", "#\t"}).Draw(t, "comment")
	case r < 94: // section header
		h := "[" + rapid.SampledFrom(sectionNames).Draw(t, "section") + "]"
		switch d := rapid.IntRange(0, 49).Draw(t, "header_space"); {
		case d == 0:
			return h + " " // langlint rejects, compiler accepts
		case d == 1:
			return " " + h // langlint rejects (no '='), compiler accepts
		case d == 2:
			return "\t" + h + "\t"
		}
		return h
	default: // odd lines
		return rapid.SampledFrom([]string{
			"=v",        // empty key: langlint error, compiler accepts
			" =v",       // blank key
			"k==v",      // value starts with '='
			"k=[s]",     // value looks like a header
			"k=#c",      // value looks like a comment
			" #k=v",     // not a comment for either tool
			" k = v ",   // spaces everywhere
			"novalue",   // rejected by both
			"[s",        // rejected by both
			" # indent", // rejected by both (no '=')
			"k=v]",
			"a.b.c=1",
		}).Draw(t, "odd")
	}
}

func genFile(t *rapid.T) Case {
	eol := rapid.SampledFrom([]string{"lf", "lf", "lf", "crlf", "crlf", "mixed"}).Draw(t, "eol")
	finalNL := rapid.IntRange(0, 3).Draw(t, "final_newline") != 0
	npool := rapid.IntRange(1, 5).Draw(t, "pool")
	pool := make([]string, npool)
	for i := range pool {
		pool[i] = genBaseKey(t)
	}
	n := rapid.IntRange(0, 24).Draw(t, "lines")
	var sb strings.Builder
	for i := 0; i < n; i++ {
		sb.WriteString(genLine(t, pool))
		last := i == n-1
		if last && !finalNL {
			break
		}
		switch eol {
		case "lf":
			sb.WriteString("\n")
		case "crlf":
			sb.WriteString("\r\n")
		default:
			sb.WriteString(rapid.SampledFrom([]string{"\n", "\r\n", "\n", "\r\r\n"}).Draw(t, "eol_line"))
		}
	}
	return Case{Content: sb.String()}
}

// ------------------------------------------------- model of compile.go's parse

// def is one definition line as the compiler reads it.
type def struct {
	Line   int
	Prefix string // section prefix in force
	Key    string // trimmed key (without prefix)
	RawKey string // the key as langlint reads it (text before '=', only trailing \r removed from the line)
	Value  string
}

type model struct {
	rejected bool
	defs     map[string][]def // by compiled key
	table    map[string]string
	headers  int
	comments int
	// a line that is a section header for the compiler but not for langlint
	indentedHeader bool
}

func fullKey(prefix, key string) string {
	if prefix != "" {
		return prefix + "." + key
	}
	return key
}

// modelCompile mirrors tools/lang/compile.go compileFile line by line. It is
// used to classify cases and to know every definition of a key (the compiler's
// output only shows the winner); the oracle checks on every case that its
// table and its duplicate set equal what the real compiler produced.
func modelCompile(b []byte) model {
	m := model{defs: map[string][]def{}, table: map[string]string{}}
	prefix := ""
	for i, raw := range strings.Split(string(b), "\n") {
		if strings.HasPrefix(raw, "#") {
			m.comments++
			continue
		}
		line := strings.TrimSpace(raw)
		if line == "" {
			continue
		}
		if strings.HasPrefix(line, "[") {
			if !strings.HasSuffix(line, "]") {
				m.rejected = true
				return m
			}
			prefix = line[1 : len(line)-1]
			m.headers++
			if !strings.HasPrefix(raw, "[") {
				m.indentedHeader = true
			}
			continue
		}
		idx := strings.Index(line, "=")
		if idx < 0 {
			m.rejected = true
			return m
		}
		key := strings.TrimSpace(line[:idx])
		lintLine := strings.TrimRight(raw, "\r")
		rawKey := lintLine
		if j := strings.Index(lintLine, "="); j >= 0 {
			rawKey = lintLine[:j]
		}
		d := def{Line: i + 1, Prefix: prefix, Key: key, RawKey: rawKey, Value: line[idx+1:]}
		fk := fullKey(prefix, key)
		m.defs[fk] = append(m.defs[fk], d)
		m.table[fk] = d.Value
	}
	return m
}

func (m model) dupKeys() []string {
	var ks []string
	for k, ds := range m.defs {
		if len(ds) > 1 {
			ks = append(ks, k)
		}
	}
	sort.Strings(ks)
	return ks
}

func distinctValues(ds []def) int {
	seen := map[string]bool{}
	for _, d := range ds {
		seen[d.Value] = true
	}
	return len(seen)
}

func spellingsDiffer(ds []def) bool {
	for _, d := range ds[1:] {
		if d.RawKey != ds[0].RawKey {
			return true
		}
	}
	return false
}

// ------------------------------------------------------------ the real tools

type compiled struct {
	ok     bool
	table  map[string]string
	dups   []string // keys the compiler reported as "Duplicate message"
	output string
}

// compileReal runs tools/lang on a directory that holds only this file and
// parses the generated Go source. With a single language and no "en" file the
// writer prints every key and omits only empty messages (equal to the missing
// English text), so key -> message ("" when omitted) is exact.
func compileReal(dir, sub string, content []byte) (compiled, error) {
	var c compiled
	d := filepath.Join(dir, sub)
	if err := os.MkdirAll(d, 0o755); err != nil {
		return c, err
	}
	if err := os.WriteFile(filepath.Join(d, fileName), content, 0o644); err != nil {
		return c, err
	}
	cmd := exec.Command(filepath.Join(binDir, "lang"), "-c", "-p", sub, "-s", sub+".go")
	cmd.Dir = dir
	out, err := cmd.CombinedOutput()
	c.output = string(out)
	if err != nil {
		var ee *exec.ExitError
		if errors.As(err, &ee) {
			return c, nil // compiler rejected the file (it panics)
		}
		return c, err
	}
	src, err := os.ReadFile(filepath.Join(dir, sub+".go"))
	if err != nil {
		return c, fmt.Errorf("lang exited 0 without writing its output: %v; output: %s", err, out)
	}
	tab, err := parseTable(src)
	if err != nil {
		return c, err
	}
	c.ok, c.table = true, tab
	head := sub + "/" + fileName + ":"
	tail := "' in language '" + langCode + "'"
	const mid = ": Duplicate message for key '"
	seen := map[string]bool{}
	for _, line := range strings.Split(c.output, "\n") {
		if !strings.HasPrefix(line, head) || !strings.HasSuffix(line, tail) {
			continue
		}
		rest := line[len(head):]
		j := 0
		for j < len(rest) && rest[j] >= '0' && rest[j] <= '9' {
			j++
		}
		if j == 0 || !strings.HasPrefix(rest[j:], mid) {
			continue
		}
		key := rest[j+len(mid) : len(rest)-len(tail)]
		if !seen[key] {
			seen[key] = true
			c.dups = append(c.dups, key)
		}
	}
	sort.Strings(c.dups)
	return c, nil
}

// parseTable reads `var messages = map[string]map[string]string{...}`.
func parseTable(src []byte) (map[string]string, error) {
	f, err := parser.ParseFile(token.NewFileSet(), "messages.go", src, 0)
	if err != nil {
		return nil, fmt.Errorf("generated source does not parse: %v", err)
	}
	unq := func(e ast.Expr) (string, error) {
		bl, ok := e.(*ast.BasicLit)
		if !ok || bl.Kind != token.STRING {
			return "", fmt.Errorf("not a string literal")
		}
		return strconv.Unquote(bl.Value)
	}
	for _, decl := range f.Decls {
		gd, ok := decl.(*ast.GenDecl)
		if !ok || gd.Tok != token.VAR {
			continue
		}
		for _, sp := range gd.Specs {
			vs := sp.(*ast.ValueSpec)
			if len(vs.Names) != 1 || vs.Names[0].Name != "messages" || len(vs.Values) != 1 {
				continue
			}
			lit, ok := vs.Values[0].(*ast.CompositeLit)
			if !ok {
				return nil, fmt.Errorf("messages is not a composite literal")
			}
			tab := map[string]string{}
			for _, el := range lit.Elts {
				kv, ok := el.(*ast.KeyValueExpr)
				if !ok {
					return nil, fmt.Errorf("unexpected element")
				}
				key, err := unq(kv.Key)
				if err != nil {
					return nil, err
				}
				if _, dup := tab[key]; dup {
					return nil, fmt.Errorf("key %q twice in generated map", key)
				}
				inner, ok := kv.Value.(*ast.CompositeLit)
				if !ok {
					return nil, fmt.Errorf("inner value is not a composite literal")
				}
				tab[key] = ""
				for _, iel := range inner.Elts {
					ikv, ok := iel.(*ast.KeyValueExpr)
					if !ok {
						return nil, fmt.Errorf("unexpected inner element")
					}
					lang, err := unq(ikv.Key)
					if err != nil {
						return nil, err
					}
					msg, err := unq(ikv.Value)
					if err != nil {
						return nil, err
					}
					if lang != langCode {
						return nil, fmt.Errorf("unexpected language %q", lang)
					}
					tab[key] = msg
				}
			}
			return tab, nil
		}
	}
	return nil, fmt.Errorf("no messages variable in generated source")
}

type linted struct {
	failed    bool // an "error:" line, or the process died
	exit      int
	errorText string
	dupWarned []string // keys named by "duplicate key" warnings (unquoted)
	warnings  int
	output    string
}

func runLint(dir string) (linted, error) {
	var l linted
	cmd := exec.Command(filepath.Join(binDir, "langlint"), fileName)
	cmd.Dir = dir
	out, err := cmd.CombinedOutput()
	l.output = string(out)
	if err != nil {
		var ee *exec.ExitError
		if !errors.As(err, &ee) {
			return l, err
		}
		l.exit = ee.ExitCode()
		if l.exit != 1 { // killed or Go panic
			l.failed = true
			l.errorText = "process died: " + err.Error()
		}
	}
	for _, line := range strings.Split(l.output, "\n") {
		switch {
		case strings.HasPrefix(line, fileName+": error: "):
			l.failed = true
			l.errorText = strings.TrimPrefix(line, fileName+": error: ")
		case strings.HasPrefix(line, fileName+": warning: "):
			l.warnings++
			w := strings.TrimPrefix(line, fileName+": warning: ")
			if strings.HasPrefix(w, "duplicate key ") {
				q := strings.TrimPrefix(w, "duplicate key ")
				if s, err := strconv.QuotedPrefix(q); err == nil {
					if k, err := strconv.Unquote(s); err == nil {
						l.dupWarned = append(l.dupWarned, k)
					}
				}
			}
		}
	}
	return l, nil
}

// warnedFor: does some duplicate warning name a spelling of this key?
func warnedFor(warned []string, ds []def) bool {
	for _, w := range warned {
		for _, d := range ds {
			if d.Prefix == "" {
				if strings.TrimSpace(w) == d.Key {
					return true
				}
				continue
			}
			if strings.HasPrefix(w, d.Prefix+".") && strings.TrimSpace(w[len(d.Prefix)+1:]) == d.Key {
				return true
			}
		}
	}
	return false
}

func tablesEqual(a, b map[string]string) (bool, string) {
	keys := map[string]bool{}
	for k := range a {
		keys[k] = true
	}
	for k := range b {
		keys[k] = true
	}
	ks := make([]string, 0, len(keys))
	for k := range keys {
		ks = append(ks, k)
	}
	sort.Strings(ks)
	for _, k := range ks {
		va, oka := a[k]
		vb, okb := b[k]
		switch {
		case !oka:
			return false, k
		case !okb:
			return false, k
		case va != vb:
			return false, k
		}
	}
	return true, ""
}

func show(m map[string]string, k string) string {
	v, ok := m[k]
	if !ok {
		return "(absent)"
	}
	return strconv.Quote(v)
}

// --------------------------------------------------------------------- oracle

func oracle(c Case) vkit.Outcome {
	var out vkit.Outcome
	if !utf8.ValidString(c.Content) {
		out.Skip = "not valid UTF-8"
		return out
	}
	dir := filepath.Join(scratch, fmt.Sprintf("case-%d", caseSeq.Add(1)))
	if err := os.MkdirAll(dir, 0o755); err != nil {
		out.Inconclusive = "scratch directory: " + err.Error()
		return out
	}
	defer os.RemoveAll(dir)

	orig := []byte(c.Content)
	m := modelCompile(orig)

	// 1. the compiler's table of the original
	c0, err := compileReal(dir, "o", orig)
	if err != nil {
		out.Inconclusive = "cannot run lang"
		out.Labels = []string{"harness: " + vkit_clip(err.Error())}
		return out
	}
	if !c0.ok {
		if !m.rejected && strings.Contains(c0.output, "Malformed") {
			out.Inconclusive = "model accepts a file the compiler rejects"
			return out
		}
		out.Skip = "original rejected by the compiler"
		return out
	}
	if m.rejected {
		out.Inconclusive = "model rejects a file the compiler accepts"
		return out
	}
	if eq, k := tablesEqual(m.table, c0.table); !eq {
		out.Inconclusive = "model table differs from the compiler's"
		out.Labels = []string{"harness: model mismatch at key " + strconv.Quote(k)}
		return out
	}
	if strings.Join(m.dupKeys(), "\x00") != strings.Join(c0.dups, "\x00") {
		out.Inconclusive = "model duplicate set differs from the compiler's"
		return out
	}

	// classification
	hasDup := len(c0.dups) > 0
	dupDistinct, dupSpelling := false, false
	for _, k := range c0.dups {
		if distinctValues(m.defs[k]) > 1 {
			dupDistinct = true
			if spellingsDiffer(m.defs[k]) {
				dupSpelling = true
			}
		}
	}
	valueEq := false
	for _, ds := range m.defs {
		for _, d := range ds {
			if strings.Contains(d.Value, "=") {
				valueEq = true
			}
		}
	}
	out.NonTrivial = hasDup || valueEq
	lab := func(s string) { out.Labels = append(out.Labels, s) }
	if hasDup {
		lab("dup")
	}
	if dupDistinct {
		lab("dup values differ")
	}
	if dupSpelling {
		lab("dup values differ, spellings differ in white space")
	}
	if valueEq {
		lab("value contains '='")
	}
	if strings.Contains(c.Content, "\r\n") {
		lab("crlf")
	}
	if len(c.Content) > 0 && !strings.HasSuffix(c.Content, "\n") {
		lab("no final newline")
	}
	if m.headers > 0 {
		lab("has sections")
	}
	if m.comments > 0 {
		lab("has comments")
	}
	if strings.ContainsAny(c.Content, "{}") {
		lab("braces")
	}
	for _, r := range c.Content {
		if r >= 0x80 {
			lab("non-ASCII")
			break
		}
	}
	switch n := len(m.table); {
	case n == 0:
		lab("keys=0")
	case n <= 3:
		lab("keys=1-3")
	case n <= 20:
		lab("keys=4-20")
	default:
		lab("keys>20")
	}

	// 2. format a copy
	fdir := filepath.Join(dir, "f")
	fpath := filepath.Join(fdir, fileName)
	err = os.MkdirAll(fdir, 0o755)
	if err == nil {
		err = os.WriteFile(fpath, orig, 0o644)
	}
	if err != nil {
		out.Inconclusive = "scratch write: " + err.Error()
		return out
	}
	l1, err := runLint(fdir)
	if err != nil {
		out.Inconclusive = "cannot run langlint"
		return out
	}
	after, rerr := os.ReadFile(fpath)

	if l1.failed {
		lab("langlint failed")
		if rerr != nil || !bytes.Equal(after, orig) {
			obs := "file missing: " + fmt.Sprint(rerr)
			if rerr == nil {
				obs = "file now " + strconv.Quote(clip(string(after)))
			}
			out.Fail = &vkit.Failure{Sig: "langlint failed but the file changed",
				Observed: "langlint: " + clip(l1.output) + "; " + obs, Expected: "byte-identical file after a failed run"}
		}
		return out
	}
	if rerr != nil {
		out.Fail = &vkit.Failure{Sig: "langlint succeeded but the file is gone", Observed: rerr.Error(), Expected: "formatted file at the path"}
		return out
	}
	changed := !bytes.Equal(after, orig)
	if changed {
		lab("reformatted")
	} else {
		lab("unchanged")
	}
	if l1.warnings > 0 {
		lab("langlint warned")
	}

	// 3. same table
	if changed {
		c1, err := compileReal(dir, "n", after)
		if err != nil {
			out.Inconclusive = "cannot run lang"
			return out
		}
		if !c1.ok {
			out.Fail = &vkit.Failure{Sig: "formatted file rejected by the compiler",
				Observed: "lang on the formatted file: " + clip(c1.output) + "\nformatted: " + strconv.Quote(clip(string(after))),
				Expected: "the table of the original"}
			return out
		}
		if eq, k := tablesEqual(c0.table, c1.table); !eq {
			cause := "other"
			ds := m.defs[k]
			switch {
			case len(ds) > 1 && spellingsDiffer(ds):
				cause = "winner of a duplicate flipped, spellings differ only in surrounding white space"
			case len(ds) > 1:
				cause = "winner of a duplicate flipped, identical spellings"
			case m.indentedHeader:
				cause = "indented section header"
			}
			warned := "no duplicate warning for it"
			if warnedFor(l1.dupWarned, ds) {
				warned = "duplicate warning printed"
			}
			out.Fail = &vkit.Failure{Sig: "table changed: " + cause,
				Observed: fmt.Sprintf("key %q: %s before, %s after formatting (%s); formatted file: %q; langlint said: %q",
					k, show(c0.table, k), show(c1.table, k), warned, clip(string(after)), clip(l1.output)),
				Expected: "identical key-to-message table"}
			return out
		}
	}

	// 4. formatting again changes nothing
	l2, err := runLint(fdir)
	if err != nil {
		out.Inconclusive = "cannot run langlint"
		return out
	}
	again, rerr := os.ReadFile(fpath)
	if rerr != nil || !bytes.Equal(again, after) || l2.failed {
		out.Fail = &vkit.Failure{Sig: "second format is not a no-op",
			Observed: fmt.Sprintf("after 1st: %q; after 2nd: %q (err %v); langlint said: %q", clip(string(after)), clip(string(again)), rerr, clip(l2.output)),
			Expected: "second run leaves the file as the first run wrote it"}
		return out
	}

	// 5. duplicates whose winner matters are reported
	for _, k := range c0.dups {
		ds := m.defs[k]
		if distinctValues(ds) < 2 {
			continue
		}
		if !warnedFor(l1.dupWarned, ds) {
			cause := "identical spellings"
			if spellingsDiffer(ds) {
				cause = "spellings differ only in surrounding white space"
			}
			var lines []string
			for _, d := range ds {
				lines = append(lines, fmt.Sprintf("line %d %q=%q", d.Line, d.RawKey, d.Value))
			}
			out.Fail = &vkit.Failure{Sig: "duplicate not reported: " + cause,
				Observed: fmt.Sprintf("the compiler reports key %q as duplicate (%s); langlint printed: %q", k, strings.Join(lines, ", "), clip(l1.output)),
				Expected: "a langlint 'duplicate key' warning for that key"}
			return out
		}
	}
	return out
}

func clip(s string) string {
	if len(s) > 600 {
		return s[:600] + "…"
	}
	return s
}

func vkit_clip(s string) string {
	if len(s) > 120 {
		return s[:120]
	}
	return s
}

// ---------------------------------------------------------------- fixed cases

func fixed() []Case {
	cs := []Case{
		{Content: ""},
		{Content: "\n\n"},
		{Content: "b=2\na=1\n"},
		{Content: "# c\n[s]\nb=2\n\n\na=1\n# d\nz=3\nc=x=y\n"},
		{Content: "[s]\r\nk=1\r\nk=2\r\n"},              // identical spelling, warned, stable
		{Content: "[s]\nk =1\nk=2\n"},                   // aligned '=' as in messages_en.txt
		{Content: "k=1\n k=2"},                          // leading space, no final newline
		{Content: "[a]\nb.c=1\n[a.b]\nc=2\n"},           // same compiled key from two sections
		{Content: "=v\nb=1\na=2\n"},                     // langlint error (empty key), compiler accepts
		{Content: "[s] \nb=1\na=2\n"},                   // langlint error (header), compiler accepts
		{Content: "k={{a}} = '{' {\n j= x \n"},          // braces, '=', spaces
		{Content: "キー\u3000=値\nキー=他\n"},                 // ideographic space before '='
		{Content: "[s]\nb=1\n# split\na=2\nb=3\n[t]\n"}, // comment splits the sort block
	}
	// the shipped message files (what real callers feed both tools)
	repo := os.Getenv("VERIF_REPO")
	if repo == "" {
		repo = "/repo"
	}
	files, _ := filepath.Glob(filepath.Join(repo, "internal/i18n/languages/messages_*.txt"))
	sort.Strings(files)
	for _, f := range files {
		if b, err := os.ReadFile(f); err == nil && utf8.Valid(b) {
			cs = append(cs, Case{Content: string(b)})
		}
	}
	return cs
}

func TestC35(t *testing.T) {
	binDir = os.Getenv("VERIF_BIN")
	if binDir == "" {
		binDir = filepath.Join(vkit.Root(), ".bin")
	}
	for _, b := range []string{"lang", "langlint"} {
		if _, err := os.Stat(filepath.Join(binDir, b)); err != nil {
			fmt.Printf("HARNESS-ERROR property=C35 missing tool binary %s (run tools/prep.sh lang langlint): %v\n", b, err)
			t.Fatalf("missing %s", b)
		}
	}
	base := os.Getenv("VERIF_RUN_DIR")
	if base == "" {
		base = t.TempDir()
	}
	var err error
	scratch, err = os.MkdirTemp(base, fmt.Sprintf("c35-%d-", vkit.ShardIndex()))
	if err != nil {
		fmt.Printf("HARNESS-ERROR property=C35 scratch directory: %v\n", err)
		t.Fatal(err)
	}
	defer os.RemoveAll(scratch)

	vkit.Run(t, vkit.Spec[Case]{
		ID:    "C35",
		Level: "exploration",
		Rule: "generated message files of 0-24 lines over a pool of 1-5 keys (so duplicates are frequent): entries with white space around the key " +
			"(spaces, tabs, NBSP, U+3000), values built from text, '=', braces, quotes, unicode; section headers, comments, blank lines, " +
			"lines only one of the tools rejects; LF, CRLF and mixed line ends, with or without final newline; plus the shipped message files. " +
			"Oracle: tools/lang compiles the original and the langlint-formatted copy in separate directories; the generated Go maps are parsed and compared. " +
			"Non-trivial: the compiler reports a duplicate key or a value contains '='. Distinct by file content.",
		Assumptions: []string{
			"a message file is one tools/lang accepts; files it rejects are skipped",
			"the table is the compiler's: keys trimmed of surrounding white space, last definition wins",
			"valid UTF-8 only; section names do not contain '='",
			"a duplicate must be reported when the compiler sees more than one definition and their values differ, and langlint did not fail",
			"a harness model of compile.go's line parser supplies the list of definitions per key; it is checked against the real compiler's table and duplicate report on every case (mismatch = inconclusive)",
		},
		Gen:      genFile,
		Oracle:   oracle,
		Fixed:    fixed,
		Quick:    150,
		Thorough: 2000,
	})
}
