// Package workerproc runs oracle work in a child process: the test binary
// re-executes itself in worker mode (environment variable VERIF_WORKER) and
// speaks JSON lines over two extra pipes (fd 3 requests, fd 4 responses), so
// that the things a Go process cannot survive or stop from inside — a stack
// overflow, `fatal error: concurrent map writes`, an unrecovered panic in a
// goroutine the program started, an infinite loop — end the *worker* and are
// observed by the parent as an exit status plus the text on stderr.
//
// Usage in a test package:
//
//	func TestMain(m *testing.M) { workerproc.Main(m) }         // both modes
//	func init() { workerproc.Handle("op", func(raw json.RawMessage) (any, error) {...}) }
//	w, _ := workerproc.Start(workerproc.Options{Dir: scratch})
//	r := w.Call("op", req, 5*time.Second)                       // r.Status: OK / Timeout / Died
//
// The worker's stdin and stdout are /dev/null (ego code writes to the real
// stdout from a few places; the protocol must not share it), stderr is
// captured (bounded head + tail).
package workerproc

import (
	"bufio"
	"bytes"
	"encoding/json"
	"fmt"
	"io"
	"os"
	"os/exec"
	"regexp"
	"runtime"
	"runtime/debug"
	"sort"
	"strconv"
	"strings"
	"sync"
	"syscall"
	"testing"
	"time"
)

// EnvMode selects worker mode when set to a non-empty value.
const EnvMode = "VERIF_WORKER"

// EnvRSS is the resident-set limit of a worker in MiB (watchdog in the worker;
// exceeding it ends the worker with exit code ExitMemLimit).
const EnvRSS = "VERIF_WORKER_RSS_MB"

// ExitMemLimit is the worker's exit code when its own RSS watchdog fired.
const ExitMemLimit = 97

// Handler serves one operation in the worker.
type Handler func(data json.RawMessage) (any, error)

var handlers = map[string]Handler{}

// OnWorkerStart, when set, runs once in the worker before the first request.
var OnWorkerStart func()

// Handle registers an operation (call from init or before Main).
func Handle(op string, h Handler) { handlers[op] = h }

// IsWorker reports whether this process is a worker.
func IsWorker() bool { return os.Getenv(EnvMode) != "" }

// Main is the body of TestMain: serve requests in worker mode, otherwise run
// the tests.
func Main(m *testing.M) {
	if IsWorker() {
		serve()
		os.Exit(0)
	}
	os.Exit(m.Run())
}

type request struct {
	Seq  int             `json:"seq"`
	Op   string          `json:"op"`
	Data json.RawMessage `json:"data"`
}

type response struct {
	Seq        int             `json:"seq"`
	Data       json.RawMessage `json:"data,omitempty"`
	Err        string          `json:"err,omitempty"`
	Goroutines int             `json:"goroutines"`
}

func rssMiB() int {
	b, err := os.ReadFile("/proc/self/statm")
	if err != nil {
		return 0
	}
	f := strings.Fields(string(b))
	if len(f) < 2 {
		return 0
	}
	pages, _ := strconv.Atoi(f[1])
	return pages * os.Getpagesize() >> 20
}

func serve() {
	in := os.NewFile(3, "requests")
	out := os.NewFile(4, "responses")
	if in == nil || out == nil {
		fmt.Fprintln(os.Stderr, "workerproc: fds 3/4 missing")
		os.Exit(3)
	}
	limit, _ := strconv.Atoi(os.Getenv(EnvRSS))
	if limit > 0 {
		// The soft limit makes the collector work harder before the watchdog
		// has to act; the watchdog is what bounds the damage to the machine.
		debug.SetMemoryLimit(int64(limit) << 20 * 3 / 4)
		go func() {
			for {
				time.Sleep(20 * time.Millisecond)
				if r := rssMiB(); r > limit {
					fmt.Fprintf(os.Stderr, "\nWORKER-MEMLIMIT rss=%dMiB limit=%dMiB\n", r, limit)
					os.Exit(ExitMemLimit)
				}
			}
		}()
	}
	if OnWorkerStart != nil {
		OnWorkerStart()
	}
	rd := bufio.NewReaderSize(in, 1<<16)
	wr := bufio.NewWriter(out)
	// tell the parent that start-up (process start, package init, warm-up) is
	// over: the per-call limits must not include it
	wr.WriteString("{\"seq\":0}\n")
	if wr.Flush() != nil {
		return
	}
	for {
		line, err := rd.ReadBytes('\n')
		if len(line) == 0 && err != nil {
			return // parent closed the pipe
		}
		var rq request
		var rs response
		if jerr := json.Unmarshal(line, &rq); jerr != nil {
			rs.Err = "workerproc: bad request: " + jerr.Error()
		} else if h := handlers[rq.Op]; h == nil {
			rs.Seq, rs.Err = rq.Seq, "workerproc: unknown op "+rq.Op
		} else {
			rs.Seq = rq.Seq
			v, herr := h(rq.Data)
			if herr != nil {
				rs.Err = herr.Error()
			}
			if v != nil {
				rs.Data, _ = json.Marshal(v)
			}
		}
		rs.Goroutines = runtime.NumGoroutine()
		b, _ := json.Marshal(rs)
		wr.Write(b)
		wr.WriteByte('\n')
		if ferr := wr.Flush(); ferr != nil {
			return
		}
		if err != nil {
			return
		}
	}
}

// ---------------------------------------------------------------- parent side

// Options configures a worker.
type Options struct {
	Dir      string   // working directory of the worker (scratch)
	Env      []string // extra environment (KEY=VALUE)
	RSSMiB   int      // RSS limit (default 3072)
	Mode     string   // value of VERIF_WORKER (default "1")
	HeadKeep int      // bytes of stderr kept from the start (default 256 KiB)
	TailKeep int      // bytes of stderr kept from the end (default 64 KiB)
}

// Status of one call.
type Status int

const (
	OK      Status = iota // a response arrived
	Timeout               // no response in time; the worker was killed
	Died                  // the worker ended before responding
)

func (s Status) String() string { return [...]string{"ok", "timeout", "died"}[s] }

// CallResult is what Call returns.
type CallResult struct {
	Status     Status
	Data       json.RawMessage
	Err        string // error string returned by the handler / protocol
	Goroutines int    // runtime.NumGoroutine in the worker after the call
	// Set when Status != OK:
	ExitCode int    // -1 when ended by a signal
	Signal   string // e.g. "killed"
	Stderr   string // captured stderr (head … tail)
}

type capture struct {
	mu         sync.Mutex
	head, tail []byte
	headKeep   int
	tailKeep   int
	dropped    int
}

func (c *capture) Write(p []byte) (int, error) {
	c.mu.Lock()
	defer c.mu.Unlock()
	n := len(p)
	if room := c.headKeep - len(c.head); room > 0 {
		k := min(room, len(p))
		c.head = append(c.head, p[:k]...)
		p = p[k:]
	}
	if len(p) > 0 {
		c.tail = append(c.tail, p...)
		if over := len(c.tail) - c.tailKeep; over > 0 {
			c.dropped += over
			c.tail = append(c.tail[:0], c.tail[over:]...)
		}
	}
	return n, nil
}

func (c *capture) String() string {
	c.mu.Lock()
	defer c.mu.Unlock()
	if c.dropped == 0 {
		return string(c.head) + string(c.tail)
	}
	return string(c.head) + fmt.Sprintf("\n...[%d bytes dropped]...\n", c.dropped) + string(c.tail)
}

// Worker is one child process.
type Worker struct {
	cmd    *exec.Cmd
	reqW   *os.File
	lines  chan []byte // responses; closed when the worker's response pipe ends
	stderr *capture
	waited chan struct{}
	seq    int
	Calls  int
	dead   bool
}

// Start launches a worker (os.Args[0] in worker mode).
func Start(o Options) (*Worker, error) {
	if o.RSSMiB == 0 {
		o.RSSMiB = 3072
	}
	if o.Mode == "" {
		o.Mode = "1"
	}
	if o.HeadKeep == 0 {
		o.HeadKeep = 256 << 10
	}
	if o.TailKeep == 0 {
		o.TailKeep = 64 << 10
	}
	reqR, reqW, err := os.Pipe()
	if err != nil {
		return nil, err
	}
	respR, respW, err := os.Pipe()
	if err != nil {
		return nil, err
	}
	exe, err := os.Executable()
	if err != nil {
		exe = os.Args[0]
	}
	cmd := exec.Command(exe, "-test.run=^$")
	cmd.Dir = o.Dir
	cmd.Env = append(os.Environ(), EnvMode+"="+o.Mode, EnvRSS+"="+strconv.Itoa(o.RSSMiB))
	cmd.Env = append(cmd.Env, o.Env...)
	cmd.ExtraFiles = []*os.File{reqR, respW}
	cmd.Stdin = nil
	cmd.Stdout = nil
	w := &Worker{cmd: cmd, reqW: reqW, lines: make(chan []byte, 1), stderr: &capture{headKeep: o.HeadKeep, tailKeep: o.TailKeep}, waited: make(chan struct{})}
	cmd.Stderr = w.stderr
	// die with the parent (the driver kills the shard's process group, but a
	// plain `go test` interrupted by hand would otherwise leave spinning
	// workers behind)
	cmd.SysProcAttr = &syscall.SysProcAttr{Pdeathsig: syscall.SIGKILL}
	runtime.LockOSThread() // Pdeathsig is tied to the creating thread
	err = cmd.Start()
	runtime.UnlockOSThread()
	reqR.Close()
	respW.Close()
	if err != nil {
		reqW.Close()
		respR.Close()
		return nil, err
	}
	go func() {
		rd := bufio.NewReaderSize(respR, 1<<16)
		for {
			line, err := rd.ReadBytes('\n')
			if len(line) > 0 && err == nil {
				w.lines <- line
			}
			if err != nil {
				close(w.lines)
				respR.Close()
				return
			}
		}
	}()
	go func() {
		_ = cmd.Wait() // also waits for the stderr copy
		close(w.waited)
	}()
	// wait for the ready line; start-up of the (large) test binary takes
	// seconds on a loaded machine
	select {
	case _, ok := <-w.lines:
		if !ok {
			w.dead = true
			var r CallResult
			w.exitInfo(&r)
			return nil, fmt.Errorf("worker ended during start-up (exit %d %s): %s", r.ExitCode, r.Signal, clipTail(r.Stderr, 2000))
		}
	case <-time.After(StartupLimit):
		w.Kill()
		return nil, fmt.Errorf("worker not ready after %v", StartupLimit)
	}
	return w, nil
}

// StartupLimit bounds the wait for a worker's ready line.
var StartupLimit = 10 * time.Minute

func clipTail(s string, n int) string {
	if len(s) > n {
		return "…" + s[len(s)-n:]
	}
	return s
}

// cpuTicks returns the CPU time (user+system, clock ticks of 10 ms) a process
// has used, or -1.
func cpuTicks(pid int) int64 {
	b, err := os.ReadFile("/proc/" + strconv.Itoa(pid) + "/stat")
	if err != nil {
		return -1
	}
	// the command name (field 2) may contain spaces; fields are counted from
	// the closing parenthesis
	i := bytes.LastIndexByte(b, ')')
	if i < 0 {
		return -1
	}
	f := strings.Fields(string(b[i+1:]))
	if len(f) < 13 {
		return -1
	}
	ut, _ := strconv.ParseInt(f[11], 10, 64)
	st, _ := strconv.ParseInt(f[12], 10, 64)
	return ut + st
}

// limiter decides when a process has used up its time bound. The bound is
// meant as "limit of work", so it is measured in CPU time of the process, which
// does not depend on how loaded the machine is; a process that is not using
// the CPU at all (sleeping, deadlocked, waiting for input) is cut off after
// the same amount of wall-clock time; and a hard wall-clock cap of 12x the
// limit ends everything else.
type limiter struct {
	pid     int
	limit   time.Duration
	start   time.Time
	cpu0    int64
	samples []sample
}

type sample struct {
	at  time.Time
	cpu int64
}

func newLimiter(pid int, limit time.Duration) *limiter {
	return &limiter{pid: pid, limit: limit, start: time.Now(), cpu0: cpuTicks(pid)}
}

// expired is polled (every 50-100 ms).
func (l *limiter) expired() bool {
	now := time.Now()
	wall := now.Sub(l.start)
	if wall >= 12*l.limit {
		return true
	}
	cpu := cpuTicks(l.pid)
	if cpu < 0 || l.cpu0 < 0 {
		return wall >= l.limit // no /proc: plain wall clock
	}
	if time.Duration(cpu-l.cpu0)*10*time.Millisecond >= l.limit {
		return true
	}
	l.samples = append(l.samples, sample{now, cpu})
	// idle: less than 50 ms of CPU during the last `limit` of wall time
	for len(l.samples) > 1 && now.Sub(l.samples[1].at) >= l.limit {
		l.samples = l.samples[1:]
	}
	if first := l.samples[0]; now.Sub(first.at) >= l.limit && cpu-first.cpu < 5 {
		return true
	}
	return false
}

// Alive reports whether the worker can take another call.
func (w *Worker) Alive() bool { return w != nil && !w.dead }

// Kill ends the worker.
func (w *Worker) Kill() {
	if w == nil {
		return
	}
	w.dead = true
	w.reqW.Close()
	_ = w.cmd.Process.Kill()
	<-w.waited
}

func (w *Worker) exitInfo(r *CallResult) {
	<-w.waited
	r.Stderr = w.stderr.String()
	r.ExitCode = -1
	if ps := w.cmd.ProcessState; ps != nil {
		if ws, ok := ps.Sys().(syscall.WaitStatus); ok && ws.Signaled() {
			r.Signal = ws.Signal().String()
		} else {
			r.ExitCode = ps.ExitCode()
		}
	}
}

// Call sends one request and waits for its response. timeout is a bound on the
// work of the call: CPU time used by the worker, or wall-clock time while the
// worker is idle, with a hard wall-clock cap of 12x timeout (see limiter). On
// Timeout or Died the worker is gone and must be replaced by the caller.
func (w *Worker) Call(op string, req any, timeout time.Duration) CallResult {
	var r CallResult
	if w.dead {
		r.Status = Died
		r.Err = "workerproc: call on a dead worker"
		return r
	}
	w.seq++
	w.Calls++
	data, err := json.Marshal(req)
	if err != nil {
		r.Err = "workerproc: marshal: " + err.Error()
		return r
	}
	line, _ := json.Marshal(request{Seq: w.seq, Op: op, Data: data})
	line = append(line, '\n')
	// a write to a dead worker fails with EPIPE (Go ignores SIGPIPE on
	// non-stdio descriptors); the response wait below then sees the closed
	// channel
	go func() { _, _ = w.reqW.Write(line) }()
	lim := newLimiter(w.cmd.Process.Pid, timeout)
	tick := time.NewTicker(50 * time.Millisecond)
	defer tick.Stop()
	for {
		select {
		case l, ok := <-w.lines:
			if !ok {
				w.dead = true
				w.reqW.Close()
				// the response pipe closed: the process is exiting
				select {
				case <-w.waited:
				case <-time.After(10 * time.Second):
					_ = w.cmd.Process.Kill()
				}
				r.Status = Died
				w.exitInfo(&r)
				return r
			}
			var rs response
			if err := json.Unmarshal(l, &rs); err != nil || rs.Seq != w.seq {
				continue // stale or garbled line; keep waiting
			}
			r.Status, r.Data, r.Err, r.Goroutines = OK, rs.Data, rs.Err, rs.Goroutines
			return r
		case <-tick.C:
			if !lim.expired() {
				continue
			}
			w.dead = true
			w.reqW.Close()
			_ = w.cmd.Process.Kill()
			r.Status = Timeout
			w.exitInfo(&r)
			return r
		}
	}
}

// ------------------------------------------------------- Go crash recognition

// Crash describes a Go runtime crash report found in process output.
type Crash struct {
	Kind   string // "panic" | "fatal" | "stack-overflow" | "oom"
	Header string // the `panic: …` / `fatal error: …` line
	Sig    string // root-cause signature (kind + top ego frame / recursion cycle)
	Trace  string // clipped trace for the report
}

var (
	reHeader    = regexp.MustCompile(`(?m)^(panic: .*|fatal error: .*|runtime: goroutine stack exceeds .*)$`)
	reGoroutine = regexp.MustCompile(`(?m)^goroutine \d+ .*\[[^\]]*\]:$`)
)

const egoPrefix = "github.com/tucats/ego/"

// ShortFunc reduces a trace frame line to a short function name.
func ShortFunc(frame string) string {
	f := strings.TrimSpace(frame)
	if i := strings.LastIndex(f, "("); i > 0 {
		// strip the argument list (the last parenthesis group)
		f = f[:i]
	}
	f = strings.TrimPrefix(f, egoPrefix)
	f = strings.TrimPrefix(f, "internal/")
	return f
}

func isEgoFrame(l string) bool {
	return strings.HasPrefix(l, egoPrefix) && !strings.HasPrefix(l, egoPrefix+"verif/")
}

// FindCrash looks for a Go crash report (an unrecovered panic or a fatal
// runtime error with a goroutine trace) in the output of a process. ok is
// false when there is none.
func FindCrash(out string) (c Crash, ok bool) {
	loc := reHeader.FindStringIndex(out)
	if loc == nil {
		return c, false
	}
	rest := out[loc[0]:]
	if !reGoroutine.MatchString(rest) {
		return c, false
	}
	c.Header = out[loc[0]:loc[1]]
	c.Trace = rest
	if len(c.Trace) > 6000 {
		c.Trace = c.Trace[:6000] + "…"
	}
	lines := strings.Split(rest, "\n")
	switch {
	case strings.Contains(rest[:min(len(rest), 600)], "stack overflow") || strings.HasPrefix(c.Header, "runtime: goroutine stack exceeds"):
		c.Kind = "stack-overflow"
		c.Header = "fatal error: stack overflow"
		// the recursion cycle: distinct ego functions among the top frames of
		// the overflowing goroutine (the trace prints the top 50 and the
		// bottom 50 frames; take those before the "frames elided" marker)
		set := map[string]bool{}
		started := false
		for _, l := range lines {
			if strings.HasPrefix(l, "goroutine ") {
				if started {
					break
				}
				started = true
				continue
			}
			if !started {
				continue
			}
			if strings.HasPrefix(l, "...") {
				break
			}
			if isEgoFrame(l) {
				name := ShortFunc(l)
				if i := strings.LastIndex(name, "."); i >= 0 {
					name = name[i+1:]
				}
				set[name] = true
			}
		}
		names := make([]string, 0, len(set))
		for n := range set {
			names = append(names, n)
		}
		sort.Strings(names)
		c.Sig = "stack-overflow cycle=" + strings.Join(names, "+")
	case strings.Contains(c.Header, "out of memory") || strings.Contains(c.Header, "cannot allocate memory"):
		c.Kind = "oom"
		c.Sig = "oom"
	default:
		c.Kind = "panic"
		if strings.HasPrefix(c.Header, "fatal error:") {
			c.Kind = "fatal"
		}
		site := "unknown"
		for _, l := range lines {
			if isEgoFrame(l) {
				site = ShortFunc(l)
				break
			}
		}
		c.Sig = c.Kind + ":" + site + " [" + PanicClass(c.Header) + "]"
		if c.Kind == "fatal" {
			c.Sig = "fatal:" + strings.TrimPrefix(c.Header, "fatal error: ") + " at " + site
		}
	}
	return c, true
}

var reDigits = regexp.MustCompile(`[0-9]+`)

// PanicClass reduces a panic message to its kind, so that two different
// defects in one function get different signatures while the values involved
// do not matter: "interface conversion", "index out of range", "slice bounds
// out of range", "nil pointer dereference", … (otherwise the first words of the
// message with numbers removed).
func PanicClass(header string) string {
	h := strings.TrimPrefix(header, "panic: ")
	h = strings.TrimPrefix(h, "runtime error: ")
	h = strings.TrimSuffix(h, " [recovered]")
	for _, k := range []string{"interface conversion", "index out of range", "slice bounds out of range", "nil pointer dereference", "makeslice: len out of range", "makeslice: cap out of range",
		"integer divide by zero", "negative shift amount", "assignment to entry in nil map", "close of closed channel", "close of nil channel", "send on closed channel", "makechan: size out of range",
		"hash of unhashable type", "comparing uncomparable type", "reflect:", "all goroutines are asleep"} {
		if strings.Contains(h, k) {
			return k
		}
	}
	h = reDigits.ReplaceAllString(h, "N")
	if len(h) > 48 {
		h = h[:48]
	}
	return h
}

// PanicSite names the function that panicked from a debug.Stack() taken in a
// deferred recover: the first ego frame below the `panic(` frame.
func PanicSite(stack string) string {
	seen := false
	for _, l := range strings.Split(stack, "\n") {
		if strings.HasPrefix(l, "panic(") {
			seen = true
			continue
		}
		if seen && isEgoFrame(l) {
			return ShortFunc(l)
		}
	}
	return "unknown"
}

// RunCLI runs a command with a limit (CPU time / idle time / 12x wall cap, see
// limiter) and returns its combined output, exit code and whether it was cut
// off. Used to confirm findings against the
// real ego binary.
func RunCLI(dir string, env []string, stdin []byte, timeout time.Duration, name string, args ...string) (out string, code int, timedOut bool, err error) {
	cmd := exec.Command(name, args...)
	cmd.Dir = dir
	cmd.Env = env
	if stdin != nil {
		cmd.Stdin = bytes.NewReader(stdin)
	}
	buf := &capture{headKeep: 256 << 10, tailKeep: 64 << 10}
	cmd.Stdout = buf
	cmd.Stderr = buf
	cmd.SysProcAttr = &syscall.SysProcAttr{Setpgid: true}
	if err = cmd.Start(); err != nil {
		return "", -1, false, err
	}
	done := make(chan struct{})
	go func() { _ = cmd.Wait(); close(done) }()
	lim := newLimiter(cmd.Process.Pid, timeout)
	tick := time.NewTicker(100 * time.Millisecond)
	defer tick.Stop()
wait:
	for {
		select {
		case <-done:
			break wait
		case <-tick.C:
			if lim.expired() {
				timedOut = true
				_ = syscall.Kill(-cmd.Process.Pid, syscall.SIGKILL)
				<-done
				break wait
			}
		}
	}
	code = -1
	if cmd.ProcessState != nil {
		code = cmd.ProcessState.ExitCode()
	}
	return buf.String(), code, timedOut, nil
}

var _ = io.Discard
