package workerproc

// The ways a user hands source text to ego, reproduced in-process for the
// checks that run programs in a worker (C07, C09). Each follows the code of
// the real entry point; see the comments on the functions.

import (
	"bytes"
	"encoding/json"
	"fmt"
	"net/http/httptest"
	"runtime/debug"
	"strconv"
	"strings"

	"github.com/tucats/ego/internal/cli/settings"
	"github.com/tucats/ego/internal/cli/ui"
	"github.com/tucats/ego/internal/defs"
	"github.com/tucats/ego/internal/errors"
	"github.com/tucats/ego/internal/language/bytecode"
	"github.com/tucats/ego/internal/language/compiler"
	"github.com/tucats/ego/internal/language/symbols"
	"github.com/tucats/ego/internal/language/tokenizer"
	"github.com/tucats/ego/internal/router"
	"github.com/tucats/ego/internal/server/admin"
	"github.com/tucats/ego/verif/egorun"
)

// SessionUUID is the dashboard session all server-entry requests use (the
// handler keeps at most 20 session symbol tables).
const SessionUUID = "7b0f6a1e-3c2d-4e5f-8a9b-0c1d2e3f4a5b"

// Res is the outcome of one execution through RunEntry.
type Res struct {
	Phase    string `json:"phase"` // ok | compile-error | run-error | exit | go-panic | handler-panic-recovered | no-test | rejected
	Tokens   int    `json:"tokens"`
	Msg      string `json:"msg,omitempty"`
	GoPanic  string `json:"go_panic,omitempty"`
	Stack    string `json:"stack,omitempty"`
	Leftover bool   `json:"leftover,omitempty"` // goroutines of the program still alive after the grace period
}

func clip(s string, n int) string {
	if len(s) > n {
		return s[:n] + "…"
	}
	return s
}

func countTokens(src string) (n int) {
	defer func() {
		if recover() != nil {
			n = -1
		}
	}()
	return len(tokenizer.New(src, true).Tokens)
}

// RunEntry compiles and runs src through the named entry point (run | pipe |
// test | server) in this process, sandboxed. A Go panic is recovered and
// reported in Res (Phase "go-panic", or "handler-panic-recovered" for the
// server entry, where the router does the same).
func RunEntry(entry string, src string, cfg egorun.Config) (res Res) {
	cfg.Sandbox = true
	var er egorun.Result
	switch entry {
	case "pipe":
		er = runPipe(src, cfg)
	case "test":
		er = runTest(src, cfg)
	case "server":
		return runServer(src, cfg)
	default:
		// `ego run FILE`: loadFile strips a #! line and appends the entry point
		if strings.HasPrefix(src, "#!") {
			if i := strings.Index(src, "\n"); i >= 0 {
				src = src[i:]
			} else {
				src = ""
			}
		}
		cfg.EntryPoint = "main"
		er = egorun.Run(src, cfg)
	}
	res.Tokens = countTokens(src)
	switch {
	case er.GoPanic != "":
		res.Phase, res.GoPanic, res.Stack = "go-panic", clip(er.GoPanic, 500), clip(er.Stack, 8000)
	case er.CompileErr == "\x00no-test":
		res.Phase = "no-test"
	case er.CompileErr != "":
		res.Phase, res.Msg = "compile-error", clip(er.CompileErr, 200)
	case er.RunErr != "":
		res.Phase, res.Msg = "run-error", clip(er.RunErr, 200)
	case er.Exit:
		res.Phase = "exit"
	default:
		res.Phase = "ok"
	}
	return res
}

// runPipe follows commands/run.go for a program arriving on a piped stdin:
// readPipedSource → entryPointForPipedSource → tokenizeCompleteStatement
// (interactive, so "@line 1;" is put in front; the balance loops stop at once
// because stdin is at EOF) → compileAndRun with an interactive compiler. The
// console "help" command (an unexported function of package commands) is not
// reproduced here; the real binary used for confirmation has it.
func runPipe(src string, cfg egorun.Config) (res egorun.Result) {
	egorun.Init()
	egorun.Apply(cfg)
	defer func() {
		if p := recover(); p != nil {
			res.GoPanic = fmt.Sprint(p)
			res.Stack = string(debug.Stack())
		}
	}()
	ui.Active(ui.TraceLogger, false)
	text := strings.ReplaceAll(src, "\r\n", "\n")
	text = strings.ReplaceAll(text, "\r", "\n")
	if text != "" && !strings.HasSuffix(text, "\n") {
		text += "\n"
	}
	tk := tokenizer.New(text, true)
	for i := 0; i+2 < len(tk.Tokens); i++ {
		if tk.Tokens[i].Spelling() == "func" && tk.Tokens[i+1].Spelling() == "main" && tk.Tokens[i+2].Spelling() == "(" {
			text += "\n@entrypoint main"
			break
		}
	}
	text = fmt.Sprintf("@line %d;\n%s", 1, text)
	st := egorun.NewSymbols(cfg)
	st.SetAlways(defs.ModeVariable, "interactive")
	comp := compiler.New("run").
		SetNormalization(settings.GetBool(defs.CaseNormalizedSetting)).
		SetExitEnabled(false).
		SetRoot(&symbols.RootSymbolTable).
		SetInteractive(true)
	_ = comp.AutoImport(true, st)
	t := tokenizer.New(text, true)
	comp.Fragment(true)
	b, err := comp.Compile("main '<stdin>'", t)
	if !errors.Nil(err) {
		res.CompileErr = err.Error()
		return res
	}
	if b == nil {
		return res
	}
	t.Close()
	ctx := bytecode.NewContext(st, b).SetTokenizer(t).SetFullSymbolScope(false)
	ctx.EnableConsoleOutput(false)
	ctx.Sandboxed(true)
	err = ctx.Run()
	res.Stdout = ctx.GetOutput()
	finish(&res, err)
	if err == nil {
		if _, cerr := comp.Close(); cerr != nil {
			res.RunErr = cerr.Error()
		}
	}
	return res
}

func finish(res *egorun.Result, err error) {
	if errors.Equals(err, errors.ErrStop) {
		err = nil
	}
	if err != nil {
		if e, ok := err.(*errors.Error); ok && e.Is(errors.ErrExit) {
			res.Exit = true
		} else {
			res.RunErr = err.Error()
		}
	}
}

// runTest follows commands/test.go TestAction for one file.
func runTest(src string, cfg egorun.Config) (res egorun.Result) {
	egorun.Init()
	egorun.Apply(cfg)
	defer func() {
		if p := recover(); p != nil {
			res.GoPanic = fmt.Sprint(p)
			res.Stack = string(debug.Stack())
		}
	}()
	ui.Active(ui.TraceLogger, false)
	settings.SetDefault(defs.ExtensionsEnabledSetting, defs.True)
	symbols.RootSymbolTable.SetAlways(defs.ExtensionsVariable, true)
	symbols.RootSymbolTable.SetAlways("_testcount", 0)
	symbols.RootSymbolTable.SetAlways("_testfailcount", 0)
	settings.SetDefault(defs.RuntimeDeepScopeSetting, "true")
	defer settings.SetDefault(defs.RuntimeDeepScopeSetting, "false")

	st := symbols.NewSymbolTable("Unit Tests").Shared(true)
	st.SetAlways(defs.ModeVariable, "test")
	st.SetAlways(defs.TypeCheckingVariable, egorun.TypeMode(cfg.Types))

	t := tokenizer.New(src, true)
	hasTest := false
	for i := 0; i < len(t.Tokens)-1; i++ {
		if t.Tokens[i].Is(tokenizer.DirectiveToken) && t.Tokens[i+1].Is(tokenizer.TestToken) {
			hasTest = true
			break
		}
	}
	if !hasTest {
		res.CompileErr = "\x00no-test"
		return res
	}
	comp := compiler.New("case.ego").SetTestMode(true)
	compiler.AddStandard(st)
	_ = comp.AutoImport(true, st)
	for _, p := range compiler.GetAutoImportedPackages() {
		comp.DefineGlobalSymbol(p)
	}
	comp.SetInteractive(true)
	b, err := comp.Compile("case.ego", t)
	if err != nil {
		res.CompileErr = err.Error()
		return res
	}
	ctx := bytecode.NewContext(st, b)
	ctx.EnableConsoleOutput(false)
	ctx.Sandboxed(true)
	err = ctx.Run()
	res.Stdout = ctx.GetOutput()
	finish(&res, err)
	return res
}

// runServer hands the text to admin.RunCodeHandler the way the router does:
// a Session for an authenticated non-admin user (so the handler sandboxes the
// run), a JSON body, and router.ServeHTTP's recover around the call.
func runServer(src string, cfg egorun.Config) (res Res) {
	egorun.Init()
	egorun.Apply(cfg)
	ui.Active(ui.TraceLogger, false)
	res.Tokens = countTokens(src)
	body, _ := json.Marshal(map[string]any{"code": src, "session": SessionUUID})
	rq := httptest.NewRequest("POST", "/admin/run", bytes.NewReader(body))
	rq.Header.Set("Content-Type", "application/json")
	rec := httptest.NewRecorder()
	sess := &router.Session{ID: 1, User: "verif", Authenticated: true, Admin: false, AcceptsJSON: true, Language: "en"}
	func() {
		defer func() {
			if p := recover(); p != nil {
				res.Phase = "handler-panic-recovered"
				res.GoPanic = clip(fmt.Sprint(p), 500)
				res.Stack = clip(string(debug.Stack()), 8000)
			}
		}()
		admin.RunCodeHandler(sess, rec, rq)
	}()
	if res.Phase != "" {
		return res
	}
	if rec.Code != 200 {
		res.Phase, res.Msg = "rejected", strconv.Itoa(rec.Code)
		return res
	}
	var rs struct {
		Output string `json:"output"`
		Error  string `json:"error"`
	}
	_ = json.Unmarshal(rec.Body.Bytes(), &rs)
	if rs.Error != "" {
		res.Phase, res.Msg = "error", clip(rs.Error, 200)
	} else {
		res.Phase = "ok"
	}
	return res
}
