package c06

// C06 "Literal values agree with Go".
//
// Statement decided: every integer, floating-point, imaginary, string,
// raw-string and rune literal that Go accepts denotes the same value in Ego,
// including radix prefixes, digit-separating underscores, exponents and all
// escape sequences.
//
// Preconditions / scope taken from the statement, the documentation and real
// callers:
//   - Spellings come from the Go specification's lexical grammar and are
//     re-validated per case with go/scanner (exactly one token of the expected
//     kind). A spelling go/scanner rejects is a generator bug and is counted as
//     a skip, never as a verdict.
//   - Reference value: go/constant.MakeFromLiteral (numbers, runes) and
//     strconv.Unquote (strings); for floats strconv.ParseFloat must agree with
//     go/constant or the case is skipped (no tolerance is used: float values are
//     compared bit for bit).
//   - Only literals a Go program can assign are generated: integers fit int64
//     (docs/LANGUAGE.md: "int is always 64-bit"), floats are finite.
//   - The *type* Ego picks is not compared (a rune is int32, a small integer is
//     int, a large one int64): integer-valued classes must come back as some Go
//     integer type with the same value, float literals as a floating-point
//     value with the same bits, imaginary literals as a complex value, strings as
//     a string. An integer literal that comes back as a float64 or a string is a
//     value disagreement (docs/LANGUAGE.md: "The value 1573 will be interpreted
//     as an int value because it has no exponent or fractional part"; 1_000/3 is
//     333 in Go).
//   - The program is run the way `ego run` runs it: default (dynamic) typing.
//     Carriage returns inside raw strings are not generated: `ego run`
//     normalises line endings of the source file before compiling, so they
//     never reach the lexer from a real caller.
//   - The literal is read back as a Go value from the symbol table (package
//     level `var g interface{}`), so fmt is not on the path.

import (
	"fmt"
	"go/constant"
	"go/scanner"
	"go/token"
	"math"
	"sort"
	"strconv"
	"strings"
	"testing"
	"unicode"
	"unicode/utf8"

	"github.com/tucats/ego/internal/language/bytecode"
	"github.com/tucats/ego/internal/language/data"
	"github.com/tucats/ego/internal/language/symbols"
	"github.com/tucats/ego/verif/egorun"
	"github.com/tucats/ego/verif/vkit"
	"pgregory.net/rapid"
)

// Case is one literal in one embedding.
type Case struct {
	Class string `json:"class"` // int | float | imag | rune | string | raw
	Lit   string `json:"lit"`   // the spelling
	Neg   bool   `json:"neg,omitempty"`
	Embed string `json:"embed"` // assign | add0 | callarg | slice | sliceany
	Opt   int    `json:"opt"`   // optimizer level 0..3
}

var embeds = []string{"assign", "add0", "callarg", "slice", "sliceany"}

// ---------------------------------------------------------------- reference

type value struct {
	kind string // int | float | complex | string
	i    int64
	f    float64
	s    string
}

func (v value) String() string {
	switch v.kind {
	case "int":
		return fmt.Sprintf("integer %d", v.i)
	case "float":
		return fmt.Sprintf("float %v (bits %#x)", v.f, math.Float64bits(v.f))
	case "complex":
		return fmt.Sprintf("complex (0+%vi) (imag bits %#x)", v.f, math.Float64bits(v.f))
	default:
		return fmt.Sprintf("string %q", v.s)
	}
}

var tokKind = map[string]token.Token{"int": token.INT, "float": token.FLOAT, "imag": token.IMAG, "rune": token.CHAR, "string": token.STRING, "raw": token.STRING}

// goValue asks the Go standard library what the literal denotes. ok=false
// means Go does not accept the case (generator bug or out of range).
func goValue(c Case) (v value, why string) {
	want, found := tokKind[c.Class]
	if !found {
		return v, "unknown class"
	}
	if !utf8.ValidString(c.Lit) {
		return v, "source not UTF-8"
	}
	src := c.Lit
	if c.Neg {
		src = "-" + src
	}
	fset := token.NewFileSet()
	file := fset.AddFile("lit.go", -1, len(src))
	var s scanner.Scanner
	nerr := 0
	s.Init(file, []byte(src), func(token.Position, string) { nerr++ }, 0)
	var toks []token.Token
	var lits []string
	for {
		_, tok, lit := s.Scan()
		if tok == token.EOF {
			break
		}
		toks = append(toks, tok)
		lits = append(lits, lit)
	}
	// expected: [SUB] <literal> ";"(auto)
	idx := 0
	if c.Neg {
		if len(toks) < 1 || toks[0] != token.SUB {
			return v, "no minus"
		}
		idx = 1
	}
	if nerr != 0 || len(toks) != idx+2 || toks[idx] != want || lits[idx] != c.Lit || toks[idx+1] != token.SEMICOLON || lits[idx+1] != "\n" {
		return v, fmt.Sprintf("go/scanner: errors=%d tokens=%v", nerr, toks)
	}
	switch c.Class {
	case "string", "raw":
		str, err := strconv.Unquote(c.Lit)
		if err != nil {
			return v, "strconv.Unquote: " + err.Error()
		}
		return value{kind: "string", s: str}, ""
	}
	cv := constant.MakeFromLiteral(c.Lit, want, 0)
	if cv.Kind() == constant.Unknown {
		return v, "go/constant: unknown"
	}
	if c.Neg {
		cv = constant.UnaryOp(token.SUB, cv, 0)
	}
	switch c.Class {
	case "int", "rune":
		i, exact := constant.Int64Val(cv)
		if !exact {
			return v, "does not fit int64"
		}
		if c.Class == "rune" {
			r, _, _, err := strconv.UnquoteChar(c.Lit[1:len(c.Lit)-1], '\'')
			if err != nil || int64(r) != i {
				// \x80..\xff and \200..\377 are byte values: UnquoteChar
				// returns the byte as a rune, same number.
				return v, "strconv.UnquoteChar disagrees with go/constant"
			}
		}
		return value{kind: "int", i: i}, ""
	case "float":
		f, _ := constant.Float64Val(cv)
		if math.IsInf(f, 0) || math.IsNaN(f) {
			return v, "float overflows float64"
		}
		lit := c.Lit
		pf, err := strconv.ParseFloat(lit, 64)
		if c.Neg {
			pf = -pf
		}
		if err != nil || math.Float64bits(pf) != math.Float64bits(f) {
			return v, "strconv.ParseFloat disagrees with go/constant"
		}
		return value{kind: "float", f: f}, ""
	case "imag":
		if re, _ := constant.Float64Val(constant.Real(cv)); re != 0 {
			return v, "real part not zero"
		}
		f, _ := constant.Float64Val(constant.Imag(cv))
		if math.IsInf(f, 0) || math.IsNaN(f) {
			return v, "imaginary part overflows float64"
		}
		return value{kind: "complex", f: f}, ""
	}
	return v, "unreachable"
}

// --------------------------------------------------------------- the program

func sliceType(class string) string {
	switch class {
	case "int":
		return "int"
	case "float":
		return "float64"
	case "imag":
		return "complex128"
	case "rune":
		return "int32"
	default:
		return "string"
	}
}

// program embeds the literal. Every form is also a valid Go function body
// (with g declared), which is what "a literal that Go accepts, embedded in an
// expression" means here.
func program(c Case) string {
	lit := c.Lit
	if c.Neg {
		lit = "-" + lit
	}
	var body string
	switch c.Embed {
	case "add0":
		body = "\tx := " + lit + " + 0\n\tg = x\n"
	case "callarg":
		body = "\tg = id(" + lit + ")\n"
	case "slice":
		body = "\ta := []" + sliceType(c.Class) + "{" + lit + "}\n\tg = a[0]\n"
	case "sliceany":
		body = "\ta := []interface{}{" + lit + "}\n\tg = a[0]\n"
	default:
		body = "\tx := " + lit + "\n\tg = x\n"
	}
	return "var g interface{}\n\nfunc id(a interface{}) interface{} {\n\treturn a\n}\n\nfunc main() {\n" + body + "}\n"
}

type egoResult struct {
	val   any
	found bool
	res   egorun.Result
}

func runEgo(c Case) egoResult {
	var out egoResult
	cfg := egorun.Config{Types: "dynamic", Optimize: c.Opt, ConstFold: true, EntryPoint: "main"}
	out.res = egorun.RunWith(program(c), cfg, &egorun.Hooks{After: func(st *symbols.SymbolTable, _ *bytecode.Context) {
		v, ok := st.Get("g")
		out.val, out.found = unwrap(v), ok
	}})
	return out
}

// unwrap strips Ego's constant and interface{} wrappers (a value stored
// through an interface{} parameter or variable may be boxed with its type).
func unwrap(v any) any {
	for i := 0; i < 4; i++ {
		switch w := v.(type) {
		case data.Immutable:
			v = w.Value
		case data.Interface:
			v = w.Value
		case *data.Interface:
			if w == nil {
				return nil
			}
			v = w.Value
		default:
			return v
		}
	}
	return v
}

// agree compares what Ego produced with the reference value.
func agree(want value, got any) bool {
	switch want.kind {
	case "int":
		switch g := got.(type) {
		case int:
			return int64(g) == want.i
		case int8:
			return int64(g) == want.i
		case int16:
			return int64(g) == want.i
		case int32:
			return int64(g) == want.i
		case int64:
			return g == want.i
		case uint8:
			return int64(g) == want.i
		case uint16:
			return int64(g) == want.i
		case uint32:
			return int64(g) == want.i
		case uint:
			return want.i >= 0 && uint64(g) == uint64(want.i)
		case uint64:
			return want.i >= 0 && g == uint64(want.i)
		}
	case "float":
		switch g := got.(type) {
		case float64:
			return math.Float64bits(g) == math.Float64bits(want.f)
		case float32:
			return float64(g) == want.f && float64(float32(want.f)) == want.f
		}
	case "complex":
		switch g := got.(type) {
		case complex128:
			return real(g) == 0 && math.Float64bits(imag(g)) == math.Float64bits(want.f)
		}
	case "string":
		if g, ok := got.(string); ok {
			return g == want.s
		}
	}
	return false
}

func describe(got any) string {
	switch g := got.(type) {
	case nil:
		return "nil"
	case string:
		return fmt.Sprintf("string %q", g)
	case float64:
		return fmt.Sprintf("float64 %v (bits %#x)", g, math.Float64bits(g))
	default:
		return fmt.Sprintf("%T %v", got, got)
	}
}

// ---------------------------------------------------------- feature analysis

func digitSepClass(lit string, prefixLen int) string {
	after := prefixLen > 0 && len(lit) > prefixLen && lit[prefixLen] == '_'
	rest := lit[prefixLen:]
	if after {
		rest = rest[1:]
	}
	between := strings.Contains(rest, "_")
	switch {
	case after && between:
		return "prefix+digits"
	case after:
		return "prefix"
	case between:
		return "digits"
	}
	return "none"
}

func intPrefix(lit string) (string, int) {
	if len(lit) >= 2 && lit[0] == '0' {
		switch lit[1] {
		case 'b', 'B', 'o', 'O', 'x', 'X':
			return lit[:2], 2
		}
		return "0", 1 // legacy octal (or decimal digits with a leading zero in an imaginary literal)
	}
	return "dec", 0
}

func isHexFloat(lit string) bool {
	return len(lit) > 2 && lit[0] == '0' && (lit[1] == 'x' || lit[1] == 'X')
}

func floatFeature(lit string) string {
	if isHexFloat(lit) {
		body := lit[2:]
		pi := strings.IndexAny(body, "pP")
		mant, exp := body[:pi], body[pi:]
		shape := "H"
		switch {
		case strings.HasPrefix(strings.TrimPrefix(mant, "_"), "."):
			shape = ".H"
		case strings.HasSuffix(mant, "."):
			shape = "H."
		case strings.Contains(mant, "."):
			shape = "H.H"
		}
		sep := "none"
		switch {
		case strings.HasPrefix(mant, "_"):
			sep = "prefix"
		case strings.Contains(mant, "_"):
			sep = "mantissa"
		case strings.Contains(exp, "_"):
			sep = "exponent"
		}
		return fmt.Sprintf("form=hex(%s) shape=%s exp=%s sep=%s", lit[:2], shape, expSpelling(exp), sep)
	}
	ei := strings.IndexAny(lit, "eE")
	mant, exp := lit, ""
	if ei >= 0 {
		mant, exp = lit[:ei], lit[ei:]
	}
	shape := "D"
	switch {
	case strings.HasPrefix(mant, "."):
		shape = ".D"
	case strings.HasSuffix(mant, "."):
		shape = "D."
	case strings.Contains(mant, "."):
		shape = "D.D"
	}
	sep := "none"
	switch {
	case strings.Contains(mant, "_"):
		sep = "mantissa"
	case strings.Contains(exp, "_"):
		sep = "exponent"
	}
	lead := ""
	if len(mant) > 1 && mant[0] == '0' && mant[1] != '.' {
		lead = " lead0"
	}
	return fmt.Sprintf("form=dec shape=%s exp=%s sep=%s%s", shape, expSpelling(exp), sep, lead)
}

func expSpelling(exp string) string {
	if exp == "" {
		return "none"
	}
	if len(exp) > 1 && (exp[1] == '+' || exp[1] == '-') {
		return exp[:2]
	}
	return exp[:1]
}

func intFeature(lit string, neg bool) string {
	p, n := intPrefix(lit)
	v, err := strconv.ParseUint(strings.ReplaceAll(lit, "_", ""), 0, 64)
	if n == 0 {
		v, err = strconv.ParseUint(strings.ReplaceAll(lit, "_", ""), 10, 64)
	}
	mag := "le31bit"
	switch {
	case err != nil:
		mag = "?"
	case v > maxInt64:
		mag = "2^63"
	case v > math.MaxInt32:
		mag = "gt31bit"
	}
	s := fmt.Sprintf("prefix=%s sep=%s mag=%s", p, digitSepClass(lit, n), mag)
	if neg {
		s += " negated"
	}
	return s
}

// intSig names the root-cause region of a failing integer literal. The
// regions are disjoint and ordered: -2^63 (any spelling) is attributed to the
// sign; otherwise a spelling with a separator to the separator; otherwise a
// radix-prefixed spelling wider than 31 bits to the width; anything else is
// described in full.
func intSig(lit string, neg bool) string {
	p, n := intPrefix(lit)
	sep := digitSepClass(lit, n)
	feat := intFeature(lit, neg)
	wide := strings.Contains(feat, "mag=gt31bit") || strings.Contains(feat, "mag=2^63")
	switch {
	case strings.Contains(feat, "mag=2^63"):
		return "most-negative"
	case sep != "none" && p == "dec":
		return "underscore=" + sep + " radix=dec"
	case sep != "none":
		return "underscore=" + sep + " radix=prefixed"
	case p != "dec" && wide:
		return "radix-prefixed wider-than-int32"
	}
	return feat
}

func imagSig(lit string) string {
	num := strings.TrimSuffix(lit, "i")
	f := imagFeature(lit)
	if strings.HasPrefix(f, "base=int") {
		if p, _ := intPrefix(num); p != "dec" && p != "0" {
			return "base=radix-prefixed-int"
		}
	}
	return f
}

func imagFeature(lit string) string {
	num := strings.TrimSuffix(lit, "i")
	if strings.ContainsAny(num, ".pP") || (!isHexFloat(num) && strings.ContainsAny(num, "eE")) {
		return "base=float " + floatFeature(num)
	}
	p, n := intPrefix(num)
	if p == "0" {
		p = "lead0-decimal"
	}
	return fmt.Sprintf("base=int prefix=%s sep=%s", p, digitSepClass(num, n))
}

// element is one unicode_value / byte_value of a rune or string literal body.
type element struct {
	text string
	kind string
}

// elements splits the body of an interpreted string or rune literal.
func elements(body string, raw, fine bool) []element {
	var out []element
	for len(body) > 0 {
		if body[0] == '\\' && !raw {
			n := 2
			kind := "esc-simple"
			switch body[1] {
			case 'x':
				n, kind = 4, "esc-hex"
			case 'u':
				n, kind = 6, "esc-u"
			case 'U':
				n, kind = 10, "esc-U"
			case '0', '1', '2', '3', '4', '5', '6', '7':
				n, kind = 4, "esc-oct"
			case '\'':
				kind = "esc-sq"
			case '"':
				kind = "esc-dq"
			default:
				if fine {
					kind = "esc-" + body[:2] // one kind per simple escape, so a failure is attributed to the letter
				}
			}
			out = append(out, element{body[:n], kind})
			body = body[n:]
			continue
		}
		r, n := utf8.DecodeRuneInString(body)
		kind := "plain-ascii"
		switch {
		case r == '\\':
			kind = "plain-backslash"
		case r == '\n':
			kind = "plain-newline"
		case r == ' ' || r == '\t':
			kind = "plain-blank"
		case r == '"':
			kind = "plain-dq"
		case r == '\'':
			kind = "plain-sq"
		case r == '`':
			kind = "plain-backtick"
		case r == '/' || r == '*':
			kind = "plain-slashstar"
		case r == ';' || r == '{' || r == ',' || r == ':' || r == '.':
			kind = "plain-punct"
		case n > 1:
			kind = fmt.Sprintf("plain-utf8x%d", n)
		}
		out = append(out, element{body[:n], kind})
		body = body[n:]
	}
	return out
}

func kindsOf(els []element) []string {
	set := map[string]bool{}
	for _, e := range els {
		set[e.kind] = true
	}
	var ks []string
	for k := range set {
		ks = append(ks, k)
	}
	sort.Strings(ks)
	return ks
}

// rawStructure names the line-structure features of a multi-line raw string
// body ("blank" is any Unicode white space).
func rawStructure(body string) []string {
	var fs []string
	lines := strings.Split(body, "\n")
	if len(lines) < 2 {
		return nil
	}
	lead := func(l string) bool { r, _ := utf8.DecodeRuneInString(l); return l != "" && unicode.IsSpace(r) }
	trail := func(l string) bool { r, _ := utf8.DecodeLastRuneInString(l); return l != "" && unicode.IsSpace(r) }
	last := lines[len(lines)-1]
	if lead(last) {
		fs = append(fs, "last-line-leading-blank")
	}
	if last == "" {
		fs = append(fs, "ends-with-newline")
	}
	for i, l := range lines {
		if i > 0 && i < len(lines)-1 && lead(l) {
			fs = append(fs, "inner-line-leading-blank")
			break
		}
	}
	for i, l := range lines {
		if i < len(lines)-1 && trail(l) {
			fs = append(fs, "line-trailing-blank")
			break
		}
	}
	for i, l := range lines {
		if i > 0 && i < len(lines)-1 && l == "" {
			fs = append(fs, "empty-line")
			break
		}
	}
	return fs
}

var rawStructureAtoms = map[string]string{
	"last-line-leading-blank":  "`a\n b`",
	"ends-with-newline":        "`a\n`",
	"inner-line-leading-blank": "`a\n b\nc`",
	"line-trailing-blank":      "`a \nb`",
	"empty-line":               "`a\n\nb`",
}

// features returns the label(s) of a case and, for string classes, the
// sub-literals ("atoms") used to attribute a failure to an element kind.
func features(c Case) (feat []string, atoms map[string]string) {
	switch c.Class {
	case "int":
		return []string{intFeature(c.Lit, c.Neg)}, nil
	case "float":
		return []string{floatFeature(c.Lit)}, nil
	case "imag":
		return []string{imagFeature(c.Lit)}, nil
	case "rune":
		els := elements(c.Lit[1:len(c.Lit)-1], false, false)
		return kindsOf(els), nil
	case "string":
		els := elements(c.Lit[1:len(c.Lit)-1], false, true)
		atoms = map[string]string{}
		for _, e := range els {
			if _, ok := atoms[e.kind]; !ok {
				atoms[e.kind] = `"` + e.text + `"`
			}
		}
		if len(els) == 0 {
			return []string{"empty"}, nil
		}
		return kindsOf(els), atoms
	case "raw":
		body := c.Lit[1 : len(c.Lit)-1]
		els := elements(body, true, false)
		atoms = map[string]string{}
		for _, e := range els {
			if _, ok := atoms[e.kind]; !ok {
				atoms[e.kind] = "`" + e.text + "`"
			}
		}
		feat = kindsOf(els)
		for _, f := range rawStructure(body) {
			feat = append(feat, f)
			atoms[f] = rawStructureAtoms[f]
		}
		if len(feat) == 0 {
			return []string{"empty"}, nil
		}
		return feat, atoms
	}
	return nil, nil
}

// ------------------------------------------------------------------- oracle

// judge runs one case; it returns "" when Ego agrees with Go, else a
// description of what Ego did.
func judge(c Case, want value) string {
	r := runEgo(c)
	switch {
	case r.res.GoPanic != "":
		return "Go panic: " + r.res.GoPanic
	case r.res.CompileErr != "":
		return "compile error: " + r.res.CompileErr
	case r.res.RunErr != "":
		return "runtime error: " + r.res.RunErr
	case !r.found:
		return "g not set"
	case !agree(want, r.val):
		return "g = " + describe(r.val)
	}
	return ""
}

// labelsFor turns the feature description into histogram labels. Numeric
// features are products of several dimensions; each label names two of them so
// that the histogram stays readable (the signature keeps the full product).
func labelsFor(c Case, feat []string) []string {
	var ls []string
	kv := func(f string) map[string]string {
		m := map[string]string{}
		for _, w := range strings.Fields(f) {
			if i := strings.IndexByte(w, '='); i > 0 {
				m[w[:i]] = w[i+1:]
			} else {
				m[w] = "yes"
			}
		}
		return m
	}
	switch c.Class {
	case "int":
		m := kv(feat[0])
		ls = append(ls, "int prefix="+m["prefix"]+" sep="+m["sep"], "int prefix="+m["prefix"]+" mag="+m["mag"])
		if c.Neg {
			ls = append(ls, "int negated mag="+m["mag"])
		}
	case "float":
		m := kv(feat[0])
		ls = append(ls, "float form="+m["form"]+" shape="+m["shape"], "float form="+m["form"]+" exp="+m["exp"], "float form="+m["form"]+" sep="+m["sep"])
		if m["lead0"] != "" {
			ls = append(ls, "float leading-zero shape="+m["shape"])
		}
	case "imag":
		m := kv(feat[0])
		if m["base"] == "float" {
			ls = append(ls, "imag base=float form="+m["form"]+" shape="+m["shape"], "imag base=float exp="+m["exp"]+" sep="+m["sep"])
		} else {
			ls = append(ls, "imag "+feat[0])
		}
	default:
		for _, f := range feat {
			ls = append(ls, c.Class+" "+f)
		}
	}
	return ls
}

func nonTrivial(c Case, feat []string) bool {
	switch c.Class {
	case "int":
		return !strings.HasPrefix(feat[0], "prefix=dec sep=none") || c.Neg
	case "float":
		return !strings.Contains(feat[0], "shape=D.D exp=none sep=none") || strings.Contains(feat[0], "lead0")
	case "imag":
		return true
	default:
		for _, f := range feat {
			if f != "plain-ascii" && f != "empty" {
				return true
			}
		}
	}
	return false
}

func oracle(c Case) vkit.Outcome {
	var out vkit.Outcome
	want, why := goValue(c)
	if why != "" {
		out.Skip = "go rejects (" + c.Class + "): " + strings.SplitN(why, ":", 2)[0]
		return out
	}
	if c.Embed == "add0" && want.kind == "string" {
		out.Skip = "add0 on a string"
		return out
	}
	feat, atoms := features(c)
	out.Key = fmt.Sprintf("%s|%v|%s|%d|%s", c.Class, c.Neg, c.Embed, c.Opt, c.Lit)
	out.NonTrivial = nonTrivial(c, feat)
	out.Labels = []string{"embed=" + c.Embed, fmt.Sprintf("opt=%d", c.Opt)}
	out.Labels = append(out.Labels, labelsFor(c, feat)...)

	observed := judge(c, want)
	if observed == "" {
		return out
	}
	// Attribute the failure. For strings: which element kinds fail on their
	// own (same embedding)? If none does, the combination is the signature.
	sigFeat := feat
	switch c.Class {
	case "int":
		sigFeat = []string{intSig(c.Lit, c.Neg)}
	case "imag":
		sigFeat = []string{imagSig(c.Lit)}
	}
	if atoms != nil {
		var failing []string
		keys := make([]string, 0, len(atoms))
		for k := range atoms {
			keys = append(keys, k)
		}
		sort.Strings(keys)
		for _, k := range keys {
			ac := c
			ac.Lit = atoms[k]
			if ac.Lit == c.Lit {
				failing = append(failing, k)
				continue
			}
			aw, awhy := goValue(ac)
			if awhy != "" {
				continue
			}
			if judge(ac, aw) != "" {
				failing = append(failing, k)
			}
		}
		if len(failing) > 0 {
			sigFeat = failing
		} else {
			sigFeat = append([]string{"combination"}, feat...)
		}
	}
	out.Fail = &vkit.Failure{
		Sig:      c.Class + " " + strings.Join(sigFeat, "+"),
		Observed: fmt.Sprintf("literal %s (embedding %s, -O%d): %s", quoteLit(c), c.Embed, c.Opt, observed),
		Expected: want.String() + " (go/scanner + go/constant/strconv)",
	}
	return out
}

func quoteLit(c Case) string {
	l := c.Lit
	if c.Neg {
		l = "-" + l
	}
	if strings.ContainsAny(l, "\n\t") {
		return strconv.Quote(l) + " (Go-quoted source text)"
	}
	return l
}

// ---------------------------------------------------------------- generator

func gen(t *rapid.T) Case {
	c := Case{}
	c.Class = rapid.SampledFrom([]string{"int", "int", "float", "float", "imag", "rune", "rune", "string", "string", "raw", "raw", "negint"}).Draw(t, "class")
	switch c.Class {
	case "int":
		c.Lit = genInt(t, false)
	case "negint":
		c.Class, c.Neg = "int", true
		if rapid.IntRange(0, 2).Draw(t, "exactmin") == 0 {
			c.Lit = genInt(t, true)
		} else {
			c.Lit = genInt(t, false)
		}
	case "float":
		if rapid.IntRange(0, 2).Draw(t, "hex") == 0 {
			c.Lit = genHexFloat(t)
		} else {
			c.Lit = genDecFloat(t)
		}
	case "imag":
		c.Lit = genImag(t)
	case "rune":
		c.Lit = genRune(t)
	case "string":
		c.Lit = genString(t)
	case "raw":
		c.Lit = genRaw(t)
	}
	if c.Class == "string" || c.Class == "raw" {
		c.Embed = rapid.SampledFrom([]string{"assign", "callarg", "slice", "sliceany"}).Draw(t, "embed")
	} else {
		c.Embed = rapid.SampledFrom(embeds).Draw(t, "embed")
	}
	c.Opt = rapid.SampledFrom([]int{0, 1, 1, 3}).Draw(t, "opt")
	return c
}

// fixed: one spelling per grammar feature named in the property text and in
// DESIGN.md, in the plain assignment embedding, plus the most negative int in
// every embedding.
func fixed() []Case {
	var cs []Case
	add := func(class string, lits ...string) {
		for _, l := range lits {
			cs = append(cs, Case{Class: class, Lit: l, Embed: "assign", Opt: 1})
		}
	}
	add("int", "0", "7", "42", "1_000", "1_0_0", "0b101", "0B101", "0b_101", "0b1_0_1", "0o17", "0O17", "0o_17", "0o1_7", "017", "0_17", "01_7", "00",
		"0x1F", "0X1f", "0x_1F", "0x1_F", "0xFFFFFFFF", "0x7fffffffffffffff", "2147483647", "2147483648", "9223372036854775807", "9_223_372_036_854_775_807",
		"0b111111111111111111111111111111111", "0o777777777777", "0777777777777")
	add("float", "1.5", "1.", ".5", "1e3", "1E3", "1e+3", "1e-3", "1.5e3", "1.e3", ".5e3", "1_0.2_5", "1e1_0", "00.5", "0123.5", "09e1", "0e0",
		"0x1p-2", "0X1.8p+1", "0x_1p0", "0x1_0p0", "0x.8p1", "0x1.p1", "0x1P2", "0x1.8p1_0", "0x1p-1074", "1e-400", "1.7976931348623157e308")
	add("imag", "1i", "0i", "2.5i", "0123i", "09i", "1_0.2_5i", "0x1p-2i", "0b101i", "0o17i", "0x1Fi", "1e3i", ".5i", "1.i", "1_000i")
	add("rune", "'a'", "' '", "'\"'", "'`'", "'é'", "'世'", "'😀'", `'\a'`, `'\b'`, `'\f'`, `'\n'`, `'\r'`, `'\t'`, `'\v'`, `'\\'`, `'\''`,
		`'\000'`, `'\101'`, `'\377'`, `'\x00'`, `'\x41'`, `'\xff'`, `'\u00e9'`, `'\u4e16'`, `'\U0001F600'`, `'\U0010FFFF'`)
	add("string", `""`, `"abc"`, `"a b"`, `"é世😀"`, `"\a\b\f\n\r\t\v\\\""`, `"\000\101\377"`, `"\x00\x41\xff"`, `"\u00e9\u4e16"`, `"\U0001F600"`, `"'"`, "\"`\"", `"//"`, `"/*"`, `"int"`, `"0x1F"`)
	add("raw", "``", "`abc`", "`a\\nb`", "`\\`", "`\"`", "`a\nb`", "`a\n b`", "`a \nb`", "`a\n\nb`", "`é世😀`", "`//`", "`'`")
	for _, e := range embeds {
		cs = append(cs, Case{Class: "int", Lit: "9223372036854775808", Neg: true, Embed: e, Opt: 1})
		cs = append(cs, Case{Class: "int", Lit: "9223372036854775807", Neg: true, Embed: e, Opt: 1})
	}
	return cs
}

func TestC06(t *testing.T) {
	vkit.Run(t, vkit.Spec[Case]{
		ID:    "C06",
		Level: "exploration",
		Rule: "literal spellings drawn from the Go spec's lexical grammar (int: dec/0b/0o/legacy-0/0x with _ after the prefix and between digits, values up to MaxInt64 and -2^63 under a minus; " +
			"float: decimal and hex, every mantissa shape and exponent spelling, _; imaginary forms of all of them; rune: plain 1-4 byte UTF-8 and every escape kind; " +
			"interpreted strings of 0-8 elements over all escapes; raw strings with backslashes, quotes, newlines), each placed in x := L, x := L + 0, a call argument, a typed and an untyped slice literal, run at -O0/1/3. " +
			"Reference value from go/scanner + go/constant / strconv; Ego's value read from the symbol table. Non-trivial: the spelling uses a prefix, separator, exponent, non-D.D float shape, escape or non-ASCII/special character; distinct by (spelling, embedding, opt).",
		Assumptions: []string{
			"integer-class literals must come back as a Go integer type of any width, float literals as a float with identical bits, imaginary literals as complex128, strings as string; an integer literal returned as float64 or string counts as a different value",
			"programs run with dynamic typing (the `ego run` default); the literal reaches a package-level `var g interface{}` and is read from the symbol table",
			"carriage returns in raw strings are not generated (`ego run` rewrites them before the lexer sees the file)",
			"go/constant and strconv.ParseFloat must agree on a float's bits, else the case is skipped",
		},
		Gen:      gen,
		Oracle:   oracle,
		Fixed:    fixed,
		Quick:    4000,
		Thorough: 60000,
	})
}
