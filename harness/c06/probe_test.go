package c06

import (
	"fmt"
	"testing"

	"github.com/tucats/ego/internal/language/bytecode"
	"github.com/tucats/ego/internal/language/data"
	"github.com/tucats/ego/internal/language/symbols"
	"github.com/tucats/ego/verif/egorun"
)

func TestProbe(t *testing.T) {
	for _, lit := range []string{
		"0x1F", "1_000", "'\\n'", "'a'", "-9223372036854775808", "0x_1F", "1i", "\"a\\tb\"",
		"0o17", "0b101", "017", "0xFFFFFFFF", "0x1p-2", "0x1Fi", "'é'", "2147483648", "0x10 + 0", "1_000 + 0", "`a\\b`",
	} {
		for _, tmpl := range []string{
			"func main() {\n x := %s\n __cap(x)\n}\n",
			"var g interface{}\nfunc main() {\n x := %s\n g = x\n}\n",
			"func main() {\n __cap(%s)\n}\n",
			"func main() {\n a := []interface{}{%s}\n __cap(a[0])\n}\n",
		} {
			src := fmt.Sprintf(tmpl, lit)
			var got, g any
			res := egorun.RunWith(src, egorun.Config{Types: "dynamic", EntryPoint: "main"}, &egorun.Hooks{
				Before: func(st *symbols.SymbolTable) {
					st.SetAlways("__cap", func(s *symbols.SymbolTable, args data.List) (any, error) {
						got = args.Get(0)
						return nil, nil
					})
				},
				After: func(st *symbols.SymbolTable, ctx *bytecode.Context) {
					g, _ = st.Get("g")
				}})
			fmt.Printf("%-24q => cap %T %v | g %T %v cerr=%q rerr=%q panic=%q\n", lit, got, got, g, g, res.CompileErr, res.RunErr, res.GoPanic)
		}
	}
}
