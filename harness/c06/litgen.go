package c06

// litgen: literal spellings drawn from the lexical grammar of the Go
// specification (https://go.dev/ref/spec#Integer_literals ff.). Every draw
// happens here; the oracle re-derives the feature classification from the
// spelling, so a replay file only needs the spelling.

import (
	"fmt"
	"strconv"
	"strings"
	"unicode/utf8"

	"pgregory.net/rapid"
)

const maxInt64 = uint64(1<<63 - 1)

// genMagnitude draws a non-negative value that fits int64, weighted towards the
// widths at which a lexer that parses "to 32 bits first" changes behaviour.
func genMagnitude(t *rapid.T) uint64 {
	switch rapid.IntRange(0, 6).Draw(t, "magclass") {
	case 0:
		return uint64(rapid.IntRange(0, 9).Draw(t, "digit"))
	case 1:
		return rapid.SampledFrom([]uint64{1<<31 - 1, 1 << 31, 1<<32 - 1, 1 << 32, 1<<63 - 1, 1 << 62, 255, 256, 65535, 65536, 7, 8, 15, 16}).Draw(t, "boundary")
	case 2:
		return rapid.Uint64Range(0, 1<<31-1).Draw(t, "v32")
	case 3:
		return rapid.Uint64Range(1<<31, 1<<33).Draw(t, "v33")
	case 4:
		return rapid.Uint64Range(0, 1<<16).Draw(t, "v16")
	default:
		return rapid.Uint64Range(0, maxInt64).Draw(t, "v64")
	}
}

// randCaseHex renders hex digits with a drawn mixture of cases.
func randCaseHex(t *rapid.T, digits string) string {
	mode := rapid.IntRange(0, 2).Draw(t, "hexcase")
	switch mode {
	case 0:
		return strings.ToLower(digits)
	case 1:
		return strings.ToUpper(digits)
	}
	b := []byte(strings.ToLower(digits))
	for i := range b {
		if b[i] >= 'a' && b[i] <= 'f' && rapid.Bool().Draw(t, "up") {
			b[i] -= 'a' - 'A'
		}
	}
	return string(b)
}

// sepDigits inserts single underscores between digits of a digit string at
// drawn positions (never leading, trailing or doubled): decimal_digits =
// decimal_digit { [ "_" ] decimal_digit }.
func sepDigits(t *rapid.T, digits string, mode int) string {
	if len(digits) < 2 || mode == 0 {
		return digits
	}
	var sb strings.Builder
	placed := false
	for i := 0; i < len(digits); i++ {
		if i > 0 {
			put := false
			switch mode {
			case 1: // every third digit from the right (the idiomatic use)
				put = (len(digits)-i)%3 == 0
			case 2: // between every pair
				put = true
			default: // random subset
				put = rapid.Bool().Draw(t, "sep")
			}
			if put {
				sb.WriteByte('_')
				placed = true
			}
		}
		sb.WriteByte(digits[i])
	}
	if !placed && mode > 0 { // make sure the mode is visible
		return digits[:1] + "_" + digits[1:]
	}
	return sb.String()
}

// genInt draws an integer literal spelling with value <= MaxInt64 (or exactly
// 2^63 when minInt is set, for use under a unary minus).
func genInt(t *rapid.T, minInt bool) string {
	v := genMagnitude(t)
	if minInt {
		v = 1 << 63
	}
	prefix := rapid.SampledFrom([]string{"", "", "0b", "0B", "0o", "0O", "0", "0x", "0X", "0x"}).Draw(t, "prefix")
	var digits string
	switch strings.ToLower(prefix) {
	case "":
		digits = strconv.FormatUint(v, 10)
	case "0b":
		digits = strconv.FormatUint(v, 2)
	case "0o", "0":
		digits = strconv.FormatUint(v, 8)
	case "0x":
		digits = randCaseHex(t, strconv.FormatUint(v, 16))
	}
	if prefix != "" && rapid.IntRange(0, 4).Draw(t, "leadzeros") == 0 {
		digits = strings.Repeat("0", rapid.IntRange(1, 3).Draw(t, "nzeros")) + digits
	}
	sepMode := rapid.SampledFrom([]int{0, 0, 1, 2, 3}).Draw(t, "sepmode")
	digits = sepDigits(t, digits, sepMode)
	afterPrefix := prefix != "" && rapid.IntRange(0, 3).Draw(t, "sepafterprefix") == 0
	if afterPrefix {
		return prefix + "_" + digits
	}
	return prefix + digits
}

func genDecDigits(t *rapid.T, label string, min, max int, allowLeadZero bool) string {
	n := rapid.IntRange(min, max).Draw(t, label+"len")
	b := make([]byte, n)
	for i := range b {
		b[i] = byte('0' + rapid.IntRange(0, 9).Draw(t, label))
	}
	if !allowLeadZero && n > 1 && b[0] == '0' {
		b[0] = '1'
	}
	return string(b)
}

// genDecFloat draws a decimal floating-point literal:
//
//	decimal_float_lit = decimal_digits "." [ decimal_digits ] [ decimal_exponent ] |
//	                    decimal_digits decimal_exponent | "." decimal_digits [ decimal_exponent ] .
func genDecFloat(t *rapid.T) string {
	shape := rapid.SampledFrom([]string{"D.D", "D.", ".D", "De", "D.De", "D.e", ".De"}).Draw(t, "shape")
	sepMode := rapid.SampledFrom([]int{0, 0, 0, 1, 2, 3}).Draw(t, "sepmode")
	lead := rapid.IntRange(0, 5).Draw(t, "leadzero") == 0
	ip := genDecDigits(t, "ip", 1, 8, lead)
	if lead {
		ip = "0" + ip
	}
	ip = sepDigits(t, ip, sepMode)
	fp := sepDigits(t, genDecDigits(t, "fp", 1, 8, true), sepMode)
	exp := ""
	if strings.Contains(shape, "e") {
		e := rapid.SampledFrom([]string{"e", "E"}).Draw(t, "e")
		sign := rapid.SampledFrom([]string{"", "+", "-"}).Draw(t, "esign")
		var n string
		if rapid.IntRange(0, 3).Draw(t, "bigexp") == 0 {
			n = strconv.Itoa(rapid.IntRange(0, 290).Draw(t, "expbig"))
		} else {
			n = strconv.Itoa(rapid.IntRange(0, 30).Draw(t, "exp"))
		}
		if rapid.IntRange(0, 4).Draw(t, "expzero") == 0 {
			n = "0" + n
		}
		exp = e + sign + sepDigits(t, n, sepMode)
	}
	switch shape {
	case "D.D":
		return ip + "." + fp
	case "D.":
		return ip + "."
	case ".D":
		return "." + fp
	case "De":
		return ip + exp
	case "D.De":
		return ip + "." + fp + exp
	case "D.e":
		return ip + "." + exp
	default:
		return "." + fp + exp
	}
}

func genHexDigits(t *rapid.T, label string, min, max int) string {
	n := rapid.IntRange(min, max).Draw(t, label+"len")
	const hexd = "0123456789abcdef"
	b := make([]byte, n)
	for i := range b {
		b[i] = hexd[rapid.IntRange(0, 15).Draw(t, label)]
	}
	return randCaseHex(t, string(b))
}

// genHexFloat draws a hexadecimal floating-point literal:
//
//	hex_float_lit = "0" ( "x" | "X" ) hex_mantissa hex_exponent .
//	hex_mantissa  = [ "_" ] hex_digits "." [ hex_digits ] | [ "_" ] hex_digits | "." hex_digits .
func genHexFloat(t *rapid.T) string {
	prefix := rapid.SampledFrom([]string{"0x", "0X"}).Draw(t, "prefix")
	shape := rapid.SampledFrom([]string{"H", "H.H", "H.", ".H"}).Draw(t, "shape")
	sepMode := rapid.SampledFrom([]int{0, 0, 0, 1, 2, 3}).Draw(t, "sepmode")
	ip := sepDigits(t, genHexDigits(t, "ip", 1, 8), sepMode)
	fp := sepDigits(t, genHexDigits(t, "fp", 1, 8), sepMode)
	us := ""
	if shape != ".H" && rapid.IntRange(0, 3).Draw(t, "sepafterprefix") == 0 {
		us = "_"
	}
	p := rapid.SampledFrom([]string{"p", "P"}).Draw(t, "p")
	sign := rapid.SampledFrom([]string{"", "+", "-"}).Draw(t, "esign")
	n := strconv.Itoa(rapid.IntRange(0, 60).Draw(t, "exp"))
	if rapid.IntRange(0, 4).Draw(t, "bigexp") == 0 {
		n = strconv.Itoa(rapid.IntRange(0, 900).Draw(t, "expbig"))
	}
	exp := p + sign + sepDigits(t, n, sepMode)
	switch shape {
	case "H":
		return prefix + us + ip + exp
	case "H.H":
		return prefix + us + ip + "." + fp + exp
	case "H.":
		return prefix + us + ip + "." + exp
	default:
		return prefix + "." + fp + exp
	}
}

// genImag: imaginary_lit = (decimal_digits | int_lit | float_lit) "i".
func genImag(t *rapid.T) string {
	switch rapid.IntRange(0, 5).Draw(t, "imagbase") {
	case 0: // decimal_digits, possibly with a leading zero (0123i is decimal 123i)
		d := genDecDigits(t, "d", 1, 10, true)
		if rapid.Bool().Draw(t, "lead0") {
			d = "0" + d
		}
		return sepDigits(t, d, rapid.SampledFrom([]int{0, 0, 1, 3}).Draw(t, "sepmode")) + "i"
	case 1, 2:
		return genInt(t, false) + "i"
	case 3, 4:
		return genDecFloat(t) + "i"
	default:
		return genHexFloat(t) + "i"
	}
}

var simpleEscapes = []string{`\a`, `\b`, `\f`, `\n`, `\r`, `\t`, `\v`, `\\`}

// genScalar draws a Unicode scalar value, weighted by UTF-8 length.
func genScalar(t *rapid.T) rune {
	switch rapid.IntRange(0, 4).Draw(t, "width") {
	case 0:
		return rune(rapid.IntRange(0x21, 0x7e).Draw(t, "ascii"))
	case 1:
		return rune(rapid.IntRange(0x80, 0x7ff).Draw(t, "mb2"))
	case 2:
		r := rune(rapid.IntRange(0x800, 0xffff).Draw(t, "mb3"))
		if r >= 0xd800 && r <= 0xdfff {
			r = 0x20ac
		}
		if r == 0xfeff { // a BOM is only legal as the first character of a source file
			r = 0xfffd
		}
		return r
	case 3:
		return rune(rapid.IntRange(0x10000, 0x10ffff).Draw(t, "mb4"))
	default:
		return rapid.SampledFrom([]rune{'a', 'Z', '0', ' ', '"', '`', '/', '*', ';', '{', ',', 0xe9, 0x4e16, 0x1f600, 0x7f, 0xa0, 0x2028}).Draw(t, "special")
	}
}

// genEscape draws one escape sequence of the given kind with a drawn value.
// max limits the value (255 for byte escapes).
func genEscape(t *rapid.T, kind string) string {
	switch kind {
	case "simple":
		return rapid.SampledFrom(simpleEscapes).Draw(t, "simple")
	case "oct":
		v := rapid.SampledFrom([]int{0, 1, 7, 8, 0o101, 0o177, 0o200, 0o377, -1}).Draw(t, "octv")
		if v < 0 {
			v = rapid.IntRange(0, 255).Draw(t, "octr")
		}
		return fmt.Sprintf(`\%03o`, v)
	case "hex":
		v := rapid.SampledFrom([]int{0, 1, 0x41, 0x7f, 0x80, 0xff, -1}).Draw(t, "hexv")
		if v < 0 {
			v = rapid.IntRange(0, 255).Draw(t, "hexr")
		}
		return `\x` + randCaseHex(t, fmt.Sprintf("%02x", v))
	case "u":
		r := genScalar(t)
		if r > 0xffff {
			r = 0x20ac
		}
		return `\u` + randCaseHex(t, fmt.Sprintf("%04x", r))
	default: // "U"
		return `\U` + randCaseHex(t, fmt.Sprintf("%08x", genScalar(t)))
	}
}

// genRune: rune_lit = "'" ( unicode_value | byte_value ) "'".
func genRune(t *rapid.T) string {
	switch rapid.SampledFrom([]string{"plain", "plain", "simple", "sq", "oct", "hex", "u", "U"}).Draw(t, "runekind") {
	case "plain":
		r := genScalar(t)
		if r == '\'' || r == '\\' {
			r = 'q'
		}
		return "'" + string(r) + "'"
	case "sq":
		return `'\''`
	case "simple":
		return "'" + genEscape(t, "simple") + "'"
	case "oct":
		return "'" + genEscape(t, "oct") + "'"
	case "hex":
		return "'" + genEscape(t, "hex") + "'"
	case "u":
		return "'" + genEscape(t, "u") + "'"
	default:
		return "'" + genEscape(t, "U") + "'"
	}
}

// genString: interpreted_string_lit = `"` { unicode_value | byte_value } `"`.
// Most strings mix one to three element kinds so that a failing kind shows up
// in small strings as well as in combination.
func genString(t *rapid.T) string {
	if rapid.IntRange(0, 19).Draw(t, "lookalike") == 0 {
		// contents that spell another kind of token
		return strconv.Quote(rapid.SampledFrom([]string{"int", "true", "0x1F", "'a'", "1i", "nil", "{}", "1_000", "", "//", "/* */", "`", "``", ";", "x := 1"}).Draw(t, "content"))
	}
	n := rapid.IntRange(0, 8).Draw(t, "nelems")
	var sb strings.Builder
	sb.WriteByte('"')
	for i := 0; i < n; i++ {
		switch rapid.SampledFrom([]string{"char", "char", "char", "simple", "dq", "oct", "hex", "u", "U"}).Draw(t, "elem") {
		case "char":
			r := genScalar(t)
			if r == '"' || r == '\\' {
				r = '\''
			}
			sb.WriteRune(r)
		case "dq":
			sb.WriteString(`\"`)
		case "simple":
			sb.WriteString(genEscape(t, "simple"))
		case "oct":
			sb.WriteString(genEscape(t, "oct"))
		case "hex":
			sb.WriteString(genEscape(t, "hex"))
		case "u":
			sb.WriteString(genEscape(t, "u"))
		default:
			sb.WriteString(genEscape(t, "U"))
		}
	}
	sb.WriteByte('"')
	return sb.String()
}

// genRaw: raw_string_lit = "`" { unicode_char | newline } "`". Carriage
// returns are not generated (see the assumptions in c06_test.go).
func genRaw(t *rapid.T) string {
	n := rapid.IntRange(0, 10).Draw(t, "nelems")
	var sb strings.Builder
	sb.WriteByte('`')
	for i := 0; i < n; i++ {
		switch rapid.SampledFrom([]string{"char", "char", "char", "bs", "nl", "sp", "tab", "dq", "esc"}).Draw(t, "elem") {
		case "char":
			r := genScalar(t)
			if r == '`' {
				r = '\''
			}
			sb.WriteRune(r)
		case "bs":
			sb.WriteByte('\\')
		case "nl":
			sb.WriteByte('\n')
		case "sp":
			sb.WriteByte(' ')
		case "tab":
			sb.WriteByte('\t')
		case "dq":
			sb.WriteByte('"')
		default: // something that would be an escape in an interpreted string
			sb.WriteString(rapid.SampledFrom([]string{`\n`, `\t`, `\\`, `\"`, `\x41`, `\u00e9`, `\101`}).Draw(t, "rawesc"))
		}
	}
	sb.WriteByte('`')
	return sb.String()
}

func validUTF8(s string) bool { return utf8.ValidString(s) }
