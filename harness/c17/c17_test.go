// Package c17 decides C17 "Transactions are all-or-nothing".
//
// A case is a list of 1-6 abstract @transaction tasks over two small tables.
// For each list the oracle runs the unmodified list and then EVERY failure
// position x failure kind (fault enumeration): the task at position p is
// replaced by a variant of the same operation that cannot succeed (constraint
// violation, unknown table / column, emptyError on an empty result, value of
// the wrong type, SQL syntax error, ...) or gets an error condition that is
// true, false, dependent on the row count, or malformed in three ways.
//
// Oracle per run, from an independent database/sql connection to the same
// SQLite file:
//   - status 2xx  => database == model with every task applied
//   - otherwise   => database == state before the request
//   - a variant that cannot succeed by the documentation must not report 2xx
//   - BEGIN IMMEDIATE (busy_timeout=0) must succeed at once, and a following
//     row insert through the REST API must succeed.
//
// Preconditions taken from real callers (docs/API.md "@transaction", the
// tools/apitest/tests/4-dsns/dsns-3xx files):
//   - tasks use exactly the documented members (operation, table, filters,
//     columns, emptyError, data, sql) plus "errors":[{condition,status,msg}]
//     as the apitest files and defs.TXOperation spell it;
//   - filters use the documented operator grammar on int columns and
//     single-quoted strings; a {{name}} reference is either a whole data
//     value or sits inside a filter; only symbols that are certainly defined
//     are referenced (except in the dedicated undef-symbol fault, on reads);
//   - inserts give every column (the server default rejects partial rows);
//     update/delete always carry a filter (the server default rejects none);
//   - the caller is the administrator (the property is not about grants);
//   - error-condition statuses are absent or >= 400.
//
// The check does not assert WHICH non-2xx status is used, nor how _rows_ is
// counted (conditions that depend on the count may trip or not; both
// outcomes must be atomic).
package c17

import (
	"context"
	"database/sql"
	"encoding/json"
	"fmt"
	"os"
	"path/filepath"
	"sort"
	"strings"
	"sync"
	"testing"

	"github.com/tucats/ego/verif/srvfix"
	"github.com/tucats/ego/verif/vkit"
	_ "modernc.org/sqlite"
	"pgregory.net/rapid"
)

// ---------------------------------------------------------------- case data

// Task is one abstract @transaction task; the oracle resolves it against its
// model state into the JSON object that is sent.
type Task struct {
	Op     string `json:"op"`               // insert update delete select readrows symbols drop sql
	Table  int    `json:"table"`            // 0 | 1
	Key    int    `json:"key"`              // id used by insert / id-like filters / symbol name suffix
	Val    int    `json:"val"`              // score value or threshold
	Filter string `json:"filter,omitempty"` // id gt le name and or two
	Upd    string `json:"upd,omitempty"`    // update: score | name | cols (both in data, columns whitelists score)
	Null   bool   `json:"null,omitempty"`   // insert / update: score is null
	Cols   bool   `json:"cols,omitempty"`   // select / readrows: explicit column list
	Empty  bool   `json:"empty,omitempty"`  // emptyError:true on the task as generated
	Sym    bool   `json:"sym,omitempty"`    // take the numeric value from a defined symbol, if there is one
	SQL    int    `json:"sql,omitempty"`    // sql: statement menu
	Cond   int    `json:"cond,omitempty"`   // 0 none; 1 a condition that is false; 2 false condition over a symbol
}

// Fault names one enumerated failure: task Pos is replaced by its Kind variant.
type Fault struct {
	Pos  int    `json:"pos"`
	Kind string `json:"kind"`
}

// Case is a task list; Only restricts the enumeration to one fault (replay
// files of recorded findings).
type Case struct {
	Tasks []Task `json:"tasks"`
	Only  *Fault `json:"only,omitempty"`
}

// ------------------------------------------------------------------- model

type row struct {
	id    int64
	name  string
	score *int64
}

type symv struct {
	val any // int64 | string | nil
	def int // index of the defining task
}

type state struct {
	tabs [2][]row
	have [2]bool
	aux  bool
	dict map[string]symv
}

func i64(v int64) *int64 { return &v }

func initial() *state {
	return &state{
		tabs: [2][]row{
			{{1, "n1", i64(10)}, {2, "n2", i64(20)}, {3, "n3", i64(30)}, {4, "n4", i64(40)}},
			{{1, "m1", i64(15)}, {2, "m2", i64(25)}, {3, "m3", nil}},
		},
		have: [2]bool{true, true},
		dict: map[string]symv{},
	}
}

// snapshot is the canonical text of the data part of a state (what the
// independent connection can see).
func (s *state) snapshot() string {
	var b strings.Builder
	for i := range s.tabs {
		if !s.have[i] {
			fmt.Fprintf(&b, "T%d:absent\n", i)
			continue
		}
		rows := append([]row(nil), s.tabs[i]...)
		sort.Slice(rows, func(a, c int) bool {
			if rows[a].id != rows[c].id {
				return rows[a].id < rows[c].id
			}
			return rows[a].name < rows[c].name
		})
		fmt.Fprintf(&b, "T%d:", i)
		for _, r := range rows {
			sc := "null"
			if r.score != nil {
				sc = fmt.Sprint(*r.score)
			}
			fmt.Fprintf(&b, "(%d,%s,%s)", r.id, r.name, sc)
		}
		b.WriteString("\n")
	}
	fmt.Fprintf(&b, "aux:%v\n", s.aux)
	return b.String()
}

type verdict int

const (
	vOK       verdict = iota // effect on success is what the model applied
	vMustFail                // by the documentation this task cannot succeed in this state
	vUnknown                 // the documentation does not say what success would mean
)

// names carries the concrete table names of a run.
type names struct {
	t   [2]string
	aux string
}

// numeric symbols that are certainly defined and non-null, sorted by name.
func (s *state) numSyms() []string {
	var out []string
	for k, v := range s.dict {
		if _, ok := v.val.(int64); ok && !strings.HasPrefix(k, "_") {
			out = append(out, k)
		}
	}
	sort.Strings(out)
	return out
}

type filt struct {
	texts []string
	pred  func(r row) bool
}

func cmpScore(r row, f func(int64) bool) bool { return r.score != nil && f(*r.score) }

// mkFilter builds the documented filter strings and the model predicate.
func mkFilter(t Task, s *state, uses *[]int) filt {
	k, v := int64(t.Key), int64(t.Val)
	switch t.Filter {
	case "gt":
		return filt{[]string{fmt.Sprintf("GT(score,%d)", v)}, func(r row) bool { return cmpScore(r, func(x int64) bool { return x > v }) }}
	case "le":
		return filt{[]string{fmt.Sprintf("LE(score,%d)", v)}, func(r row) bool { return cmpScore(r, func(x int64) bool { return x <= v }) }}
	case "name":
		pre := "n"
		if t.Table == 1 {
			pre = "m"
		}
		nm := fmt.Sprintf("%s%d", pre, k)
		return filt{[]string{fmt.Sprintf("EQ(name,'%s')", nm)}, func(r row) bool { return r.name == nm }}
	case "and":
		return filt{[]string{fmt.Sprintf("AND(GE(id,%d),LE(score,%d))", k, v)}, func(r row) bool {
			return r.id >= k && cmpScore(r, func(x int64) bool { return x <= v })
		}}
	case "or":
		k2 := int64(t.Val%9 + 1)
		return filt{[]string{fmt.Sprintf("OR(EQ(id,%d),EQ(id,%d))", k, k2)}, func(r row) bool { return r.id == k || r.id == k2 }}
	case "two":
		return filt{[]string{fmt.Sprintf("GE(id,%d)", k), fmt.Sprintf("LT(score,%d)", v)}, func(r row) bool {
			return r.id >= k && cmpScore(r, func(x int64) bool { return x < v })
		}}
	}
	// "id" (default), optionally through a symbol
	if t.Sym {
		if c := s.numSyms(); len(c) > 0 {
			nm := c[t.Key%len(c)]
			kv := s.dict[nm].val.(int64)
			*uses = append(*uses, s.dict[nm].def)
			return filt{[]string{fmt.Sprintf("EQ(id,{{%s}})", nm)}, func(r row) bool { return r.id == kv }}
		}
	}
	return filt{[]string{fmt.Sprintf("EQ(id,%d)", k)}, func(r row) bool { return r.id == k }}
}

// scoreValue resolves the score of an insert / update: JSON value and model value.
func scoreValue(t Task, s *state, uses *[]int) (any, *int64) {
	if t.Null {
		return nil, nil
	}
	if t.Sym {
		if c := s.numSyms(); len(c) > 0 {
			nm := c[(t.Key+t.Val)%len(c)]
			*uses = append(*uses, s.dict[nm].def)
			return "{{" + nm + "}}", i64(s.dict[nm].val.(int64))
		}
	}
	return t.Val, i64(int64(t.Val))
}

func (s *state) ids(tab int) []int64 {
	var out []int64
	for _, r := range s.tabs[tab] {
		out = append(out, r.id)
	}
	sort.Slice(out, func(a, b int) bool { return out[a] < out[b] })
	return out
}

func (s *state) hasID(tab int, id int64) bool {
	for _, r := range s.tabs[tab] {
		if r.id == id {
			return true
		}
	}
	return false
}

func namePrefix(tab int) string {
	if tab == 1 {
		return "m"
	}
	return "n"
}

// stepResult is what resolving + applying one task gives.
type stepResult struct {
	obj      map[string]any
	v        verdict
	modified int   // rows (or tables) changed by the model
	rows     int   // the model's idea of the rows affected / read (for EQ(_rows_,n) conditions)
	uses     []int // tasks whose symbols this task references
	defines  bool  // (re)defines symbols
	ok       bool  // the fault kind applies to this task in this state
}

var condKinds = []string{"cond-true", "cond-second-true", "cond-rows-eq", "cond-false", "cond-m-syntax", "cond-m-ident", "cond-m-nonbool"}

// opFaults lists the operation-specific fault kinds in enumeration order.
func opFaults(op string) []string {
	switch op {
	case "insert":
		return []string{"dup-unique", "not-null", "unknown-table", "unknown-column", "type-mismatch", "bad-field"}
	case "update":
		return []string{"dup-unique", "not-null", "unknown-table", "unknown-column", "empty"}
	case "delete":
		return []string{"unknown-table", "empty", "bad-field"}
	case "select":
		return []string{"unknown-table", "empty", "unknown-column", "undef-symbol"}
	case "readrows":
		return []string{"unknown-table", "empty", "unknown-column", "undef-symbol"}
	case "symbols":
		return []string{"bad-field"}
	case "drop":
		return []string{"unknown-table", "bad-field"}
	case "sql":
		return []string{"sql-syntax", "unknown-table", "dup-unique", "empty"}
	}
	return nil
}

func allFaults(op string) []string { return append(opFaults(op), condKinds...) }

// step resolves task t (index idx) against s, applies its documented effect
// to s, and returns the JSON object. fault "" = the task as generated.
func step(s *state, t Task, idx int, fault string, nm names) stepResult {
	res := stepResult{ok: true, v: vOK}
	tn := nm.t[t.Table]
	obj := map[string]any{}
	res.obj = obj
	isCond := strings.HasPrefix(fault, "cond-")
	opFault := fault
	if isCond {
		opFault = ""
	}
	if opFault == "unknown-table" {
		tn = "nosuch_" + tn
	}
	missing := !s.have[t.Table] || opFault == "unknown-table"
	empty := t.Empty

	switch t.Op {
	case "insert":
		obj["operation"] = "insert"
		obj["table"] = tn
		id := int64(t.Key)
		sv, sm := scoreValue(t, s, &res.uses)
		data := map[string]any{"id": id, "name": fmt.Sprintf("%s%d", namePrefix(t.Table), id), "score": sv}
		switch opFault {
		case "dup-unique":
			ids := s.ids(t.Table)
			if missing || len(ids) == 0 {
				res.ok = false
				return res
			}
			id = ids[0]
			data["id"] = id
		case "not-null":
			data["name"] = nil
			res.v = vMustFail
		case "unknown-column":
			data["nosuch"] = 1
			res.v = vMustFail
		case "type-mismatch":
			data["id"] = "abc"
			res.v = vMustFail
		case "bad-field":
			obj["filters"] = []string{"EQ(id,1)"}
			res.v = vUnknown
		}
		obj["data"] = data
		if missing || s.hasID(t.Table, id) {
			res.v = vMustFail
		}
		if res.v == vOK {
			s.tabs[t.Table] = append(s.tabs[t.Table], row{id, data["name"].(string), sm})
			res.modified, res.rows = 1, 1
		}

	case "update":
		obj["operation"] = "update"
		obj["table"] = tn
		f := mkFilter(t, s, &res.uses)
		data := map[string]any{}
		var setScore, setName bool
		var sm *int64
		newName := fmt.Sprintf("u%d", t.Key)
		switch t.Upd {
		case "name":
			data["name"] = newName
			setName = true
		case "cols":
			var sv any
			sv, sm = scoreValue(t, s, &res.uses)
			data["score"] = sv
			data["name"] = newName
			obj["columns"] = []string{"score"}
			setScore = true
		default:
			var sv any
			sv, sm = scoreValue(t, s, &res.uses)
			data["score"] = sv
			setScore = true
		}
		ids := []int64(nil)
		if !missing {
			ids = s.ids(t.Table)
		}
		switch opFault {
		case "dup-unique":
			if len(ids) < 2 {
				res.ok = false
				return res
			}
			f = filt{[]string{fmt.Sprintf("EQ(id,%d)", ids[0])}, nil}
			data = map[string]any{"id": ids[1]}
			delete(obj, "columns")
			res.v = vMustFail
		case "not-null":
			if len(ids) < 1 {
				res.ok = false
				return res
			}
			f = filt{[]string{fmt.Sprintf("EQ(id,%d)", ids[len(ids)-1])}, nil}
			data = map[string]any{"name": nil}
			delete(obj, "columns")
			res.v = vMustFail
		case "unknown-column":
			data["nosuch"] = 1
			delete(obj, "columns")
			res.v = vMustFail
		case "empty":
			f = filt{[]string{"EQ(id,99)"}, func(row) bool { return false }}
			empty = true
		}
		obj["filters"] = f.texts
		obj["data"] = data
		if missing {
			res.v = vMustFail
		}
		if res.v == vOK {
			n := 0
			for i, r := range s.tabs[t.Table] {
				if f.pred(r) {
					n++
					if setScore {
						r.score = sm
					}
					if setName {
						r.name = newName
					}
					s.tabs[t.Table][i] = r
				}
			}
			res.modified, res.rows = n, n
			if n == 0 && empty {
				res.v = vMustFail // docs: emptyError is relevant for select, delete, update
			}
		}

	case "delete":
		obj["operation"] = "delete"
		obj["table"] = tn
		f := mkFilter(t, s, &res.uses)
		switch opFault {
		case "empty":
			f = filt{[]string{"EQ(id,99)"}, func(row) bool { return false }}
			empty = true
		case "bad-field":
			obj["columns"] = []string{"id"}
			res.v = vUnknown
		}
		obj["filters"] = f.texts
		if missing {
			res.v = vMustFail
		}
		if res.v == vOK {
			var keep []row
			n := 0
			for _, r := range s.tabs[t.Table] {
				if f.pred(r) {
					n++
				} else {
					keep = append(keep, r)
				}
			}
			s.tabs[t.Table] = keep
			res.modified, res.rows = n, n
			if n == 0 && empty {
				res.v = vMustFail
			}
		}

	case "select", "readrows":
		obj["operation"] = t.Op
		obj["table"] = tn
		tt := t
		if t.Op == "select" {
			tt.Filter = "id" // at most one row, so the symbols it defines are determined
		}
		f := mkFilter(tt, s, &res.uses)
		cols := []string(nil)
		if t.Cols {
			cols = []string{"score"}
			if t.Op == "readrows" {
				cols = []string{"id", "score"}
			}
		}
		uncertainSyms := false
		switch opFault {
		case "empty":
			f = filt{[]string{"EQ(id,99)"}, func(row) bool { return false }}
			empty = true
		case "unknown-column":
			cols = []string{"nosuch"}
			uncertainSyms = true
		case "undef-symbol":
			f = filt{[]string{"EQ(name,'{{nosuch}}')"}, func(row) bool { return false }}
			uncertainSyms = true
		}
		obj["filters"] = f.texts
		if cols != nil {
			obj["columns"] = cols
		}
		if missing {
			res.v = vMustFail
		}
		if res.v == vOK {
			n := 0
			var first row
			for _, r := range s.tabs[t.Table] {
				if f.pred(r) {
					if n == 0 {
						first = r
					}
					n++
				}
			}
			res.rows = n
			if n == 0 && empty && t.Op == "select" {
				res.v = vMustFail
			}
			if t.Op == "select" {
				if uncertainSyms {
					res.defines = true
				} else if n > 0 {
					res.defines = true
					var sc any
					if first.score != nil {
						sc = *first.score
					}
					if !t.Cols {
						s.dict["id"] = symv{first.id, idx}
						s.dict["name"] = symv{first.name, idx}
						s.dict["_row_id_"] = symv{"?", idx}
					}
					s.dict["score"] = symv{sc, idx}
				}
			}
		}

	case "symbols":
		obj["operation"] = "symbols"
		obj["data"] = map[string]any{fmt.Sprintf("v%d", t.Key): t.Val, fmt.Sprintf("s%d", t.Key): fmt.Sprintf("w%d", t.Val)}
		if opFault == "bad-field" {
			obj["table"] = tn
			res.v = vUnknown
		}
		res.defines = true
		if res.v == vOK {
			s.dict[fmt.Sprintf("v%d", t.Key)] = symv{int64(t.Val), idx}
			s.dict[fmt.Sprintf("s%d", t.Key)] = symv{fmt.Sprintf("w%d", t.Val), idx}
		}

	case "drop":
		obj["operation"] = "drop"
		obj["table"] = tn
		if opFault == "bad-field" {
			obj["filters"] = []string{"EQ(id,1)"}
			res.v = vUnknown
		}
		if missing {
			res.v = vMustFail
		}
		if res.v == vOK {
			s.have[t.Table] = false
			s.tabs[t.Table] = nil
			res.modified = 1
		}

	case "sql":
		obj["operation"] = "sql"
		k, v := int64(t.Key), int64(t.Val)
		var text string
		kind := t.SQL % 5
		if opFault == "unknown-table" && kind == 4 {
			res.ok = false
			return res
		}
		switch opFault {
		case "sql-syntax":
			text = "UPDATE SET WHERE"
			res.v = vMustFail
			kind = -1
		case "dup-unique":
			ids := s.ids(t.Table)
			if missing || len(ids) == 0 {
				res.ok = false
				return res
			}
			k = ids[len(ids)-1]
			kind = 2
		case "empty":
			kind = 0
			k = 99
			empty = true
		}
		switch kind {
		case 0:
			text = fmt.Sprintf("UPDATE %s SET score = score + 1 WHERE id = %d", tn, k)
			if !missing {
				for i, r := range s.tabs[t.Table] {
					if r.id == k {
						res.rows++
						if r.score != nil {
							r.score = i64(*r.score + 1)
							s.tabs[t.Table][i] = r
						}
					}
				}
				res.modified = res.rows
			}
		case 1:
			text = fmt.Sprintf("DELETE FROM %s WHERE score < %d", tn, v)
			if !missing {
				var keep []row
				for _, r := range s.tabs[t.Table] {
					if r.score != nil && *r.score < v {
						res.rows++
					} else {
						keep = append(keep, r)
					}
				}
				s.tabs[t.Table] = keep
				res.modified = res.rows
			}
		case 2:
			text = fmt.Sprintf("INSERT INTO %s (id, name, score) VALUES (%d, '%s%d', %d)", tn, k, namePrefix(t.Table), k, v)
			if !missing {
				if s.hasID(t.Table, k) {
					res.v = vMustFail
				} else {
					s.tabs[t.Table] = append(s.tabs[t.Table], row{k, fmt.Sprintf("%s%d", namePrefix(t.Table), k), i64(v)})
					res.rows, res.modified = 1, 1
				}
			}
		case 3:
			text = fmt.Sprintf("SELECT id, score FROM %s WHERE id >= %d", tn, k)
			if !missing {
				for _, r := range s.tabs[t.Table] {
					if r.id >= k {
						res.rows++
					}
				}
			}
		case 4:
			text = fmt.Sprintf("CREATE TABLE %s (k INTEGER)", nm.aux)
			missing = false
			if s.aux {
				res.v = vMustFail
			} else {
				s.aux = true
				res.modified = 1
			}
		}
		if missing && kind >= 0 {
			res.v = vMustFail
		}
		obj["sql"] = text
		// docs: emptyError is "only relevant for select, delete, and update";
		// for sql the effect of the flag is left open, the statement itself
		// changes nothing when it matches nothing, so either outcome is atomic.
	}

	if empty {
		obj["emptyError"] = true
	}

	// error conditions
	var conds []map[string]any
	switch t.Cond {
	case 1:
		conds = append(conds, map[string]any{"condition": "LT(_rows_,0)", "status": 409, "msg": "never"})
	case 2:
		if c := s.numSyms(); len(c) > 0 && t.Op != "symbols" && t.Op != "select" {
			name := c[t.Val%len(c)]
			res.uses = append(res.uses, s.dict[name].def)
			conds = append(conds, map[string]any{"condition": fmt.Sprintf("LT(%s,%d)", name, s.dict[name].val.(int64)), "msg": "never"})
		} else {
			conds = append(conds, map[string]any{"condition": "GT(_all_rows_,1000)", "msg": "never"})
		}
	}
	if isCond {
		status := []int{0, 409, 422}[idx%3]
		mk := func(c string) map[string]any {
			m := map[string]any{"condition": c, "msg": "injected " + fault}
			if status > 0 {
				m["status"] = status
			}
			return m
		}
		switch fault {
		case "cond-true":
			conds = append(conds, mk("GE(_rows_,0)"))
			res.v = worst(res.v, vMustFail)
		case "cond-second-true":
			conds = append(conds, map[string]any{"condition": "LT(_rows_,0)", "msg": "no"}, mk("GE(_all_rows_,0)"))
			res.v = worst(res.v, vMustFail)
		case "cond-rows-eq":
			conds = append(conds, mk(fmt.Sprintf("EQ(_rows_,%d)", res.rows)))
			// how _rows_ is counted is not documented: may trip or not
		case "cond-false":
			conds = append(conds, mk("LT(_rows_,0)"))
		case "cond-m-syntax":
			conds = append(conds, mk("EQ(_rows_"))
		case "cond-m-ident":
			conds = append(conds, mk("EQ(nosuch_symbol,1)"))
		case "cond-m-nonbool":
			conds = append(conds, mk("_rows_"))
		}
	}
	if conds != nil {
		obj["errors"] = conds
	}
	return res
}

func worst(a, b verdict) verdict {
	if a == vMustFail || b == vMustFail {
		return vMustFail
	}
	if a == vUnknown || b == vUnknown {
		return vUnknown
	}
	return vOK
}

// plan is one concrete request with the model's expectations.
type plan struct {
	fault     Fault // Pos -1 = none
	body      string
	mustFail  bool
	unknown   bool   // success state not determined by the documentation
	allSnap   string // snapshot of the model with every task applied (when determined)
	preWrite  bool   // a task before the fault position modified rows (model) and none before it must fail
	faultOp   string
	reachable bool
}

// build resolves the list with the fault applied; ok=false when the fault
// kind does not apply to that task in that state.
func build(tasks []Task, f Fault, nm names) (plan, bool) {
	s := initial()
	p := plan{fault: f, reachable: true}
	var objs []map[string]any
	mod := 0
	firstFail := -1
	tainted := map[int]bool{} // tasks whose symbol definitions are uncertain under this fault
	for i, t := range tasks {
		kind := ""
		if i == f.Pos {
			kind = f.Kind
			p.faultOp = t.Op
			p.preWrite = mod > 0 && firstFail < 0
			p.reachable = firstFail < 0
		}
		r := step(s, t, i, kind, nm)
		if !r.ok {
			return p, false
		}
		if i == f.Pos && r.defines && (kind == "unknown-column" || kind == "undef-symbol" || kind == "bad-field") {
			tainted[i] = true
		}
		for _, u := range r.uses {
			if tainted[u] {
				return p, false // a later task depends on symbols whose value the docs leave open
			}
		}
		objs = append(objs, r.obj)
		switch r.v {
		case vMustFail:
			if firstFail < 0 {
				firstFail = i
			}
		case vUnknown:
			if firstFail < 0 {
				p.unknown = true
			}
		}
		if r.v == vOK && firstFail < 0 {
			mod += r.modified
		}
	}
	p.mustFail = firstFail >= 0
	if p.mustFail {
		p.unknown = false
	}
	if !p.mustFail && !p.unknown {
		p.allSnap = s.snapshot()
	}
	b, _ := json.Marshal(objs)
	p.body = string(b)
	return p, true
}

// ------------------------------------------------------------- environment

type env struct {
	f      *srvfix.Fixture
	hdr    map[string]string
	fileN  int
	dsn    string
	file   string
	db     *sql.DB
	conn   *sql.Conn
	gen    int
	nm     names
	clean  bool
	wN     int
	known  map[string]bool
	runs   int
	ntRuns int
	dsns   int
}

var (
	envOnce sync.Once
	theEnv  *env
	envErr  error
)

func getEnv() (*env, error) {
	envOnce.Do(func() {
		f, err := srvfix.Start(srvfix.Options{})
		if err != nil {
			envErr = err
			return
		}
		tok, err := f.AdminToken()
		if err != nil {
			envErr = err
			return
		}
		h := srvfix.Bearer(tok)
		h["Content-Type"] = "application/json"
		e := &env{f: f, hdr: h, known: loadKnown()}
		if err := e.newFile(); err != nil {
			envErr = err
			return
		}
		theEnv = e
	})
	return theEnv, envErr
}

func loadKnown() map[string]bool {
	out := map[string]bool{}
	p := os.Getenv("VERIF_KNOWN")
	if p == "" {
		p = filepath.Join(vkit.Root(), "known_findings.json")
	}
	b, err := os.ReadFile(p)
	if err != nil {
		return out
	}
	var kf struct {
		Findings []struct {
			Property string `json:"property"`
			Sig      string `json:"sig"`
		} `json:"findings"`
	}
	if json.Unmarshal(b, &kf) == nil {
		for _, k := range kf.Findings {
			if k.Property == "C17" {
				out[k.Sig] = true
			}
		}
	}
	return out
}

func (e *env) do(method, path, body string) *srvfix.Response {
	return e.f.Do(srvfix.Request{Method: method, Path: path, Header: e.hdr, Body: body})
}

var ctx = context.Background()

// The DSN names a symbolic link; the link points at the current database
// file. SQLite resolves the link when it opens the database (the -wal and
// -shm files are named after the real file), so repointing the link gives
// every later request a different file without registering a new DSN.
//
// newFile is used at start, and after a request left a lock behind: the
// leaked transaction can never be ended from outside, so the committed
// content is copied (VACUUM INTO, a plain read) into a new file and the link
// is moved there.
func (e *env) newFile() error {
	e.fileN++
	e.dsns++
	link := filepath.Join(e.f.Dir, "c17cur.db")
	file := filepath.Join(e.f.Dir, fmt.Sprintf("c17real%d.db", e.fileN))
	copied := false
	if e.conn != nil {
		if _, err := e.conn.ExecContext(ctx, "VACUUM INTO '"+file+"'"); err == nil {
			copied = true
		} else {
			_ = os.Remove(file)
		}
		e.conn.Close()
		e.db.Close()
		e.conn, e.db = nil, nil
	}
	_ = os.Remove(link)
	if err := os.Symlink(file, link); err != nil {
		return err
	}
	e.file = file
	if e.dsn == "" {
		e.dsn = "c17d"
		b, _ := json.Marshal(map[string]any{"name": e.dsn, "provider": "sqlite", "database": link, "rowid": true})
		if r := e.do("POST", "/dsns/", string(b)); r.Status != 201 && r.Status != 200 {
			return fmt.Errorf("create dsn: %d %s", r.Status, r.Body)
		}
	}
	if !copied {
		if r := e.do("PUT", "/dsns/"+e.dsn+"/tables/w", `[{"name":"k","type":"int"}]`); r.Status/100 != 2 {
			return fmt.Errorf("create sentinel table: %d %s", r.Status, r.Body)
		}
		e.clean = false
		e.nm = names{}
	}
	db, err := sql.Open("sqlite", e.file)
	if err != nil {
		return err
	}
	db.SetMaxOpenConns(1)
	conn, err := db.Conn(ctx)
	if err != nil {
		return err
	}
	if _, err := conn.ExecContext(ctx, "PRAGMA busy_timeout=0"); err != nil {
		return err
	}
	e.db, e.conn = db, conn
	return nil
}

const colDefs = `[{"name":"id","type":"int","unique":{"specified":true,"value":true},"nullable":{"specified":true,"value":false}},` +
	`{"name":"name","type":"string","nullable":{"specified":true,"value":false}},` +
	`{"name":"score","type":"int","nullable":{"specified":true,"value":true}}]`

// freshTables creates and seeds a new pair of tables through the REST API.
func (e *env) freshTables() error {
	for _, n := range []string{e.nm.t[0], e.nm.t[1], e.nm.aux} {
		if n != "" {
			_, _ = e.conn.ExecContext(ctx, "DROP TABLE IF EXISTS "+n)
		}
	}
	e.gen++
	e.nm = names{t: [2]string{fmt.Sprintf("ta%d", e.gen), fmt.Sprintf("tb%d", e.gen)}, aux: fmt.Sprintf("tx%d", e.gen)}
	init := initial()
	for i, tn := range e.nm.t {
		if r := e.do("PUT", "/dsns/"+e.dsn+"/tables/"+tn, colDefs); r.Status/100 != 2 {
			return fmt.Errorf("create table %s: %d %s", tn, r.Status, r.Body)
		}
		var rows []map[string]any
		for _, r := range init.tabs[i] {
			m := map[string]any{"id": r.id, "name": r.name, "score": nil}
			if r.score != nil {
				m["score"] = *r.score
			}
			rows = append(rows, m)
		}
		b, _ := json.Marshal(map[string]any{"rows": rows, "count": len(rows)})
		if r := e.do("PUT", "/dsns/"+e.dsn+"/tables/"+tn+"/rows", string(b)); r.Status/100 != 2 {
			return fmt.Errorf("seed table %s: %d %s", tn, r.Status, r.Body)
		}
	}
	got, err := e.snapshot()
	if err != nil {
		return err
	}
	if got != init.snapshot() {
		return fmt.Errorf("seeded state differs from the model's initial state:\n%s\nvs\n%s", got, init.snapshot())
	}
	e.clean = true
	return nil
}

// snapshot reads the tables of the current generation through the
// independent connection.
func (e *env) snapshot() (string, error) {
	var b strings.Builder
	exists := func(n string) (bool, error) {
		var c int
		err := e.conn.QueryRowContext(ctx, "SELECT count(*) FROM sqlite_master WHERE type='table' AND name=?", n).Scan(&c)
		return c > 0, err
	}
	for i, tn := range e.nm.t {
		ok, err := exists(tn)
		if err != nil {
			return "", err
		}
		if !ok {
			fmt.Fprintf(&b, "T%d:absent\n", i)
			continue
		}
		rows, err := e.conn.QueryContext(ctx, "SELECT id, name, score FROM "+tn+" ORDER BY id, name")
		if err != nil {
			return "", err
		}
		fmt.Fprintf(&b, "T%d:", i)
		for rows.Next() {
			var id, name, score any
			if err := rows.Scan(&id, &name, &score); err != nil {
				rows.Close()
				return "", err
			}
			fmt.Fprintf(&b, "(%s,%s,%s)", cell(id), cell(name), cell(score))
		}
		if err := rows.Err(); err != nil {
			rows.Close()
			return "", err
		}
		rows.Close()
		b.WriteString("\n")
	}
	ok, err := exists(e.nm.aux)
	if err != nil {
		return "", err
	}
	fmt.Fprintf(&b, "aux:%v\n", ok)
	return b.String(), nil
}

func cell(v any) string {
	switch x := v.(type) {
	case nil:
		return "null"
	case []byte:
		return string(x)
	case float64:
		if x == float64(int64(x)) {
			return fmt.Sprint(int64(x))
		}
	}
	return fmt.Sprint(v)
}

// lockFree: BEGIN IMMEDIATE must succeed at once from the independent
// connection (busy_timeout=0): no transaction with a write lock was left.
func (e *env) lockFree() error {
	if _, err := e.conn.ExecContext(ctx, "BEGIN IMMEDIATE"); err != nil {
		return err
	}
	_, err := e.conn.ExecContext(ctx, "ROLLBACK")
	return err
}

// -------------------------------------------------------------------- oracle

type runResult struct {
	fail   *vkit.Failure
	label  string
	nt     bool
	failed bool
}

func (e *env) runPlan(p plan) (runResult, error) {
	var rr runResult
	before := initial().snapshot()
	resp := e.do("POST", "/dsns/"+e.dsn+"/tables/@transaction", p.body)
	e.runs++
	after, err := e.snapshot()
	if err != nil {
		return rr, fmt.Errorf("snapshot: %w", err)
	}
	success := resp.Status/100 == 2
	rr.failed = !success
	fk := p.fault.Kind
	if p.fault.Pos < 0 {
		fk = "none"
	}
	where := fmt.Sprintf("op=%s fault=%s", p.faultOp, fk)
	outcome := "fail"
	if success {
		outcome = "commit"
	}
	rr.label = fmt.Sprintf("run %s/%s -> %s", p.faultOp, fk, outcome)
	if p.fault.Pos < 0 {
		rr.label = "run none -> " + outcome
	}
	rr.nt = !success && p.fault.Pos >= 1 && p.preWrite
	obs := func(extra string) string {
		return fmt.Sprintf("%s; request %s -> status %d %s; database after:\n%s", extra, p.body, resp.Status, clip(string(resp.Body), 300), after)
	}
	if after != before {
		e.clean = false
	}
	switch {
	case resp.Panic != nil:
		rr.fail = &vkit.Failure{Sig: "handler-panic " + srvfix.PanicSite(resp.Stack), Observed: obs(fmt.Sprintf("handler panicked: %v", resp.Panic)), Expected: "a response"}
		e.clean = false
	case success && p.mustFail:
		rr.fail = &vkit.Failure{Sig: "success-reported " + where, Observed: obs("2xx although the task list cannot be applied completely"), Expected: "failure status and the database unchanged:\n" + before}
	case success && !p.unknown && after != p.allSnap:
		rr.fail = &vkit.Failure{Sig: "success-but-not-all-applied " + where, Observed: obs("2xx"), Expected: "every task applied:\n" + p.allSnap}
	case !success && after != before:
		rr.fail = &vkit.Failure{Sig: fmt.Sprintf("failure-but-changes-kept %s status=%d", where, resp.Status), Observed: obs("failure reported"), Expected: "database unchanged:\n" + before}
	}
	// no transaction or lock left behind
	if lerr := e.lockFree(); lerr != nil {
		if rr.fail == nil {
			rr.fail = &vkit.Failure{Sig: "lock-left " + lockWhere(p, success), Observed: obs("BEGIN IMMEDIATE from an independent connection (busy_timeout=0) after the request returned: " + lerr.Error()), Expected: "BEGIN IMMEDIATE succeeds at once: no transaction or lock of the request remains"}
		}
		// the file is poisoned by the leaked transaction: move on to a new one
		if err := e.newFile(); err != nil {
			return rr, err
		}
		return rr, nil
	}
	e.wN++
	w := e.do("PUT", "/dsns/"+e.dsn+"/tables/w/rows", fmt.Sprintf(`{"k":%d}`, e.wN))
	if w.Status/100 != 2 && rr.fail == nil {
		rr.fail = &vkit.Failure{Sig: "write-after-request-fails " + lockWhere(p, success), Observed: obs(fmt.Sprintf("following PUT rows -> %d %s", w.Status, clip(string(w.Body), 200))), Expected: "a following write request succeeds"}
		if err := e.newFile(); err != nil {
			return rr, err
		}
	}
	return rr, nil
}

// lockWhere names the exit that left the lock: the fault kind (for condition
// faults the operation does not matter), and whether the request reported
// success.
func lockWhere(p plan, success bool) string {
	k := p.fault.Kind
	if p.fault.Pos < 0 {
		k = "none"
	}
	if strings.HasPrefix(k, "cond-") {
		return fmt.Sprintf("fault=%s success=%v", k, success)
	}
	return fmt.Sprintf("op=%s fault=%s success=%v", p.faultOp, k, success)
}

func clip(s string, n int) string {
	s = strings.Join(strings.Fields(s), " ")
	if len(s) > n {
		return s[:n] + "…"
	}
	return s
}

func faultsOf(c Case) []Fault {
	if c.Only != nil {
		return []Fault{*c.Only}
	}
	out := []Fault{{Pos: -1}}
	for p, t := range c.Tasks {
		for _, k := range allFaults(t.Op) {
			out = append(out, Fault{Pos: p, Kind: k})
		}
	}
	return out
}

func oracle(c Case) vkit.Outcome {
	var out vkit.Outcome
	e, err := getEnv()
	if err != nil {
		panic("fixture: " + err.Error())
	}
	if len(c.Tasks) == 0 {
		out.Skip = "empty list"
		return out
	}
	kb, _ := json.Marshal(c)
	out.Key = string(kb)
	ops := map[string]bool{}
	for _, t := range c.Tasks {
		ops[t.Op] = true
	}
	out.Labels = append(out.Labels, fmt.Sprintf("list len=%d", len(c.Tasks)))
	var firstKnown, firstNew *vkit.Failure
	for _, f := range faultsOf(c) {
		if !e.clean {
			if err := e.freshTables(); err != nil {
				panic("fixture tables: " + err.Error())
			}
		}
		p, ok := build(c.Tasks, f, e.nm)
		if !ok {
			out.Labels = append(out.Labels, "fault not applicable "+f.Kind)
			continue
		}
		if !p.reachable {
			out.Labels = append(out.Labels, "fault position after a natural failure")
			continue
		}
		rr, err := e.runPlan(p)
		if err != nil {
			panic("fixture: " + err.Error())
		}
		out.Labels = append(out.Labels, rr.label)
		if p.mustFail && f.Pos < 0 {
			out.Labels = append(out.Labels, "list fails naturally")
		}
		if rr.nt {
			out.NonTrivial = true
			e.ntRuns++
			out.Labels = append(out.Labels, "nontrivial run (failure after a modifying task)")
		}
		if rr.fail != nil {
			if e.known[rr.fail.Sig] {
				if firstKnown == nil {
					firstKnown = rr.fail
				}
			} else if firstNew == nil {
				firstNew = rr.fail
			}
		}
	}
	if firstNew != nil {
		out.Fail = firstNew
	} else if firstKnown != nil {
		out.Fail = firstKnown
	}
	return out
}

// ----------------------------------------------------------------- generator

func genTask(t *rapid.T) Task {
	op := rapid.SampledFrom([]string{"insert", "insert", "insert", "update", "update", "update", "delete", "delete", "select", "select", "readrows", "symbols", "sql", "sql", "drop"}).Draw(t, "op")
	k := Task{Op: op, Table: rapid.IntRange(0, 1).Draw(t, "table")}
	k.Key = rapid.IntRange(1, 9).Draw(t, "key")
	k.Val = rapid.SampledFrom([]int{5, 10, 15, 20, 25, 30, 35, 40, 45}).Draw(t, "val")
	switch op {
	case "insert":
		k.Key = rapid.SampledFrom([]int{5, 6, 7, 8, 9, 5, 6, 7, 8, 9, 1, 3}).Draw(t, "newid")
		k.Null = rapid.IntRange(0, 5).Draw(t, "null") == 0
		k.Sym = rapid.IntRange(0, 2).Draw(t, "sym") == 0
	case "update":
		k.Filter = rapid.SampledFrom([]string{"id", "id", "gt", "le", "name", "and", "or", "two"}).Draw(t, "filter")
		k.Upd = rapid.SampledFrom([]string{"score", "score", "name", "cols"}).Draw(t, "upd")
		k.Null = rapid.IntRange(0, 5).Draw(t, "null") == 0
		k.Sym = rapid.IntRange(0, 2).Draw(t, "sym") == 0
		k.Empty = rapid.IntRange(0, 11).Draw(t, "empty") == 0
	case "delete":
		k.Filter = rapid.SampledFrom([]string{"id", "id", "gt", "le", "name", "and", "or", "two"}).Draw(t, "filter")
		k.Sym = rapid.IntRange(0, 2).Draw(t, "sym") == 0
		k.Empty = rapid.IntRange(0, 11).Draw(t, "empty") == 0
	case "select":
		k.Key = rapid.IntRange(1, 5).Draw(t, "selid")
		k.Cols = rapid.Bool().Draw(t, "cols")
		k.Empty = rapid.IntRange(0, 11).Draw(t, "empty") == 0
	case "readrows":
		k.Filter = rapid.SampledFrom([]string{"id", "gt", "le", "and", "or", "two"}).Draw(t, "filter")
		k.Cols = rapid.Bool().Draw(t, "cols")
	case "sql":
		k.SQL = rapid.IntRange(0, 4).Draw(t, "sqlkind")
		if k.SQL == 2 {
			k.Key = rapid.IntRange(5, 9).Draw(t, "newid")
		}
	}
	if op != "symbols" {
		k.Cond = rapid.SampledFrom([]int{0, 0, 0, 1, 2}).Draw(t, "cond")
	}
	return k
}

func gen(t *rapid.T) Case {
	n := rapid.IntRange(1, 6).Draw(t, "n")
	var c Case
	for i := 0; i < n; i++ {
		c.Tasks = append(c.Tasks, genTask(t))
	}
	return c
}

// fixed: the shapes of the documentation's examples and of tools/apitest.
func fixed() []Case {
	return []Case{
		// docs/API.md: two inserts and an update with emptyError
		{Tasks: []Task{{Op: "insert", Table: 0, Key: 5, Val: 50}, {Op: "insert", Table: 0, Key: 6, Val: 60}, {Op: "update", Table: 0, Filter: "gt", Val: 45, Upd: "cols", Empty: true}}},
		// docs/API.md chaining: select, symbols, insert with a symbol value
		{Tasks: []Task{{Op: "select", Table: 0, Key: 1, Cols: true}, {Op: "symbols", Key: 1, Val: 25}, {Op: "insert", Table: 1, Key: 7, Val: 5, Sym: true}}},
		// apitest 312/315: insert with an error condition, then more work
		{Tasks: []Task{{Op: "insert", Table: 0, Key: 6, Val: 55, Cond: 1}, {Op: "delete", Table: 0, Filter: "le", Val: 20}, {Op: "readrows", Table: 0, Filter: "gt", Val: 5}}},
		// DDL inside the transaction
		{Tasks: []Task{{Op: "update", Table: 1, Filter: "id", Key: 2, Val: 35, Upd: "score"}, {Op: "sql", SQL: 4}, {Op: "drop", Table: 0}, {Op: "sql", Table: 1, SQL: 0, Key: 1}}},
		{Tasks: []Task{{Op: "sql", Table: 0, SQL: 2, Key: 8, Val: 15}, {Op: "sql", Table: 0, SQL: 1, Val: 25}, {Op: "sql", Table: 0, SQL: 3, Key: 2}}},
	}
}

func TestC17(t *testing.T) {
	vkit.Run(t, vkit.Spec[Case]{
		ID:    "C17",
		Level: "fault_enumeration",
		Rule: "case = list of 1-6 tasks (insert/update/delete/select/readrows/symbols/drop/sql, documented fields, two seeded tables with UNIQUE/NOT NULL columns created through REST); " +
			"for each list the unmodified run plus EVERY position x fault kind is executed (op-specific: dup-unique, not-null, unknown-table, unknown-column, type-mismatch, empty(emptyError), sql-syntax, bad-field, undef-symbol; " +
			"conditions: true, second-true, rows-eq, false, malformed syntax / unknown identifier / non-boolean). " +
			"A run is non-trivial when the request failed at position >= 1 after an earlier task modified rows (by the model); a case is non-trivial when it has such a run; distinct by task list. " +
			"coverage.variant_runs / variant_nontrivial count single requests.",
		Assumptions: []string{
			"administrator caller; SQLite DSN with rowid:true; server defaults (partial inserts and filter-less update/delete are rejected)",
			"which non-2xx status is used and how _rows_ is counted are not asserted",
			"a lock that is left behind is observed as SQLITE_BUSY on BEGIN IMMEDIATE with busy_timeout=0; a leaked transaction that never wrote holds no write lock and is not observable this way",
		},
		Gen:      gen,
		Oracle:   oracle,
		Fixed:    fixed,
		Quick:    20,
		Thorough: 400,
		Extra: func() map[string]any {
			if theEnv == nil {
				return nil
			}
			return map[string]any{"variant_runs": theEnv.runs, "variant_nontrivial": theEnv.ntRuns, "dsn_files_used": theEnv.dsns}
		},
	})
}
