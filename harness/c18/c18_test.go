// Package c18 decides property C18 "Row values survive a REST round trip".
//
// Preconditions taken from the documentation and real callers:
//   - one table per column type, created through PUT /dsns/{dsn}/tables/{t}
//     with the array of column objects the handler accepts (what the CLI
//     sends); the DSN is an unrestricted SQLite DSN with server-assigned row
//     ids (rowid=true), the requests are the administrator's;
//   - column types: docs/API.md (createTable) lists string, int, float32,
//     float64, bool; docs/TABLES.md adds int16, int32, timestamp, date, time.
//     int64 is accepted by the server but not documented; it is exercised and
//     labelled "undocumented-type". No uuid or json column type exists (the
//     handler's list is defs.TableColumnTypeNames), so there is nothing to
//     round-trip for them;
//   - a value is written as the JSON spelling of its type (integer literal,
//     number, true/false, string; RFC 3339 text for the time types, "the
//     documented contract for timestamp, date, and time columns");
//   - the row is read back with GET ...?filter=EQ(k,<key>) on an int key.
//
// Equality is type specific (see equal*): same integer; same float64 (IEEE
// equality, so -0 may come back as 0; float32 columns: same float32); same
// boolean; same bytes; same instant for timestamp/time-of-day for time ("Values
// are normalized to UTC before being stored, and read back in the same
// format" – TABLES.md – so the zone may change to UTC, nothing else may).
// A rejection (status >= 400) of a value is never a violation; a 2xx write
// followed by a different value is.
package c18

import (
	"encoding/json"
	"fmt"
	"math"
	"math/big"
	"path/filepath"
	"strconv"
	"strings"
	"sync"
	"sync/atomic"
	"testing"
	"time"
	"unicode/utf8"

	"github.com/tucats/ego/verif/srvfix"
	"github.com/tucats/ego/verif/vkit"
	"pgregory.net/rapid"
)

// Case: write Value (JSON text) into a column of type Type through Mode, read
// it back. Class names the region of the value space (generator's label; it
// is part of failure signatures).
type Case struct {
	Type  string `json:"type"`
	Mode  string `json:"mode"` // insert | rows (rowset form) | update
	Value string `json:"value"`
	Class string `json:"class"`
}

var types = []string{"int", "int16", "int32", "int64", "float32", "float64", "bool", "string", "timestamp", "date", "time"}

var undocumentedType = map[string]bool{"int64": true}

type fix struct {
	f     *srvfix.Fixture
	hdr   map[string]string
	table map[string]string // type -> table name ("" = the server refused to create it)
	why   map[string]string
}

var (
	fixOnce sync.Once
	theFix  *fix
	fixErr  error
	nextKey atomic.Int64
)

func getFix() (*fix, error) {
	fixOnce.Do(func() { theFix, fixErr = startFix() })
	return theFix, fixErr
}

func startFix() (*fix, error) {
	f, err := srvfix.Start(srvfix.Options{})
	if err != nil {
		return nil, err
	}
	tok, err := f.AdminToken()
	if err != nil {
		return nil, err
	}
	fx := &fix{f: f, hdr: srvfix.Bearer(tok), table: map[string]string{}, why: map[string]string{}}
	fx.hdr["Content-Type"] = "application/json"
	body, _ := json.Marshal(map[string]any{"name": "c18", "provider": "sqlite", "database": filepath.Join(f.Dir, "c18.db"), "restricted": false, "rowid": true})
	if r := f.Do(srvfix.Request{Method: "POST", Path: "/dsns/", Header: fx.hdr, Body: string(body)}); r.Status != 200 && r.Status != 201 {
		return nil, fmt.Errorf("create dsn: %d %s", r.Status, r.Body)
	}
	for _, ty := range types {
		name := "rt_" + ty
		b, _ := json.Marshal([]map[string]string{{"name": "k", "type": "int"}, {"name": "v", "type": ty}})
		r := f.Do(srvfix.Request{Method: "PUT", Path: "/dsns/c18/tables/" + name, Header: fx.hdr, Body: string(b)})
		if r.Status != 201 {
			fx.why[ty] = fmt.Sprintf("%d %s", r.Status, r.Body)
			continue
		}
		fx.table[ty] = name
	}
	if len(fx.table) == 0 {
		return nil, fmt.Errorf("no table could be created: %v", fx.why)
	}
	return fx, nil
}

// ---------------------------------------------------------------------------
// oracle
// ---------------------------------------------------------------------------

func clip(s string, n int) string {
	if len(s) > n {
		return s[:n] + fmt.Sprintf("…(%d bytes)", len(s))
	}
	return s
}

func oracle(c Case) vkit.Outcome {
	var out vkit.Outcome
	fx, err := getFix()
	if err != nil {
		panic("harness: fixture: " + err.Error())
	}
	table := fx.table[c.Type]
	if table == "" {
		out.Skip = "type-not-creatable:" + c.Type
		return out
	}
	out.Key = c.Type + "|" + c.Value
	out.NonTrivial = nonTrivial(c)
	doc := "documented-type"
	if undocumentedType[c.Type] {
		doc = "undocumented-type"
	}
	key := nextKey.Add(1)
	rowsPath := "/dsns/c18/tables/" + table + "/rows"
	do := func(m, p, b string) *srvfix.Response {
		return fx.f.Do(srvfix.Request{Method: m, Path: p, Header: fx.hdr, Body: b})
	}
	filter := fmt.Sprintf("?filter=EQ(k,%d)", key)
	// rows are left in place (every case uses a fresh key): one request less
	// per case, and the key filter keeps reads exact

	var w *srvfix.Response
	var sent string
	switch c.Mode {
	case "rows":
		sent = fmt.Sprintf(`{"rows":[{"k":%d,"v":%s}],"count":1}`, key, c.Value)
		w = do("PUT", rowsPath, sent)
	case "update":
		// a placeholder row first (the server wants every column in an insert),
		// then the value by PATCH
		if p := do("PUT", rowsPath, fmt.Sprintf(`{"k":%d,"v":%s}`, key, placeholder(c.Type))); p.Status >= 300 || p.Panic != nil {
			out.Skip = "placeholder-insert-refused"
			return out
		}
		sent = fmt.Sprintf(`{"v":%s}`, c.Value)
		w = do("PATCH", rowsPath+filter, sent)
	default:
		sent = fmt.Sprintf(`{"k":%d,"v":%s}`, key, c.Value)
		w = do("PUT", rowsPath, sent)
	}
	if w.Status >= 400 || w.Status < 0 || w.Panic != nil {
		out.Labels = []string{fmt.Sprintf("%s %s write-rejected", c.Type, c.Class), doc + " rejected"}
		if w.Panic != nil {
			out.Labels = append(out.Labels, "write-panic "+srvfix.PanicSite(w.Stack))
		}
		return out
	}
	fail := func(how, observed, expected string) vkit.Outcome {
		out.Fail = &vkit.Failure{
			Sig:      fmt.Sprintf("%s | %s | %s", c.Type, sigClass(c), how),
			Observed: fmt.Sprintf("%s %s -> %d; %s", c.Mode, clip(sent, 300), w.Status, observed),
			Expected: expected,
		}
		return out
	}
	r := do("GET", rowsPath+filter, "")
	if r.Status >= 400 || r.Panic != nil {
		// the value was accepted and stored, and now the row cannot be read
		return fail("read-fails", fmt.Sprintf("GET -> %d %s panic=%v", r.Status, clip(string(r.Body), 300), r.Panic), "the stored row can be read back")
	}
	var rs struct {
		Rows []map[string]any `json:"rows"`
	}
	if err := r.JSON(&rs); err != nil {
		return fail("read-unparseable", clip(string(r.Body), 300), "a rowset")
	}
	if len(rs.Rows) != 1 {
		return fail("row-count", fmt.Sprintf("%d rows: %s", len(rs.Rows), clip(string(r.Body), 300)), "exactly the row written")
	}
	got, present := rs.Rows[0]["v"]
	if !present {
		return fail("column-missing", clip(string(r.Body), 300), "column v in the row")
	}
	gotText, _ := json.Marshal(got)
	ok, want := equalValue(c.Type, c.Value, got)
	out.Labels = []string{fmt.Sprintf("%s %s stored", c.Type, c.Class), doc + " stored", "mode " + c.Mode}
	if !ok {
		return fail("altered", "read back "+clip(string(gotText), 300), want)
	}
	return out
}

// sigClass names the region of the value space a failing value lies in, as
// coarsely as the known root causes need: for integers whether the value is
// beyond 2^53 (not exact in a float64), beyond the column's width, or neither;
// for the time types whether it has fractional seconds.
func sigClass(c Case) string {
	switch c.Type {
	case "int", "int16", "int32", "int64":
		n, ok := exactInteger(c.Value)
		if !ok {
			return c.Class
		}
		abs := new(big.Int).Abs(n)
		width := map[string]uint{"int": 63, "int64": 63, "int32": 31, "int16": 15}[c.Type]
		lim := new(big.Int).Lsh(big.NewInt(1), width)
		fits := n.Cmp(lim) < 0 && n.Cmp(new(big.Int).Neg(lim)) >= 0
		switch {
		case !n.IsInt64():
			return "beyond-int64"
		case abs.Cmp(new(big.Int).Lsh(big.NewInt(1), 53)) > 0:
			return "beyond-2^53"
		case !fits:
			return "beyond-column-width"
		}
		return "in-range"
	case "timestamp", "date", "time":
		var text string
		if json.Unmarshal([]byte(c.Value), &text) == nil {
			if t, ok := parseInstant(text); ok && t.Nanosecond() != 0 {
				return "fractional-seconds"
			}
		}
	}
	return c.Class
}

func placeholder(ty string) string {
	switch ty {
	case "bool":
		return "false"
	case "string":
		return `"placeholder"`
	case "timestamp", "date", "time":
		return `"2000-01-01T00:00:00Z"`
	}
	return "0"
}

func nonTrivial(c Case) bool {
	switch c.Type {
	case "bool":
		return false
	case "string":
		var s string
		if json.Unmarshal([]byte(c.Value), &s) != nil {
			return true
		}
		for _, r := range s {
			if !(r >= 'a' && r <= 'z' || r >= 'A' && r <= 'Z') {
				return true
			}
		}
		return s == ""
	case "int", "int16", "int32", "int64":
		n, ok := new(big.Int).SetString(c.Value, 10)
		return !ok || n.CmpAbs(big.NewInt(1000)) > 0
	}
	return true
}

// equalValue compares the JSON text that was sent with the decoded value that
// came back (UseNumber).
func equalValue(ty, sent string, got any) (bool, string) {
	switch ty {
	case "int", "int16", "int32", "int64":
		want, ok := exactInteger(sent)
		if !ok {
			return true, "" // not an integer spelling: nothing documented to compare
		}
		n, isNum := got.(json.Number)
		if !isNum {
			return false, "the integer " + want.String()
		}
		g, ok := exactInteger(n.String())
		return ok && g.Cmp(want) == 0, "the integer " + want.String()
	case "float64", "float32":
		want, err := strconv.ParseFloat(sent, 64)
		if err != nil {
			return true, ""
		}
		n, isNum := got.(json.Number)
		if !isNum {
			return false, "the number " + sent
		}
		g, err := strconv.ParseFloat(n.String(), 64)
		if err != nil {
			return false, "the number " + sent
		}
		if ty == "float32" {
			// documented as single precision: the nearest float32 is what
			// the column can hold
			if math.IsInf(float64(float32(want)), 0) {
				return true, "" // beyond float32: not holdable, nothing to assert
			}
			return float32(g) == float32(want), fmt.Sprintf("the float32 nearest to %s (%v)", sent, float32(want))
		}
		return g == want, "the float64 " + sent // IEEE equality: -0 == 0
	case "bool":
		b, isBool := got.(bool)
		return isBool && strconv.FormatBool(b) == sent, "the boolean " + sent
	case "string":
		var want string
		if err := json.Unmarshal([]byte(sent), &want); err != nil {
			return true, ""
		}
		s, isStr := got.(string)
		return isStr && s == want, "the same bytes " + clip(strconv.Quote(want), 200)
	case "timestamp", "date", "time":
		var text string
		if err := json.Unmarshal([]byte(sent), &text); err != nil {
			return true, ""
		}
		want, ok := parseInstant(text)
		if !ok {
			return true, ""
		}
		s, isStr := got.(string)
		if !isStr {
			return false, "an RFC 3339 string for " + want.UTC().Format(time.RFC3339Nano)
		}
		g, ok := parseInstant(s)
		if !ok {
			return false, "an RFC 3339 string for " + want.UTC().Format(time.RFC3339Nano)
		}
		if ty == "time" {
			// "Time of day": only the time of day is asserted
			a, b := want.UTC(), g.UTC()
			return a.Hour() == b.Hour() && a.Minute() == b.Minute() && a.Second() == b.Second() && a.Nanosecond() == b.Nanosecond(),
				"the time of day " + a.Format("15:04:05.999999999") + " UTC"
		}
		return g.Equal(want), "the instant " + want.UTC().Format(time.RFC3339Nano)
	}
	return true, ""
}

// exactInteger reads a JSON number spelling that denotes an integer exactly
// (digits, or digits with exponent / zero fraction).
func exactInteger(s string) (*big.Int, bool) {
	if n, ok := new(big.Int).SetString(s, 10); ok {
		return n, true
	}
	r, ok := new(big.Rat).SetString(s)
	if !ok || !r.IsInt() {
		return nil, false
	}
	return r.Num(), true
}

// parseInstant reads RFC 3339 (any fraction length) or a bare date
// ("a date, read as midnight UTC").
func parseInstant(s string) (time.Time, bool) {
	if t, err := time.Parse(time.RFC3339Nano, s); err == nil {
		return t, true
	}
	if t, err := time.Parse("2006-01-02", s); err == nil {
		return t, true
	}
	return time.Time{}, false
}

// ---------------------------------------------------------------------------
// value space
// ---------------------------------------------------------------------------

type val struct{ text, class string }

func ints(bits int) []val {
	out := []val{{"0", "small"}, {"1", "small"}, {"-1", "small"}, {"42", "small"}, {"1000", "small"}, {"-32768", "16-bit-edge"}, {"32767", "16-bit-edge"}, {"32768", "16-bit-edge+1"}, {"-32769", "16-bit-edge+1"},
		{"2147483647", "32-bit-edge"}, {"-2147483648", "32-bit-edge"}, {"2147483648", "32-bit-edge+1"}, {"-2147483649", "32-bit-edge+1"}, {"4294967296", "2^32"},
		{"9007199254740991", "2^53-1"}, {"9007199254740992", "2^53"}, {"9007199254740993", "2^53+1"}, {"-9007199254740991", "2^53-1"}, {"-9007199254740992", "2^53"}, {"-9007199254740993", "2^53+1"},
		{"9223372036854775807", "int64-edge"}, {"-9223372036854775808", "int64-edge"}, {"9223372036854775806", "int64-edge"}, {"1152921504606846977", "2^60+1"},
		{"9223372036854775808", "beyond-int64"}, {"-9223372036854775809", "beyond-int64"}, {"1e3", "exponent-spelling"}, {"5.0", "fraction-zero-spelling"}, {"1e18", "exponent-spelling"}}
	_ = bits
	return out
}

var floatVals = []val{{"0", "small"}, {"-0", "neg-zero"}, {"-0.0", "neg-zero"}, {"1", "small"}, {"0.1", "decimal-fraction"}, {"0.5", "binary-fraction"}, {"-2.75", "binary-fraction"}, {"3.141592653589793", "decimal-fraction"},
	{"1e21", "large-exponent"}, {"1e22", "large-exponent"}, {"123456789012345678", "beyond-2^53"}, {"9007199254740993", "beyond-2^53"}, {"1.7976931348623157e308", "max-float64"}, {"-1.7976931348623157e308", "max-float64"},
	{"2.2250738585072014e-308", "min-normal"}, {"5e-324", "denormal"}, {"4.9406564584124654e-324", "denormal"}, {"2.2250738585072009e-308", "denormal"}, {"3.4028234663852886e38", "max-float32"}, {"1.401298464324817e-45", "min-float32"},
	{"16777217", "beyond-2^24"}, {"1e-7", "small-exponent"}, {"100", "small"}, {"1e100", "large-exponent"}, {"0.30000000000000004", "decimal-fraction"}, {"1.0000000000000002", "ulp"}}

var stringVals = []val{{`"tom"`, "ascii-word"}, {`""`, "empty"}, {`" "`, "spaces"}, {`"  lead"`, "spaces"}, {`"trail  "`, "spaces"}, {`"o'neil"`, "quotes"}, {`"say \"hi\""`, "quotes"}, {`"'"`, "quotes"}, {`"''"`, "quotes"}, {`"x'; DROP TABLE rt_string; --"`, "quotes"},
	{`"back\\slash"`, "backslash"}, {`"\\"`, "backslash"}, {`"\\n"`, "backslash"}, {`"line\nbreak"`, "control"}, {`"tab\there"`, "control"}, {`"cr\rlf\n"`, "control"}, {`"\u0001\u0002\u001f"`, "control"}, {`"bell\u0007"`, "control"}, {`"del\u007f"`, "control"},
	{`"é"`, "unicode-bmp"}, {`"ｆｕｌｌ"`, "unicode-bmp"}, {`"日本語"`, "unicode-bmp"}, {`"😀"`, "unicode-astral"}, {`"\ud835\udd18\ud835\udd2b"`, "unicode-astral"}, {`"e\u0301"`, "unicode-combining"}, {`"a\u0323\u0308"`, "unicode-combining"}, {`"שלום"`, "unicode-rtl"}, {`"\u202eabc"`, "unicode-rtl"}, {`"\ufeffbom"`, "unicode-bmp"}, {`"\u2028sep"`, "unicode-bmp"},
	{`"123"`, "numeric-looking"}, {`"1e3"`, "numeric-looking"}, {`"007"`, "numeric-looking"}, {`"-0"`, "numeric-looking"}, {`"true"`, "keyword-looking"}, {`"null"`, "keyword-looking"}, {`"NULL"`, "keyword-looking"}, {`"2024-06-15T12:00:00Z"`, "timestamp-looking"},
	{`"{{name}}"`, "braces"}, {`"%s %d"`, "percent"}, {`"{\"a\":[1,2,{\"b\":null}]}"`, "json-text"}, {`"[1,2,3]"`, "json-text"}, {`"550e8400-e29b-41d4-a716-446655440000"`, "uuid-text"}, {`"550E8400-E29B-41D4-A716-446655440000"`, "uuid-text"}}

var timeVals = []val{{`"2024-06-15T12:00:00Z"`, "utc-seconds"}, {`"2024-06-15T12:00:00+05:30"`, "offset"}, {`"2024-06-15T12:00:00-05:00"`, "offset"}, {`"2024-06-15T23:30:00-08:00"`, "offset-crosses-midnight"}, {`"2024-06-15T00:15:00+14:00"`, "offset-crosses-midnight"},
	{`"2024-06-15T12:00:00.5Z"`, "fraction-1"}, {`"2024-06-15T12:00:00.25Z"`, "fraction-2"}, {`"2024-06-15T12:00:00.123Z"`, "fraction-3"}, {`"2024-06-15T12:00:00.1234Z"`, "fraction-4"}, {`"2024-06-15T12:00:00.123456Z"`, "fraction-6"}, {`"2024-06-15T12:00:00.1234567Z"`, "fraction-7"}, {`"2024-06-15T12:00:00.123456789Z"`, "fraction-9"}, {`"2024-06-15T12:00:00.999999999+05:30"`, "fraction-9"},
	{`"1970-01-01T00:00:00Z"`, "epoch"}, {`"1969-12-31T23:59:59Z"`, "before-epoch"}, {`"0001-01-01T00:00:00Z"`, "year-1"}, {`"9999-12-31T23:59:59Z"`, "year-9999"}, {`"2000-02-29T12:00:00Z"`, "leap-day"}, {`"2038-01-19T03:14:08Z"`, "beyond-2^31"}, {`"1900-01-01T00:00:00Z"`, "year-1900"}, {`"2024-12-31T23:59:59-12:00"`, "offset-crosses-year"},
	{`"2024-06-15T12:00:00z"`, "lowercase-z"}, {`"2024-06-15"`, "date-only"}, {`"1959-12-07"`, "date-only"}, {`"2024-03-10T02:30:00-05:00"`, "dst-gap-local"}, {`"2024-11-03T01:30:00-04:00"`, "dst-fold-local"}}

func poolFor(ty string) []val {
	switch ty {
	case "int", "int16", "int32", "int64":
		return ints(0)
	case "float32", "float64":
		return floatVals
	case "bool":
		return []val{{"true", "true"}, {"false", "false"}}
	case "string":
		long := `"` + strings.Repeat("long-é-", 2000) + `"`
		return append(append([]val{}, stringVals...), val{long, "very-long"})
	}
	return timeVals
}

func genString(t *rapid.T) (string, string) {
	n := rapid.IntRange(0, 24).Draw(t, "slen")
	cls := rapid.SampledFrom([]string{"ascii-print", "control", "unicode-any", "quotes-mix"}).Draw(t, "scls")
	var b strings.Builder
	for i := 0; i < n; i++ {
		var r rune
		switch cls {
		case "ascii-print":
			r = rune(rapid.IntRange(0x20, 0x7e).Draw(t, "r"))
		case "control":
			r = rune(rapid.IntRange(1, 0x7f).Draw(t, "r")) // NUL excluded
		case "quotes-mix":
			r = rapid.SampledFrom([]rune{'\'', '"', '\\', '`', ';', '-', ' ', 'a', '%', '$', '?'}).Draw(t, "r")
		default:
			r = rune(rapid.IntRange(1, 0x10ffff).Draw(t, "r"))
			if r >= 0xd800 && r <= 0xdfff || !utf8.ValidRune(r) {
				r = 0xfffd
			}
		}
		b.WriteRune(r)
	}
	j, _ := json.Marshal(b.String())
	return string(j), "random-" + cls
}

func genCase(t *rapid.T) Case {
	ty := rapid.SampledFrom(types).Draw(t, "type")
	mode := rapid.SampledFrom([]string{"insert", "update", "rows"}).Draw(t, "mode")
	c := Case{Type: ty, Mode: mode}
	if rapid.IntRange(0, 2).Draw(t, "from_pool") == 0 {
		v := rapid.SampledFrom(poolFor(ty)).Draw(t, "pool")
		c.Value, c.Class = v.text, v.class
		return c
	}
	switch ty {
	case "int", "int64":
		c.Value, c.Class = strconv.FormatInt(rapid.Int64().Draw(t, "i64"), 10), "random-int64"
	case "int32":
		c.Value, c.Class = strconv.FormatInt(int64(rapid.Int32().Draw(t, "i32")), 10), "random-int32"
	case "int16":
		c.Value, c.Class = strconv.FormatInt(int64(rapid.Int16().Draw(t, "i16")), 10), "random-int16"
	case "float64":
		f := rapid.Float64().Draw(t, "f64")
		if math.IsNaN(f) || math.IsInf(f, 0) {
			f = 1.5
		}
		c.Value, c.Class = strconv.FormatFloat(f, 'g', -1, 64), "random-float64"
	case "float32":
		f := rapid.Float32().Draw(t, "f32")
		if f != f || math.IsInf(float64(f), 0) {
			f = 1.5
		}
		c.Value, c.Class = strconv.FormatFloat(float64(f), 'g', -1, 32), "random-float32"
	case "bool":
		c.Value = strconv.FormatBool(rapid.Bool().Draw(t, "b"))
		c.Class = c.Value
	case "string":
		c.Value, c.Class = genString(t)
	default:
		sec := rapid.Int64Range(-62135596800, 253402300799).Draw(t, "sec")
		if rapid.Bool().Draw(t, "recent") {
			sec = rapid.Int64Range(0, 4102444800).Draw(t, "sec_recent")
		}
		digits := rapid.IntRange(0, 9).Draw(t, "frac_digits")
		nano := int64(0)
		if digits > 0 {
			pow := int64(math.Pow10(9 - digits))
			nano = rapid.Int64Range(0, int64(math.Pow10(digits))-1).Draw(t, "frac") * pow
		}
		offMin := rapid.SampledFrom([]int{0, 0, 330, -300, 60, -480, 840, -720, 345}).Draw(t, "offset_min")
		tm := time.Unix(sec, nano).In(time.FixedZone("", offMin*60))
		layout := "2006-01-02T15:04:05"
		if digits > 0 {
			layout += "." + strings.Repeat("0", digits)
		}
		layout += "Z07:00"
		j, _ := json.Marshal(tm.Format(layout))
		c.Value = string(j)
		c.Class = fmt.Sprintf("random-fraction-%d", digits)
		if offMin != 0 {
			c.Class += "-offset"
		}
	}
	return c
}

func fixedCases() []Case {
	var out []Case
	for _, ty := range types {
		for _, v := range poolFor(ty) {
			out = append(out, Case{Type: ty, Mode: "insert", Value: v.text, Class: v.class})
		}
	}
	return out
}

func TestC18(t *testing.T) {
	fx, err := getFix()
	if err != nil {
		t.Fatalf("fixture: %v", err)
	}
	for ty, why := range fx.why {
		t.Logf("type %s: table not created: %s", ty, why)
	}
	vkit.Run(t, vkit.Spec[Case]{
		ID:    "C18",
		Level: "exploration",
		Rule: "case = (column type in int,int16,int32,int64,float32,float64,bool,string,timestamp,date,time; write mode PUT row | PUT rowset | PATCH; value as JSON text): the boundary pool of every type " +
			"(enumerated as fixed cases: ±2^53±1, int64 limits, -0, denormals, max, 1e21, 0.1, quotes, backslashes, astral/combining/RTL text, control characters except NUL, spaces, empty, 14 kB string, " +
			"RFC 3339 with Z / offsets / 1-9 fraction digits / boundary dates) plus random values of the type. Written through the REST row endpoint, read back with filter EQ(k,key), decoded with UseNumber, " +
			"compared type-specifically. Non-trivial: not a bool, integer |v|>1000, string other than an ASCII word; distinct by (type, value).",
		Assumptions: []string{
			"documented column types: API.md createTable (string,int,float32,float64,bool) and TABLES.md (int16,int32,timestamp,date,time); int64 is accepted but undocumented; uuid/json column types do not exist",
			"float equality is IEEE == (a -0 read back as 0 is the same value); float32 columns hold the nearest float32",
			"timestamps are compared as instants: TABLES.md says values are normalized to UTC and read back in RFC 3339; `time` columns are compared by time of day only; a date-only value means midnight UTC",
			"a write answered with status >= 400 is a rejection and never a violation",
			"SQLite backend only",
		},
		Gen:      genCase,
		Oracle:   oracle,
		Fixed:    fixedCases,
		Quick:    150,
		Thorough: 2500,
		Extra: func() map[string]any {
			return map[string]any{"types_not_creatable": fx.why}
		},
	})
}
