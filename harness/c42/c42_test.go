// Package c42 decides property C42, "Concurrent service requests do not see
// each other":
//
//	For a service that keeps no package-level state, the response to each
//	request is the same whether requests are served one at a time or
//	concurrently in any interleaving; no request observes another request's
//	parameters, body, user or local variables.
//
// A case is 1..3 generated stateless services and a batch of 8..64 requests
// with pairwise distinct inputs. Every service reads the documented request
// fields (URL variable, query parameters, a request header, the body, the
// user name), pushes them through a drawn chain of computations (byte loops,
// counted loops, arrays, maps, closures, a handler-local struct type, JSON
// marshalling, string functions, try/catch, recursion — hundreds to thousands
// of bytecode instructions between reading the inputs and writing the
// response) and reports the inputs, the accumulated hash, a status derived
// from the hash and two response headers.
//
// The batch is run twice in this process through the real router
// (srvfix / hook H1): once serially, once with one goroutine per request
// released together, under runtime.GOMAXPROCS(1|4|16) and with hook H3
// (bytecode.VerifSetYield: runtime.Gosched() at pseudo-random instruction
// counts). The test binary is built with -race.
//
// Oracle: every 2xx response, serial or concurrent, reports the inputs of its
// own request (URL variable, p, n, header, body, user name); every concurrent
// response (status, all headers, body) equals the
// serial response of the same request; no handler panic; no data race
// reported while the case ran (the race runtime's report on fd 2 is captured
// and turned into a failure whose signature names the access sites).
//
// The harness does not own the scheduler: GOMAXPROCS and the yield points
// only perturb it. A silent pass is weak evidence of isolation; a failure is
// strong evidence of sharing.
//
// Preconditions taken from the documentation: services use only the
// documented http.Request fields and ResponseWriter methods and declare
// no package-level variables; query parameters are declared in @endpoint.
package c42

import (
	"crypto/sha256"
	"encoding/json"
	"fmt"
	"net/http"
	"os"
	"path/filepath"
	"regexp"
	"runtime"
	"sort"
	"strings"
	"sync"
	"testing"
	"time"

	"github.com/tucats/ego/internal/language/bytecode"
	"github.com/tucats/ego/internal/router"
	"github.com/tucats/ego/internal/server/services"
	"github.com/tucats/ego/verif/srvfix"
	"github.com/tucats/ego/verif/vkit"
	"pgregory.net/rapid"
)

// ---------------------------------------------------------------- case data

// Step is one computation of a generated service.
type Step struct {
	Op string `json:"op"` // mix | rounds | arr | map | closure | struct | json | str | try | rev | nloop
	In string `json:"in"` // key | p | user | body | via
	N  int    `json:"n,omitempty"`
}

// Svc is a generated stateless service.
type Svc struct {
	Seed  int    `json:"seed"`
	Steps []Step `json:"steps"`
}

// Rq is one request of a batch.
type Rq struct {
	Svc    int    `json:"svc"` // index into Case.Svcs
	Method string `json:"method"`
	Key    string `json:"key"`
	P      string `json:"p"`
	N      int    `json:"n"`
	Body   string `json:"body"`
	Via    string `json:"via"`
	User   int    `json:"user"` // 0 anonymous, 1 admin, 2 and 3 ordinary users
}

// Case is a batch and a schedule perturbation.
type Case struct {
	Svcs        []Svc  `json:"svcs"`
	Reqs        []Rq   `json:"reqs"`
	Procs       int    `json:"gomaxprocs"`
	YieldSeed   uint64 `json:"yield_seed"`
	YieldRate   uint64 `json:"yield_rate"` // 0 = no injected yields
	SerialFirst bool   `json:"serial_first"`
	Flush       bool   `json:"flush"` // empty the service cache before the concurrent run
	Reps        int    `json:"reps"`  // concurrent runs (yield seed + repetition)
}

// ---------------------------------------------------------------- service source

func (s Svc) id() string {
	b, _ := json.Marshal(s)
	h := sha256.Sum256(b)
	return fmt.Sprintf("s%x", h[:6])
}

func (s Svc) endpoint() string { return "/services/c42/" + s.id() + "/{{k}}" }

var inputs = []string{"key", "p", "user", "body", "via"}

func (s Svc) source() string {
	var b strings.Builder
	b.WriteString(`@endpoint path="` + s.endpoint() + `" parameter="p:string","n:int"` + "\n\n")
	b.WriteString(`import "http"
import "fmt"
import "sort"
import "strings"
import "strconv"
import "json"

func mix(h int, s string) int {
    b := []byte(s)
    for i := 0; i < len(b); i = i + 1 {
        h = (h*31 + int(b[i]) + 7) % 1000003
    }
    return h
}

func rounds(h int, n int) int {
    for i := 0; i < n; i = i + 1 {
        h = (h*17 + i*13 + 5) % 1000003
    }
    return h
}

func rev(s string) string {
    if len(s) <= 1 {
        return s
    }
    return rev(s[1:]) + s[0:1]
}

func first(vs []interface{}) string {
    r := ""
    for _, x := range vs {
        r = r + fmt.Sprintf("%v", x)
    }
    return r
}

func handler(req http.Request, w *http.ResponseWriter) {
    key := fmt.Sprintf("%v", req.URL.Parts["k"])
    p := ""
    if pv, ok := req.Parameters["p"]; ok {
        p = first(pv)
    }
    n := 0
    if nv, ok := req.Parameters["n"]; ok {
        nn, _ := strconv.Atoi(first(nv))
        n = nn
    }
    via := ""
    if hv, ok := req.Headers["Via"]; ok {
        via = first(hv)
    }
    user := req.Username
    body := req.Body
`)
	fmt.Fprintf(&b, "    h := %d\n", s.Seed)
	for i, st := range s.Steps {
		in := st.In
		v := fmt.Sprintf("%d", i)
		switch st.Op {
		case "mix":
			fmt.Fprintf(&b, "    h = mix(h, %s)\n", in)
		case "rounds":
			fmt.Fprintf(&b, "    h = rounds(h, %d)\n", st.N)
		case "nloop":
			fmt.Fprintf(&b, "    h = rounds(h, n)\n    h = mix(h, %s)\n", in)
		case "arr":
			fmt.Fprintf(&b, `    arr%[1]s := []string{}
    for i := 0; i < %[3]d; i = i + 1 {
        arr%[1]s = append(arr%[1]s, fmt.Sprintf("%%s-%%d", %[2]s, i))
    }
    for _, s := range arr%[1]s {
        h = mix(h, s)
    }
`, v, in, st.N)
		case "map":
			fmt.Fprintf(&b, `    m%[1]s := map[string]int{}
    for i := 0; i < %[3]d; i = i + 1 {
        mk := fmt.Sprintf("%%s%%d", %[2]s, i %% 4)
        old, ok := m%[1]s[mk]
        if ok {
            m%[1]s[mk] = old + i
        } else {
            m%[1]s[mk] = i
        }
    }
    mkeys%[1]s := []string{}
    for k, _ := range m%[1]s {
        mkeys%[1]s = append(mkeys%[1]s, k)
    }
    sort.Strings(mkeys%[1]s)
    for _, k := range mkeys%[1]s {
        h = (mix(h, k) + m%[1]s[k]) %% 1000003
    }
`, v, in, st.N)
		case "closure":
			fmt.Fprintf(&b, `    salt%[1]s := len(%[2]s)
    add%[1]s := func(v int) int {
        return (h + v*3 + salt%[1]s) %% 1000003
    }
    for i := 0; i < %[3]d; i = i + 1 {
        h = add%[1]s(i)
    }
`, v, in, st.N)
		case "struct":
			fmt.Fprintf(&b, `    type rec%[1]s struct {
        name string
        val  int
    }
    recs%[1]s := []rec%[1]s{}
    for i := 0; i < %[3]d; i = i + 1 {
        recs%[1]s = append(recs%[1]s, rec%[1]s{name: %[2]s, val: h + i})
    }
    for _, r := range recs%[1]s {
        h = (mix(h, r.name) + r.val) %% 1000003
    }
`, v, in, st.N)
		case "json":
			fmt.Fprintf(&b, "    jb%[1]s, _ := json.Marshal({k: %[2]s, v: h})\n    h = mix(h, string(jb%[1]s))\n", v, in)
		case "str":
			fmt.Fprintf(&b, "    up%[1]s := strings.ToUpper(%[2]s)\n    h = mix(h, strings.Join(strings.Split(up%[1]s, \"-\"), \"+\"))\n", v, in)
		case "try":
			fmt.Fprintf(&b, `    try {
        x%[1]s := strconv.Atoi(%[2]s)
        h = (h + x%[1]s) %% 1000003
    } catch (e) {
        h = (h + 1 + len(fmt.Sprintf("%%v", e)) %% 2) %% 1000003
    }
`, v, in)
		case "rev":
			fmt.Fprintf(&b, "    short%[1]s := %[2]s\n    if len(short%[1]s) > 24 {\n        short%[1]s = short%[1]s[0:24]\n    }\n    h = mix(h, rev(short%[1]s))\n", v, in)
		}
	}
	b.WriteString(`    out := "key=" + key + "\n"
    out = out + "p=" + p + "\n"
    out = out + "user=" + user + "\n"
    out = out + "body=" + body + "\n"
    out = out + "via=" + via + "\n"
    out = out + fmt.Sprintf("n=%d\nh=%d\n", n, h)
    w.Header().Add("X-C42-Key", key)
    w.Header().Add("X-C42-H", fmt.Sprintf("%d", h))
    w.WriteHeader(200 + h % 3)
    w.Write([]byte(out))
}
`)
	return b.String()
}

// ---------------------------------------------------------------- fixture

type env struct {
	f    *srvfix.Fixture
	toks [4]string
	name [4]string
	mu   sync.Mutex
	have map[string]bool
}

var (
	envOnce sync.Once
	theEnv  *env
	envErr  error
)

func getEnv() (*env, error) {
	envOnce.Do(func() {
		f, err := srvfix.Start(srvfix.Options{})
		if err != nil {
			envErr = err
			return
		}
		e := &env{f: f, have: map[string]bool{}}
		e.name = [4]string{"", "admin", "c42alice", "c42bob"}
		if e.toks[1], err = f.AdminToken(); err != nil {
			envErr = err
			return
		}
		for i := 2; i <= 3; i++ {
			if err = f.CreateUser(e.toks[1], e.name[i], "c42-pass-"+e.name[i], []string{"ego.logon"}); err != nil {
				envErr = err
				return
			}
			if e.toks[i], err = f.Logon(e.name[i], "c42-pass-"+e.name[i]); err != nil {
				envErr = err
				return
			}
		}
		theEnv = e
	})
	return theEnv, envErr
}

func (e *env) install(s Svc) error {
	e.mu.Lock()
	defer e.mu.Unlock()
	id := s.id()
	if e.have[id] {
		return nil
	}
	dir := filepath.Join(router.PathRoot, "services", "c42", id)
	if err := os.MkdirAll(dir, 0o755); err != nil {
		return err
	}
	if err := os.WriteFile(filepath.Join(dir, "svc.ego"), []byte(s.source()), 0o644); err != nil {
		return err
	}
	// the function the server start-up uses for route discovery
	if err := services.DefineLibHandlers(e.f.Router, router.PathRoot, "/services/c42/"+id); err != nil {
		return err
	}
	e.have[id] = true
	return nil
}

func (e *env) request(c Case, r Rq) srvfix.Request {
	h := map[string]string{"Accept": "text/plain"}
	if r.Via != "" {
		h["Via"] = r.Via
	}
	if r.User > 0 {
		h["Authorization"] = "Bearer " + e.toks[r.User]
	}
	path := "/services/c42/" + c.Svcs[r.Svc].id() + "/" + r.Key + "?p=" + r.P + fmt.Sprintf("&n=%d", r.N)
	return srvfix.Request{Method: r.Method, Path: path, Header: h, Body: r.Body}
}

// ---------------------------------------------------------------- oracle

var sessionRE = regexp.MustCompile(`"session":\s*\d+`)

type answer struct {
	status int
	header http.Header
	body   string
	panicv string
}

func take(r *srvfix.Response) answer {
	a := answer{status: r.Status, header: r.Header, body: sessionRE.ReplaceAllString(string(r.Body), `"session": N`)}
	if r.Panic != nil {
		a.panicv = fmt.Sprintf("%v at %s", r.Panic, srvfix.PanicSite(r.Stack))
	}
	return a
}

// differ names the first field in which the concurrent answer c differs from
// the serial answer s ("" when they are equal).
func differ(s, c answer) string {
	if s.status != c.status {
		return fmt.Sprintf("status serial=%d concurrent=%d", s.status, c.status)
	}
	names := map[string]bool{}
	for k := range s.header {
		names[k] = true
	}
	for k := range c.header {
		names[k] = true
	}
	ks := make([]string, 0, len(names))
	for k := range names {
		ks = append(ks, k)
	}
	sort.Strings(ks)
	for _, k := range ks {
		if strings.Join(s.header[k], "\x00") != strings.Join(c.header[k], "\x00") {
			return "header " + k
		}
	}
	if s.body != c.body {
		ls, lc := strings.Split(s.body, "\n"), strings.Split(c.body, "\n")
		for i := 0; i < len(ls) || i < len(lc); i++ {
			var x, y string
			if i < len(ls) {
				x = ls[i]
			}
			if i < len(lc) {
				y = lc[i]
			}
			if x != y {
				k := x
				if k == "" {
					k = y
				}
				if j := strings.Index(k, "="); j > 0 && j < 12 {
					return "body line " + k[:j]
				}
				return "body"
			}
		}
		return "body"
	}
	return ""
}

// batchLimit protects the run against a batch that never completes.
const batchLimit = 20 * time.Minute

func mustJSON(v any) string {
	b, _ := json.Marshal(v)
	return string(b)
}

// ownInputs checks that a 2xx answer of a generated service reports the
// inputs of its own request ("" when it does): the statement says that no
// request observes another request's parameters, body or user.
func (e *env) ownInputs(r Rq, a answer) string {
	if a.status < 200 || a.status > 202 {
		return ""
	}
	want := map[string]string{"key": r.Key, "p": r.P, "user": e.name[r.User], "body": r.Body, "via": r.Via, "n": fmt.Sprint(r.N)}
	got := map[string]string{}
	for _, l := range strings.Split(a.body, "\n") {
		if i := strings.Index(l, "="); i > 0 {
			got[l[:i]] = l[i+1:]
		}
	}
	for _, k := range []string{"key", "p", "user", "body", "via", "n"} {
		if got[k] != want[k] {
			return k
		}
	}
	if hk := a.header.Get("X-C42-Key"); hk != r.Key {
		return "header X-C42-Key"
	}
	return ""
}

func clip(s string, n int) string {
	if len(s) > n {
		return s[:n] + "…"
	}
	return s
}

func raceSite(report string) string {
	var sites []string
	want := false
	for _, l := range strings.Split(report, "\n") {
		t := strings.TrimSpace(l)
		switch {
		case strings.HasPrefix(t, "Goroutine ") || strings.HasPrefix(t, "=================="):
			if len(sites) > 0 {
				want = false
				if strings.HasPrefix(t, "Goroutine ") {
					goto done
				}
			}
		case strings.HasPrefix(t, "Read at ") || strings.HasPrefix(t, "Write at ") || strings.HasPrefix(t, "Previous read at ") || strings.HasPrefix(t, "Previous write at ") ||
			strings.HasPrefix(t, "Atomic read at ") || strings.HasPrefix(t, "Atomic write at ") || strings.HasPrefix(t, "Previous atomic read at ") || strings.HasPrefix(t, "Previous atomic write at "):
			want = true
		case want && strings.HasPrefix(t, "github.com/tucats/ego/internal/"):
			if i := strings.LastIndex(t, "("); i > 0 {
				t = t[:i]
			}
			sites = append(sites, strings.TrimPrefix(t, "github.com/tucats/ego/internal/"))
			want = false
		}
	}
done:
	if len(sites) == 0 {
		return "(no ego frame)"
	}
	sort.Strings(sites)
	return strings.Join(sites, " <-> ")
}

func raceScope(sites string) string {
	for _, p := range []string{"language/", "server/services", "runtime/"} {
		if strings.Contains(sites, p) {
			return "interpreter/service code"
		}
	}
	return "other server code"
}

func oracle(c Case) vkit.Outcome {
	var out vkit.Outcome
	e, err := getEnv()
	if err != nil {
		out.Skip = "fixture: " + err.Error()
		return out
	}
	if len(c.Svcs) == 0 || len(c.Reqs) < 2 || c.Procs < 1 {
		out.Skip = "malformed"
		return out
	}
	for _, r := range c.Reqs {
		if r.Svc < 0 || r.Svc >= len(c.Svcs) || r.User < 0 || r.User > 3 {
			out.Skip = "malformed"
			return out
		}
	}
	for _, s := range c.Svcs {
		if err := e.install(s); err != nil {
			out.Skip = "install: " + err.Error()
			return out
		}
	}
	_ = raceReport() // anything printed between cases belongs to no case
	reqs := make([]srvfix.Request, len(c.Reqs))
	for i, r := range c.Reqs {
		reqs[i] = e.request(c, r)
	}
	serial := func() []answer {
		bytecode.VerifSetYield(0, 0)
		as := make([]answer, len(reqs))
		for i := range reqs {
			as[i] = take(e.f.Do(reqs[i]))
		}
		return as
	}
	cachedShared := false
	concurrent := func(rep int) []answer {
		if c.Flush && rep == 0 {
			services.FlushServiceCache()
		}
		// which services are in the cache of compiled services when the
		// batch starts (no request is running: reading the map is safe)
		perSvc := map[int]int{}
		for _, r := range c.Reqs {
			perSvc[r.Svc]++
		}
		for i, n := range perSvc {
			if _, ok := services.ServiceCache[c.Svcs[i].endpoint()]; ok && n >= 2 {
				cachedShared = true
			}
		}
		old := runtime.GOMAXPROCS(c.Procs)
		bytecode.VerifSetYield(c.YieldSeed+uint64(rep), c.YieldRate)
		as := make([]answer, len(reqs))
		start := make(chan struct{})
		var wg sync.WaitGroup
		for i := range reqs {
			wg.Add(1)
			go func(i int) {
				defer wg.Done()
				<-start
				as[i] = take(e.f.Do(reqs[i]))
			}(i)
		}
		close(start)
		done := make(chan struct{})
		go func() { wg.Wait(); close(done) }()
		select {
		case <-done:
		case <-time.After(batchLimit):
			// protection of the run, not a verdict: the goroutines cannot be
			// cancelled and every later case would be compromised
			fmt.Printf("HARNESS-ERROR property=C42 a concurrent batch of %d requests did not complete within %v (deadlock between requests?) %s\n", len(reqs), batchLimit, mustJSON(c))
			os.Exit(3)
		}
		bytecode.VerifSetYield(0, 0)
		runtime.GOMAXPROCS(old)
		return as
	}
	reps := c.Reps
	if reps < 1 {
		reps = 1
	}
	var sa []answer
	var cas [][]answer
	if c.SerialFirst {
		sa = serial()
	}
	for rep := 0; rep < reps; rep++ {
		cas = append(cas, concurrent(rep))
	}
	if !c.SerialFirst {
		sa = serial()
	}
	for i, a := range sa {
		if a.panicv == "" && (a.status < 200 || a.status > 202) {
			// generated services answer 200..202 by construction; if one does
			// not even when served alone, concurrency cannot be judged
			out.Skip = fmt.Sprintf("a generated service does not answer 2xx in the serial run (status %d)", a.status)
			fmt.Printf("NOTE C42: serial request %d %s answered %d: %s\n", i, reqs[i].Path, a.status, clip(a.body, 300))
			return out
		}
	}
	out.NonTrivial = cachedShared
	okS := 0
	for _, a := range sa {
		if a.status >= 200 && a.status <= 202 {
			okS++
		}
	}
	out.Labels = append(out.Labels,
		fmt.Sprintf("procs=%d yield=%d", c.Procs, c.YieldRate),
		fmt.Sprintf("serial_first=%v flush=%v", c.SerialFirst, c.Flush),
		fmt.Sprintf("batch=%d-%d svcs=%d", len(c.Reqs)/16*16, len(c.Reqs)/16*16+15, len(c.Svcs)),
		fmt.Sprintf("cached-shared=%v", cachedShared))
	if okS == len(sa) {
		out.Labels = append(out.Labels, "serial all 2xx")
	} else {
		out.Labels = append(out.Labels, "serial some non-2xx")
	}
	where := fmt.Sprintf("GOMAXPROCS=%d yield=%d:%d serial_first=%v flush=%v", c.Procs, c.YieldSeed, c.YieldRate, c.SerialFirst, c.Flush)
	// the serial run is the reference: it must itself be sane
	for i, a := range sa {
		if a.panicv != "" {
			out.Fail = &vkit.Failure{Sig: "serial run: handler panic " + a.panicv, Observed: fmt.Sprintf("request %d (%s): panic %s", i, reqs[i].Path, a.panicv), Expected: "a response"}
			return out
		}
	}
	for i, a := range sa {
		if f := e.ownInputs(c.Reqs[i], a); f != "" {
			out.Fail = &vkit.Failure{Sig: "serial run: the answer does not report the request's own " + f,
				Observed: fmt.Sprintf("request %d %s %s: status %d headers %v body %q\nservice:\n%s", i, reqs[i].Method, reqs[i].Path, a.status, pick(a.header), clip(a.body, 500), c.Svcs[c.Reqs[i].Svc].source()),
				Expected: fmt.Sprintf("key=%s p=%s user=%s body=%s via=%s n=%d", c.Reqs[i].Key, c.Reqs[i].P, e.name[c.Reqs[i].User], c.Reqs[i].Body, c.Reqs[i].Via, c.Reqs[i].N)}
			return out
		}
	}
	for rep, ca := range cas {
		for i := range ca {
			if f := e.ownInputs(c.Reqs[i], ca[i]); f != "" && ca[i].panicv == "" {
				out.Fail = &vkit.Failure{Sig: "concurrent run: the answer does not report the request's own " + f,
					Observed: fmt.Sprintf("%s rep=%d request %d %s %s: status %d headers %v body %q\nservice:\n%s", where, rep, i, reqs[i].Method, reqs[i].Path, ca[i].status, pick(ca[i].header), clip(ca[i].body, 500), c.Svcs[c.Reqs[i].Svc].source()),
					Expected: fmt.Sprintf("key=%s p=%s user=%s body=%s via=%s n=%d", c.Reqs[i].Key, c.Reqs[i].P, e.name[c.Reqs[i].User], c.Reqs[i].Body, c.Reqs[i].Via, c.Reqs[i].N)}
				return out
			}
			if ca[i].panicv != "" {
				out.Fail = &vkit.Failure{Sig: "concurrent run: handler panic " + ca[i].panicv,
					Observed: fmt.Sprintf("%s rep=%d request %d (%s): panic %s\nservice:\n%s", where, rep, i, reqs[i].Path, ca[i].panicv, c.Svcs[c.Reqs[i].Svc].source()), Expected: "the serial response, status " + fmt.Sprint(sa[i].status)}
				return out
			}
			d := differ(sa[i], ca[i])
			if d == "" {
				continue
			}
			// does the concurrent answer carry another request's input?
			cross := ""
			for j, o := range c.Reqs {
				if j == i {
					continue
				}
				for _, tok := range []string{o.Key, o.P, o.Body, o.Via} {
					if tok != "" && strings.Contains(ca[i].body, tok) && !strings.Contains(sa[i].body, tok) {
						cross = fmt.Sprintf(" (carries an input of request %d)", j)
					}
				}
			}
			sig := "concurrent differs from serial: " + d
			if cross != "" {
				sig = "cross-talk: " + d
			}
			out.Fail = &vkit.Failure{Sig: sig,
				Observed: fmt.Sprintf("%s rep=%d request %d %s %s%s: concurrent status %d headers %v body %q\nservice:\n%s", where, rep, i, reqs[i].Method, reqs[i].Path, cross, ca[i].status, pick(ca[i].header), clip(ca[i].body, 500), c.Svcs[c.Reqs[i].Svc].source()),
				Expected: fmt.Sprintf("serial: status %d headers %v body %q", sa[i].status, pick(sa[i].header), clip(sa[i].body, 500))}
			return out
		}
	}
	if r := raceReport(); r != "" {
		sites := raceSite(r)
		out.Fail = &vkit.Failure{Sig: "data race in " + raceScope(sites) + ": " + sites,
			Observed: where + "\n" + clip(r, 3500), Expected: "no data race while a batch of requests is served"}
	}
	return out
}

func pick(h http.Header) map[string][]string {
	m := map[string][]string{}
	for k, v := range h {
		if strings.HasPrefix(k, "X-C42") || k == "Content-Type" {
			m[k] = v
		}
	}
	return m
}

// ---------------------------------------------------------------- generator

var ops = []string{"mix", "mix", "rounds", "nloop", "arr", "map", "closure", "struct", "json", "str", "try", "rev"}

func genSvc(t *rapid.T) Svc {
	s := Svc{Seed: rapid.IntRange(1, 9999).Draw(t, "seed")}
	n := rapid.IntRange(3, 10).Draw(t, "nsteps")
	for i := 0; i < n; i++ {
		st := Step{Op: rapid.SampledFrom(ops).Draw(t, "op"), In: rapid.SampledFrom(inputs).Draw(t, "in")}
		switch st.Op {
		case "rounds":
			st.N = rapid.IntRange(5, 300).Draw(t, "rounds")
		case "arr", "map", "closure", "struct":
			st.N = rapid.IntRange(1, 24).Draw(t, "n")
		}
		s.Steps = append(s.Steps, st)
	}
	// every input flows into the hash at least once
	for _, in := range inputs {
		s.Steps = append(s.Steps, Step{Op: "mix", In: in})
	}
	return s
}

const tokChars = "abcdefghijklmnopqrstuvwxyz0123456789"

func genTok(t *rapid.T, label string, min, max int) string {
	n := rapid.IntRange(min, max).Draw(t, label+"len")
	b := make([]byte, n)
	for i := range b {
		b[i] = tokChars[rapid.IntRange(0, len(tokChars)-1).Draw(t, label)]
	}
	return string(b)
}

func gen(t *rapid.T) Case {
	var c Case
	ns := rapid.IntRange(1, 3).Draw(t, "nsvcs")
	for i := 0; i < ns; i++ {
		c.Svcs = append(c.Svcs, genSvc(t))
	}
	nr := rapid.SampledFrom([]int{8, 8, 12, 16, 16, 24, 32, 48, 64}).Draw(t, "batch")
	for i := 0; i < nr; i++ {
		r := Rq{Svc: rapid.IntRange(0, ns-1).Draw(t, "svc"),
			Method: rapid.SampledFrom([]string{"GET", "POST", "PUT"}).Draw(t, "method"),
			// the index makes the inputs of a batch pairwise distinct
			Key:  fmt.Sprintf("k%d-%s", i, genTok(t, "key", 2, 10)),
			P:    fmt.Sprintf("p%d-%s", i, genTok(t, "p", 0, 12)),
			N:    rapid.IntRange(0, 60).Draw(t, "n"),
			Via:  fmt.Sprintf("1.1 v%d-%s", i, genTok(t, "via", 1, 6)),
			User: rapid.IntRange(0, 3).Draw(t, "user")}
		if r.Method != "GET" {
			r.Body = fmt.Sprintf("b%d-%s", i, genTok(t, "body", 0, 40))
		}
		if rapid.IntRange(0, 7).Draw(t, "novia") == 0 {
			r.Via = ""
		}
		c.Reqs = append(c.Reqs, r)
	}
	c.Procs = rapid.SampledFrom([]int{1, 4, 16}).Draw(t, "gomaxprocs")
	c.YieldSeed = rapid.Uint64Range(1, 1<<40).Draw(t, "yieldseed")
	c.YieldRate = rapid.SampledFrom([]uint64{0, 2, 3, 7, 20, 100}).Draw(t, "yieldrate")
	c.SerialFirst = rapid.IntRange(0, 3).Draw(t, "serialfirst") > 0
	c.Flush = rapid.IntRange(0, 3).Draw(t, "flush") == 0
	c.Reps = rapid.IntRange(1, 3).Draw(t, "reps")
	return c
}

func TestC42(t *testing.T) {
	dir := os.Getenv("VERIF_RUN_DIR")
	if dir == "" {
		dir = t.TempDir()
	}
	if _, err := getEnv(); err != nil {
		t.Fatalf("fixture: %v", err)
	}
	stop := raceCaptureStart(dir)
	defer stop()
	vkit.Run(t, vkit.Spec[Case]{
		ID:    "C42",
		Level: "exploration",
		Rule: "case = 1..3 generated stateless services (documented http.Request fields pushed through a drawn chain of loops, helper functions, arrays, maps, closures, local struct types, JSON, string functions, try/catch, recursion) " +
			"and a batch of 8..64 requests with pairwise distinct URL variable, parameters, header, body and one of 4 identities, run serially and concurrently (1..3 repetitions) through the real router with GOMAXPROCS 1|4|16 and injected yields (H3); " +
			"non-trivial: at the start of a concurrent run some service that gets >= 2 requests of the batch is already in the cache of compiled services; distinct by (services, batch, schedule parameters).",
		Assumptions: []string{
			"the harness perturbs but does not own the scheduler: a pass is weak evidence, a failure strong evidence",
			fmt.Sprintf("race detector active: %v", raceBuild),
			"the serial run of the same batch is the reference for every concurrent response",
			"services declare no package-level variables and use only documented Request/ResponseWriter members",
		},
		Gen:      gen,
		Oracle:   oracle,
		Quick:    12,
		Thorough: 200,
	})
}
