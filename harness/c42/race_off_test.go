//go:build !race

package c42

const raceBuild = false

func raceCaptureStart(dir string) func() { return func() {} }

func raceReport() string { return "" }
