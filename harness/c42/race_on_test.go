//go:build race

package c42

import (
	"fmt"
	"os"
	"path/filepath"
	"strings"
	"syscall"
)

// With -race the race runtime prints its reports to file descriptor 2 and the
// testing package fails the test at the end, but no VIOLATION line would be
// printed. raceCaptureStart points fd 2 at a file in the run directory so that
// the oracle can turn a report that appeared during a concurrent case into a
// Failure (and so a replay file); everything captured is copied back to the
// real stderr.

var (
	raceFile *os.File
	raceOff  int64
	origErr  *os.File
)

const raceBuild = true

func raceCaptureStart(dir string) func() {
	f, err := os.Create(filepath.Join(dir, fmt.Sprintf("c42-race-%d.txt", os.Getpid())))
	if err != nil {
		return func() {}
	}
	dup, err := syscall.Dup(2)
	if err != nil {
		f.Close()
		return func() {}
	}
	if err := syscall.Dup3(int(f.Fd()), 2, 0); err != nil {
		f.Close()
		syscall.Close(dup)
		return func() {}
	}
	raceFile, origErr = f, os.NewFile(uintptr(dup), "stderr")
	return func() {
		_ = raceReport()
		_ = syscall.Dup3(dup, 2, 0)
		name := raceFile.Name()
		raceFile.Close()
		raceFile = nil
		_ = os.Remove(name)
	}
}

// raceReport returns the race reports written since the last call ("" if none).
func raceReport() string {
	if raceFile == nil {
		return ""
	}
	st, err := raceFile.Stat()
	if err != nil || st.Size() <= raceOff {
		return ""
	}
	buf := make([]byte, st.Size()-raceOff)
	n, _ := raceFile.ReadAt(buf, raceOff)
	raceOff += int64(n)
	text := string(buf[:n])
	_, _ = origErr.WriteString(text)
	if i := strings.Index(text, "WARNING: DATA RACE"); i >= 0 {
		return text[i:]
	}
	return ""
}
