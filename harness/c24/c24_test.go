package c24

// C24 "Failed logins lock the account as configured".
//
// What is driven: router.(*Router).ServeHTTP with httptest requests, i.e. the
// same gate every server request passes: ServeHTTP -> Session.Authenticate ->
// CheckRateLimit / auth.ValidatePassword / RecordFailure|RecordSuccess, and
// ServeHTTP's 429 answer for a locked-out session. Two routes built with the
// builder calls the real server uses:
//   GET  /c24/probe  .Authentication(true)                     Basic header
//   POST /c24/logon  .Credentials(true).Permissions(ego.logon) credentials in
//        the JSON payload (exactly how commands/server.go declares
//        /services/admin/logon, the path `ego logon` uses).
// auth.AuthService is an in-memory counting user store: "the password was
// checked" is observed as "the user record (which holds the password hash)
// was read during the request"; ValidatePassword cannot check a password
// without that read, and ServeHTTP answers a locked-out session before any
// other code that reads the user.
//
// Time: every case runs in a testing/synctest bubble. All rapid draws happen
// before the bubble, the verdict leaves the bubble as a value (DESIGN §1.4a).
// The bubble first sleeps to 2200-01-01 (> real now + 10 years for the next
// 160 years), so the rate limiter's pruner goroutine, which runs outside the
// bubble on the real clock, never sees a bubble-time record as stale and never
// sees a bubble-time lockout as over (§1.4b). That goroutine (scanOnce) and the
// validation dictionary are triggered once outside the bubble by warm-up
// requests before the first case (§1.4c).
//
// Preconditions taken from real callers / documentation:
//   * ego.server.auth.maxattempts is a decimal integer 0..6, ego.server.auth.lockout
//     a Go duration string 1s..1h (docs/CONFIG.md; `time.ParseDuration`), both
//     fixed for the whole history.
//   * User names are stored lower-case (auth.SetUser) and both Authenticate
//     and ValidatePassword lower-case the presented name, so "Alice", "ALICE"
//     and "alice" are attempts against the same account; the generator uses
//     such spellings and the model keys on the lower-case name.
//   * Stored passwords are bcrypt hashes (cost 4 to keep cases cheap), users
//     hold ego.logon; presented passwords are non-empty and contain no ':'.
//   * An account that does not exist can be attacked like any other; every
//     password is wrong for it (optional third name).
//   * docs/CONFIG.md: the account is locked after `maxattempts` *consecutive*
//     failed logins, for the `lockout` duration; 0 disables lockout.
//
// Model (the statement, nothing more): per account the number of consecutive
// checked failures since the last success and a lockout deadline. An attempt
// at t < deadline is refused without a password check and changes nothing. At
// t > deadline the password is checked; success clears the record; a failure
// increments the count and, when count >= limit (limit > 0), sets the deadline
// to t + lockout. The count is NOT cleared by the mere expiry of a lockout
// (the statement counts "most recent consecutive failures"), so one further
// failure after expiry re-locks. Two documented freedoms make the model
// non-deterministic, and the oracle therefore tracks a *set* of possible
// states and only alarms when no state explains the observation:
//   * exactly at t == deadline either answer is accepted ("until the lockout
//     period has passed" does not say whether the end instant is inside);
//   * after an idle gap of more than twice the lockout since the account's
//     last failure, with no lockout pending, the background pruner may have
//     dropped the record (DESIGN §3.9): count kept and count reset are both
//     accepted.

import (
	"bytes"
	"encoding/json"
	"fmt"
	"net/http"
	"net/http/httptest"
	"sort"
	"strconv"
	"strings"
	"sync"
	"testing"
	"testing/synctest"
	"time"

	"github.com/tucats/ego/internal/cli/settings"
	"github.com/tucats/ego/internal/cli/ui"
	"github.com/tucats/ego/internal/defs"
	"github.com/tucats/ego/internal/errors"
	"github.com/tucats/ego/internal/router"
	"github.com/tucats/ego/internal/server/auth"
	"github.com/tucats/ego/verif/vkit"
	"golang.org/x/crypto/bcrypt"
	"pgregory.net/rapid"
)

// ---------------------------------------------------------------- case data

// Adv says how far the clock moves before an attempt.
//
//	abs:    Ns nanoseconds
//	frac:   Num/Den of the lockout duration plus Delta ns
//	expiry: up to the pending lockout deadline of the attempt's account (as
//	        the model knows it) plus Delta ns; Ns when no lockout is pending
//	        or the target is in the past.
type Adv struct {
	Kind  string `json:"kind"`
	Ns    int64  `json:"ns,omitempty"`
	Num   int64  `json:"num,omitempty"`
	Den   int64  `json:"den,omitempty"`
	Delta int64  `json:"delta,omitempty"`
}

// Op is one login attempt, preceded by a clock advance.
type Op struct {
	User  int    `json:"user"`  // 0..2
	Spell int    `json:"spell"` // 0 lower-case, 1 Capitalised, 2 UPPER-CASE
	Right bool   `json:"right"` // present the account's password
	Via   string `json:"via"`   // "basic" | "payload"
	Adv   Adv    `json:"adv"`
	// Repeat > 1: the attempt is made that many times in a row at the same
	// instant (a guessing burst; every wrong guess is a different password).
	Repeat int `json:"repeat,omitempty"`
}

// Case is a configuration plus a history.
type Case struct {
	Limit     int   `json:"limit"`      // ego.server.auth.maxattempts, 0..6
	LockoutMs int64 `json:"lockout_ms"` // ego.server.auth.lockout, 1000..3600000
	Ghost     bool  `json:"ghost"`      // the third name has no account
	Ops       []Op  `json:"ops"`
}

const maxOps = 30

var baseNames = [3]string{"alice", "bob", "carol"}

// ---------------------------------------------------------------- generator

func genAdv(t *rapid.T) Adv {
	switch k := rapid.IntRange(0, 19).Draw(t, "advClass"); {
	case k < 5: // same instant
		return Adv{Kind: "abs"}
	case k < 8: // tiny / small absolute steps
		return Adv{Kind: "abs", Ns: rapid.SampledFrom([]int64{1, 1000, int64(time.Millisecond), int64(time.Second), int64(5 * time.Second)}).Draw(t, "ns")}
	case k < 12: // fractions and multiples of the lockout, with +-1ns
		fr := rapid.SampledFrom([][2]int64{{1, 4}, {1, 2}, {3, 4}, {1, 1}, {1, 1}, {3, 2}, {2, 1}, {2, 1}, {3, 1}, {5, 1}}).Draw(t, "frac")
		return Adv{Kind: "frac", Num: fr[0], Den: fr[1], Delta: rapid.SampledFrom([]int64{0, 0, -1, 1}).Draw(t, "delta")}
	case k < 18: // aimed at the pending deadline of this account
		return Adv{Kind: "expiry",
			Delta: rapid.SampledFrom([]int64{-1, 0, 1, 1, int64(time.Millisecond), int64(time.Second), -int64(time.Millisecond)}).Draw(t, "delta"),
			Ns:    rapid.SampledFrom([]int64{0, 0, 1, int64(time.Second)}).Draw(t, "fallback")}
	default: // arbitrary
		return Adv{Kind: "abs", Ns: rapid.Int64Range(0, int64(3*time.Hour)).Draw(t, "any")}
	}
}

func genOp(t *rapid.T) Op {
	return Op{
		User:   rapid.SampledFrom([]int{0, 0, 0, 1, 1, 2}).Draw(t, "user"),
		Spell:  rapid.SampledFrom([]int{0, 0, 0, 0, 1, 2}).Draw(t, "spell"),
		Right:  rapid.IntRange(0, 4).Draw(t, "right") == 0,
		Via:    rapid.SampledFrom([]string{"basic", "basic", "payload"}).Draw(t, "via"),
		Adv:    genAdv(t),
		Repeat: rapid.SampledFrom([]int{1, 1, 1, 1, 1, 1, 2, 2, 3, 4, 6}).Draw(t, "repeat"),
	}
}

func genCase(t *rapid.T) Case {
	c := Case{
		Limit: rapid.SampledFrom([]int{0, 1, 1, 2, 2, 2, 3, 3, 4, 5, 6}).Draw(t, "limit"),
		Ghost: rapid.IntRange(0, 2).Draw(t, "ghost") == 0,
	}
	if rapid.Bool().Draw(t, "roundLockout") {
		c.LockoutMs = rapid.SampledFrom([]int64{1000, 2000, 5000, 30000, 60000, 90000, 900000, 3600000}).Draw(t, "lockout")
	} else {
		c.LockoutMs = rapid.Int64Range(1000, 3600000).Draw(t, "lockoutMs")
	}
	c.Ops = rapid.SliceOfN(rapid.Custom(genOp), 1, maxOps).Draw(t, "ops")
	return c
}

// ---------------------------------------------------------------- the model

// acct is one possible state of one account. Times are ns since the start of
// the history. until < 0: no lockout has been set since the record was
// (re)created.
type acct struct {
	count    int
	lastFail int64
	until    int64
	// diagnostics only (never decide a verdict, only the signature / labels)
	locks      int  // lockouts started in this history
	atExpiry   bool // the pending lockout was started by a failure at the exact end instant of the previous one
	afterClear bool // a success or prune cleared the record at least once
	kept       bool // the pending lockout was started on a count carried over an expired lockout
}

var fresh = acct{until: -1}

type step struct {
	obs  string
	next acct
}

// transitions lists what the statement allows for an attempt at time t.
func transitions(s acct, t int64, limit int, lockout int64, success bool) []step {
	var out []step
	if limit > 0 && s.until >= 0 && t <= s.until {
		out = append(out, step{"refused", s})
		if t < s.until {
			return out
		}
	}
	if success {
		n := fresh
		n.locks, n.afterClear = s.locks, true
		return append(out, step{"ok", n})
	}
	n := s
	if limit > 0 {
		n.count++
		n.lastFail = t
		if n.count >= limit {
			n.atExpiry = s.until >= 0 && t == s.until
			n.kept = s.until >= 0
			n.until = t + lockout
			n.locks++
		}
	}
	return append(out, step{"denied", n})
}

// prunable: the background pruner may have dropped this record before t.
func prunable(s acct, t int64, limit int, lockout int64) bool {
	return limit > 0 && s.count > 0 && (s.until < 0 || t > s.until) && t-s.lastFail > 2*lockout
}

func dedup(in []acct) []acct {
	var out []acct
	for _, a := range in {
		dup := false
		for _, b := range out {
			if a == b {
				dup = true
				break
			}
		}
		if !dup {
			out = append(out, a)
		}
	}
	return out
}

// ---------------------------------------------------------------- fixture

// store is the counting in-memory user store installed as auth.AuthService.
type store struct {
	mu     sync.Mutex
	users  map[string]defs.User
	reads  int
	writes int
}

func (s *store) ReadUser(session int, name string, doNotLog bool) (defs.User, error) {
	s.mu.Lock()
	defer s.mu.Unlock()
	s.reads++
	u, ok := s.users[name]
	if !ok {
		return defs.User{}, errors.ErrNoSuchUser.Context(name)
	}
	return u, nil
}

func (s *store) WriteUser(session int, user defs.User) error {
	s.mu.Lock()
	defer s.mu.Unlock()
	s.writes++
	s.users[user.Name] = user
	return nil
}

func (s *store) DeleteUser(session int, name string) error {
	s.mu.Lock()
	defer s.mu.Unlock()
	delete(s.users, name)
	return nil
}

func (s *store) ListUsers(suppress bool) map[string]defs.User {
	s.mu.Lock()
	defer s.mu.Unlock()
	m := map[string]defs.User{}
	for k, v := range s.users {
		m[k] = v
	}
	return m
}

func (s *store) Flush() error { return nil }
func (s *store) Close() error { return nil }

func (s *store) resetCounters() {
	s.mu.Lock()
	s.reads, s.writes = 0, 0
	s.mu.Unlock()
}

func (s *store) readCount() int {
	s.mu.Lock()
	defer s.mu.Unlock()
	return s.reads
}

type fixture struct {
	rt         *router.Router
	st         *store
	hashes     [3]string // bcrypt(cost 4) of rightPassword(i)
	handlerHit bool
	seq        int
}

var fx *fixture

func rightPassword(i int) string { return "Right-pw-" + strconv.Itoa(i) }
func wrongPassword(i int) string { return "wrong-pw-" + strconv.Itoa(i) }

func setup(t *testing.T) *fixture {
	f := &fixture{st: &store{users: map[string]defs.User{}}}
	ui.Active(ui.AllLoggers, false)
	for i := range f.hashes {
		h, err := bcrypt.GenerateFromPassword([]byte(rightPassword(i)), bcrypt.MinCost)
		if err != nil {
			t.Fatalf("bcrypt: %v", err)
		}
		f.hashes[i] = string(h)
	}
	auth.AuthService = f.st
	router.InitializeValidations()
	f.rt = router.NewRouter("c24")
	probe := func(s *router.Session, w http.ResponseWriter, r *http.Request) int {
		f.handlerHit = true
		w.WriteHeader(http.StatusOK)
		return http.StatusOK
	}
	f.rt.New("/c24/probe", probe, http.MethodGet).Authentication(true)
	f.rt.New("/c24/logon", probe, http.MethodPost).Credentials(true).Permissions(defs.LogonPermission)

	// Warm-up outside any bubble: starts the limiter's pruner goroutine
	// (scanOnce) on the real clock and proves both transports reach the
	// password check (a wrong answer here is a harness problem, not a verdict).
	settings.SetDefault(defs.AuthMaxAttemptsSetting, "3")
	settings.SetDefault(defs.AuthLockoutDurationSetting, "1s")
	f.st.users["warmup"] = defs.User{Name: "warmup", Password: f.hashes[0], Permissions: []string{defs.LogonPermission}}
	for _, via := range []string{"basic", "payload"} {
		if o := f.attempt("warmup", rightPassword(0), via); o != "ok" {
			t.Fatalf("harness: warm-up login via %s with the right password observed %q", via, o)
		}
		if o := f.attempt("warmup", wrongPassword(0), via); o != "denied" {
			t.Fatalf("harness: warm-up login via %s with a wrong password observed %q", via, o)
		}
		router.RecordSuccess("warmup")
	}
	delete(f.st.users, "warmup")
	return f
}

// attempt sends one login and classifies the answer:
//
//	refused  429 and the user record was not read, handler not run
//	ok       200, handler run, user record read
//	denied   401/403, handler not run, user record read
//
// anything else is returned as a descriptive string.
func (f *fixture) attempt(name, pass, via string) string {
	var req *http.Request
	if via == "payload" {
		b, _ := json.Marshal(map[string]string{"username": name, "password": pass})
		req = httptest.NewRequest(http.MethodPost, "/c24/logon", bytes.NewReader(b))
		req.Header.Set("Content-Type", "application/json")
	} else {
		req = httptest.NewRequest(http.MethodGet, "/c24/probe", nil)
		req.SetBasicAuth(name, pass)
	}
	w := httptest.NewRecorder()
	f.handlerHit = false
	f.st.resetCounters()
	f.rt.ServeHTTP(w, req)
	reads := f.st.readCount()
	code := w.Code
	switch {
	case code == http.StatusTooManyRequests && reads == 0 && !f.handlerHit:
		return "refused"
	case code == http.StatusTooManyRequests:
		return fmt.Sprintf("status 429 but user record read %d times (handler run: %v)", reads, f.handlerHit)
	case code == http.StatusOK && f.handlerHit && reads > 0:
		return "ok"
	case (code == http.StatusForbidden || code == http.StatusUnauthorized) && !f.handlerHit && reads > 0:
		return "denied"
	default:
		return fmt.Sprintf("status %d, user record reads %d, handler run %v", code, reads, f.handlerHit)
	}
}

func spell(name string, how int) string {
	switch how {
	case 1:
		return strings.ToUpper(name[:1]) + name[1:]
	case 2:
		return strings.ToUpper(name)
	}
	return name
}

// ---------------------------------------------------------------- oracle

var bubbleEpoch = time.Date(2200, 1, 1, 0, 0, 0, 0, time.UTC)

func validCase(c Case) string {
	if c.Limit < 0 || c.Limit > 6 || c.LockoutMs < 1000 || c.LockoutMs > 3600000 || len(c.Ops) == 0 || len(c.Ops) > 4*maxOps {
		return "configuration outside the stated domain"
	}
	for _, o := range c.Ops {
		if o.Repeat < 0 || o.Repeat > 6 || o.User < 0 || o.User > 2 || o.Spell < 0 || o.Spell > 2 || (o.Via != "basic" && o.Via != "payload") {
			return "operation outside the stated domain"
		}
		switch o.Adv.Kind {
		case "abs":
			if o.Adv.Ns < 0 {
				return "negative advance"
			}
		case "frac":
			if o.Adv.Den <= 0 || o.Adv.Num < 0 || o.Adv.Num > 100 {
				return "bad fraction"
			}
		case "expiry":
			if o.Adv.Ns < 0 {
				return "negative advance"
			}
		default:
			return "unknown advance kind"
		}
	}
	return ""
}

func oracle(t *testing.T) func(Case) vkit.Outcome {
	return func(c Case) vkit.Outcome {
		if why := validCase(c); why != "" {
			return vkit.Outcome{Skip: why}
		}
		f := fx
		// Everything that configures ego happens outside the bubble. Names are
		// unique per evaluation so that no limiter record of an earlier case
		// (the limiter's map is package state) can leak into this one.
		f.seq++
		var names [3]string
		users := map[string]defs.User{}
		for i, b := range baseNames {
			names[i] = b + strconv.Itoa(f.seq)
			if i == 2 && c.Ghost {
				continue
			}
			users[names[i]] = defs.User{Name: names[i], Password: f.hashes[i], Permissions: []string{defs.LogonPermission}}
		}
		f.st.mu.Lock()
		f.st.users = users
		f.st.mu.Unlock()
		lockout := time.Duration(c.LockoutMs) * time.Millisecond
		settings.SetDefault(defs.AuthMaxAttemptsSetting, strconv.Itoa(c.Limit))
		settings.SetDefault(defs.AuthLockoutDurationSetting, lockout.String())

		var out vkit.Outcome
		synctest.Test(t, func(*testing.T) {
			defer func() {
				if p := recover(); p != nil {
					out = vkit.Outcome{Fail: &vkit.Failure{Sig: "panic inside the bubble", Observed: fmt.Sprint(p), Expected: "no panic"}}
				}
			}()
			out = f.execute(c, names, int64(lockout))
		})
		for _, n := range names {
			router.RecordSuccess(n) // keeps the limiter's map small; isolation does not depend on it
		}
		return out
	}
}

func obsList(steps []step) string {
	m := map[string]bool{}
	for _, s := range steps {
		m[s.obs] = true
	}
	var l []string
	for k := range m {
		l = append(l, k)
	}
	sort.Strings(l)
	return strings.Join(l, " or ")
}

// execute runs inside the bubble.
func (f *fixture) execute(c Case, names [3]string, lockout int64) vkit.Outcome {
	time.Sleep(time.Until(bubbleEpoch))
	start := time.Now()

	states := [3][]acct{{fresh}, {fresh}, {fresh}}
	labels := map[string]bool{}
	relockObserved := false
	// tainted[u]: a checked failure was observed on account u at an instant
	// that is the lockout deadline in some model state, and the account has
	// been neither refused nor logged in since. It never decides a verdict;
	// it only gives the divergence that follows the root-cause signature of
	// the exact-deadline defect also when the pruner freedom (a second model
	// state with a smaller count) delays or reshapes its detection.
	var tainted [3]bool
	var trace []string
	var now int64

	attemptNo := 0
	for i, op := range c.Ops {
		prim := states[op.User][0]
		var d int64
		switch op.Adv.Kind {
		case "abs":
			d = op.Adv.Ns
		case "frac":
			d = lockout/op.Adv.Den*op.Adv.Num + op.Adv.Delta
		case "expiry":
			d = op.Adv.Ns
			if prim.until >= 0 && prim.until+op.Adv.Delta >= now {
				d = prim.until + op.Adv.Delta - now
			}
		}
		if d < 0 {
			d = 0
		}
		if d > 0 {
			time.Sleep(time.Duration(d))
		}
		now = int64(time.Since(start))

		exists := !(op.User == 2 && c.Ghost)
		success := op.Right && exists
		rep := op.Repeat
		if rep < 1 {
			rep = 1
		}
		for k := 0; k < rep; k++ {
			attemptNo++
			prim = states[op.User][0]
			pass := wrongPassword(attemptNo)
			if op.Right {
				pass = rightPassword(op.User)
			}

			// what the statement allows
			cands := append([]acct(nil), states[op.User]...)
			for _, s := range states[op.User] {
				if prunable(s, now, c.Limit, lockout) {
					p := fresh
					p.locks, p.afterClear = s.locks, true
					cands = append(cands, p)
					labels["idle gap > 2x lockout with failures on record (pruner may reset)"] = true
				}
			}
			cands = dedup(cands)
			var allowed []step
			for _, s := range cands {
				allowed = append(allowed, transitions(s, now, c.Limit, lockout, success)...)
			}

			obs := f.attempt(spell(names[op.User], op.Spell), pass, op.Via)
			if el := int64(time.Since(start)); el != now {
				return vkit.Outcome{Inconclusive: "a request consumed virtual time"}
			}
			trace = append(trace, fmt.Sprintf("#%d.%d t=%v %s/%s right=%v -> %s", i, k, time.Duration(now), baseNames[op.User], op.Via, op.Right, obs))
			if len(trace) > 60 {
				trace = append([]string{"..."}, trace[len(trace)-40:]...)
			}

			var next []acct
			for _, s := range allowed {
				if s.obs == obs {
					next = append(next, s.next)
				}
			}
			next = dedup(next)

			wasTainted := tainted[op.User]
			switch obs {
			case "denied":
				for _, s := range cands {
					if c.Limit > 0 && s.until >= 0 && s.until == now {
						tainted[op.User] = true
					}
				}
			case "ok", "refused":
				if len(next) > 0 {
					tainted[op.User] = false
				}
			}

			// classification (primary state = the deterministic reading)
			lockedNow := c.Limit > 0 && prim.until >= 0 && now < prim.until
			if prim.until >= 0 && c.Limit > 0 {
				switch now - prim.until {
				case -1:
					labels["attempt 1ns before the deadline"] = true
				case 0:
					labels["attempt exactly at the deadline"] = true
				case 1:
					labels["attempt 1ns after the deadline"] = true
				}
			}
			if lockedNow {
				if op.Right && exists {
					labels["right password presented while locked"] = true
				}
				if op.Spell != 0 {
					labels["other spelling of the name presented while locked"] = true
				}
				if op.Via == "payload" {
					labels["payload credentials presented while locked"] = true
				}
				if prim.locks >= 2 && obs == "refused" {
					relockObserved = true
					if prim.kept {
						labels["re-lock by failure(s) on a kept count (no success since the first lockout)"] = true
					} else {
						labels["second lockout after the count was cleared"] = true
					}
				}
			}
			for u := 0; u < 3; u++ {
				if u != op.User && c.Limit > 0 && states[u][0].until >= 0 && now < states[u][0].until && obs != "refused" {
					labels["another account is checked while one is locked"] = true
				}
			}
			if !lockedNow && success && prim.count > 0 {
				labels["success clears a non-zero failure count"] = true
			}
			if !lockedNow && obs == "denied" && c.Limit > 1 && prim.afterClear && prim.count+1 < c.Limit {
				labels["failure below the limit after a cleared count stays unlocked"] = true
			}

			if len(next) == 0 {
				return vkit.Outcome{
					Labels: []string{"limit=" + strconv.Itoa(c.Limit)},
					Fail: &vkit.Failure{
						Sig: signature(c, prim, wasTainted, obs, allowed),
						Observed: fmt.Sprintf("limit=%d lockout=%v; attempt #%d.%d on %q at t=%v (right password: %v, account exists: %v, via %s) observed %q; history: %s",
							c.Limit, time.Duration(lockout), i, k, baseNames[op.User], time.Duration(now), op.Right, exists, op.Via, obs, strings.Join(trace, "; ")),
						Expected: fmt.Sprintf("%s (model: %d consecutive failures, lockout deadline %s)", obsList(allowed), prim.count, deadlineText(prim)),
					}}
			}
			states[op.User] = next
		}
	}

	out := vkit.Outcome{NonTrivial: relockObserved}
	maxLocks := 0
	for u := 0; u < 3; u++ {
		if l := states[u][0].locks; l > maxLocks {
			maxLocks = l
		}
	}
	if maxLocks > 2 {
		maxLocks = 2
	}
	labels[fmt.Sprintf("limit=%d", c.Limit)] = true
	labels[fmt.Sprintf("lockouts started on one account: %d%s", maxLocks, map[bool]string{true: "+", false: ""}[maxLocks == 2])] = true
	if relockObserved {
		labels["re-lock observed (refused during a second lockout)"] = true
	}
	if c.Ghost {
		labels["third name has no account"] = true
	}
	for l := range labels {
		out.Labels = append(out.Labels, l)
	}
	sort.Strings(out.Labels)
	return out
}

func deadlineText(s acct) string {
	if s.until < 0 {
		return "none"
	}
	return "t=" + time.Duration(s.until).String()
}

const sigExactDeadline = "password checked while locked: lockout due from a failure at the exact end instant of the previous lockout"

// signature names the region of the failure, not the input.
func signature(c Case, prim acct, tainted bool, obs string, allowed []step) string {
	exp := obsList(allowed)
	if tainted {
		// Any divergence on an account whose last checked failure fell on an
		// exact deadline instant, before the account was next refused or
		// logged in, is a consequence of that failure not starting a lockout.
		return sigExactDeadline
	}
	switch {
	case exp == "refused" && (obs == "ok" || obs == "denied"):
		switch {
		case prim.atExpiry:
			return sigExactDeadline
		case prim.locks <= 1 && !prim.afterClear:
			return "password checked while locked: first lockout"
		case prim.locks <= 1:
			return "password checked while locked: first lockout after a cleared count"
		default:
			return "password checked while locked: re-lock after an expired lockout"
		}
	case obs == "refused" && !strings.Contains(exp, "refused"):
		switch {
		case c.Limit == 0:
			return "refused although the limit is 0"
		case prim.until < 0 && prim.afterClear:
			return "refused although not locked: count below the limit after a success"
		case prim.until < 0:
			return "refused although not locked: count below the limit"
		default:
			return "refused although the lockout period has passed"
		}
	case obs == "ok":
		return "login accepted where the model expects " + exp
	case obs == "denied":
		return "login denied where the model expects " + exp
	case strings.HasPrefix(obs, "status 429"):
		return "429 but the user record was read"
	default:
		return "unexpected answer (" + strings.SplitN(obs, ",", 2)[0] + ") where the model expects " + exp
	}
}

// ---------------------------------------------------------------- fixed cases

func fixedCases() []Case {
	w := func(u int) Op { return Op{User: u, Via: "basic", Adv: Adv{Kind: "abs"}} }
	r := func(u int) Op { return Op{User: u, Right: true, Via: "basic", Adv: Adv{Kind: "abs"}} }
	at := func(o Op, a Adv) Op { o.Adv = a; return o }
	exp := func(delta int64) Adv { return Adv{Kind: "expiry", Delta: delta} }
	return []Case{
		// lock, refused with the right password, expiry, one more failure re-locks, success after the second expiry
		{Limit: 3, LockoutMs: 60000, Ops: []Op{w(0), w(0), w(0), r(0), at(r(0), exp(-1)), at(w(0), exp(1)), r(0), at(r(0), exp(1)), w(0)}},
		// success clears the count
		{Limit: 2, LockoutMs: 1000, Ops: []Op{w(0), r(0), w(0), r(0), w(0), w(0), r(0)}},
		// independence and spellings
		{Limit: 2, LockoutMs: 5000, Ops: []Op{w(0), w(1), {User: 0, Spell: 2, Via: "payload", Adv: Adv{Kind: "abs"}}, r(1), {User: 0, Spell: 1, Right: true, Via: "basic", Adv: Adv{Kind: "abs"}}, r(2)}},
		// limit 0 never locks
		{Limit: 0, LockoutMs: 1000, Ops: []Op{w(0), w(0), w(0), w(0), w(0), w(0), w(0), r(0)}},
		// account that does not exist
		{Limit: 1, LockoutMs: 2000, Ghost: true, Ops: []Op{r(2), r(2), at(r(2), exp(1)), r(2)}},
		// long idle gap (pruner freedom)
		{Limit: 3, LockoutMs: 1000, Ops: []Op{w(0), w(0), at(w(0), Adv{Kind: "frac", Num: 3, Den: 1}), w(0), r(0)}},
	}
}

// ---------------------------------------------------------------- test

func TestC24(t *testing.T) {
	fx = setup(t)
	vkit.Run(t, vkit.Spec[Case]{
		ID:    "C24",
		Level: "exploration",
		Rule: "histories of 1..30 steps of 1..6 login attempts (3 names incl. case spellings and optionally a name without account; right/wrong password; Basic header or logon payload; " +
			"clock advance: 0, small, fractions/multiples of the lockout +-1ns, aimed at the pending deadline +-1ns, arbitrary up to 3h) with maxattempts 0..6 and lockout 1s..1h, " +
			"through router.ServeHTTP inside a synctest bubble, against a set-valued model of the statement. " +
			"Non-trivial: on some account a lockout expired, further failure(s) started a second lockout, and an attempt was refused during it; distinct by history.",
		Assumptions: []string{
			"'password checked' is observed as 'the user record was read from auth.AuthService during the request'",
			"exactly at the deadline instant both 'refused' and 'checked' are accepted",
			"after an idle gap > 2x lockout (no lockout pending) both 'count kept' and 'count reset' are accepted (background pruner, DESIGN 3.9); the pruner goroutine itself runs on the real clock and never acts on bubble-time records",
			"the failure count is not cleared by the expiry of a lockout, only by a success (statement: 'most recent consecutive failures')",
			"settings are fixed during a history",
		},
		Gen:      genCase,
		Oracle:   oracle(t),
		Fixed:    fixedCases,
		Quick:    1500,
		Thorough: 8000,
	})
}
