// Package c13 decides property C13, "ego test isolates each test":
//
//	In a test file, a test that fails an assertion, raises an error, or fails
//	to compile is reported as failed and does not prevent any later test in
//	the same run from running and being reported with its own result; only an
//	explicit @fail stops the run.
//
// The check writes generated test files (2..8 `@test "name"` blocks of kind
// pass / failed @assert / run-time error / compile error, in any order), runs
// the real CLI (`$VERIF_BIN/ego test FILE`) on each and compares what the CLI
// printed with what docs/internals/TESTING.md documents:
//
//   - "@test": "If that body fails to compile, or raises an uncaught runtime
//     error (most commonly a failed @assert), the test is reported as failed --
//     a (FAIL) status line in the same format as a passing test's (PASS) line,
//     immediately followed by the underlying error -- and ego test moves on to
//     compile and run the rest of the file's tests normally."
//   - "A test that reaches its own end without error is automatically reported
//     as passed."
//   - "Output capture": the status line is "TEST: <description> ... (PASS)" or
//     "TEST: <description> ... (FAIL)"; what a test printed comes out before it.
//   - internal/commands/test.go: the summary line "TEST: Completed a total of N
//     tests, M failed in <t>" ("how many tests ran and how many of those
//     failed"), and a non-zero exit status when any test failed.
//
// Nothing else is asserted (no column widths, no elapsed times, no error
// texts, nothing about what a *failing* test printed before it failed).
//
// Preconditions taken from the documentation and from the corpus under
// /repo/tests (what a real test author writes):
//
//   - @fail is never generated (the documented exception), nor T.Fail, panic()
//     or os.Exit, which are not "a failed assertion / an error / a compile
//     error" in the sense of the statement.
//   - test names are unique, ASCII, at most 48 characters (TESTING.md).
//   - every block is brace-balanced and tokenizes: the documented boundary of
//     a test is "everything up to the next @test" found by a brace-depth scan
//     of the token stream, so an unbalanced brace or an unterminated string is
//     by design not confined to its block.
//   - variables declared outside a `{}` block are unique across the file
//     (TESTING.md: "must be a unique name across all tests"); the generator
//     suffixes every variable with the block index.
//   - a bare-style test (statements directly after `@test`, no `{}` — "an older
//     but still-supported style", testing.go collectTestBodyTokens) never has
//     "declared but never used" as its compile error: unused file-level
//     variables are checked once for the whole file by design.
//   - default settings: HOME and EGO_PATH point at an empty scratch directory.
package c13

import (
	"bytes"
	"fmt"
	"os"
	"os/exec"
	"path/filepath"
	"regexp"
	"sort"
	"strconv"
	"strings"
	"sync"
	"testing"

	"github.com/tucats/ego/verif/vkit"
	"pgregory.net/rapid"
)

// Block is one @test of the generated file.
type Block struct {
	Kind  string `json:"kind"`  // pass | assert | runtime | compile
	Shape string `json:"shape"` // name in the kind's shape table
	Style string `json:"style"` // braced | bare
	Print bool   `json:"print"` // print a marker line first
	Name  int    `json:"name"`  // length class of the test name: 0 short, 1 medium, 2 = 48 characters
}

// Case is a test file.
type Case struct {
	Blocks []Block `json:"blocks"`
}

type shape struct {
	name  string
	lines []string // `$` is replaced by the block's variable suffix
	// bareOK: usable in bare style (see preconditions). declFirst: in bare
	// style a `:=` declaration is compiled before the error is met.
	noBare    bool
	declFirst bool
}

var shapes = map[string][]shape{
	"pass": {
		{name: "assert-true", lines: []string{`@assert true`}},
		{name: "assert-eq", lines: []string{`x$ := 5`, `@assert x$ == 5`}},
		{name: "closure-loop", lines: []string{
			`f$ := func(a int) int { return a * 2 }`,
			`s$ := 0`,
			`for i := 0; i < 4; i = i + 1 {`,
			`    s$ = s$ + f$(i)`,
			`}`,
			`@assert s$ == 12`}},
		{name: "try-catch-div0", lines: []string{
			`caught$ := false`,
			`z$ := 0`,
			`try {`,
			`    y$ := 1 / z$`,
			`    @assert y$ == 0`,
			`} catch {`,
			`    caught$ = true`,
			`}`,
			`@assert caught$`}},
		{name: "try-catch-error-directive", lines: []string{
			`ok$ := false`,
			`try {`,
			`    @error "expected"`,
			`} catch {`,
			`    ok$ = true`,
			`}`,
			`@assert ok$`}},
		{name: "strings", lines: []string{
			`s$ := strings.ToUpper("ab")`,
			`@assert s$ == "AB"`,
			`@assert len(s$) == 2`}},
		{name: "nested-block", lines: []string{
			`a$ := 1`,
			`{`,
			`    b$ := a$ + 1`,
			`    @assert b$ == 2`,
			`}`}},
		{name: "map", lines: []string{
			`m$ := map[string]int{"a": 1}`,
			`@assert m$["a"] == 1`}},
		{name: "array-loop", lines: []string{
			`a$ := []int{1, 2, 3}`,
			`t$ := 0`,
			`for _, v := range a$ {`,
			`    t$ = t$ + v`,
			`}`,
			`@assert t$ == 6`}},
	},
	"assert": {
		{name: "literal-false", lines: []string{`@assert false`}},
		{name: "eq-false", lines: []string{`x$ := 3`, `@assert x$ == 4`}},
		{name: "after-true-asserts", lines: []string{`@assert true`, `@assert 1 == 1`, `@assert 1 == 2`}},
		{name: "in-closure", lines: []string{
			`f$ := func(a int) {`,
			`    @assert a == 2`,
			`}`,
			`f$(3)`}},
		{name: "in-loop", lines: []string{
			`for i := 0; i < 4; i = i + 1 {`,
			`    @assert i < 2`,
			`}`}},
		{name: "T.Equal", lines: []string{`@assert T.Equal(1, 2)`}},
		{name: "string-compare", lines: []string{`s$ := "a" + "b"`, `@assert s$ == "ba"`}},
		{name: "after-caught-error", lines: []string{
			`z$ := 0`,
			`try {`,
			`    y$ := 1 / z$`,
			`    @assert y$ == 0`,
			`} catch {`,
			`}`,
			`@assert z$ == 1`}},
	},
	"runtime": {
		{name: "div0", lines: []string{`z$ := 0`, `y$ := 10 / z$`, `@assert y$ == 0`}},
		{name: "bad-index", lines: []string{`a$ := []int{1, 2, 3}`, `i$ := 7`, `v$ := a$[i$]`, `@assert v$ == 0`}},
		{name: "nil-pointer", lines: []string{`var p$ *int`, `x$ := *p$`, `@assert x$ == 0`}},
		{name: "bad-conversion", lines: []string{`x$ := int("abc")`, `@assert x$ == 0`}},
		{name: "error-directive", lines: []string{`@error "boom"`}},
		{name: "in-function", lines: []string{
			`f$ := func() int {`,
			`    a := []int{1}`,
			`    return a[5]`,
			`}`,
			`v$ := f$()`,
			`@assert v$ == 1`}},
		{name: "nested-functions", lines: []string{
			`g$ := func() int {`,
			`    z := 0`,
			`    return 5 / z`,
			`}`,
			`f$ := func() int {`,
			`    return g$() + 1`,
			`}`,
			`@assert f$() == 1`}},
		{name: "unknown-package-member", lines: []string{`v$ := strings.Nope("x")`, `@assert v$ == 1`}},
		{name: "unknown-struct-member", lines: []string{`s$ := struct{ a int }{a: 1}`, `v$ := s$.zz`, `@assert v$ == 1`}},
		{name: "undefined-symbol", lines: []string{`@assert nosuchvar$ == 1`}},
		{name: "after-caught-error", lines: []string{
			`z$ := 0`,
			`a$ := []int{1}`,
			`try {`,
			`    y$ := 1 / z$`,
			`    @assert y$ == 0`,
			`} catch {`,
			`}`,
			`v$ := a$[9]`,
			`@assert v$ == 1`}},
		{name: "in-catch-handler", lines: []string{
			`a$ := []int{1}`,
			`try {`,
			`    @error "first"`,
			`} catch {`,
			`    v$ := a$[9]`,
			`    @assert v$ == 1`,
			`}`}},
		{name: "in-loop", lines: []string{
			`a$ := []int{1, 2}`,
			`t$ := 0`,
			`for i := 0; i < 5; i = i + 1 {`,
			`    t$ = t$ + a$[i]`,
			`}`,
			`@assert t$ == 3`}},
	},
	"compile": {
		{name: "missing-expression", lines: []string{`q$ :=`}, declFirst: true},
		{name: "unknown-statement", lines: []string{`pring "x"`}},
		{name: "unclosed-paren", lines: []string{`x$ := (1 + 2`, `@assert x$ == 3`}, declFirst: true},
		{name: "unused-variable", lines: []string{`{`, `    x$ := 1`, `}`}},
		{name: "return-value", lines: []string{`return 5`}},
		{name: "bad-operator", lines: []string{`x$ := 5 $$ 3`, `@assert x$ == 3`}, declFirst: true},
		{name: "if-without-condition", lines: []string{`if {`, `}`}},
		{name: "for-missing-init", lines: []string{`for i := {`, `}`}, declFirst: true},
		{name: "empty-assert", lines: []string{`@assert`}},
		{name: "bad-function-literal", lines: []string{`f$ := func( {`, `}`, `f$()`}, declFirst: true},
		{name: "error-after-good-statements", lines: []string{`v$ := 3`, `@assert v$ == 3`, `w$ := (1 +`, `@assert w$ == 3`}, declFirst: true},
		{name: "error-in-nested-block", lines: []string{`c$ := 3`, `@assert c$ == 3`, `{`, `    x$ := c$ +`, `    @assert x$ == 3`, `}`}},
	},
}

var kinds = []string{"pass", "assert", "runtime", "compile"}

func findShape(kind, name string) (shape, bool) {
	for _, s := range shapes[kind] {
		if s.name == name {
			return s, true
		}
	}
	return shape{}, false
}

const filler = " abcdefg hijklmn opqrstu vwxyz abcdefg hijklmn opqrstu"

// testName is unique per index, ASCII, no trailing blank, <= 48 characters.
func testName(i int, class int) string {
	base := fmt.Sprintf("t%d", i)
	n := map[int]int{0: len(base), 1: 20, 2: 48}[class]
	if n < len(base) {
		n = len(base)
	}
	s := (base + filler)[:n]
	if strings.HasSuffix(s, " ") {
		s = s[:len(s)-1] + "q"
	}
	return s
}

func marker(i int) string { return fmt.Sprintf("MARK-%d-KRAM", i) }

// render builds the test file of a case.
func render(c Case) string {
	var b strings.Builder
	for i, blk := range c.Blocks {
		sh, _ := findShape(blk.Kind, blk.Shape)
		fmt.Fprintf(&b, "@test %q\n", testName(i, blk.Name))
		indent := ""
		if blk.Style != "bare" {
			b.WriteString("{\n")
			indent = "    "
		}
		if blk.Print {
			fmt.Fprintf(&b, "%sfmt.Println(%q)\n", indent, marker(i))
		}
		for _, l := range sh.lines {
			l = strings.ReplaceAll(l, "$$", "\x00")
			l = strings.ReplaceAll(l, "$", "_"+strconv.Itoa(i))
			l = strings.ReplaceAll(l, "\x00", "$")
			b.WriteString(indent + l + "\n")
		}
		if blk.Style != "bare" {
			b.WriteString("}\n")
		}
		b.WriteString("\n")
	}
	return b.String()
}

// ---- running the CLI ----

var (
	setupOnce sync.Once
	homeDir   string
	workDir   string
	egoBin    string
	setupErr  error
	caseSeq   int
)

func setup() {
	setupOnce.Do(func() {
		bin := os.Getenv("VERIF_BIN")
		if bin == "" {
			bin = filepath.Join(vkit.Root(), ".bin")
		}
		realBin := filepath.Join(bin, "ego")
		if _, err := os.Stat(realBin); err != nil {
			setupErr = fmt.Errorf("ego binary: %v", err)
			return
		}
		base := os.Getenv("VERIF_RUN_DIR")
		if base == "" {
			base, setupErr = os.MkdirTemp("", "c13-")
			if setupErr != nil {
				return
			}
		}
		root := filepath.Join(base, fmt.Sprintf("c13-%d-%d", vkit.ShardIndex(), os.Getpid()))
		homeDir = filepath.Join(root, "home")
		workDir = filepath.Join(root, "work")
		for _, d := range []string{homeDir, workDir, filepath.Join(root, "bin")} {
			if setupErr = os.MkdirAll(d, 0o755); setupErr != nil {
				return
			}
		}
		// ego takes the directory of argv[0] as its default ego path (where it
		// would unpack its library): run it through a link inside the scratch
		// directory so that nothing can be written next to the real binary.
		egoBin = filepath.Join(root, "bin", "ego")
		if setupErr = os.Symlink(realBin, egoBin); setupErr != nil {
			return
		}
		// first use: lets the binary create its profile (and unpack whatever it
		// wants) in the scratch home once, outside any judged case.
		_, _, _, setupErr = egoTest("@test \"warm up\"\n{\n    @assert true\n}\n")
	})
}

func egoEnv() []string {
	// PATH is empty on purpose: at start-up ego asks gopsutil for the host
	// description, which runs /usr/bin/lsb_release (a shell script spawning
	// seven more processes) when it is found.
	return []string{"HOME=" + homeDir, "EGO_PATH=" + filepath.Dir(egoBin), "PATH=/nonexistent", "LANG=C", "EGO_LANG=en"}
}

// egoTest runs `ego test FILE` on a file holding src.
func egoTest(src string) (stdout, stderr string, exit int, err error) {
	caseSeq++
	dir := filepath.Join(workDir, fmt.Sprintf("c%06d", caseSeq))
	if err = os.MkdirAll(dir, 0o755); err != nil {
		return
	}
	defer os.RemoveAll(dir)
	file := filepath.Join(dir, "gen.ego")
	if err = os.WriteFile(file, []byte(src), 0o644); err != nil {
		return
	}
	cmd := exec.Command(egoBin, "test", file)
	cmd.Dir = dir
	cmd.Env = egoEnv()
	cmd.Stdin = nil
	var so, se bytes.Buffer
	cmd.Stdout, cmd.Stderr = &so, &se
	runErr := cmd.Run()
	stdout, stderr = so.String(), se.String()
	if runErr != nil {
		if ee, ok := runErr.(*exec.ExitError); ok && ee.ProcessState.Exited() {
			return stdout, stderr, ee.ExitCode(), nil
		}
		return stdout, stderr, -1, runErr
	}
	return stdout, stderr, 0, nil
}

var summaryRE = regexp.MustCompile(`^TEST: Completed(?: a total of (\d+))? tests(?:, (\d+) failed)?(?: over \d+ iterations)? in `)

type report struct {
	pass, fail []int // line numbers of the status lines of one test
}

// ---- oracle ----

func oracle(c Case) vkit.Outcome {
	var out vkit.Outcome
	setup()
	if setupErr != nil {
		out.Skip = "setup: " + setupErr.Error()
		return out
	}
	n := len(c.Blocks)
	for _, b := range c.Blocks {
		sh, ok := findShape(b.Kind, b.Shape)
		if !ok || (b.Style == "bare" && sh.noBare) {
			out.Skip = "unknown or inapplicable shape"
			return out
		}
	}

	// classification
	var seq []string
	nFailing, passAfterFail, seenFail := 0, false, false
	lbl := map[string]bool{}
	for _, b := range c.Blocks {
		seq = append(seq, b.Kind+"/"+b.Shape+"/"+b.Style+fmt.Sprint(b.Print))
		lbl["kind="+b.Kind] = true
		lbl["style="+b.Style+" kind="+b.Kind] = true
		if b.Kind == "pass" {
			if seenFail {
				passAfterFail = true
				lbl["pass-after-failing"] = true
			}
			if b.Print {
				lbl["printing-pass"] = true
			}
		} else {
			if seenFail {
				lbl["failing-after-failing"] = true
			}
			seenFail = true
			nFailing++
			if b.Print {
				lbl["printing-failing kind="+b.Kind] = true
			}
		}
	}
	for i := 1; i < n; i++ {
		if c.Blocks[i-1].Kind != "pass" {
			lbl["follows:"+c.Blocks[i-1].Kind+"->"+c.Blocks[i].Kind] = true
		}
	}
	lbl[fmt.Sprintf("blocks=%d", n)] = true
	lbl[fmt.Sprintf("failing=%d", nFailing)] = true
	if c.Blocks[n-1].Kind != "pass" {
		lbl["last-block-failing"] = true
	}
	for l := range lbl {
		out.Labels = append(out.Labels, l)
	}
	sort.Strings(out.Labels)
	out.NonTrivial = passAfterFail
	out.Key = strings.Join(seq, "|")

	src := render(c)
	stdout, stderr, exit, err := egoTest(src)
	if err != nil {
		out.Inconclusive = "could not run ego"
		return out
	}
	observed := fmt.Sprintf("exit=%d\n--- file ---\n%s--- stdout ---\n%s--- stderr ---\n%s", exit, src, stdout, stderr)
	fail := func(sig, expected string) vkit.Outcome {
		out.Fail = &vkit.Failure{Sig: sig, Observed: observed, Expected: expected}
		return out
	}

	// parse stdout
	lines := strings.Split(stdout, "\n")
	reps := make([]report, n)
	var order []int
	total, failed, haveSummary := -1, -1, false
	for ln, line := range lines {
		if m := summaryRE.FindStringSubmatch(line); m != nil {
			haveSummary = true
			total, failed = 0, 0
			if m[1] != "" {
				total, _ = strconv.Atoi(m[1])
			}
			if m[2] != "" {
				failed, _ = strconv.Atoi(m[2])
			}
			continue
		}
		for i, b := range c.Blocks {
			prefix := "TEST: " + testName(i, b.Name)
			if !strings.HasPrefix(line, prefix) {
				continue
			}
			rest := strings.TrimLeft(line[len(prefix):], " ")
			if len(rest) == len(line[len(prefix):]) {
				continue // the name is followed by something else: a longer name
			}
			switch {
			case strings.HasPrefix(rest, "(PASS)"):
				reps[i].pass = append(reps[i].pass, ln)
				order = append(order, i)
			case strings.HasPrefix(rest, "(FAIL)"):
				reps[i].fail = append(reps[i].fail, ln)
				order = append(order, i)
			}
		}
	}

	anyStatus := len(order) > 0
	if !anyStatus && n > 0 && (!haveSummary || total == 0) {
		// nothing at all was run or reported
		region := "other"
		for _, b := range c.Blocks {
			if sh, _ := findShape(b.Kind, b.Shape); b.Kind == "compile" && b.Style == "bare" && sh.declFirst {
				region = "bare-style compile error after a := declaration"
			}
		}
		return fail("no test run or reported, whole file rejected: "+region,
			"every test reported with its own result (TESTING.md: a body that fails to compile is reported as failed and the rest of the file's tests are compiled and run normally)")
	}

	prevFailing := func(i int) string {
		for j := i - 1; j >= 0; j-- {
			if c.Blocks[j].Kind != "pass" {
				return c.Blocks[j].Kind
			}
		}
		return "-"
	}

	// 1. anything wrong other than "a test failing at run time has no status line"
	var missingFailLine []int
	for i, b := range c.Blocks {
		np, nf := len(reps[i].pass), len(reps[i].fail)
		if b.Kind == "pass" {
			switch {
			case np == 1 && nf == 0:
			case np+nf == 0:
				return fail(fmt.Sprintf("passing test not reported; nearest failing test before it: %s", prevFailing(i)),
					fmt.Sprintf("one (PASS) line for test %q", testName(i, b.Name)))
			case nf > 0:
				return fail(fmt.Sprintf("passing test reported (FAIL) shape=%s style=%s; nearest failing test before it: %s", b.Shape, b.Style, prevFailing(i)),
					fmt.Sprintf("one (PASS) line for test %q", testName(i, b.Name)))
			default:
				return fail("test reported more than once kind=pass", fmt.Sprintf("exactly one status line for test %q", testName(i, b.Name)))
			}
			if b.Print && strings.Count(stdout, marker(i)) != 1 {
				return fail(fmt.Sprintf("output of a passing test printed %d times; nearest failing test before it: %s", strings.Count(stdout, marker(i)), prevFailing(i)),
					fmt.Sprintf("marker %s printed once (the test ran)", marker(i)))
			}
			continue
		}
		switch {
		case nf == 1 && np == 0:
		case np > 0:
			return fail(fmt.Sprintf("failing test reported (PASS) kind=%s", b.Kind),
				fmt.Sprintf("one (FAIL) line for test %q", testName(i, b.Name)))
		case nf > 1:
			return fail("test reported more than once kind="+b.Kind, fmt.Sprintf("exactly one status line for test %q", testName(i, b.Name)))
		default: // no status line
			if b.Kind == "compile" {
				return fail(fmt.Sprintf("no (FAIL) status line kind=compile style=%s", b.Style),
					fmt.Sprintf("one (FAIL) line for test %q", testName(i, b.Name)))
			}
			missingFailLine = append(missingFailLine, i)
		}
	}
	// 2. order of the status lines = file order
	for k := 1; k < len(order); k++ {
		if order[k] <= order[k-1] {
			return fail("status lines out of file order", "status lines in the order of the tests in the file")
		}
	}
	// 3. summary and exit status
	if !haveSummary {
		return fail("no summary line", "TEST: Completed a total of N tests[, M failed] in <t>")
	}
	if total != n {
		return fail("summary: wrong total", fmt.Sprintf("a total of %d tests", n))
	}
	if failed != nFailing {
		return fail("summary: wrong failed count", fmt.Sprintf("%d failed", nFailing))
	}
	if nFailing > 0 && exit == 0 {
		return fail("exit status 0 although a test failed", "non-zero exit status")
	}
	if nFailing == 0 && exit != 0 {
		return fail("non-zero exit status although every test passed", "exit status 0")
	}
	// 4. the status line of a test that failed at run time
	if len(missingFailLine) > 0 {
		i := missingFailLine[0]
		return fail("no (FAIL) status line for a test that fails at run time (failed @assert or run-time error)",
			fmt.Sprintf("one (FAIL) line for test %q (kind %s)", testName(i, c.Blocks[i].Name), c.Blocks[i].Kind))
	}
	return out
}

// ---- generator ----

func genBlock(t *rapid.T, i int) Block {
	kind := rapid.SampledFrom(kinds).Draw(t, "kind")
	style := "braced"
	if rapid.IntRange(0, 3).Draw(t, "style") == 0 {
		style = "bare"
	}
	var names []string
	for _, s := range shapes[kind] {
		if style == "bare" && s.noBare {
			continue
		}
		names = append(names, s.name)
	}
	return Block{
		Kind:  kind,
		Shape: rapid.SampledFrom(names).Draw(t, "shape"),
		Style: style,
		Print: rapid.Bool().Draw(t, "print"),
		Name:  rapid.SampledFrom([]int{0, 0, 1, 1, 2}).Draw(t, "name"),
	}
}

func gen(t *rapid.T) Case {
	n := rapid.IntRange(2, 8).Draw(t, "n")
	var c Case
	for i := 0; i < n; i++ {
		c.Blocks = append(c.Blocks, genBlock(t, i))
	}
	return c
}

// fixed: every shape in both styles, so that each shape is known to behave as
// its kind says before the random search mixes them. Passing shapes go eight to
// a file; failing shapes four to a file, each followed by a passing test
// (alternately printing); bare-style compile errors get a file of their own
// (pass, X, pass) because one of them can take the whole file down and would
// hide its neighbours.
func fixed() []Case {
	var cases []Case
	group := func(insts []Block, per int, interleave bool) {
		for i := 0; i < len(insts); i += per {
			var c Case
			if !interleave && per == 1 {
				c.Blocks = append(c.Blocks, Block{Kind: "pass", Shape: "assert-true", Style: "braced"})
			}
			for j := i; j < i+per && j < len(insts); j++ {
				c.Blocks = append(c.Blocks, insts[j])
				if interleave || per == 1 {
					c.Blocks = append(c.Blocks, Block{Kind: "pass", Shape: "assert-eq", Style: "braced", Print: j%2 == 0, Name: j % 3})
				}
			}
			cases = append(cases, c)
		}
	}
	for _, k := range kinds {
		var braced, bare []Block
		for n, s := range shapes[k] {
			braced = append(braced, Block{Kind: k, Shape: s.name, Style: "braced", Print: n%2 == 0, Name: n % 3})
			if !s.noBare {
				bare = append(bare, Block{Kind: k, Shape: s.name, Style: "bare", Print: n%2 == 1, Name: (n + 1) % 3})
			}
		}
		switch k {
		case "pass":
			group(append(braced, bare...), 8, false)
		case "compile":
			group(braced, 4, true)
			group(bare, 1, false)
		default:
			group(append(braced, bare...), 4, true)
		}
	}
	return cases
}

func TestC13(t *testing.T) {
	vkit.Run(t, vkit.Spec[Case]{
		ID:    "C13",
		Level: "exploration",
		Rule: "test files of 2..8 @test blocks; each block is pass / failed @assert / run-time error / compile error (8-13 shapes per kind), braced or bare style, optionally printing a marker first, name length short/20/48; " +
			"run with the real `ego test FILE`; oracle: one (PASS) line per passing test and one (FAIL) line per other test, in file order, markers of passing tests printed once, summary total/failed counts, exit status. " +
			"Non-trivial: a passing test follows a failing one; distinct by the (kind, shape, style, print) sequence.",
		Assumptions: []string{
			"@fail, T.Fail, panic and os.Exit are not generated (documented exception / not in the statement)",
			"each block is brace-balanced and tokenizes (the documented test boundary is a brace-depth scan up to the next @test)",
			"file-level variables are unique per test; a bare-style test never has 'declared but never used' as its compile error (checked once per file by design)",
			"status line format 'TEST: <name> <blanks> (PASS)|(FAIL)' and summary 'TEST: Completed a total of N tests, M failed in' as documented in TESTING.md / commands/test.go",
		},
		Gen:      gen,
		Oracle:   oracle,
		Fixed:    fixed,
		Quick:    40,
		Thorough: 400,
	})
}
