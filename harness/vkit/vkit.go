// Package vkit is the shared runner of the /verif checks: it drives a
// property (generator + oracle) with rapid, records what was covered, shrinks
// failures to a replay file, matches failures against known_findings.json and
// writes the evidence file (or an evidence shard that ./check merges).
//
// A check is a Spec[C]: Gen draws a case C (plain, JSON-serialisable data; all
// random choices happen here), Oracle executes C against ego and returns an
// Outcome. Oracle must be a pure function of C and the code under test.
package vkit

import (
	"crypto/sha256"
	"encoding/binary"
	"encoding/json"
	"fmt"
	"os"
	"path/filepath"
	"runtime/debug"
	"sort"
	"strconv"
	"strings"
	"sync"
	"testing"
	"time"

	"pgregory.net/rapid"
)

// Failure describes one violation of the property by one case.
type Failure struct {
	// Sig identifies the root-cause region as narrowly as the check can
	// express it; it is what known_findings.json entries match on.
	Sig      string `json:"sig"`
	Observed string `json:"observed"`
	Expected string `json:"expected"`
}

// Outcome is what an oracle reports for one case.
type Outcome struct {
	// NonTrivial is true when the case satisfies the property's stated
	// non-triviality rule.
	NonTrivial bool
	// Key distinguishes cases (default: hash of the JSON of the case).
	Key string
	// Labels classify the case (histogram in the evidence).
	Labels []string
	// Fail is nil when the property held.
	Fail *Failure
	// Skip: the case could not be judged (precondition not met); it is
	// counted separately and is neither an evaluation nor a violation.
	Skip string
	// Inconclusive: the case was executed but no verdict is possible
	// (e.g. a worker was killed on timeout where the property does not make
	// timeouts a violation).
	Inconclusive string
}

// Spec describes a check.
type Spec[C any] struct {
	ID    string // property id, e.g. "C37"
	Level string // exploration | fault_enumeration
	Rule  string // how cases are generated and what makes one non-trivial / distinct
	// Assumptions are copied to the evidence.
	Assumptions []string
	Gen         func(t *rapid.T) C
	Oracle      func(c C) Outcome
	// Quick / Thorough are rapid case counts per shard (before VERIF_CHECKS
	// override).
	Quick, Thorough int
	// Fixed cases that are always run first (enumerated part of the domain,
	// corpus files, hand-written regression cases).
	Fixed func() []C
	// Exhaustive is set when Fixed enumerates a finite domain completely and
	// Gen is nil.
	Exhaustive bool
	// MaxRounds bounds how many distinct violations one run searches for
	// (default 4).
	MaxRounds int
	// Extra is merged into coverage at the end (may be nil).
	Extra func() map[string]any
}

type replayFile struct {
	Property string          `json:"property"`
	Sig      string          `json:"sig"`
	Observed string          `json:"observed"`
	Expected string          `json:"expected"`
	Case     json.RawMessage `json:"case"`
	Note     string          `json:"note,omitempty"`
}

type knownFinding struct {
	Property string `json:"property"`
	// Sig is matched exactly against Failure.Sig.
	Sig    string `json:"sig"`
	What   string `json:"what"`
	Replay string `json:"replay,omitempty"`
}

type knownFile struct {
	Findings []knownFinding `json:"findings"`
	Fixed    []string       `json:"fixed"`
}

type shard struct {
	Property     string            `json:"property_id"`
	Tier         string            `json:"tier"`
	Seed         int64             `json:"seed"`
	Shard        int               `json:"shard"`
	Level        string            `json:"level"`
	Rule         string            `json:"rule"`
	Assumptions  []string          `json:"assumptions"`
	Evaluations  int               `json:"evaluations"`
	Skipped      int               `json:"skipped"`
	Inconclusive int               `json:"inconclusive"`
	Excluded     int               `json:"excluded_known"`
	ExcludedSigs map[string]int    `json:"excluded_known_by_sig"`
	NonTrivial   []uint64          `json:"nontrivial_hashes"`
	Distinct     int               `json:"distinct_cases"`
	Labels       map[string]int    `json:"labels"`
	Samples      []json.RawMessage `json:"samples"`
	Replayed     int               `json:"replayed"`
	Violations   []string          `json:"violations"`
	Known        []string          `json:"known_findings_reproduced"`
	RapidPassed  []string          `json:"rapid"`
	Exhaustive   bool              `json:"exhaustive"`
	Extra        map[string]any    `json:"extra,omitempty"`
	WallS        float64           `json:"wall_s"`
}

type runner[C any] struct {
	spec  Spec[C]
	t     *testing.T
	mu    sync.Mutex
	sh    shard
	nt    map[uint64]struct{}
	all   map[uint64]struct{}
	known map[string]knownFinding // sig -> finding
	local map[string]bool         // sigs already reported in this run
	last  *failed[C]
	nsamp int
	root  string
}

type failed[C any] struct {
	c C
	f Failure
}

// Root returns /verif (VERIF_ROOT overrides).
func Root() string {
	if r := os.Getenv("VERIF_ROOT"); r != "" {
		return r
	}
	return "/verif"
}

// Tier returns quick or thorough.
func Tier() string {
	if os.Getenv("VERIF_TIER") == "thorough" {
		return "thorough"
	}
	return "quick"
}

// Seed returns VERIF_SEED (default 1).
func Seed() int64 {
	s, err := strconv.ParseInt(os.Getenv("VERIF_SEED"), 10, 64)
	if err != nil {
		return 1
	}
	return s
}

// ShardIndex returns VERIF_SHARD (default 0).
func ShardIndex() int {
	s, _ := strconv.Atoi(os.Getenv("VERIF_SHARD"))
	return s
}

// Shards returns VERIF_SHARDS (default 1).
func Shards() int {
	s, _ := strconv.Atoi(os.Getenv("VERIF_SHARDS"))
	if s < 1 {
		s = 1
	}
	return s
}

func splitmix(x uint64) uint64 {
	x += 0x9e3779b97f4a7c15
	z := x
	z = (z ^ (z >> 30)) * 0xbf58476d1ce4e5b9
	z = (z ^ (z >> 27)) * 0x94d049bb133111eb
	return z ^ (z >> 31)
}

// DerivedSeed is the rapid seed of this shard and round: a pure function of
// VERIF_SEED, the shard index and the round; never 0 (rapid treats 0 as
// "random").
func DerivedSeed(round int) uint64 {
	s := splitmix(uint64(Seed())*1000003 + uint64(ShardIndex())*7919 + uint64(round))
	if s == 0 {
		s = 0x5eed5eed5eed5eed
	}
	return s
}

// Hash64 hashes a string to 64 bits.
func Hash64(s string) uint64 {
	h := sha256.Sum256([]byte(s))
	return binary.LittleEndian.Uint64(h[:8])
}

type captureTB struct {
	t      *testing.T
	failed bool
	msgs   []string
}

type failNow struct{}

func (c *captureTB) Helper()      {}
func (c *captureTB) Name() string { return c.t.Name() }
func (c *captureTB) Logf(format string, args ...any) {
	c.msgs = append(c.msgs, fmt.Sprintf(format, args...))
}
func (c *captureTB) Log(args ...any)                   { c.msgs = append(c.msgs, fmt.Sprint(args...)) }
func (c *captureTB) Skipf(format string, args ...any)  { panic("skip outside property") }
func (c *captureTB) Skip(args ...any)                  { panic("skip outside property") }
func (c *captureTB) SkipNow()                          { panic("skip outside property") }
func (c *captureTB) Errorf(format string, args ...any) { c.failed = true; c.Logf(format, args...) }
func (c *captureTB) Error(args ...any)                 { c.failed = true; c.Log(args...) }
func (c *captureTB) Fatalf(format string, args ...any) {
	c.failed = true
	c.Logf(format, args...)
	panic(failNow{})
}
func (c *captureTB) Fatal(args ...any) { c.failed = true; c.Log(args...); panic(failNow{}) }
func (c *captureTB) FailNow()          { c.failed = true; panic(failNow{}) }
func (c *captureTB) Fail()             { c.failed = true }
func (c *captureTB) Failed() bool      { return c.failed }

// Run executes the check described by spec: committed replays and known
// findings first, then the fixed cases, then the rapid search. It prints
// VIOLATION / KNOWN-FINDING lines on stdout, writes the evidence shard, and
// fails the test iff a violation not listed in known_findings.json was found.
func Run[C any](t *testing.T, spec Spec[C]) {
	start := time.Now()
	r := &runner[C]{spec: spec, t: t, nt: map[uint64]struct{}{}, all: map[uint64]struct{}{},
		known: map[string]knownFinding{}, local: map[string]bool{}, root: Root()}
	r.sh = shard{Property: spec.ID, Tier: Tier(), Seed: Seed(), Shard: ShardIndex(), Level: spec.Level,
		Rule: spec.Rule, Assumptions: spec.Assumptions, Labels: map[string]int{}, ExcludedSigs: map[string]int{},
		Exhaustive: spec.Exhaustive && spec.Gen == nil}
	if r.sh.Level == "" {
		r.sh.Level = "exploration"
	}
	defer func() {
		r.sh.WallS = time.Since(start).Seconds()
		if spec.Extra != nil {
			r.sh.Extra = spec.Extra()
		}
		r.writeShard()
	}()

	r.loadKnown()

	if rp := os.Getenv("VERIF_REPLAY"); rp != "" {
		r.replayOne(rp, false)
		return
	}

	// 1. known findings (print KNOWN-FINDING if they still reproduce) and
	// committed replays (regression tier). Only shard 0 does this.
	if ShardIndex() == 0 {
		for _, k := range r.sortedKnown() {
			if k.Replay != "" {
				r.replayKnown(k)
			}
		}
		files, _ := filepath.Glob(filepath.Join(r.root, "replays", spec.ID+"-*.json"))
		sort.Strings(files)
		for _, f := range files {
			isKnown := false
			for _, k := range r.known {
				if k.Replay != "" && filepath.Join(r.root, k.Replay) == f {
					isKnown = true
				}
			}
			if !isKnown {
				r.replayOne(f, true)
			}
		}
	}

	// 2. fixed cases
	// (distributed round-robin over the shards)
	if spec.Fixed != nil {
		for i, c := range spec.Fixed() {
			if i%Shards() != ShardIndex() {
				continue
			}
			if f := r.eval(c, true); f != nil {
				r.report(c, *f)
			}
		}
	}

	// 3. rapid search; after a violation, its signature is suppressed for
	// the rest of the run and the search continues with a new derived seed.
	if spec.Gen != nil {
		n := spec.Quick
		if Tier() == "thorough" {
			n = spec.Thorough
		}
		if v, err := strconv.Atoi(os.Getenv("VERIF_CHECKS")); err == nil && v > 0 {
			n = v
		}
		rounds := spec.MaxRounds
		if rounds <= 0 {
			rounds = 4
		}
		for round := 0; round < rounds && n > 0; round++ {
			if !r.search(round, n) {
				break
			}
		}
	}
}

// search runs one rapid.Check; it returns true when a violation was found (so
// another round is worthwhile).
func (r *runner[C]) search(round, n int) bool {
	_ = os.RemoveAll("testdata/rapid")
	setRapidFlags(n, DerivedSeed(round))
	r.last = nil
	tb := &captureTB{t: r.t}
	func() {
		defer func() {
			if p := recover(); p != nil {
				if _, ok := p.(failNow); !ok {
					panic(p)
				}
			}
		}()
		rapid.Check(tb, func(rt *rapid.T) {
			c := r.spec.Gen(rt)
			if f := r.eval(c, true); f != nil {
				r.mu.Lock()
				r.last = &failed[C]{c: c, f: *f}
				r.mu.Unlock()
				rt.Fatalf("violation sig=%s observed=%s expected=%s", f.Sig, clip(f.Observed, 300), clip(f.Expected, 300))
			}
		})
	}()
	_ = os.RemoveAll("testdata/rapid")
	summary := ""
	for _, m := range tb.msgs {
		if strings.HasPrefix(m, "[rapid]") {
			summary = strings.SplitN(m, "\n", 2)[0]
			break
		}
	}
	r.sh.RapidPassed = append(r.sh.RapidPassed, fmt.Sprintf("round %d seed %d: %s", round, DerivedSeed(round), clip(summary, 200)))
	if !tb.failed {
		return false
	}
	if r.last == nil {
		// rapid failed for a reason other than the oracle (generator panic,
		// "only generated N valid tests", flaky). That is a harness problem,
		// never a property violation: make it loud, exit 2 via the driver.
		fmt.Printf("HARNESS-ERROR property=%s %s\n", r.spec.ID, strings.Join(tb.msgs, "\n"))
		r.t.Errorf("harness error: %s", strings.Join(tb.msgs, "\n"))
		return false
	}
	r.report(r.last.c, r.last.f)
	return true
}

func clip(s string, n int) string {
	if len(s) > n {
		return s[:n] + "…"
	}
	return s
}

// eval runs the oracle on one case and does the bookkeeping. It returns the
// failure to act on, or nil (held, skipped, known finding, or already reported
// in this run).
func (r *runner[C]) eval(c C, count bool) (fail *Failure) {
	var out Outcome
	func() {
		defer func() {
			if p := recover(); p != nil {
				// A Go panic escaping the oracle is reported as a failure of
				// the case with the panic as its signature: either ego
				// panicked (a finding for most properties) or the harness is
				// wrong; both must be looked at, neither may pass silently.
				out = Outcome{Fail: &Failure{Sig: "panic:" + panicSite(string(debug.Stack())), Observed: fmt.Sprintf("panic: %v\n%s", p, clip(string(debug.Stack()), 4000)), Expected: "no panic"}}
			}
		}()
		out = r.spec.Oracle(c)
	}()
	raw, _ := json.Marshal(c)
	key := out.Key
	if key == "" {
		key = string(raw)
	}
	h := Hash64(key)
	r.mu.Lock()
	defer r.mu.Unlock()
	if out.Skip != "" {
		r.sh.Skipped++
		r.sh.Labels["skip:"+out.Skip]++
		return nil
	}
	if count {
		r.sh.Evaluations++
		r.all[h] = struct{}{}
		if out.Inconclusive != "" {
			r.sh.Inconclusive++
			r.sh.Labels["inconclusive:"+out.Inconclusive]++
		}
		if out.NonTrivial {
			r.nt[h] = struct{}{}
		}
		for _, l := range out.Labels {
			r.sh.Labels[l]++
		}
		// samples: the first 3, then every case whose hash falls in a thin
		// slice of hash space (seed-independent reservoir), up to 8.
		if len(r.sh.Samples) < 3 || (len(r.sh.Samples) < 8 && h%97 == 0) {
			if len(raw) < 6000 {
				r.sh.Samples = append(r.sh.Samples, raw)
			}
		}
	}
	if out.Fail == nil {
		return nil
	}
	if k, ok := r.known[out.Fail.Sig]; ok {
		_ = k
		r.sh.Excluded++
		r.sh.ExcludedSigs[out.Fail.Sig]++
		return nil
	}
	if r.local[out.Fail.Sig] {
		return nil
	}
	return out.Fail
}

func panicSite(stack string) string {
	// first frame inside github.com/tucats/ego/ after the panic line
	lines := strings.Split(stack, "\n")
	seenPanic := false
	for _, l := range lines {
		if strings.HasPrefix(l, "panic(") {
			seenPanic = true
			continue
		}
		if seenPanic && strings.HasPrefix(l, "github.com/tucats/ego/") {
			if i := strings.LastIndex(l, "("); i > 0 {
				l = l[:i]
			}
			return strings.TrimPrefix(l, "github.com/tucats/ego/")
		}
	}
	return "unknown"
}

func (r *runner[C]) report(c C, f Failure) {
	r.mu.Lock()
	r.local[f.Sig] = true
	r.mu.Unlock()
	raw, _ := json.Marshal(c)
	rf := replayFile{Property: r.spec.ID, Sig: f.Sig, Observed: f.Observed, Expected: f.Expected, Case: raw}
	dir := filepath.Join(r.root, "replays", "found")
	_ = os.MkdirAll(dir, 0o755)
	name := fmt.Sprintf("%s-%016x.json", r.spec.ID, Hash64(f.Sig+string(raw)))
	path := filepath.Join(dir, name)
	b, _ := json.MarshalIndent(rf, "", " ")
	_ = os.WriteFile(path, b, 0o644)
	fmt.Printf("VIOLATION property=%s replay=%s\n", r.spec.ID, path)
	fmt.Printf("  sig=%s\n  observed=%s\n  expected=%s\n  case=%s\n", f.Sig, clip(f.Observed, 1500), clip(f.Expected, 1500), clip(string(raw), 3000))
	r.sh.Violations = append(r.sh.Violations, f.Sig)
	r.t.Errorf("violation of %s: sig=%s", r.spec.ID, f.Sig)
}

func (r *runner[C]) loadKnown() {
	p := os.Getenv("VERIF_KNOWN")
	if p == "" {
		p = filepath.Join(r.root, "known_findings.json")
	}
	b, err := os.ReadFile(p)
	if err != nil {
		return
	}
	var kf knownFile
	if err := json.Unmarshal(b, &kf); err != nil {
		r.t.Fatalf("known_findings.json: %v", err)
	}
	for _, k := range kf.Findings {
		if k.Property == r.spec.ID {
			r.known[k.Sig] = k
		}
	}
}

func (r *runner[C]) sortedKnown() []knownFinding {
	var ks []knownFinding
	for _, k := range r.known {
		ks = append(ks, k)
	}
	sort.Slice(ks, func(i, j int) bool { return ks[i].Sig < ks[j].Sig })
	return ks
}

func (r *runner[C]) loadReplay(path string) (C, replayFile, error) {
	var c C
	var rf replayFile
	b, err := os.ReadFile(path)
	if err != nil {
		return c, rf, err
	}
	if err := json.Unmarshal(b, &rf); err != nil {
		return c, rf, err
	}
	if err := json.Unmarshal(rf.Case, &c); err != nil {
		return c, rf, err
	}
	return c, rf, nil
}

// replayKnown re-runs a known finding's recorded case; when it still fails
// with the recorded signature the KNOWN-FINDING line is printed.
func (r *runner[C]) replayKnown(k knownFinding) {
	c, _, err := r.loadReplay(filepath.Join(r.root, k.Replay))
	if err != nil {
		fmt.Printf("HARNESS-ERROR property=%s cannot load known-finding replay %s: %v\n", r.spec.ID, k.Replay, err)
		r.t.Errorf("cannot load %s: %v", k.Replay, err)
		return
	}
	before := r.sh.Excluded
	f := r.eval(c, true)
	r.sh.Replayed++
	if f != nil {
		// fails, but with a different signature than the one listed
		r.report(c, *f)
		return
	}
	if r.sh.Excluded > before {
		line := fmt.Sprintf("KNOWN-FINDING: property=%s %s", r.spec.ID, k.What)
		fmt.Println(line)
		r.sh.Known = append(r.sh.Known, k.Sig)
	}
}

func (r *runner[C]) replayOne(path string, regression bool) {
	c, _, err := r.loadReplay(path)
	if err != nil {
		fmt.Printf("HARNESS-ERROR property=%s cannot load replay %s: %v\n", r.spec.ID, path, err)
		r.t.Errorf("cannot load %s: %v", path, err)
		return
	}
	r.sh.Replayed++
	if f := r.eval(c, true); f != nil {
		r.report(c, *f)
	}
}

func (r *runner[C]) writeShard() {
	r.sh.NonTrivial = r.sh.NonTrivial[:0]
	for h := range r.nt {
		r.sh.NonTrivial = append(r.sh.NonTrivial, h)
	}
	sort.Slice(r.sh.NonTrivial, func(i, j int) bool { return r.sh.NonTrivial[i] < r.sh.NonTrivial[j] })
	r.sh.Distinct = len(r.all)
	dir := os.Getenv("VERIF_SHARD_DIR")
	if dir == "" {
		dir = filepath.Join(r.root, "evidence", ".shards")
	}
	_ = os.MkdirAll(dir, 0o755)
	b, _ := json.Marshal(r.sh)
	p := filepath.Join(dir, fmt.Sprintf("%s-%d.json", r.spec.ID, ShardIndex()))
	if err := os.WriteFile(p, b, 0o644); err != nil {
		r.t.Errorf("write shard: %v", err)
	}
}
