package vkit

import (
	"flag"
	"fmt"
)

// setRapidFlags pins rapid's package-level settings for the next rapid.Check:
// case count, PRNG seed (never 0), no fail files (vkit writes its own replay
// files), bounded shrinking.
func setRapidFlags(checks int, seed uint64) {
	must(flag.Set("rapid.checks", fmt.Sprint(checks)))
	must(flag.Set("rapid.seed", fmt.Sprint(seed)))
	must(flag.Set("rapid.nofailfile", "true"))
	must(flag.Set("rapid.shrinktime", "20s"))
}

func must(err error) {
	if err != nil {
		panic(err)
	}
}
